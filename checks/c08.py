"""C08 — FLV output is valid FLV and carries the source frames faithfully.
Frame lists through flv.NewMuxer + flv.Writer (straight, and as a client joining at media
tag k sees them), compared byte for byte with the extracted Gallina model; the proved oracle
(independent FLV/AMF0 reader + faithfulness checks) is applied to the implementation's bytes."""
import base64, os, re, struct, sys
import vlib
sys.path.insert(0, os.path.dirname(os.path.abspath(__file__)))
import c15

MS = 1000000
DATE0 = b"0" * 20
DATE_RE = re.compile("(6372656174696f6e64617465020014)[0-9a-f]{40}")

def project(s):
    # the creation date is wall clock: compare modulo its 20 bytes (the oracle accepts any string there)
    return DATE_RE.sub(lambda m: m.group(1) + "30" * 20, s)

def f64bits(x):
    return struct.unpack(">Q", struct.pack(">d", float(x)))[0]

HEVC_SETS = [
    ("QAEMAf//BAgAAAMAnQgAAAMAAF2VmAk=", "QgEBBAgAAAMAnQgAAAMAAF2wAoCALRZZWaSTK4BAAAADAEAAAAeC", "RAHBcrRiQA=="),
    ("QAEMAf//AWAAAAMAkAAAAwAAAwBdlZgJ", "QgEBAWAAAAMAkAAAAwAAAwBdoAKAgC0WWVmkkyuAQAAA+kAAF3AC", "RAHA8vA8kA=="),
    ("AAAAAUABDAH//wFgAAADAAADAAADAAADAJasCQ==", "AAAAAUIBAQFgAAADAAADAAADAAADAJagAWggBln3ja5JMmuWMAgAAAMACAAAAwB4QA==", "RAHgdrAmQA=="),
]

def hevc_sets(ck):
    """(vps, sps, pps, derive_ok): the three parameter-set triples of the repository's tests, triples the
    decoder rejects, triples with a set still unknown, and VPS/SPS pairs emitted by the Gallina encoder
    from random field values (C15 generators: sub-layers 0..6, sub-layer profile/level flags, every
    profile_idc incl. Main/Main10/RExt, chroma 4:0:0..4:4:4, bit depths, VUI timing, cropping).
    The expected hvcC general fields and meta data always come from the model, never from the Go parser."""
    def dec(x):
        b = base64.b64decode(x)
        return b[4:] if b.startswith(b"\x00\x00\x00\x01") else b
    sets = [tuple(dec(x) for x in t) + (False,) for t in HEVC_SETS]
    sets.append((b"\x40\x01\x0c", b"\x42\x01\x01", b"\x44\x01", False))
    sets.append((sets[0][0], sets[1][1], b"", False))
    sets.append((b"", sets[1][1], sets[1][2], False))
    sets.append((sets[0][0], b"", sets[0][2], False))
    recs = gen_hevc_records(ck.rng, 120 if ck.thorough else 45)
    out = vlib.run_driver(ck.prop, "C08_hevc_emit", [vlib.vs([c15.rec_val(v), c15.rec_val(s)]) for v, s in recs])
    gen = []
    for (v, s), o in zip(recs, out):
        r = vlib.vparse(o)
        if r and r[2] == 1:
            gen.append((v, s, r[0], r[1]))
    ck.extra["hevc_generated_pairs"] = len(gen)
    for v, s, nv, ns in gen:
        sets.append((nv, ns, bytes([0x44, 0x01]) + bytes(ck.rng.randrange(256) for _ in range(ck.rng.randint(1, 6))), True))
    return sets, gen

def gen_hevc_records(rng, n):
    recs = []
    for i in range(n):
        s = c15.gen_h265(rng)
        v = c15.gen_vps(rng)
        K = c15.K
        # the record holds 3-bit depths; RPS inter prediction is outside the decoder (D30)
        s[K(130)] = rng.choice([0, 0, 2, 4, rng.randint(0, 7)])
        s[K(131)] = rng.choice([0, 0, 2, 4, rng.randint(0, 7)])
        mode = i % 4
        if mode in (0, 1):
            # a coherent stream: the VPS repeats the SPS's sub-layer count and profile_tier_level
            ms = rng.randint(1, 6) if mode == 0 else s[K(105)]
            for r in (s, v):
                for k in list(r):
                    if 110 <= k // 65536 <= 119 or k // 65536 in (133, 134, 135, 136):
                        del r[k]
            s[K(105)] = ms
            v[K(105)] = ms
            v[K(106)] = 1 if ms == 0 else v.get(K(106), 1)
            c15.gen_ptl(rng, s, ms)
            s[K(112, 0)] = rng.choice([1, 2, 4, 4, 3, 9])            # Main, Main10, RExt, ...
            for k in list(s):
                if 110 <= k // 65536 <= 119:
                    v[k] = s[k]
            c15.gen_slo(rng, s, ms)
            c15.gen_slo(rng, v, ms)
            # hrd loops depend on the sub-layer count: drop timing/hrd so the records stay well-formed
            for r in (s, v):
                for k in list(r):
                    if 220 <= k // 65536 <= 244 or k // 65536 in (201, 202, 203, 204, 205, 206, 266, 267, 268, 269, 270, 271, 272, 273):
                        del r[k]
            if rng.random() < 0.7:
                s[K(175)] = 1
                s[K(201)] = 1
                s[K(202)] = rng.choice([1, 1001, 1000])
                s[K(203)] = rng.choice([25, 30000, 60000, 24000])
        recs.append((v, s))
    return recs

def gen_cfg(rng, hs, malformed=False):
    hevc = rng.random() < 0.35
    derive = False
    if hevc:
        vps, sps, pps, dok = rng.choice(hs)
        hv = b""
        derive = dok and rng.random() < 0.6
    else:
        n = rng.choice([4, 4, 5, 9, 16, 30, 60])
        if malformed and rng.random() < 0.5:
            n = rng.choice([0, 1, 2, 3])
        sps = bytes([0x67] + [rng.randrange(256) for _ in range(n)])[:n]
        pps = bytes([0x68] + [rng.randrange(256) for _ in range(rng.choice([0, 1, 3, 4, 8]))])
        if rng.random() < 0.05:
            pps = b""
        vps, hv = b"", b""
    aac = rng.random() < 0.55
    asc = bytes(rng.randrange(256) for _ in range(rng.choice([2, 2, 2, 4, 5]))) if aac else b""
    return [hevc, sps, pps, vps, hv,
            rng.choice([0, 352, 640, 1280, 1920, 3840, rng.randrange(1 << 16), rng.randrange(1 << 40)]),
            rng.choice([0, 288, 480, 720, 1080, 2160, rng.randrange(1 << 16)]),
            f64bits(rng.choice([0, 15, 25, 30, 29.97, 23.976, 60, rng.random() * 120])),
            f64bits(rng.choice([0, 512, 2048.5, rng.random() * 10000])),
            aac, asc,
            rng.choice([5512, 11025, 22050, 44100, 48000, 8000, 16000, 0]) if aac else 0,
            rng.choice([8, 16, 16, 0, 24]) if aac else 0,
            rng.choice([0, 1, 2, 2, 6]) if aac else 0,
            f64bits(rng.choice([0, 64, 128, 96.5])) if aac else 0,
            DATE0, derive]

def ns_of(rng, ms):
    # a ns value whose Go-truncated ms is `ms`
    sub = rng.randrange(MS) if rng.random() < 0.6 else 0
    return ms * MS + sub if ms > 0 else (ms * MS - sub if ms < 0 else rng.choice([0, sub, -sub]))

def payload(rng, hevc, size):
    if size <= 0:
        return b""
    if hevc:
        t = rng.choice([1, 0, 9, 15, 16, 19, 20, 21, 22, 32, 33, 34, 39, rng.randrange(64)])
        b0 = (t << 1) | rng.randrange(2) | (rng.randrange(2) << 7)
    else:
        t = rng.choice([1, 1, 5, 5, 6, 7, 8, 9, 4, 21, rng.randrange(32)])
        b0 = t | (rng.randrange(4) << 5) | (rng.randrange(2) << 7)
    if size > 4096:
        blk = bytes(rng.randrange(256) for _ in range(251))
        body = (blk * (size // 251 + 1))[:size - 1]
    else:
        body = bytes(rng.randrange(256) for _ in range(size - 1))
    return bytes([b0]) + body

def gen_frames(rng, hevc, nmax, big_ok, malformed=False):
    n = rng.choice([0, 1, 2, 3]) if rng.random() < 0.15 else rng.randint(2, nmax)
    W = 1 << 32
    base = rng.choice([0, 0, 1, 5, 40, 1000, 86400000, (1 << 31) - 50, (1 << 31) + 7, W - 200, W - 1, W, W + 3,
                       2 * W - 100, 3 * W + (1 << 31) - 20, -1, -45, -1000, rng.randrange(W), rng.randrange(1 << 40)])
    t = base
    frames = []
    bigs = 0
    for i in range(n):
        k = rng.random()
        if k < 0.62:
            t += rng.choice([0, 1, 33, 40, 40, 40, 66, 100, 300])
            if rng.random() < 0.04:   # long gaps: TimestampExtended byte, elapsed beyond 2^32
                t += rng.choice([(1 << 24) - 1, 1 << 24, 1 << 30, (1 << 31) - 1000, 0xfffffe])
            dts = t
            pts = dts + rng.choice([0, 0, 0, 40, 80, 120, -1, -30, -40, 5000, 8388607, -8388608])
            sz = rng.choice([1, 1, 2, 3, 5, 17, 64, 200, 900, 1500])
            if big_ok and bigs == 0 and rng.random() < 0.04:
                sz = rng.choice([65535, 65536, 65537, 66000, 70001])
                bigs += 1
            if malformed and rng.random() < 0.15:
                sz = 0
            frames.append([0, ns_of(rng, dts), ns_of(rng, pts), payload(rng, hevc, sz)])
        elif k < 0.93:
            a = t + rng.choice([0, 0, 10, 23, -10, -23, -60, -100, 64, -1])
            v = ns_of(rng, a)
            frames.append([1, v, v, bytes(rng.randrange(256) for _ in range(rng.choice([0, 1, 7, 90, 371])))])
        else:
            frames.append([rng.choice([2, 3, -1, 4]), ns_of(rng, t), ns_of(rng, t), b"\x01\x02"])
    return frames

def emitting(cfg, frames):
    out = []
    for f in frames:
        if f[0] == 0 and len(f[3]) == 0:
            break
        if f[0] == 0 or (f[0] == 1 and cfg[9]):
            out.append(f)
    return out

def go_ms(ns):
    return abs(ns) // MS * (1 if ns >= 0 else -1)

def gen_case(rng, hs, nmax, big_ok, malformed=False):
    cfg = gen_cfg(rng, hs, malformed)
    frames = gen_frames(rng, cfg[0], nmax, big_ok, malformed)
    live = emitting(cfg, frames)
    if rng.random() < 0.5 or not live:
        return [cfg, frames, 0, 0, 0]
    k = rng.randrange(len(live) + 1) if rng.random() < 0.8 else 0
    at = go_ms(live[min(k, len(live) - 1)][1]) % (1 << 32)
    t0 = rng.choice([at, at, 0, rng.randrange(1 << 32), (1 << 32) - 1])
    return [cfg, frames, k, t0, 1]

def nontrivial(c):
    return len(emitting(c[0], c[1])) - c[2] >= 3

H264_CFG = [False, bytes([0x67, 0x42, 0xc0, 0x1e, 0xd9]), bytes([0x68, 0xce, 0x3c, 0x80]), b"", b"",
            640, 480, f64bits(25), f64bits(512), True, bytes([0x12, 0x10]), 44100, 16, 2, f64bits(64), DATE0, False]

def d17_cases():
    """a client joins at a key frame; the next audio tag is slightly older (probe-confirmed D17:
    the unrepaired writer shows it at 4294967286 ms)"""
    key = bytes([0x65, 1, 2, 3])
    p = bytes([0x41, 9])
    out = []
    for base in (1000, (1 << 32) + 5, (1 << 32) - 3, 5, 0):
        fr = [[0, base * MS, base * MS, key], [1, (base - 10) * MS, (base - 10) * MS, b"\x21\x10"],
              [0, (base + 40) * MS, (base + 40) * MS, p], [1, (base + 13) * MS, (base + 13) * MS, b"\x21\x11"]]
        out.append([H264_CFG, fr, 0, base % (1 << 32), 1])
        out.append([H264_CFG, fr, 0, 0, 0])
    return out

def gen_fan(rng, hs):
    """several clients of one stream: the same tag objects go to the GOP cache and to every attached
    client's queue; clients attach at different points (served from the cache) and their routines run
    in an order chosen by the case"""
    while True:
        cfg = gen_cfg(rng, hs)
        known = (len(cfg[3]) > 0 and len(cfg[1]) > 0 and len(cfg[2]) > 0) if cfg[0] \
            else (len(cfg[1]) >= 4 and len(cfg[2]) > 0)
        if known:
            break
    hevc = cfg[0]
    t = rng.choice([5000, 1000, 86400000, (1 << 32) - 300, (1 << 31) - 100, rng.randrange(1, 1 << 33)])
    frames = []
    for i in range(rng.randint(6, 22)):
        r = rng.random()
        if r < 0.7:
            t += rng.choice([33, 40, 40, 66])
            key = rng.random() < 0.3 or i == 0
            b0 = ((19 if key else 1) << 1) if hevc else (0x65 if key else 0x41)
            frames.append([0, t * MS, (t + rng.choice([0, 0, 40])) * MS, bytes([b0, rng.randrange(256), i])])
        else:
            a = t + rng.choice([0, -10, 15, -23])
            frames.append([1, a * MS, a * MS, bytes([0x21, i])])
    ntags = (3 if cfg[9] else 2) + sum(1 for f in frames if f[0] == 0 or cfg[9])
    nclients = rng.choice([2, 2, 3, 4])
    attach_at = sorted(rng.randrange(0, ntags) for _ in range(nclients))
    if rng.random() < 0.5:
        attach_at[0] = 0
    events, attached = [], 0
    for i in range(ntags):
        while attached < nclients and attach_at[attached] <= i:
            events.append([1]); attached += 1
        events.append([0, i])
        for _ in range(rng.choice([0, 1, 1, 2, 3])):
            if attached:
                events.append([2, rng.randrange(attached), rng.choice([1, 1, 2, 3, 5])])
    while attached < nclients:
        events.append([1]); attached += 1
    return [cfg, frames, events]

def run(ck):
    if not ck.prepare():
        return ck.finish(rule="build failed")
    rng = ck.rng
    hs, hgen = hevc_sets(ck)
    n = 4000 if ck.thorough else 420
    nmax = 60 if ck.thorough else 24
    cases = d17_cases() + [gen_case(rng, hs, nmax, True) for _ in range(n)]
    ck.stream("mux", cases, "C08_run", "C08", "C08_ok", nontrivial=nontrivial, project=project,
              sig=lambda c, e, o: "flv-stream", timeout=1500)
    bad = [gen_case(rng, hs, 10, False, malformed=True) for _ in range(n // 6)]
    ck.stream("malformed", bad, "C08_run", "C08", "C08_ok", project=project,
              nontrivial=lambda c: True, sig=lambda c, e, o: "flv-stream-malformed", sample=2)
    # the HEVC decoder configuration record against the field values the parameter sets were emitted from
    hv = [[c15.rec_val(v), c15.rec_val(s), nv, ns, b"\x44\x01\xc0"] for v, s, nv, ns in hgen]
    ck.stream("hvcc", hv, "C08_hvcc_run", "hvcc5", "C08_hvcc_ok", nontrivial=lambda c: True,
              sig=lambda c, e, o: "hevc-config-record", sample=2)
    if len(hgen) < 20:
        ck.fail("hvcc", "generator", "", note="only %d well-ranged H.265 VPS/SPS pairs generated" % len(hgen))
    fans = [gen_fan(rng, hs) for _ in range(1500 if ck.thorough else 250)]
    ck.stream("fanout", fans, "C08_fan_run", "C08fan", "C08_fan_ok", project=project,
              nontrivial=lambda c: sum(1 for e in c[2] if e[0] == 1) >= 2 and sum(1 for e in c[2] if e[0] == 2) >= 3,
              sig=lambda c, e, o: "flv-shared-tags", sample=2)
    # the oracle must reject the unrepaired arithmetic on the D17 witnesses
    wit = [vlib.vs(c) for c in d17_cases() if c[4] == 1]
    try:
        old = vlib.run_driver(ck.prop, "C08_run_old", wit)
        oks = vlib.run_driver(ck.prop, "C08_ok", ["(%s %s)" % (c, o) for c, o in zip(wit, old)])
        for c, k in zip(wit, oks):
            ck.count(1, "d17" + c[:40])
            if k != "0":
                ck.fail("oracle-sensitivity", "oracle-accepts-wrapped-timestamp", c, note="oracle accepted the pre-fix bytes")
    except vlib.Broken as b:
        ck.broken.append(b)
    # float64(int) and the AMF0 encoder against Go directly
    ints = [0, 1, -1, 2, 3, 7, 10, 12, 16, 255, 44100, 48000, (1 << 53) - 1, -(1 << 53) + 1, 1 << 52, (1 << 52) + 1]
    ints += [rng.randrange(-(1 << 53) + 1, 1 << 53) for _ in range(300)] + [rng.randrange(-5000, 5000) for _ in range(300)]
    ck.stream("f64", ints, "C08_f64", "f64", "C08_f64_ok", nontrivial=lambda c: c not in (0, 1),
              sig=lambda c, e, o: "float64-of-int", sample=2)
    amfs = []
    for _ in range(300 if not ck.thorough else 2000):
        props = []
        for _ in range(rng.randrange(0, 9)):
            name = bytes(rng.randrange(97, 123) for _ in range(rng.choice([0, 1, 5, 12, 300])))
            kind = rng.randrange(3)
            if kind == 0:
                val = f64bits(rng.choice([0.0, -0.0, 1.5, 1e300, -7.25, rng.random(), float(rng.randrange(1 << 40))]))
            elif kind == 1:
                val = rng.random() < 0.5
            else:
                ln = rng.choice([0, 1, 20, 255, 256, 65535, 65536, 65600]) if rng.random() < 0.2 else rng.randrange(40)
                val = bytes(rng.randrange(256) for _ in range(min(ln, 300))) * (ln // 300 + 1)
                val = val[:ln]
            props.append([name, kind, val])
        amfs.append([bytes(rng.randrange(32, 127) for _ in range(rng.choice([0, 10, 10, 33]))), props])
    ck.stream("amf0", amfs, "C08_amf", "amf", "C08_amf_ok", nontrivial=lambda c: len(c[1]) >= 2,
              sig=lambda c, e, o: "amf0-script", sample=2)
    return ck.finish(
        rule="random stream configurations (H.264 with random SPS/PPS, H.265 with real and rejected VPS/SPS/PPS, with/without AAC) "
             "and frame lists (video/audio/ignored kinds, NAL types biased to IDR/IRAP and parameter sets, sizes 1 B..70 KB, "
             "H.265 VPS/SPS pairs emitted by the Gallina encoder from random field values (sub-layers 0..6, sub-layer profile/level "
             "flags, Main/Main10/RExt and other profile_idc, 4:0:0..4:4:4, bit depths 8..15, cropping, VUI timing; coherent and "
             "deliberately differing VPS/SPS profile_tier_level), meta data taken from the case or derived from the SPS by "
             "hevc/h264.MetadataIsReady; stream hvcc: the 21 general bytes of HEVCDecoderConfigurationRecord against hvcc_spec of the field values; "
             "time bases around 0, negative, 2^31 and k*2^32 ms, PTS<DTS and +-2^23 composition offsets, audio up to 100 ms older "
             "than the preceding video) pushed through flv.NewMuxer into flv.Writer, either straight or as a client joining at a "
             "random media tag with restamped configuration tags; full byte stream compared with the extracted model modulo the "
             "20-byte wall-clock creation date; oracle = independent FLV/AMF0 reader + faithfulness checks on the implementation's "
             "bytes; a separate malformed stream (empty payloads, SPS shorter than 4 bytes / missing PPS or VPS: frames dropped, nothing written); D17 witnesses; float64(int) and AMF0 "
             "script data against Go directly. non-trivial = at least three media tags reach the client",
        trusted=["H.265/H.264 parameter-set syntax: the C15 descriptions (std_h265_vps/sps, go_h265_vps/sps, std_h264_sps) and their "
                 "proved emit/parse round trips and refinement; the expected hvcC general fields and meta data are computed from "
                 "the field values by the model, never by the Go parser",
                 "the muxer goroutine is observed to quiescence through the verifhook schedule point worker.pop (id 2) / its panic log line",
                 "creation date string: any string accepted (wall clock)"],
        assumptions=["NAL payload < 2^24-9 bytes (FLV DataSize is 24 bits)", "SPS/PPS/VPS < 65536 bytes; H.264 SPS >= 4 bytes",
                     "|decode time - client's first media tag| < 2^31 ms (24.8 days) for the rebased timestamp to be exact",
                     "|PTS-DTS| < 2^23 ms for the composition offset", "AAC frames carry Pts = Dts",
                     "integer metadata |n| < 2^53",
                     "hvcC: bit_depth_minus8 <= 7 (3-bit fields of the record), at most 7 temporal layers; SPS without inter-RPS prediction (D30, C15)"])
