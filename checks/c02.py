"""C02 — late joiners start with parameter sets and the current GOP, contiguous with live."""
import os, sys
sys.path.insert(0, os.path.dirname(__file__))
import ltsgen as G

def frames(rng, n, flv=False):
    """packets of a plausible stream: SPS, PPS, then GOPs (key start, video packets, some audio);
    FLV: metadata, video and audio sequence headers, then GOPs"""
    out, i = [], 1
    if flv and rng.random() < 0.8:
        out.append([i, 5]); i += 1
    while len(out) < n:
        if rng.random() < 0.5:
            out += [[i, 3], [i + 1, 4]]; i += 2
        out.append([i, 2]); i += 1
        for _ in range(rng.randint(0, 5)):
            out.append([i, 1 if flv else rng.choice([1, 1, 1, 0])]); i += 1
    return out[:n]

def join_case(rng, pkts, k, gop, racy, flv=False, h265=False):
    m = len(pkts)
    sched = [[G.PUB, 0]] * (3 * k)
    if racy:   # the join races with the publication of packet k: every interleaving of 3 attach steps and 3 publish steps
        mix = [[G.ATT, 0]] * 3 + [[G.PUB, 0]] * 3
        rng.shuffle(mix)
        sched += mix
    sched += [[G.ATT, 0]] * 3 + [[G.PUB, 0]] * (3 * (m - k) + 3)
    sched += [[G.CONS, 0]] * (2 * (m + 6) + 4)
    return [G.FIXED, 1, 1000, gop, pkts, [0], sched, [0], flv, 1, h265]

# ---- byte-level classification (generators after the worker's ad-hoc scripts) ----
def rb(rng, n): return bytes(rng.randrange(256) for _ in range(n))

def nal(rng, codec, t=None, n=None, minbody=0):
    n = (rng.choice([0, 1, 2, 3, 5, 20, 70]) if n is None else n) + minbody
    if codec == 0:
        if t is None: t = rng.choice([1, 5, 7, 8, 6, 9, rng.randrange(1, 24)])
        return bytes([(rng.randrange(4) << 5) | t]) + rb(rng, n)
    if t is None: t = rng.choice([1, 19, 20, 21, 16, 32, 33, 34, 39, rng.randrange(0, 48)])
    return bytes([(t << 1) | rng.randrange(2), rng.randrange(1, 8)]) + rb(rng, n)

def payload(rng, codec):
    k = rng.randrange(10)
    if k < 3: return nal(rng, codec)
    if k < 5:
        hdr = bytes([rng.choice([24, 25, 26, 27]) | 0x60]) if codec == 0 else bytes([48 << 1, 1])
        body = b""
        for _ in range(rng.randrange(1, 4)):
            x = nal(rng, codec)
            body += bytes([len(x) >> 8, len(x) & 255]) + x
        p = hdr + body
        if rng.randrange(4) == 0: p = p[:rng.randrange(len(p) + 1)]
        if rng.randrange(6) == 0: p = p + b"\x00\x00"
        if rng.randrange(6) == 0: p = p + rb(rng, rng.randrange(1, 3))
        return p
    if k < 8:
        x = nal(rng, codec, n=rng.randrange(2, 30))
        s = rng.choice([0x80, 0, 0x40, 0xc0])
        if codec == 0:
            return bytes([(x[0] & 0xe0) | rng.choice([28, 29]), s | (x[0] & 31)]) + x[1:rng.randrange(1, len(x) + 1)]
        return bytes([(x[0] & 0x81) | (49 << 1), x[1], s | ((x[0] >> 1) & 63)]) + x[2:rng.randrange(2, len(x) + 1)]
    if k == 8: return rb(rng, rng.randrange(0, 6))
    return rb(rng, rng.randrange(3, 12))

def rtp_timestamps(rng, n):
    """RTP timestamps are case data (the caches must go by arrival order, never by this field): monotone, wrapping
    2^32-k -> small, decreasing, all equal, random"""
    mode = rng.randrange(5)
    if mode == 0: return [(1000 + 3000 * i) % (1 << 32) for i in range(n)]
    if mode == 1:
        start = (1 << 32) - rng.choice([1, 3000, 9000]) * rng.randrange(1, 4)
        return [(start + 3000 * i) % (1 << 32) for i in range(n)]
    if mode == 2: return [(4000000000 - 3000 * i) % (1 << 32) for i in range(n)]
    if mode == 3: return [rng.randrange(1 << 32)] * n
    return [rng.randrange(1 << 32) for _ in range(n)]

def param_churn(rng, codec):
    """parameter sets whose CONTENT changes over time (SPS-A, PPS-A, GOP, SPS-B, PPS-B, GOP ...): which copy a joiner is
    replayed is visible in the replayed indexes"""
    out = []
    for rnd in range(rng.randrange(2, 5)):
        sets = ([7, 8] if codec == 0 else [32, 33, 34])
        if rng.random() < 0.3: rng.shuffle(sets)
        for t in sets:
            if rng.random() < 0.85: out.append(nal(rng, codec, t=t, n=rng.randrange(2, 9)))
        out.append(nal(rng, codec, t=(5 if codec == 0 else 19), n=4))
        for _ in range(rng.randrange(0, 3)): out.append(nal(rng, codec, t=1, n=4))
    return out

def ccase(rng):
    codec = rng.randrange(2)
    if rng.random() < 0.4:
        pls = [[0, p] for p in param_churn(rng, codec)]
    else:
        pls = [[rng.choice([0, 0, 0, 0, 1, 2, 3]), payload(rng, codec)] for _ in range(rng.randrange(0, 14))]
    tss = rtp_timestamps(rng, len(pls))
    return [codec, rng.randrange(2), [pl + [t] for pl, t in zip(pls, tss)]]

def ftag(rng):
    k = rng.randrange(10)
    ts = rng.choice([0, rng.randrange(1 << 32), rng.randrange(100000)])
    if k == 0: return [18, ts, bytes([2, 0, 10]) + b"onMetaData" + rb(rng, rng.randrange(4))]
    if k == 1: return [rng.choice([18, 18, 9, 8]), ts, rng.choice([bytes([2, 0, 10]) + b"onMetaDat", bytes([2, 0, 9]) + b"onMetaData",
                                                                  bytes([3, 0, 10]) + b"onMetaData", bytes([2, 0, 10]) + b"onMetaDatb", b""])]
    if k < 6:
        d0 = (rng.randrange(16) << 4) | rng.choice([7, 7, 12, 2, rng.randrange(16)])       # frame type and codec id: full nibbles
        return [rng.choice([9, 9, 9, 9, 8, 18]), ts, bytes([d0, rng.choice([0, 1, 1, 2])]) + rb(rng, rng.randrange(4))]
    if k < 9:
        d0 = (rng.choice([10, 10, 2, rng.randrange(16)]) << 4) | rng.randrange(16)
        return [rng.choice([8, 8, 8, 9]), ts, bytes([d0, rng.choice([0, 1])]) + rb(rng, rng.randrange(4))]
    return [rng.choice([8, 9, 18, 0, 31]), ts, rb(rng, rng.randrange(0, 3))]

def flv_churn(rng):
    """metadata / sequence headers whose content changes between GOPs, tag timestamps from rtp_timestamps (not monotone)"""
    tags = []
    for rnd in range(rng.randrange(2, 5)):
        hdrs = [[18, bytes([2, 0, 10]) + b"onMetaData" + rb(rng, 3)], [9, bytes([rng.choice([0x17, 0x1c]), 0]) + rb(rng, 4)],
                [8, bytes([0xaf, 0]) + rb(rng, 2)]]
        if rng.random() < 0.3: rng.shuffle(hdrs)
        tags += [h for h in hdrs if rng.random() < 0.85]
        tags.append([9, bytes([0x17, 1]) + rb(rng, 4)])
        for _ in range(rng.randrange(0, 3)): tags.append([rng.choice([9, 8]), bytes([rng.choice([0x27, 0xaf]), 1]) + rb(rng, 3)])
    tss = rtp_timestamps(rng, len(tags))
    return [[t[0], ts, t[1]] for t, ts in zip(tags, tss)]

def fcase(rng):
    if rng.random() < 0.35: return [rng.randrange(2), flv_churn(rng)]
    return [rng.randrange(2), [ftag(rng) for _ in range(rng.randrange(0, 14))]]

def pform(rng, codec):
    k = rng.randrange(3)
    if k == 0: return [0, nal(rng, codec, minbody=2)]
    if k == 1: return [1, rng.randrange(256), rng.randrange(256), [nal(rng, codec) for _ in range(rng.randrange(1, 5))]]
    x = nal(rng, codec, minbody=1); body = len(x) - (1 if codec == 0 else 2)
    sizes = []
    while body > 0:
        s = rng.randrange(1, body + 1); sizes.append(s); body -= s
    return [2, x, sizes]

# ---- FLV producer: NAL units -> real flv.Muxer/packetizers -> real FlvCache (block added by the C02 proof worker) ----
def prod_unit(rng, hevc, t, size):
    if hevc:
        return bytes([(t << 1) | rng.randrange(2), rng.randrange(1, 8)]) + rb(rng, max(0, size - 2))
    return bytes([(rng.randrange(4) << 5) | t]) + rb(rng, max(0, size - 1))

def prod_case(rng, hevc, aac, types, sizes):
    frames, ms = [], rng.choice([0, 0, 1000, 4294967000])
    for t, n in zip(types, sizes):
        dts = ms * 1000000 + rng.randrange(1000000)
        frames.append([0, dts, dts + rng.choice([0, 0, 40, 80]) * 1000000, prod_unit(rng, hevc, t, n)])
        if aac and rng.random() < 0.4:
            frames.append([1, dts, dts + rng.randrange(20) * 1000000, rb(rng, rng.randrange(1, 9))])
        ms += rng.choice([33, 40, 40, 0])
    return [1 if hevc else 0, 1 if aac else 0, frames]

def producer_stream(ck):
    rng = ck.rng
    cases = []
    for hevc in (False, True):
        key, plain = ((19, 1) if hevc else (5, 1))
        for t in range(64 if hevc else 32):        # every NAL type after an IDR GOP: does the GOP restart there?
            for n in ((1, 2, 30) if ck.thorough else (rng.choice([1, 2, 3]), rng.choice([6, 30, 200]))):
                types = [key, plain, plain, t, plain, plain]
                cases.append(prod_case(rng, hevc, rng.random() < 0.4, types, [12, 9, 9, max(n, 2 if hevc else 1), 9, 9]))
            cases.append(prod_case(rng, hevc, False, [t, plain], [8, 8]))      # the stream starts on that type
    for _ in range(2000 if ck.thorough else 60):   # random frame sequences
        hevc = rng.random() < 0.5
        pool = [16, 17, 18, 19, 20, 21, 21, 1, 1, 1, 0, 9, 22, 15, 32, 33, 34, 39] if hevc else [5, 5, 1, 1, 1, 6, 7, 8, 9, 2]
        k = rng.randrange(1, 14)
        cases.append(prod_case(rng, hevc, rng.random() < 0.5,
                               [rng.choice(pool + [rng.randrange(64 if hevc else 32)]) for _ in range(k)],
                               [rng.choice([2, 3, 5, 40, 300]) for _ in range(k)]))
    ck.stream("flv-producer", cases, "C02_flv_producer", "flv_producer", "C02_flv_producer_ok",
              nontrivial=lambda c: len(c[2]) >= 2, sig=lambda c, e, o: "flv-producer")

# ---- FLV late join next to other viewers that are real flv.Writer consumers (block added by the C02 proof worker) ----
def viewers_case(rng, ntags):
    base = rng.choice([100000, 100000, 3600000, 4294967000, 777, rng.randrange(1 << 32)])   # source clock well away from 0
    tags, ts = [], base
    if rng.random() < 0.9: tags.append([18, 0, bytes([2, 0, 10]) + b"onMetaData" + rb(rng, 3)])
    if rng.random() < 0.9: tags.append([9, 0, bytes([0x17, 0]) + rb(rng, 4)])
    if rng.random() < 0.7: tags.append([8, 0, bytes([0xaf, 0, 0x12, 0x10])])
    while len(tags) < ntags:
        k = rng.random()
        if k < 0.25 or not any(t[0] == 9 and t[2][1] == 1 for t in tags):
            tags.append([9, ts % (1 << 32), bytes([0x17, 1]) + rb(rng, 5)])            # key frame
        elif k < 0.75:
            tags.append([9, ts % (1 << 32), bytes([0x27, 1]) + rb(rng, 4)])            # inter frame
        elif k < 0.95:
            tags.append([8, ts % (1 << 32), bytes([0xaf, 1]) + rb(rng, 3)])            # audio
        else:
            tags.append([9, 0, bytes([0x17, 0]) + rb(rng, 4)])                         # new sequence header
        ts += rng.choice([40, 40, 33, 0, 23])
    tags = tags[:ntags]
    nview = rng.choice([1, 1, 2])
    attach_at = sorted(rng.randrange(0, max(1, ntags // 2)) for _ in range(nview))
    events, attached = [], 0
    for i in range(ntags + 1):
        while attached < nview and attach_at[attached] <= i:
            events.append([1]); attached += 1
        events.append([3])                                                               # the joiner: after every prefix
        if i < ntags:
            events.append([0])
            for _ in range(rng.choice([0, 1, 1, 2])):
                if attached:
                    events.append([2, rng.randrange(attached), rng.choice([1, 2, 3, 8])])
    return [rng.randrange(4) != 0, tags, events]

def viewers_stream(ck):
    rng = ck.rng
    cases = [viewers_case(rng, rng.randrange(4, 16)) for _ in range(1200 if ck.thorough else 90)]
    ck.stream("flv-join-next-to-viewers", cases, "C02_flv_viewers", "flv_viewers", "C02_flv_viewers_ok",
              nontrivial=lambda c: len(c[1]) >= 4 and any(e[0] == 2 for e in c[2]),
              sig=lambda c, e, o: "flv-join-shared-tags")

# ---- join replay longer than the consumer's queue limit (block added by the C02 proof worker) ----
def seam_pkts(rng, flv, h265):
    """[VPS] SPS PPS (FLV: metadata and the two sequence headers), an old GOP, then a GOP longer than the limit,
    sometimes followed by the next key start"""
    i, out = 1, []
    if h265: out.append([i, 5]); i += 1
    if flv and rng.random() < 0.7: out.append([i, 5]); i += 1
    out += [[i, 3], [i + 1, 4]]; i += 2
    if rng.random() < 0.4:
        out.append([i, 2]); i += 1
        for _ in range(rng.randint(0, 2)): out.append([i, 1]); i += 1
    out.append([i, 2]); i += 1
    for _ in range(rng.randint(4, 9)):
        out.append([i, 1 if (flv or rng.random() < 0.85) else 0]); i += 1
    if rng.random() < 0.5:
        out.append([i, 2]); i += 1
        for _ in range(rng.randint(1, 3)): out.append([i, 1]); i += 1
    return out

def seam_case(rng, pkts, k, maxq, drain, flv, h265):
    m = len(pkts)
    sched = [[G.PUB, 0]] * (3 * k) + [[G.ATT, 0]] * 3
    live = m - k
    if drain == 0:      # the consumer never runs while the rest is published
        sched += [[G.PUB, 0]] * (3 * live + 3)
    elif drain == 1:    # it keeps up: drains after every published packet
        for _ in range(live + 1):
            sched += [[G.PUB, 0]] * 3 + [[G.CONS, 0]] * rng.choice([2, 4, 6])
    else:               # it drains the replay first, then falls behind
        sched += [[G.CONS, 0]] * rng.randint(2, 2 * (k + 4)) + [[G.PUB, 0]] * (3 * live + 3)
    if rng.random() < 0.7:
        sched += [[G.CONS, 0]] * (2 * (m + 3))
    return [G.FIXED, 1, maxq, True, pkts, [0], sched, [0], flv, 1, h265]

def seam_stream(ck):
    rng = ck.rng
    cases = []
    for rnd in range(30 if ck.thorough else 1):
        for ci, (flv, h265) in enumerate(((False, False), (True, False), (False, True))):
            pkts = seam_pkts(rng, flv, h265)
            keys = [j for j, p in enumerate(pkts) if p[1] == 2]
            long_key = keys[-2] if len(keys) >= 2 and keys[-1] > len(pkts) - 5 else keys[-1]
            if ck.thorough:
                ks = range(len(pkts) + 1)                       # the joiner attaches after every prefix
            else:                                               # quick: mid-GOP joins of the long GOP (+ one early, one at the end)
                ks = sorted(set([rng.randrange(0, long_key + 1), len(pkts)] +
                                list(range(long_key + 2, min(len(pkts), long_key + 9), 2))))
            for n, k in enumerate(ks):
                cases.append(seam_case(rng, pkts, k, rng.choice([1, 2, 3, 4]), (n + ci + rnd) % 3, flv, h265))
    ck.stream("join-replay-longer-than-limit", cases, "C02_lts", "C02_lts", "C02_seam_ok",
              nontrivial=lambda c: len(c[4]) > c[2] + 3, sig=lambda c, e, o: "join-seam", timeout=1500)

def run(ck):
    if not ck.prepare():
        return ck.finish(rule="build failed")
    rng = ck.rng
    import vlib
    n = 6000 if ck.thorough else 300
    ck.stream("classify-rtp", [ccase(rng) for _ in range(n)], "C02_classify", "classify", "C02_classify_ok",
              nontrivial=lambda c: len(c[2]) >= 3, sig=lambda c, e, o: "classify-rtp")
    ck.stream("classify-flv", [fcase(rng) for _ in range(n)], "C02_classify_flv", "classify_flv", "C02_classify_flv_ok",
              nontrivial=lambda c: len(c[1]) >= 3, sig=lambda c, e, o: "classify-flv")
    # legal packetisations produced by the Gallina packetiser of classify_packetisation
    forms = []
    for _ in range(n):
        c = rng.randrange(2)
        forms.append([c, pform(rng, c)])
    flines = [vlib.vs(f) for f in forms]
    pk = vlib.run_driver("C02", "C02_packetise", flines)
    exp = vlib.run_driver("C02", "C02_expected", flines)
    obs = vlib.run_vh("C02", "classify", pk)
    wf = 0
    for f, fl, e, o in zip(forms, flines, exp, obs):
        ev = vlib.vparse(e)
        if ev[0] != 1:
            continue
        wf += 1
        ck.count(1, "pk" + fl)
        ov = vlib.vparse(o) if not o.startswith("(x21") else None
        if ov is None or ov[0] != ev[1]:
            ck.fail("packetisations", "classify-packetisation", fl, expected=e, observed=o,
                    note="kinds the caches assigned to a legal packetisation differ from classify_packetisation")
        # property-level expectation: a packet that carries the start of an IDR/IRAP picture starts the GOP
        if f[1][0] == 1:
            codec = f[0]
            def is_key(x): return (x[0] & 31) == 5 if codec == 0 else 16 <= ((x[0] >> 1) & 63) <= 21
            def is_par(x): return (x[0] & 31) in (7, 8) if codec == 0 else ((x[0] >> 1) & 63) in (32, 33, 34)
            units = f[1][3]
            if any(is_key(u) for u in units) and any(is_par(u) for u in units) and ov is not None and ov[0] != [2]:
                ck.fail("packetisations", "agg-params-with-idr-not-key", fl, expected="(2)", observed=o,
                        note="aggregation packet carrying parameter sets and an IDR/IRAP unit is stored as a parameter "
                             "set: the GOP cache does not start there")
    ck.extra["packetisations_wellformed"] = wf
    producer_stream(ck)
    viewers_stream(ck)
    seam_stream(ck)
    cases = []
    for _ in range(40 if ck.thorough else 2):
        for flv, h265 in ((False, False), (True, False), (False, True)):
            pkts = frames(rng, rng.randint(3, 22 if not (flv or h265) else 12), flv)
            if h265:
                pkts = [[1000, 5]] + pkts          # a VPS first
            for gop in (True, False):
                for k in range(len(pkts) + 1):
                    cases.append(join_case(rng, pkts, k, gop, False, flv, h265))
                    if rng.random() < 0.5:
                        cases.append(join_case(rng, pkts, min(k, len(pkts) - 1), gop, True, flv, h265))
    ck.stream("join-at-every-prefix", cases, "C02_lts", "C02_lts", "C02_ok",
              nontrivial=lambda c: len(c[4]) >= 4, sig=lambda c, e, o: "lts", timeout=1500)
    return ck.finish(rule="(1) random RTP payloads and sequences of parameter sets whose content changes between GOPs, every packet with an RTP timestamp chosen by the case (monotone, wrapping past 2^32, decreasing, equal, random) (single NAL, STAP/AP incl. truncated and zero-size entries, FU with all S/E bits, garbage, "
                          "non-video channels) and FLV tags (full frame-type/codec nibbles, near-miss onMetaData) through the real "
                          "H264Cache/HevcCache/FlvCache CachePack+PushTo; (2) legal packetisations produced by the Gallina packetiser; "
                          "(2c) FLV tag streams with source timestamps far from 0 published to a real FlvCache while 1-2 earlier viewers (real flv.Writer consumers sharing the tag objects) write some of them; a joiner attaches after every prefix; its replay (index, timestamp, data; read at the join and again at the end) against the cache specification over the published tags, published tags unchanged; "
                          "(3b) joins with the consumer queue limit lowered to 1..4 (media.VerifSetMaxQLen) and a cached GOP longer than that: joiner after every prefix (mid-GOP), then the rest of the GOP live and sometimes the next key start, consumer never running / keeping up / falling behind, H.264, H.265 and FLV, against the seam oracle (replay then the rest of that GOP, not discarding before a key start); "
                          "(2b) NAL units of every type (H.264 0..31, H.265 0..63; after an IDR GOP and as first frame; random sequences, with and without AAC) "
                          "through the real flv.Muxer/packetizers into a real FlvCache: kinds, timestamps and PushTo against the composition C08 packetizer model + FLV cache model; "
                          "(3) frame sequences (SPS/PPS, key starts, video, audio) published through WriteRtpPacket on a real H.264 or H.265 "
                          "media.Stream, and FLV tags through WriteFlvTag to FLV consumers; a recording consumer joins after every prefix length, GOP cache on and off, and "
                          "in every interleaving of the three attach steps with the three publish steps of the next packet")
