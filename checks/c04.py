"""C04 — stalled or failing consumers are isolated; backlog bounded; drops align to GOPs."""
import os, sys
sys.path.insert(0, os.path.dirname(__file__))
import ltsgen as G

def stall_case(rng, maxq, npk, gop_len, stall_from, resume_at, gop=True, h265=False):
    """one fast consumer (0), one that stalls (1); key packet every gop_len packets"""
    pkts = []
    for i in range(npk):
        pkts.append([i + 1, 2 if i % gop_len == 0 else rng.choice([1, 1, 1, 0])])
    sched = [[G.ATT, 0]] * 3 + [[G.ATT, 1]] * 3
    for i in range(npk):
        sched += [[G.PUB, 0]] * 3
        sched += [[G.CONS, 0]] * 2
        if not (stall_from <= i < resume_at):
            sched += [[G.CONS, 1]] * rng.choice([2, 2, 4])
    sched += [[G.CONS, 0], [G.CONS, 1]] * 4
    return [G.FIXED, 2, maxq, gop, pkts, [0, 0], sched, [0, 0], False, 1, h265]

# ---- packets given by their bytes (coq/Model/C04RawPkt.v): (id _ channel payload) -----------------------
# What is not on the video channel (audio, the two RTCP channels) must never count as a key-frame start,
# whatever its first bytes look like: G.711 and other raw-sample audio has arbitrary first bytes, and one
# value in 32 looks like an IDR NAL header.  The id sits in payload[1..4] (the harness reads it back from
# there), so the id's high bytes double as the second and third payload byte (FU headers).
VIDEO, VRTCP, AUDIO, ARTCP = 0, 1, 2, 3

def lookalike(rng, h265):
    """(first payload byte, high 16 bits of the id) that the codec's classifier would take for a key-frame
    start or a parameter set if the packet were video"""
    if not h265:
        r = rng.random()
        if r < 0.45:
            return (rng.randrange(8) << 5) | 5, 0                      # IDR
        if r < 0.65:
            return (rng.randrange(8) << 5) | rng.choice([7, 8]), 0     # SPS / PPS
        if r < 0.85:
            return (rng.randrange(8) << 5) | 28, (0x80 | rng.choice([5, 5, 7, 8])) << 8   # FU-A start of an IDR / SPS / PPS
        return rng.randrange(256), rng.randrange(256) << 8
    r = rng.random()
    if r < 0.45:
        return (rng.randrange(2) << 7) | (rng.randint(16, 21) << 1) | rng.randrange(2), 0   # IRAP
    if r < 0.65:
        return (rng.choice([32, 33, 34]) << 1) | rng.randrange(2), 0                        # VPS / SPS / PPS
    if r < 0.85:
        return (49 << 1) | rng.randrange(2), 0x80 | rng.choice([19, 20, 21, 32, 33])       # FU start of an IRAP / VPS / SPS
    return rng.randrange(256), rng.randrange(65536)

def raw_pkt(rng, n, ch, b0, hi16=0, tail=None):
    pid = (hi16 << 16) | n
    tail = bytes(rng.randrange(256) for _ in range(rng.randint(3, 8))) if tail is None else tail
    pk = [pid, 0, ch, bytes([b0]) + pid.to_bytes(4, "big") + tail]
    if ch in (VRTCP, ARTCP):
        # an RTCP packet has no RTP header: its first bytes are V/P/RC, PT, length, SSRC ... ; the same
        # look-alike byte there (0x85 = a receiver report with five blocks looks like an IDR header)
        pk.append(bytes([b0, hi16 & 0xff if hi16 & 0xff else rng.choice([200, 201, 202])]) +
                  bytes(rng.randrange(256) for _ in range(10)))
    return pk

def rawify(rng, case, p=0.7):
    """replace packets that are not on the video channel (kind 0) by look-alikes given by their bytes, on the
    audio channel or on one of the RTCP channels; now and then G.711 instead of AAC in the SDP"""
    if case[8]:            # FLV tags: no channels
        return case
    case = list(case) + [False] * (13 - len(case))
    h265 = bool(case[10])
    out = []
    for pk in case[4]:
        if pk[1] == 0 and pk[0] < 65536 and rng.random() < p:
            b0, hi = lookalike(rng, h265)
            out.append(raw_pkt(rng, pk[0], rng.choice([AUDIO, AUDIO, AUDIO, VRTCP, ARTCP]), b0, hi))
        else:
            out.append(pk)
    case[4] = out
    case[12] = rng.random() < 0.5
    return case

def lookalike_script(rng, h265, ch, maxq, gop_len):
    """A consumer stalls from the start until its backlog is over the limit and the stream is in the middle of
    a GOP, is over the limit at the next key-frame start (dropping begins), then drains completely while the
    GOP goes on; the rest of that GOP and the next one contain packets that are not video but look like a
    key-frame start.  Dropping has to go on until the next video key-frame start."""
    key_b0 = (19 << 1) if h265 else 0x65
    pkts, n = [], 0
    def video(kind):
        nonlocal n
        n += 1
        pkts.append([n, kind])
    def other(key_like):
        nonlocal n
        n += 1
        b0, hi = (key_b0 | (rng.randrange(2) if h265 else rng.randrange(4) << 5), 0) if key_like else lookalike(rng, h265)
        pkts.append(raw_pkt(rng, n, ch, b0, hi))
    sched = [[G.ATT, 0]] * 3 + [[G.ATT, 1]] * 3
    def publish(upto, drain1):
        nonlocal sched
        while len(pkts_done) < upto:
            pkts_done.append(1)
            sched += [[G.PUB, 0]] * 3 + [[G.CONS, 0]] * 2 + ([[G.CONS, 1]] * 2 if drain1 else [])
    pkts_done = []
    gops = (maxq + 2) // gop_len + 2
    for g in range(gops + 2):
        if rng.random() < 0.5:
            video(3); video(4)
        video(2)
        for i in range(gop_len - 1):
            if i % 2 == 0:
                video(1)
            else:
                other(key_like=(g >= gops - 1) or rng.random() < 0.3)
    # consumer 1 stalled until the middle of GOP number gops-1 (over the limit since at least one key-frame start)
    stall_until = next(i for i, p in enumerate(pkts) if p[0] == [q for q in pkts if q[1] == 2][gops - 1][0]) + 2
    publish(stall_until, False)
    sched += [[G.CONS, 1]] * (2 * (stall_until + 4))          # drains completely
    publish(len(pkts), True)
    sched += [[G.CONS, 0], [G.CONS, 1]] * 4
    return [G.FIXED, 2, maxq, rng.random() < 0.5, pkts, [0, 0], sched, [0, 0], False, 1, h265, False, rng.random() < 0.5]

# ---- fragmented key frames: only the START fragment of an IRAP / IDR unit is a key-frame start -----------------
def fragment_script(rng, h265):
    """Key frames come as fragmentation units (HEVC FU type 49 / H.264 FU-A type 28): start, middle, end fragment.
    A stalled consumer's backlog crosses the limit between the start and the end fragment of the second key frame
    (dropping must not begin at the end fragment), and the consumer catches up between the start and the end
    fragment of the third one (dropping must not end there)."""
    g = rng.randint(1, 3)
    maxq = 3 + g + rng.randint(0, 1)            # backlog at the 2nd start fragment <= limit < backlog at its end fragment
    t = rng.choice([16, 19, 20, 21]) if h265 else 5
    pkts, n = [], 0
    def frag(fuh):
        nonlocal n
        n += 1
        pkts.append(raw_pkt(rng, n, VIDEO, (49 << 1) if h265 else 0x7c, fuh if h265 else fuh << 8))
    def inter():
        nonlocal n
        n += 1
        pkts.append([n, 1])
    def gop():
        frag(0x80 | t); frag(t); frag(0x40 | t)
        for _ in range(g):
            inter()
    sched = [[G.ATT, 0]] * 3 + [[G.ATT, 1]] * 3
    done = 0
    def publish(drain1):
        nonlocal done, sched
        while done < len(pkts):
            done += 1
            sched += [[G.PUB, 0]] * 3 + [[G.CONS, 0]] * 2 + ([[G.CONS, 1]] * 2 if drain1 else [])
    gop(); gop()
    frag(0x80 | t); frag(t)
    publish(False)
    sched += [[G.CONS, 1]] * (2 * len(pkts) + 6)   # catches up completely between start and end fragment
    frag(0x40 | t)
    for _ in range(g):
        inter()
    gop()
    publish(True)
    sched += [[G.CONS, 0], [G.CONS, 1]] * 6
    return [G.FIXED, 2, maxq, rng.random() < 0.5, pkts, [0, 0], sched, [0, 0], False, 1, h265, False, False]

# ---- the conversion chain: RTP in -> rtp demuxer -> FLV muxer -> WriteFlvTag -> FLV consumers ---------------
# For an FLV consumer the key flag that starts and stops dropping is the frame type the FLV packetizer writes.
# Chain cases publish single-NAL video RTP packets (every NAL type that starts a key frame: H.264 IDR; HEVC
# BLA_W_LP .. CRA_NUT = 16..21; every other type as inter / parameter set) into a stream with FLV and RTP
# consumers (case field 13: 1 = FLV consumer) and judge BOTH sides with ok_C04x against the key starts of the
# published video.
H264_KEY, H264_OTHER = [5], [1, 1, 1, 1, 2, 6, 7, 8, 9]
HEVC_KEY, HEVC_OTHER = [16, 17, 18, 19, 20, 21, 21, 21], [0, 1, 1, 1, 1, 8, 9, 22, 23, 32, 33, 34, 35, 39]

def nal_pkt(rng, n, h265, t):
    """single-NAL video packet of NAL type t; the id sits in payload[1..4] (RTP consumers read it there) and in
    the last four bytes (where it ends up in the FLV tag)"""
    b0 = (t << 1) if h265 else (rng.choice([0x20, 0x40, 0x60]) | t)
    idb = n.to_bytes(4, "big")
    return [n, 0, VIDEO, bytes([b0]) + idb + bytes(rng.randrange(256) for _ in range(rng.randint(0, 5))) + idb]

def chain_case(rng, h265, maxq, npk, gop_len, stall_from, resume_at, late_join=False, only_types=None):
    """consumer 0: healthy FLV tap, 1: FLV consumer that stalls, 2: RTP consumer that stalls the same way"""
    keys, others = (HEVC_KEY, HEVC_OTHER) if h265 else (H264_KEY, H264_OTHER)
    if only_types:
        keys = only_types
    pkts = [nal_pkt(rng, i + 1, h265, rng.choice(keys) if i % gop_len == 0 else rng.choice(others)) for i in range(npk)]
    att = lambda c: [[G.ATT, c]] * 3
    sched = att(0) + ([] if late_join else att(1) + att(2))
    for i in range(npk):
        if late_join and i == stall_from:
            sched += att(1) + att(2)
        sched += [[G.PUB, 0]] * 3 + [[G.CONS, 0]] * (10 if i == 0 else 2)
        if not (stall_from <= i < resume_at) and not (late_join and i < stall_from):
            k = rng.choice([2, 2, 4, 6])
            sched += [[G.CONS, 1]] * k + [[G.CONS, 2]] * k
    sched += [[G.CONS, 0], [G.CONS, 1], [G.CONS, 2]] * 4
    return [G.FIXED, 3, maxq, rng.random() < 0.5, pkts, [0, 0, 0], sched, [0, 0, 0], False, 1, h265, False, False, [1, 1, 0]]

# ---- faults in both callbacks: Consume panics at packet k, Close returns / panics / never returns ------------
RETURNS, PANICS, BLOCKS = 0, 1, 2

def with_modes(case, modes):
    case = list(case) + [False] * (13 - len(case))
    case[12:] = [False, [], modes]
    return case

def fault_random(rng):
    # the final state is what is observed: without a closer (and mostly without stoppers) nothing else takes a
    # consumer out of the map that its own clean-up left there
    c = G.rand_case(rng, G.FIXED, maxq=rng.randint(1, 4), max_pkts=14, max_len=130, panic_p=0.7, flv_p=0.2,
                    with_close=rng.random() < 0.3)
    if rng.random() < 0.6:
        c[5] = [False] * c[1]
    return with_modes(c, [rng.choice([RETURNS, PANICS, PANICS, BLOCKS, BLOCKS]) for _ in range(c[1])])

def fault_script(rng, flv, teardown=False):
    """consumer 0 is healthy; 1 and 2 panic in Consume and then in / inside Close; the publisher goes on, a late
    stopper and the closer find them gone"""
    n, npk = 3, rng.randint(5, 9)
    pkts = [[i + 1, 2 if i % 3 == 0 else 1] for i in range(npk)]
    panic = [0, rng.randint(1, 3), rng.randint(1, 3)]
    modes = [RETURNS] + rng.sample([PANICS, BLOCKS], 2)
    sched = []
    for c in range(n):
        sched += [[G.ATT, c]] * 3
    for i in range(npk):
        sched += [[G.PUB, 0]] * 3
        for c in range(n):
            sched += [[G.CONS, c]] * rng.choice([2, 3])
    if teardown:
        sched += [[G.STOP, 1]] * 2 + [[G.CLOSE, 0]] * 3
    for c in range(n):
        sched += [[G.CONS, c]] * 3
    return with_modes([G.FIXED, n, rng.randint(2, 4), rng.random() < 0.5, pkts, [0, 1 if teardown else 0, 0], sched, panic, flv, 1,
                       False, False], modes)

# ---- a late joiner whose replay is longer than the limit --------------------------------------------------------
def late_join_script(rng, flv, h265, maxq, drain):
    """cache_gop on; consumer 0 reads everything; consumer 1 attaches in the middle of a GOP that is already longer
    than the limit, drains its queue or not, then the rest of that GOP and two more GOPs are published.  It must be
    handed the replay and then every packet up to the next key-frame start: a consumer does not start out dropping."""
    gop_len = maxq + rng.randint(3, 6)
    npk = 3 * gop_len
    join_at = rng.randint(maxq + 2, gop_len - 1)              # packets published before the join: replay > limit
    pkts = []
    for i in range(npk):
        if flv:
            k = 2 if i % gop_len == 0 else 1
        else:
            k = 2 if i % gop_len == 0 else rng.choice([1, 1, 1, 0])
        pkts.append([i + 1, k])
    if not flv and rng.random() < 0.5:
        pkts = [[npk + 1, 3], [npk + 2, 4]] + pkts
        join_at += 2
    sched = [[G.ATT, 0]] * 3
    for i in range(len(pkts)):
        if i == join_at:
            sched += [[G.ATT, 1]] * 3
        sched += [[G.PUB, 0]] * 3 + [[G.CONS, 0]] * 2
        if i >= join_at and drain:
            sched += [[G.CONS, 1]] * rng.choice([2, 4, 6])
    # what was handed over is what is observed: in the end consumer 1 reads everything it was queued
    sched += [[G.CONS, 0], [G.CONS, 1]] * (2 * len(pkts) + 8)
    return [G.FIXED, 2, maxq, True, pkts, [0, 0], sched, [0, 0], flv, 1, h265 and not flv]

def run(ck):
    if not ck.prepare():
        return ck.finish(rule="build failed")
    rng = ck.rng
    cases = []
    for _ in range(23 if not ck.thorough else 600):
        maxq = rng.randint(2, 8)
        npk = rng.randint(10, 60)
        g = rng.randint(1, 9)
        a = rng.randint(0, npk)
        cases.append(stall_case(rng, maxq, npk, g, a, rng.randint(a, npk + 5), gop=rng.random() < 0.5, h265=rng.random() < 0.5))
    cases += [G.rand_case(rng, G.FIXED, maxq=rng.randint(1, 4), max_pkts=30, max_len=160, panic_p=0.3)
              for _ in range(28 if not ck.thorough else 800)]
    # the real limit of 1000: a few long scripts
    for _ in range(1 if not ck.thorough else 12):
        npk = rng.randint(1100, 1250) if not ck.thorough else rng.randint(1300, 1800)
        cases.append(stall_case(rng, 1000, npk, rng.choice([25, 50, 120]), rng.randint(0, 50), rng.randint(1080, npk)))
    # packets that are not video but look like key-frame starts / parameter sets, given by their bytes
    cases = [rawify(rng, c) if rng.random() < 0.75 else c for c in cases]
    scripts = []
    for h265 in (False, True):
        for ch in (AUDIO, VRTCP, ARTCP) if ck.thorough else (AUDIO, rng.choice([VRTCP, ARTCP])):
            for _ in range(1 if not ck.thorough else 6):
                scripts.append(lookalike_script(rng, h265, ch, rng.randint(2, 5), rng.randint(4, 8)))
    # late joiners whose replay is longer than the limit (RTP H.264 / HEVC and FLV), draining or not
    joins = []
    for flv, h265 in ((False, False), (False, True), (True, False)):
        for drain in (False, True) if ck.thorough else (rng.random() < 0.5,):
            for _ in range(1 if not ck.thorough else 8):
                joins.append(late_join_script(rng, flv, h265, rng.randint(1, 4), drain))
    joins.append(late_join_script(rng, rng.random() < 0.3, rng.random() < 0.5, rng.randint(1, 4), True))
    ck.stream("join-replay-longer-than-limit", joins, "C04_lts", "C04_lts", "C04_ok",
              nontrivial=lambda c: True, sig=lambda c, e, o: "lts-join", timeout=900)
    scripts += [fragment_script(rng, True), fragment_script(rng, False)]
    ck.stream("not-video-looks-like-key", scripts, "C04_lts", "C04_lts", "C04_ok",
              nontrivial=lambda c: True, sig=lambda c, e, o: "lts-lookalike", timeout=900)
    # the conversion chain: RTP in, FLV consumers served by rtp demuxer -> FLV muxer -> WriteFlvTag
    chains = []
    # one HEVC case per NAL type that starts a key frame (a converter that loses one of them never lets the FLV
    # consumer begin to drop), one with all of them mixed, two H.264 cases
    plans = [(True, [t]) for t in (16, 17, 18, 19, 20, 21)] + [(True, None), (False, None), (False, None)]
    if ck.thorough:
        plans = plans * 10
    for h265, only in plans:
        npk = rng.randint(26, 30) if not ck.thorough else rng.randint(26, 60)
        a = rng.randint(0, 3)
        chains.append(chain_case(rng, h265, rng.randint(2, 3), npk, rng.randint(2, 3), a, rng.randint(npk - 5, npk - 2),
                                 late_join=rng.random() < 0.3, only_types=only))
    ck.stream("rtp-to-flv-chain", chains, "C04_chain", "C04_lts", "C04_chain_ok",
              nontrivial=lambda c: True, sig=lambda c, e, o: "chain", timeout=900)
    # Consume panics and Close returns / panics / never returns
    faults = [fault_script(rng, flv, td) for flv, td in
              (((False, False), (True, False), (False, True)) if not ck.thorough else ((False, False), (True, False), (False, True)) * 14)]
    faults += [fault_random(rng) for _ in range(10 if not ck.thorough else 300)]
    ck.stream("consume-and-close-faults", faults, "C04_faults", "C04_lts", "C04_faults_ok",
              nontrivial=lambda c: any(c[7]), sig=lambda c, e, o: "faults", timeout=900)
    ck.stream("stall-resume+random", cases, "C04_lts", "C04_lts", "C04_ok",
              nontrivial=lambda c: len(c[4]) > 5, sig=lambda c, e, o: "lts", timeout=1500)
    return ck.finish(rule="stall/resume scripts (one fast and one stalled consumer, key spacing 1..9, limit 2..8 set through "
                          "media.VerifSetMaxQLen, plus scripts at the real limit 1000) and random schedules with panicking consumers; "
                          "non-video packets that look like key-frame starts (audio and RTCP channels, by bytes); the conversion chain "
                          "(RTP in, a healthy FLV tap, a stalled FLV and a stalled RTP consumer; every key NAL type of H.264 / HEVC)")
