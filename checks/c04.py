"""C04 — stalled or failing consumers are isolated; backlog bounded; drops align to GOPs."""
import os, sys
sys.path.insert(0, os.path.dirname(__file__))
import ltsgen as G

def stall_case(rng, maxq, npk, gop_len, stall_from, resume_at, gop=True, h265=False):
    """one fast consumer (0), one that stalls (1); key packet every gop_len packets"""
    pkts = []
    for i in range(npk):
        pkts.append([i + 1, 2 if i % gop_len == 0 else rng.choice([1, 1, 1, 0])])
    sched = [[G.ATT, 0]] * 3 + [[G.ATT, 1]] * 3
    for i in range(npk):
        sched += [[G.PUB, 0]] * 3
        sched += [[G.CONS, 0]] * 2
        if not (stall_from <= i < resume_at):
            sched += [[G.CONS, 1]] * rng.choice([2, 2, 4])
    sched += [[G.CONS, 0], [G.CONS, 1]] * 4
    return [G.FIXED, 2, maxq, gop, pkts, [0, 0], sched, [0, 0], False, 1, h265]

def run(ck):
    if not ck.prepare():
        return ck.finish(rule="build failed")
    rng = ck.rng
    cases = []
    for _ in range(40 if not ck.thorough else 600):
        maxq = rng.randint(2, 8)
        npk = rng.randint(10, 60)
        g = rng.randint(1, 9)
        a = rng.randint(0, npk)
        cases.append(stall_case(rng, maxq, npk, g, a, rng.randint(a, npk + 5), gop=rng.random() < 0.5, h265=rng.random() < 0.5))
    cases += [G.rand_case(rng, G.FIXED, maxq=rng.randint(1, 4), max_pkts=30, max_len=160, panic_p=0.3)
              for _ in range(50 if not ck.thorough else 800)]
    # the real limit of 1000: a few long scripts
    for _ in range(1 if not ck.thorough else 12):
        npk = rng.randint(1100, 1250) if not ck.thorough else rng.randint(1300, 1800)
        cases.append(stall_case(rng, 1000, npk, rng.choice([25, 50, 120]), rng.randint(0, 50), rng.randint(1080, npk)))
    ck.stream("stall-resume+random", cases, "C04_lts", "C04_lts", "C04_ok",
              nontrivial=lambda c: len(c[4]) > 5, sig=lambda c, e, o: "lts", timeout=1500)
    return ck.finish(rule="stall/resume scripts (one fast and one stalled consumer, key spacing 1..9, limit 2..8 set through "
                          "media.VerifSetMaxQLen, plus scripts at the real limit 1000) and random schedules with panicking consumers")
