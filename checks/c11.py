"""C11 — authorisation on every entry point, following the rights currently saved.
Histories of user saves / deletes, clock ticks, logins, refreshes and requests on every entry point
(RTSP with digest, ws-rtsp, WSP control + data channel, HTTP-FLV, ws-FLV, HLS playlist and segment,
/api/), run against an in-process service and against the extracted model; the proved oracle
(reference monitor) judges the implementation's answers."""
import vlib

PATHS = ["/a/b", "/a/c", "/x", "/p/q", "/a"]
WATCH = PATHS + ["/"]
BASES = ["/a", "/a/b", "/p", "/x", "/a/c"]     # subtrees the rights in RIGHTS are about

def canon(p):
    """utils.CanonicalPath, for the generator's bookkeeping only"""
    p = p.strip().lower()
    if not p:
        return "/"
    if p[0] != "/":
        p = "/" + p
    out = []
    for seg in p.split("/"):
        if seg in ("", "."):
            continue
        if seg == "..":
            if out:
                out.pop()
            continue
        out.append(seg)
    np = "/" + "/".join(out)
    return np + "/" if p.endswith("/") and np != "/" else np

def spell(rng, target):
    """another spelling of a path: some stay the same resource, some start inside a subtree somebody has a
    right to and leave it through dot-dot segments"""
    x = rng.random()
    segs = target.strip("/").split("/")
    if x < 0.45:
        base = rng.choice(BASES)
        up = "/".join(rng.choice(["..", "..", "./..", "/.."]) for _ in base.strip("/").split("/"))
        return base + rng.choice(["/", "//", "/./"]) + up + target
    if x < 0.55:
        return "/" + "/".join(segs[:-1] + ["zz", "..", segs[-1]])
    if x < 0.65:
        return target.replace("/", rng.choice(["//", "/./"]), 1) if rng.random() < 0.5 else target + "/."
    if x < 0.75:
        return target + rng.choice([" ", "/", "/.."])
    if x < 0.85:
        return target.upper() if rng.random() < 0.5 else target.capitalize()
    if x < 0.93:
        return target + "/" + rng.choice(["c", "b", "q"]) + "/.."
    return target + "/%2e%2e"        # a segment that is literally named %2e%2e (sent as %252e%252e): no dot-dot

RIGHTS = ["", "*", "/a/*", "/a/b", "/a/+", "/x", "/p/*", "/a/b;/x", "/+/b", "/a/b/+", "/a/b/*", " /a/b ; /p/q", "/A/B",
          "/a/b/+;/x/+", "/+/+/+", "/a/b/3;/p/q/2"]
NAMES = ["bob", "ann", "eve", "root"]
PWS = {"bob": "pw-bob", "ann": "pw-ann", "eve": "pw-eve", "root": "pw-root"}

NO = [0]
def A(k): return [1, k]
def R(k): return [2, k]
def RAW(b): return [3, b]

class Gen:
    """builds one history; keeps just enough bookkeeping to make most requests meaningful"""
    def __init__(self, rng):
        self.rng = rng
        self.users = {}          # name -> [name pw admin push pull] as last saved by the generator
        self.issued = []         # user of the k-th *attempted successful* issue (generator's guess)
        self.ev = []
        self.nconn = 0
        self.published = set()   # paths some RECORD aimed at: no playlist request there
        self.ext = []

    # -- pieces
    def user_rec(self, name, admin=None, push=None, pull=None, pw=None):
        r = self.rng
        return [name if r.random() < 0.9 else name.capitalize(), pw if pw is not None else PWS[name],
                1 if (admin if admin is not None else r.random() < 0.15) else 0,
                push if push is not None else r.choice(RIGHTS), pull if pull is not None else r.choice(RIGHTS)]

    def path(self, prefer_ext=True):
        r = self.rng
        p = r.choice(self.ext) if (prefer_ext and self.ext and r.random() < 0.75) else r.choice(PATHS)
        if r.random() < 0.3:
            p = spell(r, p)
        return p

    def save(self, name, **kw):
        u = self.user_rec(name, **kw)
        upd = 1 if self.rng.random() < 0.3 else 0
        self.ev.append([0] + u + [upd])
        if name not in self.users or upd:
            self.users[name] = u
        else:
            self.users[name] = [u[0], self.users[name][1]] + u[2:]

    def mutate(self, name):
        """what an administrator does between a login and a request"""
        r = self.rng
        k = r.random()
        if k < 0.35:
            self.save(name, pw=PWS[name])                       # new rights (narrower, wider, same)
        elif k < 0.45:
            self.save(name, pull="", push="", pw=PWS[name])     # everything withdrawn
        elif k < 0.6:
            self.ev.append([1, name]); self.users.pop(name, None)
            if r.random() < 0.4:
                self.save(name, pw=PWS[name])                   # re-created
        elif k < 0.75:
            self.ev.append([2, r.choice([1, 60, 7000, 7200, 7201, 10000, 604000, 604800, 700000])])
        elif k < 0.85 and self.issued:
            self.ev.append([4, R(r.randrange(len(self.issued)))]); self.issued.append(None)
        elif k < 0.92:
            other = r.choice(NAMES)
            self.save(other)
        else:
            self.login(name)

    def maybe_mutate(self, name, p=0.35):
        if self.rng.random() < p:
            self.mutate(name)

    def login(self, name, good=True):
        pw = PWS.get(name, "x") if good else self.rng.choice(["", "wrong", PWS["bob"].upper()])
        self.ev.append([3, name, pw])
        self.issued.append(name)
        return len(self.issued) - 1

    def tok(self, k):
        """mostly the caller's own access token; sometimes one of the bad kinds"""
        r = self.rng
        x = r.random()
        if x < 0.72:
            return A(k)
        if x < 0.78:
            return R(k)                       # refresh token presented as access token
        if x < 0.83:
            return NO
        if x < 0.88:
            return RAW(r.choice(["deadbeef", "0" * 32, "a" * 32, " "]))
        if x < 0.93 and self.issued:
            return A(r.randrange(len(self.issued)))    # somebody else's / an older one
        return A(k + r.choice([1, 5]))        # never issued

    def cred(self, name):
        r = self.rng
        x = r.random()
        if x < 0.7:
            return [1, name, PWS.get(name, "x"), 1 if r.random() < 0.3 else 0, 0, 0]
        if x < 0.78:
            return [0]
        if x < 0.84:
            return [1, name, "wrong-pw", 0, 0, 0]
        if x < 0.88:
            return [1, name, PWS.get(name, "x"), 0, 1, 0]      # the first nonce (stale once replaced)
        if x < 0.91:
            return [1, name, PWS.get(name, "x"), 0, 2, 0]      # a nonce the server never issued
        if x < 0.95:
            return [1, name, PWS.get(name, "x"), 0, 0, r.choice([1, 2])]   # computed for another method / uri
        return [1, r.choice(NAMES + ["nobody"]), PWS.get(name, "x"), 0, 0, 0]

    def forged(self):
        """the server-internal header user_name_in_token as sent by a client: any spelling, possibly twice,
        naming somebody else (preferably an administrator or whoever has wide rights)"""
        r = self.rng
        keys = ["user_name_in_token", "User_name_in_token", "USER_NAME_IN_TOKEN", "User_Name_In_Token", "uSER_nAME_iN_tOKEN"]
        wide = [n for n, u in self.users.items() if u[2] or u[3] == "*" or u[4] == "*"]
        def who():
            x = r.random()
            if x < 0.5 and wide:
                n = r.choice(wide)
            elif x < 0.9:
                n = r.choice(NAMES)
            else:
                n = r.choice(["nobody", "", "admin"])
            return n if r.random() < 0.8 else n.upper()
        h = [[r.choice(keys), who()]]
        if r.random() < 0.3:
            h.append([r.choice(keys), who()])
        if r.random() < 0.1:
            h.append(["X-Forwarded-User", who()])
        return h

    # -- scenarios
    def sc_http(self):
        r = self.rng
        name = r.choice(NAMES)
        k = self.login(name, good=r.random() < 0.92)
        for _ in range(r.randint(1, 4)):
            self.maybe_mutate(name)
            kind = r.choice([0, 1, 1, 2, 2])
            p = self.path()
            if kind == 1 and canon(p) in self.published:
                kind = 0
            if r.random() < 0.4:
                self.url_event(k)
            else:
                self.ev.append([10, kind, p, self.tok(k), r.choice([0, 1, 2, 2, 7, 12])])

    def url_event(self, k):
        """a GET of a spelled-out URL under /streams/: the interceptor and the handler each read the stream path, the
        kind and the sequence number off it"""
        r = self.rng
        kind = r.choice([0, 1, 2, 2, 2])
        p = self.path()
        if kind == 1 and canon(p) in self.published:
            kind = 0
        x = r.random()
        ext = [".flv", ".m3u8", ".ts"][kind]
        if x < 0.45:
            pass
        elif x < 0.7:
            ext = r.choice([ext.upper(), ext.capitalize(), ext[:2] + ext[2:].upper(), "." + ext[1:].title()])
        elif x < 0.8:
            ext = ext + r.choice(["/", ext, ".bak", ext.upper()])
        elif x < 0.88:
            ext = r.choice(["", ".", ".mp4", ".TS", ".ts"])
        else:
            ext = r.choice([".ts", ".TS", ".Ts"])       # a segment extension on whatever the path is
        if ext.lower().startswith(".m3u8") and canon(p) in self.published:
            ext = ".flv"
        seq = ""
        if kind == 2 or r.random() < 0.15:
            seq = "/" + r.choice(["2", "3", "4", "3", "2", "4", "3", "+3", "03", "-3", "9", "1", "3x", "", "0x3", " 3"])
        self.ev.append([12, "/streams" + p + seq + ext, self.tok(k)])

    def sc_api(self):
        r = self.rng
        name = r.choice(NAMES)
        k = self.login(name, good=r.random() < 0.85)
        for _ in range(r.randint(1, 4)):
            self.maybe_mutate(name, 0.25)
            ep = r.choice([0, 1, 2, 2, 3, 4, 5, 6, 7, 8])
            victim = r.choice(NAMES)
            u = self.user_rec(victim)
            self.ev.append([11, ep, self.tok(k), u, 1 if r.random() < 0.3 else 0, victim if ep != 6 else r.choice(PATHS)])
            if r.random() < 0.5:
                # does the change (if it was allowed) show in a decision?
                k2 = self.login(victim)
                p2 = self.path()
                self.ev.append([10, 0 if canon(p2) in self.published else r.choice([0, 1]), p2, A(k2), 0])

    def rtsp_seq(self, publish):
        return [2, 4, 6] if publish else [1, 3, 5]

    def sc_rtsp(self):
        r = self.rng
        name = r.choice(NAMES)
        self.ev.append([5]); c = self.nconn; self.nconn += 1
        publish = r.random() < 0.4
        p = self.path(prefer_ext=not publish)
        seq = self.rtsp_seq(publish)
        if r.random() < 0.2:
            seq = [r.choice([1, 2, 3, 4, 5, 6]) for _ in range(r.randint(2, 5))]    # any order
        if r.random() < 0.25:
            seq.append(seq[-1])                                                     # keep-alive
        for m in seq:
            self.maybe_mutate(name, 0.25)
            who = name if r.random() < 0.88 else r.choice(NAMES)       # another user mid-session
            path = p if r.random() < 0.9 else self.path()              # another path mid-session
            if m in (2, 6):
                self.published.add(canon(path)); self.published.add(canon(p))
            self.ev.append([6, c, m, path, self.cred(who)])
        if publish and r.random() < 0.6:
            # somebody pulls what was (or was not) published
            self.sc_pull_after(p)

    def sc_pull_after(self, p):
        r = self.rng
        name = r.choice(NAMES)
        k = self.login(name)
        self.ev.append([10, 0, p, A(k), 0])
        self.ev.append([7, 3, p, A(k), 0])

    def sc_wsrtsp(self):
        r = self.rng
        name = r.choice(NAMES)
        k = self.login(name)
        self.maybe_mutate(name, 0.2)
        p = self.path()
        self.ev.append([7, 0, p, self.tok(k), 0]); c = self.nconn; self.nconn += 1
        publish = r.random() < 0.5
        p2 = p if r.random() < 0.4 else self.path(prefer_ext=False)
        seq = self.rtsp_seq(publish)
        if r.random() < 0.2:
            seq = [r.choice([1, 2, 3, 4, 5, 6]) for _ in range(r.randint(2, 5))]
        if publish and r.random() < 0.4:
            seq += [1, 3, 5]       # publish somewhere, then come back as a player on the switched path
        for m in seq:
            self.maybe_mutate(name, 0.3)
            if m in (2, 6):
                self.published.add(canon(p2)); self.published.add(canon(p))
            self.ev.append([8, c, m, p2 if m == 2 else p])
        if publish and r.random() < 0.5:
            self.sc_pull_after(p2)

    def sc_wsp(self):
        r = self.rng
        name = r.choice(NAMES)
        k = self.login(name)
        p = self.path()
        self.ev.append([7, 1, p, self.tok(k), 0]); c = self.nconn; self.nconn += 1
        joined = False
        if r.random() < 0.75:
            self.ev.append([7, 2, p, A(k), c]); joined = True
        for m in ([1, 3, 5] if r.random() < 0.8 else [r.choice([1, 2, 3, 4, 5, 6]) for _ in range(4)]):
            self.maybe_mutate(name, 0.3)
            self.ev.append([9, c, m, p])
        if not joined or r.random() < 0.3:
            self.ev.append([7, 2, p, A(k), c])
        # somebody else tries to join the channel (the channel id is guessable)
        if r.random() < 0.7:
            other = r.choice([n for n in NAMES if n != name])
            k2 = self.login(other)
            self.ev.append([7, 2, r.choice([p, self.path()]), A(k2), c])
        if r.random() < 0.3:
            self.ev.append([7, 2, self.path(), A(k), r.choice([c, c + 3])])   # own token, other path / no such channel
        if r.random() < 0.3:
            self.ev.append([9, c, 5, p])

    def sc_wsflv(self):
        r = self.rng
        name = r.choice(NAMES)
        k = self.login(name)
        self.maybe_mutate(name)
        self.ev.append([7, 3, self.path(), self.tok(k), 0])

    def sc_soup(self):
        """the malformed stream: anything in any order"""
        r = self.rng
        for _ in range(r.randint(3, 9)):
            x = r.randrange(12)
            name = r.choice(NAMES)
            nt = max(1, len(self.issued))
            t = r.choice([NO, A(r.randrange(nt)), R(r.randrange(nt)), RAW("zz")])
            cn = r.randrange(self.nconn + 1)
            if x == 0:
                self.save(name)
            elif x == 1:
                self.ev.append([1, name]); self.users.pop(name, None)
            elif x == 2:
                self.ev.append([2, r.choice([0, 5, 7200, 604800])])
            elif x == 3:
                self.login(name, good=r.random() < 0.7)
            elif x == 4:
                self.ev.append([4, t]); self.issued.append(None)
            elif x == 5:
                self.ev.append([5]); self.nconn += 1
            elif x == 6:
                m = r.choice([1, 2, 3, 4, 5, 6]); p = self.path()
                if m in (2, 6):
                    self.published.update(WATCH)
                self.ev.append([6, cn, m, p, self.cred(name)])
            elif x == 7:
                kind = r.choice([0, 1, 2, 3])
                self.ev.append([7, kind, self.path(), t, cn])
                if kind in (0, 1):
                    self.nconn += 1
            elif x == 8:
                m = r.choice([1, 2, 3, 4, 5, 6])
                if m in (2, 6):
                    self.published.update(WATCH)
                self.ev.append([8, cn, m, self.path()])
            elif x == 9:
                self.ev.append([9, cn, r.choice([1, 2, 3, 4, 5, 6]), self.path()])
            elif x == 10:
                kind = r.choice([0, 2])
                self.ev.append([10, kind, self.path(), t, r.choice([0, 1, 5])])
            else:
                self.ev.append([11, r.choice(range(9)), t, self.user_rec(name), 0, name])

    def build(self, thorough):
        r = self.rng
        self.ext = r.sample(["/a/b", "/x", "/p/q", "/a/c", "/a", "/a"], r.choice([1, 2, 2, 3]))
        self.ext = sorted(set(self.ext))
        users0 = []
        for n in NAMES:
            if r.random() < 0.8:
                u = self.user_rec(n)
                if n == "root" and r.random() < 0.7:
                    u[2] = 1
                u[0] = n
                users0.append(u)
                self.users[n] = u
        scs = [self.sc_http, self.sc_http, self.sc_api, self.sc_rtsp, self.sc_rtsp, self.sc_wsrtsp, self.sc_wsrtsp,
               self.sc_wsp, self.sc_wsp, self.sc_wsflv, self.sc_soup]
        for _ in range(r.randint(1, 3 if not thorough else 5)):
            r.choice(scs)()
        # client-chosen request headers: copies of the header the interceptors pass the verified name in
        for e in self.ev:
            if e[0] in (7, 10, 11, 12):
                e.append(self.forged() if r.random() < 0.4 else [])
        # tokens are referred to by issue index: only *successful* logins/refreshes issue, so the
        # generator's indices drift after a failed one; that is intended (it produces never-issued tokens)
        return [[users0, self.ext, WATCH], self.ev]

REQUEST = {6, 7, 8, 9, 10, 11, 12}
ADMIN = {0, 1, 2, 4}

def nontrivial(c):
    evs = c[1]
    # a request that comes after an administrator's change or a clock tick that followed a login / open
    seen_auth, seen_change = False, False
    for e in evs:
        if e[0] in (3, 5, 7):
            seen_auth = True
        elif e[0] in ADMIN and seen_auth:
            seen_change = True
        elif e[0] in REQUEST and seen_change:
            return True
    return False

KIND = {12: "url", 0: "save", 1: "del", 2: "tick", 3: "login", 4: "refresh", 5: "rtsp-open", 6: "rtsp", 7: "ws-open", 8: "ws-rtsp",
        9: "wsp", 10: "http", 11: "api"}

def sig(c, e, o):
    """first event whose answer differs from the model's"""
    try:
        ev, ex, ob = c[1], vlib.vparse(e), vlib.vparse(o)
        for i, q in enumerate(ev):
            if i >= len(ob) or i >= len(ex) or ex[i] != ob[i]:
                sub = q[1] if q[0] in (7, 10, 11) else (q[2] if q[0] in (6, 8, 9) else 0)
                a = ex[i][0] if i < len(ex) and ex[i] else "-"
                b = ob[i][0] if i < len(ob) and ob[i] and isinstance(ob[i], list) else "-"
                if isinstance(b, bytes):
                    b = b.decode("latin-1")
                return "authz:%s/%s model=%s impl=%s" % (KIND.get(q[0], "?"), sub, a, b)
    except Exception:
        pass
    return "authz:unclassified"

def run(ck):
    if not ck.prepare():
        return ck.finish(rule="build failed")
    rng = ck.rng
    n = 5000 if ck.thorough else 750
    cases = [Gen(rng).build(ck.thorough) for _ in range(n)]
    # fixed regression histories: one per repaired defect, always part of the run
    cases = REGRESSIONS + cases
    ck.stream("histories", cases, "C11_run", "C11", "C11_ok", nontrivial=nontrivial, sig=sig, timeout=1500)
    # how many of the generated histories tell the repaired behaviour from the one before the repairs
    try:
        lines = [vlib.vs(c) for c in cases]
        a = vlib.run_driver("C11", "C11_run", lines)
        b = vlib.run_driver("C11", "C11_run_orig", lines)
        ck.extra["histories_distinguishing_the_pre_repair_behaviour"] = sum(1 for x, y in zip(a, b) if x != y)
    except vlib.Broken as br:
        ck.broken.append(br)
    # regression (repaired in utils.CanonicalPath, 1c2de2b): the right was checked on CanonicalPath(url), the registry served
    # CanonicalPath of that; they differed when a blank-edged dot segment was left ("/a/. /x/.." -> "/a/. " -> "/a").
    # Judged by the strict oracle (C11_model_passes_strict).
    ck.stream("unsettled-path", UNSETTLED, "C11_run", "C11", "C11_ok_strict",
              sig=lambda c, e, o: "path-check-differs-from-served:blank-dot-segment")
    # D24: the predicting function replayed on the implementation (tokens must not be MD5 of the id counter)
    probes = [[k] for k in ([0, 1, 2, 3, 5, 8] if not ck.thorough else list(range(0, 24)))]
    ck.stream("token-prediction", probes, "C11_predict_run", "predict", "C11_predict_ok",
              sig=lambda c, e, o: "token-predictable-from-session-id")
    return ck.finish(
        rule="random histories built from scenario templates (HTTP-FLV/HLS/API with a token, RTSP play and publish with digest, "
             "ws-rtsp play/publish incl. ANNOUNCE to another path, WSP control+data incl. a second user joining the channel, "
             "ws-FLV) with an administrator's changes (narrow / widen / withdraw / delete / re-create, password kept or replaced), "
             "clock ticks around both expiry times, refreshes and further logins interleaved between login/open and the requests; "
             "token variants: own, refresh-as-access, none, garbage, another user's, superseded, expired, never issued; digest "
             "variants: right, none, wrong password, stale nonce, foreign nonce, other method/uri, other user; user or path switched "
             "mid-session; 40% of the HTTP / WebSocket / API requests carry 1-3 client-chosen headers: the internal user_name_in_token "
             "key in five spellings, duplicated, naming an administrator / a user with * rights / any user / nobody; "
             "30% of all request paths re-spelled (dot-dot / // / /./ escapes out of a subtree somebody has a right to, detours that "
             "stay inside, trailing /. /.. blank slash, upper case, %2e%2e); every stream has its own SDP session name and SSRC "
             "so the answers say whose description / media arrived; plus an unstructured stream of arbitrary events in arbitrary order and one regression history per "
             "repaired defect. non-trivial = a request that follows an administrator's change or tick made after a login/open. "
             "second stream: the D24 predicting function (session id -> MD5 of the following counter values) replayed on the server.",
        trusted=["MD5 treated as collision free (a digest response verifies iff it was computed from the stored password); "
                 "crypto/rand tokens treated as distinct and unguessable (symbolic TA k / TR k in the model)",
                 "extractStreamPathAndExt / URL routing abstracted: the harness builds /streams<path>[.flv|.m3u8|/<n>.ts] from dot-free paths",
                 "media delivery observed within a bounded wait (60 ms after a 200, 3 ms after a refusal)"],
        assumptions=["ASCII names, passwords and paths; passwords are not 32 hex digits",
                     "decisions are taken per request: media already flowing is not cut when rights are narrowed later",
                     "clock only moves forward (ETick dt >= 0)"])

# ---------------------------------------------------------------- regression histories
def _u(n, admin, push, pull): return [n, PWS[n], admin, push, pull]
_env = [[_u("bob", 0, "", "/a/*"), _u("ann", 0, "/p/*", "/x"), _u("root", 1, "", ""), _u("eve", 0, "", "/a/b")],
        ["/a/b", "/x"], PATHS]
def _c(n, secret=None, nm=0, bm=0): return [1, n, secret or PWS[n], 0, nm, bm]
_F = lambda n, k="user_name_in_token": [[k, n]]
REGRESSIONS_RAW = [
    # D20 narrowed, then withdrawn, then deleted
    [_env, [[3, "bob", PWS["bob"]], [10, 0, "/a/b", A(0), 0], [0, "bob", PWS["bob"], 0, "", "/c", 0], [10, 0, "/a/b", A(0), 0],
            [10, 1, "/a/b", A(0), 0], [0, "bob", PWS["bob"], 0, "", "/a/b", 0], [10, 1, "/a/b", A(0), 0], [1, "bob"], [10, 1, "/a/b", A(0), 0]]],
    # D23 right /a/b covers its segments; /a/b/+ does not cover /a/b
    [_env, [[3, "eve", PWS["eve"]], [10, 1, "/a/b", A(0), 0], [10, 2, "/a/b", A(0), 0], [10, 2, "/a/b", A(0), 2], [10, 2, "/a/b", A(0), 9],
            [0, "eve", PWS["eve"], 0, "", "/a/b/+", 0], [10, 2, "/a/b", A(0), 1], [10, 1, "/a/b", A(0), 0]]],
    # D21 ws-rtsp: ANNOUNCE / RECORD elsewhere, then back as a player
    [_env, [[3, "ann", PWS["ann"]], [7, 0, "/x", A(0), 0], [8, 0, 2, "/a/c"], [8, 0, 4, "/a/c"], [8, 0, 6, "/a/c"],
            [8, 0, 2, "/p/q"], [8, 0, 4, "/p/q"], [8, 0, 6, "/p/q"], [3, "bob", PWS["bob"]], [7, 3, "/p/q", A(1), 0]]],
    [_env, [[3, "ann", PWS["ann"]], [7, 0, "/x", A(0), 0], [8, 0, 2, "/a/b"], [8, 0, 1, "/a/b"], [8, 0, 3, "/a/b"], [8, 0, 5, "/a/b"]]],
    # D22 a second user joins the channel; rights withdrawn before PLAY
    [_env, [[3, "bob", PWS["bob"]], [3, "ann", PWS["ann"]], [7, 1, "/a/b", A(0), 0], [7, 2, "/a/b", A(0), 0], [9, 0, 1, "/a/b"], [9, 0, 3, "/a/b"],
            [9, 0, 5, "/a/b"], [7, 2, "/x", A(1), 0], [7, 2, "/a/b", A(1), 0], [7, 2, "/a/b", A(0), 0]]],
    [_env, [[3, "bob", PWS["bob"]], [7, 1, "/a/b", A(0), 0], [7, 2, "/a/b", A(0), 0], [9, 0, 1, "/a/b"], [9, 0, 3, "/a/b"],
            [0, "bob", PWS["bob"], 0, "", "/x", 0], [9, 0, 5, "/a/b"]]],
    # digest: challenge after a failure; user and path switched mid-session
    [_env, [[5], [6, 0, 1, "/a/b", [0]], [6, 0, 1, "/a/b", _c("bob", "bad")], [6, 0, 1, "/a/b", _c("bob")], [6, 0, 3, "/a/b", _c("bob", nm=1)],
            [6, 0, 3, "/a/b", _c("bob")], [6, 0, 5, "/a/b", _c("ann")], [6, 0, 5, "/a/b", _c("bob")], [6, 0, 5, "/a/b", _c("bob")]]],
    [_env, [[5], [6, 0, 2, "/p/q", _c("ann")], [6, 0, 4, "/p/q", _c("ann")], [0, "ann", PWS["ann"], 0, "/zz", "/x", 0], [6, 0, 6, "/p/q", _c("ann")],
            [0, "ann", PWS["ann"], 0, "/p/q", "/x", 0], [6, 0, 6, "/p/q", _c("ann")], [3, "root", PWS["root"]], [10, 0, "/p/q", A(0), 0]]],
    # the user is deleted (and re-created with other rights) after the WebSocket upgrade
    [_env, [[3, "bob", PWS["bob"]], [7, 0, "/a/b", A(0), 0], [1, "bob"], [8, 0, 1, "/a/b"], [0, "bob", PWS["bob"], 0, "", "/x", 1],
            [8, 0, 1, "/a/b"], [0, "bob", PWS["bob"], 0, "", "/a/+", 0], [8, 0, 1, "/a/b"], [8, 0, 3, "/a/b"], [1, "bob"], [8, 0, 5, "/a/b"]]],
    [_env, [[3, "bob", PWS["bob"]], [7, 1, "/a/b", A(0), 0], [7, 2, "/a/b", A(0), 0], [9, 0, 1, "/a/b"], [9, 0, 3, "/a/b"], [1, "bob"],
            [9, 0, 5, "/a/b"], [0, "bob", PWS["bob"], 0, "", "/a/b", 1], [9, 0, 5, "/a/b"]]],
    # logins: wrong / empty password for an administrator and a plain user, unknown user, then the would-be tokens
    [_env, [[3, "root", "wrong"], [3, "root", ""], [3, "bob", PWS["ann"]], [3, "nobody", "x"], [3, "", "x"], [11, 1, A(0), _u("bob", 0, "", ""), 0, "bob"],
            [3, "ROOT", PWS["root"]], [11, 1, A(0), _u("bob", 0, "", ""), 0, "bob"], [11, 3, A(0), _u("bob", 0, "", ""), 0, "eve"], [3, "eve", PWS["eve"]]]],
    # tokens: superseded, refresh-as-access, expiry on both clocks, deleted user, roles
    [_env, [[3, "bob", PWS["bob"]], [4, R(0)], [10, 0, "/a/b", A(0), 0], [10, 0, "/a/b", A(1), 0], [10, 0, "/a/b", R(1), 0], [4, A(1)], [2, 7000],
            [10, 1, "/a/b", A(1), 0], [2, 200], [10, 1, "/a/b", A(1), 0], [4, R(1)], [11, 1, A(2), _u("bob", 0, "", ""), 0, "bob"],
            [3, "root", PWS["root"]], [11, 1, A(3), _u("bob", 0, "", ""), 0, "bob"], [11, 0, A(2), _u("bob", 0, "", ""), 0, "bob"],
            [2, 604800], [4, R(2)], [4, R(3)]]],
]

REGRESSIONS_RAW += [
    # a caller with a valid token of its own names somebody else in the header the interceptors use internally
    [_env, [[3, "bob", PWS["bob"]], [10, 0, "/x", A(0), 0, _F("root")], [10, 1, "/x", A(0), 0, _F("ann", "User_Name_In_Token")],
            [10, 2, "/x", A(0), 1, _F("ROOT", "USER_NAME_IN_TOKEN")], [11, 1, A(0), _u("bob", 0, "", ""), 0, "bob", _F("root")],
            [11, 2, A(0), _u("bob", 1, "*", "*"), 1, "bob", _F("root") + _F("root", "User_name_in_token")],
            [11, 3, A(0), _u("bob", 0, "", ""), 0, "ann", _F("root")], [7, 3, "/x", A(0), 0, _F("root")],
            [7, 0, "/x", A(0), 0, _F("ann")], [8, 0, 1, "/x"], [7, 1, "/x", A(0), 0, _F("ann")], [9, 1, 1, "/x"],
            [10, 0, "/a/b", A(0), 0, _F("eve")], [10, 0, "/a/b", A(0), 0, _F("nobody")], [10, 0, "/a/b", [0], 0, _F("root")]]],
    # ... and may not borrow rights over a WebSocket session either: upgraded on a path of its own, acts as the named user
    [_env, [[3, "bob", PWS["bob"]], [7, 0, "/a/b", A(0), 0, _F("ann")], [8, 0, 2, "/p/q"], [8, 0, 4, "/p/q"], [8, 0, 6, "/p/q"],
            [8, 0, 1, "/a/b"], [3, "ann", PWS["ann"]], [7, 1, "/x", A(1), 0, []], [7, 2, "/x", A(0), 1, _F("ann")], [7, 2, "/x", A(1), 1, _F("bob")]]],
]
_env2 = [[_u("bob", 0, "/a/b/*", "/a/b/*"), _u("eve", 0, "", "/a/+"), _u("ann", 0, "/p/*", "/x")], ["/a", "/a/b", "/x"], WATCH]
REGRESSIONS_RAW += [
    # the right is needed on the stream that is served, however its path is spelled: spellings that start inside a
    # subtree the caller has a right to and leave it, on every entry point
    [_env2, [[5], [6, 0, 1, "/a/b/../../x", _c("bob")], [6, 0, 1, "/a/b//.././../x", _c("bob")], [6, 0, 1, "/A/B/../c/../../X ", _c("bob")],
             [6, 0, 1, "/a/b/..", _c("bob")], [6, 0, 1, "/a/b/zz/..", _c("bob")], [6, 0, 3, "/a/b", _c("bob")], [6, 0, 5, "/a/b", _c("bob")],
             [5], [6, 1, 2, "/a/b/../x", _c("bob")], [6, 1, 4, "/x", _c("bob")], [6, 1, 6, "/x", _c("bob")],
             [6, 1, 2, "/a/b/q/../r", _c("bob")], [6, 1, 4, "/a/b/r", _c("bob")], [6, 1, 6, "/a/b/r", _c("bob")]]],
    [_env2, [[3, "bob", PWS["bob"]], [10, 0, "/a/b/..", A(0), 0], [10, 1, "/a/b/..", A(0), 0], [10, 0, "/a/b/../../x", A(0), 0], [10, 0, "/a/b/.", A(0), 0],
             [10, 0, "/A/B ", A(0), 0], [10, 2, "/a/b", A(0), 1], [10, 2, "/a/b/..", A(0), 1], [7, 3, "/a/b/..", A(0), 0], [7, 3, "/a//b", A(0), 0],
             [7, 0, "/A/b", A(0), 0], [8, 0, 1, "/x"], [8, 0, 2, "/a/b/../../x"], [8, 0, 2, "/a/b/c/../d"], [7, 1, "/a/b ", A(0), 0], [7, 2, "/A/B", A(0), 2],
             [9, 2, 1, "/x"], [9, 2, 3, "/x"], [9, 2, 5, "/x"], [3, "eve", PWS["eve"]], [10, 0, "/a", A(1), 0], [10, 0, "/a/b", A(1), 0], [10, 0, "/a/b/..", A(1), 0]]],
]
_env4 = [[_u("bob", 0, "", "/a/b"), _u("eve", 0, "", "/a/b/+"), _u("ann", 0, "", "/a/b/3;/p/q/2"), _u("root", 1, "", "")], ["/a/b", "/x"], WATCH]
REGRESSIONS_RAW += [
    # the interceptor and the handler read the URL separately: whatever the spelling of extension and sequence number,
    # what is served is a segment / playlist / FLV of the stream the right was checked on
    [_env4, [[3, "bob", PWS["bob"]], [3, "eve", PWS["eve"]], [3, "ann", PWS["ann"]],
             [12, "/streams/a/b/3.ts", A(0)], [12, "/streams/a/b/3.ts", A(1)], [12, "/streams/a/b/3.TS", A(1)], [12, "/streams/a/b/3.Ts", A(2)],
             [12, "/streams/a/b/3.tS", A(1)], [12, "/streams/a/b/3.TS", A(0)], [12, "/streams/a/b/+3.ts", A(0)], [12, "/streams/a/b/03.ts", A(0)],
             [12, "/streams/a/b/-3.ts", A(0)], [12, "/streams/a/b/3.ts.ts", A(0)], [12, "/streams/a/b/3.ts/", A(1)], [12, "/streams/a/b/.ts", A(0)],
             [12, "/streams/a/b.M3U8", A(0)], [12, "/streams/a/b.FLV", A(0)], [12, "/streams/a/b/3.M3U8", A(1)], [12, "/streams/a/b/3.flv", A(1)],
             [12, "/streams/A/B.m3u8", A(0)], [12, "/streams/a/b.flv", A(0)], [12, "/streams/a/b/3.m3u8", A(0)], [12, "/streams/a/b/x/../3.ts", A(0)],
             [12, "/streams/a/b/9.ts", A(0)], [12, "/streams/x/2.TS", A(2)], [12, "/streams/a/b/3.ts", [0]], [12, "/streams/a/b/3.TS", [3, "zz"]]]],
]
def _pad(c):
    for e in c[1]:
        if e[0] == 12 and len(e) < 4:
            e.append([])
        if e[0] in (7, 10) and len(e) < 6:
            e.append([])
        if e[0] == 11 and len(e) < 7:
            e.append([])
    return c
REGRESSIONS = [_pad(c) for c in REGRESSIONS_RAW]

_env3 = [[_u("eve", 0, "/a/+", "/a/+")], ["/a"], WATCH]
UNSETTLED = [
    [_env3, [[5], [6, 0, 1, "/a", _c("eve")], [6, 0, 1, "/a/. /x/..", _c("eve")], [6, 0, 3, "/a", _c("eve")], [6, 0, 5, "/a", _c("eve")]]],
    [_env3, [[5], [6, 0, 2, "/a", _c("eve")], [6, 0, 2, "/a/. /x/..", _c("eve")], [6, 0, 4, "/a", _c("eve")], [6, 0, 6, "/a", _c("eve")]]],
]
