"""C05 — one live stream per path; replace/unregister/idle-close keep the registry consistent."""
SPELL = {"a": ["/a", "/A", " /a ", "a", "/a/.", "//a", "/x/../a"], "b": ["/b/c", "/B/c", "b/c", "/b//c", "/b/./C "],
         "c": ["/a/b", "/A/B", "a/b/"]}

def gen_case(rng, nops, variant):
    ops, nstreams = [], 0
    for k in range(nops):
        r = rng.random()
        # shutdown (media.UnregistAll): rare, usually near the end of the history
        if nstreams > 0 and rng.random() < (0.2 if k >= nops - 3 else 0.01):
            ops.append([10, 0])
        elif r < 0.2 or nstreams == 0:
            ops.append([0, rng.choice(SPELL[rng.choice("abc")]), rng.random() < 0.6]); nstreams += 1
        elif r < 0.42:
            i = rng.randrange(nstreams)
            ops.append([1, i])
        elif r < 0.5:
            ops.append([2, rng.randrange(nstreams)])
        elif r < 0.57:
            ops.append([3, rng.randrange(nstreams)])
        elif r < 0.72:
            ops.append([4, rng.choice(SPELL[rng.choice("abc")])])
        elif r < 0.77:
            ops.append([5, 0])
        elif r < 0.8:
            ops.append([6, 0])
        elif r < 0.9:
            ops.append([7, rng.randrange(nstreams), rng.random() < 0.4])
        elif r < 0.94:
            ops.append([8, rng.randrange(nstreams), rng.random() < 0.4])
        else:
            ops.append([9, rng.randrange(nstreams), rng.random() < 0.4])
    return [variant, ops]

# the shape that matters to replacement: publisher A (consumers), replaced by B (and C) under another spelling,
# the replaced publishers leaving late, then an end that goes through the registry (shutdown, further publisher, …)
def reg_shape(rng):
    sp = SPELL[rng.choice("abc")]
    ops = []
    def attach(i):
        for _ in range(rng.randint(0, 3)):
            ops.append([7, i, rng.random() < 0.4])
        if rng.random() < 0.3:
            ops.append([8, i, rng.random() < 0.4])
    ops.append([0, rng.choice(sp), rng.random() < 0.5]); ops.append([1, 0]); attach(0)
    nb = rng.randint(1, 2)
    for b in range(1, nb + 1):
        ops.append([0, rng.choice(sp), rng.random() < 0.5]); ops.append([1, b]); attach(b)
    for a in range(nb):                      # the replaced publishers leave late
        r = rng.random()
        if r < 0.6:
            ops.append([2, a])
        elif r < 0.75:
            ops.append([3, a])
        elif r < 0.85:
            ops.append([9, a, False])
    if rng.random() < 0.5:
        ops.append([4, rng.choice(sp)])
    if rng.random() < 0.3:
        attach(nb)
    r = rng.random()                         # the end
    if r < 0.6:
        ops.append([10, 0])
    elif r < 0.75:
        ops.append([0, rng.choice(sp), rng.random() < 0.5]); ops.append([1, nb + 1])
        if rng.random() < 0.5:
            ops.append([10, 0])
    elif r < 0.85:
        ops.append([2, nb])
    elif r < 0.92:
        ops.append([9, nb, False])
    if rng.random() < 0.3:                   # a stray operation somewhere
        extra = gen_case(rng, 1, [1, 1])[1][0]
        if extra[0] != 0 and (len(extra) < 2 or not isinstance(extra[1], int) or extra[1] <= nb):
            ops.insert(rng.randrange(2, len(ops) + 1), extra)
    return [[1, 1], ops]

def run(ck):
    if not ck.prepare():
        return ck.finish(rule="build failed")
    rng = ck.rng
    n = 4000 if ck.thorough else 400
    def shaped():
        v, ops = reg_shape(rng)
        g = next((k for k, sp in SPELL.items() if ops[0][1] in sp), "a")
        return [v, ops + [[4, rng.choice(SPELL[g])], [5, 0], [6, 0]]]       # what lookup, counts and listing say afterwards
    raw = [gen_case(rng, rng.randint(4, 40 if ck.thorough else 14), [1, 1]) if rng.random() < 0.75 else shaped()
           for _ in range(3 * n)]
    import vlib
    wf = vlib.run_driver("C05", "C05_wf", [vlib.vs(c) for c in raw])
    cases = [c for c, w in zip(raw, wf) if w == "1"][:n]     # only live streams are registered
    ck.extra["wellformed_fraction"] = round(sum(1 for w in wf if w == "1") / len(wf), 3)
    ck.stream("histories", cases, "C05_run", "C05", "C05_ok",
              nontrivial=lambda c: sum(1 for o in c[1] if o[0] == 1) >= 2 and any(o[0] == 4 for o in c[1]),
              sig=lambda c, e, o: "registry-history")
    return ck.finish(rule="75% random, 25% replacement-shaped (publisher replaced under another spelling, old publisher leaves late, "
                          "registry-borne end, then lookup / count / list) histories of new/regist/unregist/close/get/count/list/attach/detach/idle-tick/unregist-all over three paths in "
                          "several spellings on the real media package (only live streams are registered: hist_wf); "
                          "non-trivial = at least two registrations and one lookup; the observation ends with the per-stream vector "
                          "(live, successful attaches, Consumer.Close calls recorded by the attached consumers)")
