"""C05 — one live stream per path; replace/unregister/idle-close keep the registry consistent."""
import random as _random

# Spellings of one canonical path, covering every feature of utils.CanonicalPath: letter case, a missing leading
# slash, blanks (space, tab) at the edges, "//", "/./", "/x/../" (x possibly blank-edged) between segments, and a
# tail — for a path without trailing slash: nothing, "/.", "/x/..", " /x/.." (the blank left by resolving ".." is
# trimmed by the next pass); for a path with trailing slash: "/", "//", "/./", "/x/../", "/.//" — each combined with
# the others.  Whether two spellings really are one key is decided by the Gallina canonical_path, not here.
def respell(rng, segs, trailing):
    out = ""
    for k, seg in enumerate(segs):
        sep = rng.choice(["/", "/", "/", "//", "/./", "/x/../", "/ y /../", "/.//"])
        if k == 0 and rng.random() < 0.25:
            sep = ""                                   # missing leading slash
        out += sep + "".join(ch.upper() if rng.random() < 0.3 else ch for ch in seg)
    if trailing:
        out += rng.choice(["/", "/", "//", "/./", "/x/../", "/.//", "/X/..//"])
    else:
        out += rng.choice(["", "", "", "/.", "/x/..", " /x/..", "/./."])
    return rng.choice(["", "", "", " ", "\t", "  "]) + out + rng.choice(["", "", "", " ", "\t ", "  "])

def _spellings(seed, segs, trailing, fixed):
    r = _random.Random(seed)
    return fixed + [respell(r, segs, trailing) for _ in range(40)]

SPELL = {"a": _spellings(1, ["a"], False, ["/a", "/A", " /a ", "a", "/a/.", "//a", "/x/../a"]),
         "b": _spellings(2, ["b", "c"], False, ["/b/c", "/B/c", "b/c", "/b//c", "/b/./C "]),
         "c": _spellings(3, ["a", "b"], True, ["/a/b/", "/A/B/", "a/b/", "/a/b//", "/a/b/./", "/a/b/x/../", " /A//b/.// "]),
         "d": _spellings(4, ["live", "door"], True, ["/live/door/", "/LIVE/door/tmp/..//", "/live/door/./", "/live/door/x/../"])}

FIXED = [1, 1, 1]      # (close unmaps, idle counts every consumer kind, every playlist request is an access)

def gen_case(rng, nops, variant):
    ops, nstreams = [], 0
    for k in range(nops):
        r = rng.random()
        # shutdown (media.UnregistAll): rare, usually near the end of the history
        if nstreams > 0 and rng.random() < (0.2 if k >= nops - 3 else 0.01):
            ops.append([10, 0])
        elif r < 0.2 or nstreams == 0:
            ops.append([0, rng.choice(SPELL[rng.choice("abcd")]), rng.random() < 0.6]); nstreams += 1
        elif r < 0.42:
            i = rng.randrange(nstreams)
            ops.append([1, i])
        elif r < 0.5:
            ops.append([2, rng.randrange(nstreams)])
        elif r < 0.57:
            ops.append([3, rng.randrange(nstreams)])
        elif r < 0.72:
            ops.append([4, rng.choice(SPELL[rng.choice("abcd")])])
        elif r < 0.77:
            ops.append([5, 0])
        elif r < 0.8:
            ops.append([6, 0])
        elif r < 0.9:
            ops.append([7, rng.randrange(nstreams), rng.random() < 0.4])
        elif r < 0.94:
            ops.append([8, rng.randrange(nstreams), rng.random() < 0.4])
        elif r < 0.965:
            ops.append([9, rng.randrange(nstreams), rng.choice([0, 0, 1, 2, 3, 5])])   # idle decision with a period (ticks)
        elif r < 0.978:
            ops.append([11, rng.randint(0, 4)])                                        # the clock
        elif r < 0.986:
            ops.append([12, rng.randrange(nstreams)])                                  # a finished HLS segment
        elif r < 0.995:
            ops.append([13, rng.randrange(nstreams)])                                  # playlist request
        elif r < 0.998:
            ops.append([14, rng.randrange(nstreams), rng.randint(0, 4)])               # segment request
        else:
            ops.append([15, 0])                                                        # the pending retire tasks fire
    return [variant, ops]

# the registry's own tasks: A with viewers is replaced by B (Regist posts the retire task for A); the scheduler fires the
# pending tasks while A's viewers are attached, and again after they have left; B with or without viewers / HLS / age
def retire_shape(rng, variant):
    sp = SPELL[rng.choice("abcd")]
    ops = [[0, rng.choice(sp), rng.random() < 0.4], [1, 0]]
    kinds = [rng.random() < 0.4 for _ in range(rng.randint(1, 3))]
    ops += [[7, 0, k] for k in kinds]
    ops += [[0, rng.choice(sp), rng.random() < 0.4], [1, 1]]
    if rng.random() < 0.4:
        ops.append([7, 1, rng.random() < 0.4])
    def fire():
        if rng.random() < 0.6:
            ops.append([11, rng.choice([0, 4, 5, 6])])
        ops.append([15, 0])
        ops.append([4, rng.choice(sp)])
    fire()
    if rng.random() < 0.85:
        for k in kinds:
            ops.append([8, 0, k])
    if rng.random() < 0.3:
        ops += [[0, rng.choice(sp), rng.random() < 0.4], [1, 2]]       # a third publisher
    fire()
    ops.append([5, 0])
    if rng.random() < 0.3:
        ops.append([11, 5]); ops.append([15, 0]); ops.append([4, rng.choice(sp)])
    return [variant, ops]

# HLS viewers only: a stream (usually with a playlist) is polled in every playlist state (0..4+ segments), segments
# are fetched, the clock ticks, and the idle task runs with a period around the time since the last access
def hls_shape(rng, variant):
    sp = SPELL[rng.choice("abcd")]
    ops = [[0, rng.choice(sp), rng.random() < 0.9], [1, 0]]
    p = rng.randint(1, 6)
    for _ in range(rng.choice([0, 0, 0, 1, 2, 2, 3, 4, 5])):     # mostly not yet servable (fewer than 3 segments)
        ops.append([12, 0])
    for _ in range(rng.randint(2, 9)):
        r = rng.random()
        if r < 0.32:
            ops.append([11, rng.randint(0, p)])
        elif r < 0.52:
            ops.append([13, 0])
        elif r < 0.62:
            ops.append([14, 0, rng.randint(0, 5)])
        elif r < 0.68:
            ops.append([12, 0])
        elif r < 0.77:
            ops.append([7, 0, rng.random() < 0.4])
        elif r < 0.82:
            ops.append([8, 0, rng.random() < 0.4])
        else:
            ops.append([9, 0, p if rng.random() < 0.7 else rng.randint(0, 6)])
    # the decisive end: an access (or none), less or not less than a period of ticks, the decision, what lookup says
    if rng.random() < 0.75:
        ops.append(rng.choice([[13, 0], [13, 0], [14, 0, rng.randint(0, 5)]]))
    ops.append([11, rng.choice([p - 1, p - 1, p, rng.randint(0, p + 1)])])
    ops += [[9, 0, p], [4, rng.choice(sp)], [5, 0]]
    return [variant, ops]

# the shape that matters to replacement: publisher A (consumers), replaced by B (and C) under another spelling,
# the replaced publishers leaving late, then an end that goes through the registry (shutdown, further publisher, …)
def reg_shape(rng):
    sp = SPELL[rng.choice("abcd")]
    ops = []
    def attach(i):
        for _ in range(rng.randint(0, 3)):
            ops.append([7, i, rng.random() < 0.4])
        if rng.random() < 0.3:
            ops.append([8, i, rng.random() < 0.4])
    ops.append([0, rng.choice(sp), rng.random() < 0.5]); ops.append([1, 0]); attach(0)
    nb = rng.randint(1, 2)
    for b in range(1, nb + 1):
        ops.append([0, rng.choice(sp), rng.random() < 0.5]); ops.append([1, b]); attach(b)
    for a in range(nb):                      # the replaced publishers leave late
        r = rng.random()
        if r < 0.6:
            ops.append([2, a])
        elif r < 0.75:
            ops.append([3, a])
        elif r < 0.85:
            ops.append([9, a, False])
    if rng.random() < 0.5:
        ops.append([4, rng.choice(sp)])
    if rng.random() < 0.3:
        attach(nb)
    r = rng.random()                         # the end
    if r < 0.6:
        ops.append([10, 0])
    elif r < 0.75:
        ops.append([0, rng.choice(sp), rng.random() < 0.5]); ops.append([1, nb + 1])
        if rng.random() < 0.5:
            ops.append([10, 0])
    elif r < 0.85:
        ops.append([2, nb])
    elif r < 0.92:
        ops.append([9, nb, False])
    if rng.random() < 0.3:                   # a stray operation somewhere
        extra = gen_case(rng, 1, FIXED)[1][0]
        if extra[0] != 0 and (len(extra) < 2 or not isinstance(extra[1], int) or extra[1] <= nb):
            ops.insert(rng.randrange(2, len(ops) + 1), extra)
    return [FIXED, ops]

def run(ck):
    if not ck.prepare():
        return ck.finish(rule="build failed")
    rng = ck.rng
    n = 4000 if ck.thorough else 400
    def shaped():
        v, ops = reg_shape(rng)
        g = next((k for k, sp in SPELL.items() if ops[0][1] in sp), "a")
        return [v, ops + [[4, rng.choice(SPELL[g])], [5, 0], [6, 0]]]       # what lookup, counts and listing say afterwards
    def one():
        r = rng.random()
        if r < 0.6:
            return gen_case(rng, rng.randint(4, 40 if ck.thorough else 14), FIXED)
        if r < 0.73:
            return shaped()
        return hls_shape(rng, FIXED) if r < 0.87 else retire_shape(rng, FIXED)
    raw = [one() for _ in range(3 * n)]
    import vlib
    wf = vlib.run_driver("C05", "C05_wf", [vlib.vs(c) for c in raw])
    cases = [c for c, w in zip(raw, wf) if w == "1"][:n]     # only live streams are registered
    ck.extra["wellformed_fraction"] = round(sum(1 for w in wf if w == "1") / len(wf), 3)
    ck.stream("histories", cases, "C05_run", "C05", "C05_ok",
              nontrivial=lambda c: sum(1 for o in c[1] if o[0] == 1) >= 2 and any(o[0] == 4 for o in c[1]),
              sig=lambda c, e, o: "registry-history")
    # consumer ids: media.NewCID against Model/C05Cid.v on seeds around every boundary of the 30-bit sequence
    M = 0x3fffffff
    cc = []
    for t in (0, 1):
        for s in [0, 1, 2, 5, 1000, M - 3, M - 2, M - 1, M, M + 1, M + 2, 2 * M, 2 * M + 1, 2 * M + 2, (1 << 31) - 3, (1 << 31) - 2,
                  (1 << 31) - 1, 1 << 31, (1 << 31) + 5, 3 * (M + 1) - 2, 3 * (M + 1), (1 << 32) - 3, (1 << 32) - 2]:
            cc.append([t, s])
        for _ in range(2000 if ck.thorough else 150):
            cc.append([t, rng.choice([rng.randrange(0, M + 3), rng.randrange(0, (1 << 32) - 1), M - rng.randrange(0, 40)])])
    ck.stream("consumer-ids", cc, "C05_cid_run", "C05_cid", "C05_cid_ok", nontrivial=lambda c: c[1] >= M - 40,
              sig=lambda c, e, o: "consumer-id-type", sample=2)
    return ck.finish(rule="consumer ids: media.NewCID on both packet types and seeds 0..2^32-2 (dense around 2^30-1, 2^31-1, 3*2^30) judged by the oracle of "
                          "C05_consumer_id_keeps_its_type; histories: 60% random, 13% retire-task-shaped (a stream with viewers is replaced, the scheduler's pending idle-close jobs are run — "
                          "scheduler.Jobs() / Job().Run() — before and after the viewers leave), 14% HLS-shaped (a stream with a playlist polled in every playlist state, segment fetches, clock "
                          "ticks, the idle decision with a period around the time since the last access, then lookup / count), 13% replacement-shaped (publisher replaced under another spelling, old publisher leaves late, "
                          "registry-borne end, then lookup / count / list) histories of new/regist/unregist/close/get/count/list/attach/detach/idle-decision(period)/unregist-all/clock-tick/hls-segment/playlist-request/segment-request over three paths in "
                          "several spellings on the real media package (only live streams are registered: hist_wf); "
                          "non-trivial = at least two registrations and one lookup; the observation ends with the per-stream vector "
                          "(live, successful attaches, Consumer.Close calls recorded by the attached consumers)")
