"""C03 — every consumer is released when its stream ends or it is stopped."""
import os, sys
sys.path.insert(0, os.path.dirname(__file__))
import ltsgen as G

VARIANT = G.FIXED

def run(ck):
    if not ck.prepare():
        return ck.finish(rule="build failed")
    rng = ck.rng
    n = 1500 if ck.thorough else 150
    cases = [G.rand_case(rng, VARIANT) for _ in range(n)]
    ck.stream("random-schedules", cases, "C03_lts", "C03_lts", "C03_ok", sig=lambda c, e, o: "lts")
    return ck.finish(rule="random schedules")
