"""C03 — every consumer is released when its stream ends or it is stopped."""
import os, sys
sys.path.insert(0, os.path.dirname(__file__))
import ltsgen as G

P, K, A, S, C = G.PUB, G.CLOSE, G.ATT, G.STOP, G.CONS

def witness_cases(var):
    """the schedules that broke the code before the repairs (D2, D3, D4) and the attach-during-close windows,
    for every way a stream ends (closed, replaced, idle), RTP and FLV consumers"""
    out = []
    for flv in (False, True):
        for how in (1, 2, 3):
            base = lambda stop, sched: [var, 1, 1000, True, [], [stop], sched + G.drain(1, 3), [0], flv, how, False]
            out.append(base(0, [[A, 0]] * 3 + [[K, 0]] * 3 + [[C, 0]] * 3))                 # lost wake-up window
            out.append(base(0, [[K, 0]] * 3 + [[A, 0]] * 3 + [[C, 0]] * 3))                 # attach after close
            out.append(base(1, [[A, 0]] * 3 + [[S, 0]] + [[K, 0]] * 3 + [[S, 0]]))          # stop racing with the sweep
            for i in range(4):                                                              # close inside the attach
                for j in range(3):
                    out.append(base(0, [[A, 0]] * i + [[K, 0]] * (j + 1) + [[A, 0]] * (3 - i) + [[K, 0]] * (2 - j)))
    return out

def run(ck):
    if not ck.prepare():
        return ck.finish(rule="build failed")
    rng = ck.rng
    ck.stream("witness-schedules", witness_cases(G.FIXED), "C03_lts", "C03_lts", "C03_ok", sig=lambda c, e, o: "lts")
    n = 1500 if ck.thorough else 120
    cases = []
    for _ in range(n):
        c = G.rand_case(rng, G.FIXED)
        if rng.random() < 0.7:        # let every thread come to rest, so that the release clauses of the oracle apply
            c[6] = c[6] + G.drain(c[1], 3)
        cases.append(c)
    ck.stream("random-schedules", cases, "C03_lts", "C03_lts", "C03_ok",
              nontrivial=lambda c: c[1] >= 2 or len(c[6]) > 30, sig=lambda c, e, o: "lts", timeout=1500)
    transport_release(ck)
    return ck.finish(rule="(3) transport adapters: " + RELEASE_RULE + " (1) the three pre-repair witness schedules and every placement of the close inside an attach, for each "
                          "way a stream ends (Close, replaced, idle) and for RTP and FLV consumers; (2) random schedules of publisher / "
                          "closer / attach / stop / delivery goroutines (1-3 consumers, scripted consumer panics), 70% followed by a fair "
                          "drain so that the threads come to rest; all replayed through the schedule points on a real media.Stream")


# ---------------------------------------------------------------- transport adapters
import trgen as T

RELEASE_RULE = ("1-3 real clients of mixed transports (RTSP/TCP, RTSP/UDP, ws-rtsp, WSP, HTTP-FLV, ws-FLV) attach to a registered "
                "media.Stream at scripted positions of a 4-14 packet script, some stop mid-stream (TEARDOWN or dropped connection), "
                "then the stream ends (Close / replaced / idle); after every event: stream.ConsumerCount, the active RTSP / FLV / WSP "
                "connection counters relative to their values before the first attach, which connections have ended (EOF at the "
                "client), media.Count; the oracle ok_release demands the release specification's run exactly.")

def transport_release(ck):
    rng = ck.rng
    n = 900 if ck.thorough else 70
    pool = [T.TCP, T.TCP, T.UDP, T.WSRTSP, T.WSP, T.HTTPFLV, T.WSFLV]
    cases = [T.gen_case(rng, False, pool, max_pkts=10, allow_big=False) for _ in range(n)]
    ck.stream("transport-release", cases, None, "C03_transports", "C03_wire_ok", compare=False,
              nontrivial=lambda c: len(c[2]) >= 2 or any(e[0] == 2 for e in c[3]),
              sig=lambda c, e, o: "release-" + "-".join(sorted({str(cl[0]) for cl in c[2]})), timeout=1500)


# ---------------------------------------------------------------- stream ends that go through the registry
# (appended block; model / oracle: coq/Run/RunC03Reg.v, theorems C03_registry_end_releases, C03_reg_model_passes;
#  harness command C03_reg = harness/reghist, shared with C05)
import c05 as C5

REG_RULE = ("histories of registry operations on the real media package with recording consumers (new / regist / unregist / close / "
            "get / attach / detach / idle-tick / unregist-all; the C05 wire format and model): 60% of the shape publisher A with "
            "consumers, replaced by B (and C) on another spelling of the path with consumers, the replaced publishers leaving late "
            "(Unregist / Close / idle tick), then a stream end that goes through the registry (shutdown = UnregistAll, a further "
            "publisher, Unregist or idle tick of the last one), 40% random; at the end per stream (live, successful attaches, "
            "Consumer.Close calls recorded); the oracle ok_reg_end_C03 demands that the Close calls of every stream equal "
            "`released` in the specification's end state: all consumers of an ended stream, the detached ones of a live stream.")

reg_shape = C5.reg_shape      # publisher replaced, old publisher leaves late, a registry-borne end (defined next to C05's generator)

def registry_ends(ck):
    import vlib
    rng = ck.rng
    n = 3000 if ck.thorough else 300
    raw = []
    for _ in range(2 * n):
        if rng.random() < 0.6:
            raw.append(reg_shape(rng))
        else:
            raw.append(C5.gen_case(rng, rng.randint(4, 30 if ck.thorough else 14), [1, 1]))
    try:
        wf = vlib.run_driver("C03", "C03_reg_wf", [vlib.vs(c) for c in raw])
    except vlib.Broken as b:
        ck.broken.append(b)
        return
    cases = [c for c, w in zip(raw, wf) if w == "1"][:n]      # only live streams are registered (hist_wf)
    ck.stream("registry-ends", cases, "C03_reg_run", "C03_reg", "C03_reg_ok",
              nontrivial=lambda c: sum(1 for o in c[1] if o[0] == 1) >= 2 and any(o[0] == 7 for o in c[1])
                                   and any(o[0] in (2, 10) for o in c[1]),
              sig=lambda c, e, o: "registry-ends", timeout=900)

_transport_release_before_registry = transport_release
def transport_release(ck):
    _transport_release_before_registry(ck)
    registry_ends(ck)

RELEASE_RULE = RELEASE_RULE + " (5) stream ends through the registry: " + REG_RULE
