"""C03 — every consumer is released when its stream ends or it is stopped."""
import os, sys
sys.path.insert(0, os.path.dirname(__file__))
import ltsgen as G

P, K, A, S, C = G.PUB, G.CLOSE, G.ATT, G.STOP, G.CONS

def witness_cases(var):
    """the schedules that broke the code before the repairs (D2, D3, D4) and the attach-during-close windows,
    for every way a stream ends (closed, replaced, idle), RTP and FLV consumers"""
    out = []
    for flv in (False, True):
        for how in (1, 2, 3):
            base = lambda stop, sched: [var, 1, 1000, True, [], [stop], sched + G.drain(1, 3), [0], flv, how, False]
            out.append(base(0, [[A, 0]] * 3 + [[K, 0]] * 3 + [[C, 0]] * 3))                 # lost wake-up window
            out.append(base(0, [[K, 0]] * 3 + [[A, 0]] * 3 + [[C, 0]] * 3))                 # attach after close
            out.append(base(1, [[A, 0]] * 3 + [[S, 0]] + [[K, 0]] * 3 + [[S, 0]]))          # stop racing with the sweep
            for i in range(4):                                                              # close inside the attach
                for j in range(3):
                    out.append(base(0, [[A, 0]] * i + [[K, 0]] * (j + 1) + [[A, 0]] * (3 - i) + [[K, 0]] * (2 - j)))
    return out

def run(ck):
    if not ck.prepare():
        return ck.finish(rule="build failed")
    rng = ck.rng
    ck.stream("witness-schedules", witness_cases(G.FIXED), "C03_lts", "C03_lts", "C03_ok", sig=lambda c, e, o: "lts")
    n = 1500 if ck.thorough else 120
    cases = []
    for _ in range(n):
        c = G.rand_case(rng, G.FIXED)
        if rng.random() < 0.7:        # let every thread come to rest, so that the release clauses of the oracle apply
            c[6] = c[6] + G.drain(c[1], 3)
        cases.append(c)
    ck.stream("random-schedules", cases, "C03_lts", "C03_lts", "C03_ok",
              nontrivial=lambda c: c[1] >= 2 or len(c[6]) > 30, sig=lambda c, e, o: "lts", timeout=1500)
    transport_release(ck)
    return ck.finish(rule="(3) transport adapters: " + RELEASE_RULE + " (1) the three pre-repair witness schedules and every placement of the close inside an attach, for each "
                          "way a stream ends (Close, replaced, idle) and for RTP and FLV consumers; (2) random schedules of publisher / "
                          "closer / attach / stop / delivery goroutines (1-3 consumers, scripted consumer panics), 70% followed by a fair "
                          "drain so that the threads come to rest; all replayed through the schedule points on a real media.Stream")


# ---------------------------------------------------------------- transport adapters
import trgen as T

RELEASE_RULE = ("1-3 real clients of mixed transports (RTSP/TCP, RTSP/UDP, multicast, ws-rtsp, WSP, HTTP-FLV, ws-FLV) attach to a registered "
                "media.Stream at scripted positions of a 4-14 packet script, some stop mid-stream (TEARDOWN or dropped connection), "
                "in 40% of the cases a second publisher registers the same path while the first client is attached (the old stream is retired "
                "but alive; consumer ids are per stream) and the first client leaves later; "
                "then the streams end (Close / replaced / idle); after every event: ConsumerCount of every stream generation, the active RTSP / FLV / WSP "
                "connection counters relative to their values before the first attach, which connections have ended (EOF at the "
                "client), media.Count; the oracle ok_release demands the release specification's run exactly.")

def cycle_cases(rng, thorough):
    """repeated use cycles on one live stream (trgen.gen_cycle_case): for every transport that can be stopped
    mid-stream a join / leave / join history, ending by the last client leaving or by the stream ending while it is
    attached; the multicast proxy (one consumer of the stream on behalf of the members, started by the first
    member, stopped by the last) with both endings and three cycles in every run"""
    out = []
    for i, k in enumerate((T.TCP, T.UDP, T.WSRTSP, T.WSP, T.WSFLV)):
        out.append(T.gen_cycle_case(rng, False, [k, k], max_pkts=8, last_stops=(i % 2 == 0) ^ (rng.random() < 0.5)))
    out.append(T.gen_cycle_case(rng, False, [T.MCAST, T.MCAST], max_pkts=8, last_stops=True))
    out.append(T.gen_cycle_case(rng, False, [T.MCAST, T.MCAST], max_pkts=8, last_stops=False))
    out.append(T.gen_cycle_case(rng, False, [T.MCAST, T.MCAST, T.MCAST], max_pkts=9))
    pool = [T.TCP, T.UDP, T.WSRTSP, T.WSP, T.HTTPFLV, T.WSFLV, T.MCAST]
    for _ in range(120 if thorough else 4):      # mixed transports, one after the other
        out.append(T.gen_cycle_case(rng, False, [rng.choice(pool) for _ in range(rng.choice((2, 3)))], max_pkts=10))
    return out

def transport_release(ck):
    rng = ck.rng
    n = 900 if ck.thorough else 70
    pool = [T.TCP, T.TCP, T.UDP, T.WSRTSP, T.WSP, T.HTTPFLV, T.WSFLV, T.MCAST]
    # 40%: a second publisher registers the path while the first client is attached to the old stream
    # (which lives on while it has consumers); later clients attach to the new stream; the first one leaves
    cases = cycle_cases(rng, ck.thorough)
    cases += [T.gen_case(rng, False, pool, max_pkts=10, allow_big=False, replace_p=0.4) for _ in range(n - len(cases) // 2)]
    ck.stream("transport-release", cases, None, "C03_transports", "C03_wire_ok", compare=False,
              nontrivial=lambda c: len(c[2]) >= 2 or any(e[0] == 2 for e in c[3]),
              sig=lambda c, e, o: "transport-release", timeout=1500)


# ---------------------------------------------------------------- conversion goroutines
# (appended; run() calls transport_release by name, which is extended at the end of this file)
W, CL, PR = 0, 1, 2     # harness-granularity steps: worker, closer (Close in one piece), producer (one Push)

CONV_RULE = ("schedules of the conversion-goroutine LTS (Model/C03Worker.v: worker / closer / producer) replayed through the "
             "points worker.pop / worker.got on real rtp.Demuxer, flv.Muxer and mpegts.Muxer values with a recording sink: the "
             "computed lost-wake-up schedule (worker parked between its closed test and Pop while Close runs to completion), "
             "Close on a waiting worker, Close with items queued (dropped), items pushed behind the nil, no Close at all, for "
             "each converter; random schedules over 0-6 items, 60% followed by a drain so that the worker comes to rest; observed: "
             "worker position (parked / blocked in Wait / ended), items processed, closer position, items not yet pushed; and a "
             "real media.Stream (H264+AAC): conversion goroutines in the process (runtime.Stack) before NewStream, while open and "
             "after Close, converters running free or held at worker.pop (packets queued / queue drained) while Close runs and "
             "released in every order.")

def conv_witness_cases():
    out = []
    for k in (1, 2, 3):
        base = lambda items, sched: [k, 1, items, sched]
        out.append(base([7], [PR, W, W, CL, W, W]))               # Coq's witness: Close while parked before Pop, then released
        out.append(base([], [CL, W, W]))                          # the same window with nothing ever pushed
        out.append(base([], [W, CL, W, W]))                       # Close on a worker waiting inside Pop
        out.append(base([1, 2, 3], [PR, PR, PR, W, CL, W, W]))    # Close with items queued: 2 and 3 are dropped
        out.append(base([1, 2], [PR, W, W, CL, PR, W, W]))        # item pushed behind the nil
        out.append(base([1, 2, 3], [PR, W, W, W, PR, PR, W, W, W, W, W, W]))      # no Close: everything processed, worker waits
        out.append(base([1, 2], [W, PR, CL, W, PR, W, W, W]))     # woken by a push, Close while holding an item
        out.append(base([5], [CL, PR, W, W, W]))                  # push after Close
    return out

def conv_rand_case(rng):
    k = rng.choice((1, 2, 3))
    n = rng.choice((0, 0, 1, 1, 2, 3, 4, 6))
    items = rng.sample(range(1, 5000), n)
    wts = rng.choice(((5, 1, 3), (4, 2, 4), (3, 1, 5), (6, 3, 1)))
    sched = rng.choices((W, CL, PR), weights=wts, k=rng.randrange(0, 22))
    if rng.random() < 0.6:
        tail = [PR] * n + ([CL] if rng.random() < 0.8 else []) + [W] * 3
        rng.shuffle(tail)
        sched = sched + tail + [W] * (2 * n + 3)
    return [k, 1, items, sched]

def conv_e2e_cases(rng, thorough):
    import itertools
    out = [[0, n, []] for n in (0, 3, 9)]
    orders = [list(p) for r in (0, 1, 2, 3) for p in itertools.permutations((1, 2, 3), r)]
    if not thorough:
        orders = [[], [1, 2, 3], [3, 2, 1], [2, 1, 3], [3, 1], [2]]
    for o in orders:
        out.append([1, rng.choice((0, 1, 2, 5)), o])      # held at worker.pop, the packets still queued when Close runs
        out.append([2, rng.choice((0, 1, 3, 6)), o])      # held at worker.pop on an empty queue when Close runs
    return out

def converter_goroutines(ck):
    rng = ck.rng
    n = 1500 if ck.thorough else 80
    cases = conv_witness_cases() + [conv_rand_case(rng) for _ in range(n)]
    ck.stream("converter-goroutines", cases, "C03_worker_run", "C03_worker", "C03_worker_ok",
              nontrivial=lambda c: CL in c[3] and (len(c[2]) >= 1 or W in c[3][c[3].index(CL):]),
              sig=lambda c, e, o: "converter-%d" % c[0], timeout=900)
    e2e = conv_e2e_cases(rng, ck.thorough)
    obs = ck.stream("converter-goroutines-stream", e2e, None, "C03_conv_e2e", "C03_conv_e2e_ok", compare=False,
                    nontrivial=lambda c: c[0] >= 1, sig=lambda c, e, o: "converter-stream", timeout=600)
    # the counts must have seen the goroutines while the stream was open, or the stream above shows nothing
    import vlib
    for c, o in zip(e2e, obs or []):
        try:
            v = vlib.vparse(o)
            alive = all(d > b for b, d in zip(v[0], v[1]))
        except Exception:
            alive = True          # a panic / crash marker: already rejected by the oracle
        if not alive:
            ck.fail("converter-goroutines-stream", "converter-stream-vacuous", vlib.vs(c), observed=o,
                    note="no conversion goroutine was seen while the stream was open: the goroutine count observes nothing")
            break

_transport_release_only = transport_release
def transport_release(ck):
    _transport_release_only(ck)
    converter_goroutines(ck)

RELEASE_RULE = RELEASE_RULE + " (4) conversion goroutines: " + CONV_RULE


# ---------------------------------------------------------------- stream ends that go through the registry
# (appended block; model / oracle: coq/Run/RunC03Reg.v, theorems C03_registry_end_releases, C03_reg_model_passes;
#  harness command C03_reg = harness/reghist, shared with C05)
import c05 as C5

REG_RULE = ("histories of registry operations on the real media package with recording consumers (new / regist / unregist / close / "
            "get / attach / detach / idle-tick / unregist-all; the C05 wire format and model): 60% of the shape publisher A with "
            "consumers, replaced by B (and C) on another spelling of the path with consumers, the replaced publishers leaving late "
            "(Unregist / Close / idle tick), then a stream end that goes through the registry (shutdown = UnregistAll, a further "
            "publisher, Unregist or idle tick of the last one), 40% random; at the end per stream (live, successful attaches, "
            "Consumer.Close calls recorded); the oracle ok_reg_end_C03 demands that the Close calls of every stream equal "
            "`released` in the specification's end state: all consumers of an ended stream, the detached ones of a live stream.")

reg_shape = C5.reg_shape      # publisher replaced, old publisher leaves late, a registry-borne end (defined next to C05's generator)

def registry_ends(ck):
    import vlib
    rng = ck.rng
    n = 3000 if ck.thorough else 300
    raw = []
    for _ in range(2 * n):
        if rng.random() < 0.6:
            raw.append(reg_shape(rng))
        else:
            raw.append(C5.gen_case(rng, rng.randint(4, 30 if ck.thorough else 14), C5.FIXED))
    try:
        wf = vlib.run_driver("C03", "C03_reg_wf", [vlib.vs(c) for c in raw])
    except vlib.Broken as b:
        ck.broken.append(b)
        return
    cases = [c for c, w in zip(raw, wf) if w == "1"][:n]      # only live streams are registered (hist_wf)
    ck.stream("registry-ends", cases, "C03_reg_run", "C03_reg", "C03_reg_ok",
              nontrivial=lambda c: sum(1 for o in c[1] if o[0] == 1) >= 2 and any(o[0] == 7 for o in c[1])
                                   and any(o[0] in (2, 10) for o in c[1]),
              sig=lambda c, e, o: "registry-ends", timeout=900)

_transport_release_before_registry = transport_release
def transport_release(ck):
    _transport_release_before_registry(ck)
    registry_ends(ck)

RELEASE_RULE = RELEASE_RULE + " (5) stream ends through the registry: " + REG_RULE


# ---------------------------------------------------------------- the multicast proxy through repeated use cycles
# (appended block; model coq/Model/C03Mcast.v, theorems C03_mcast_* in Properties/C03.v, wire wrappers
#  coq/Run/RunC03Mcast.v, harness command C03_mcast = harness/transports/mcast.go)
MJ, ML, MP, ME, MX = 0, 1, 2, 3, 4

MCAST_RULE = ("histories of join / leave / publish / stream-end / delayed-goroutine-exit events on the multicast proxy of a real "
              "RECORD stream, driven by real RTSP sessions (SETUP multicast + PLAY, TEARDOWN or dropped connection) with "
              "2-5 sessions and any number of start/stop cycles of the proxy on the same live stream: members overlapping "
              "or one after the other, the last member leaving (count back to 0) and a later join, the stream ending with "
              "members of a later cycle attached; the proxy's delivery goroutines are stepped through consume.pop / consume.got "
              "so that the deferred Close of a stopped cycle runs before or after the next cycle starts; after every event: "
              "stream.ConsumerCount, socket held, members on record (rtsp.VerifMulticastState), which sessions have seen their "
              "connection end, packets received per session; the oracle ok_mcast demands the release specification's "
              "observations exactly (C03_mcast_model_passes).")

def mcast_witnesses():
    return [
        [2, [[MJ, 0], [MP], [ML, 0, 0], [MX], [MJ, 1], [MP], [ML, 1, 1], [MX]]],        # second cycle ends by the last leave
        [2, [[MJ, 0], [ML, 0, 1], [MX], [MJ, 1], [MP], [ME]]],                          # second cycle ends with the stream
        [2, [[MJ, 0], [MJ, 1], [MP], [ML, 0, 0], [MP], [ML, 1, 0], [MX]]],              # two members, the starter leaves first
        [2, [[MJ, 0], [MJ, 1], [MP], [ME]]],                                            # two members, stream ends
        [2, [[MJ, 0], [ML, 0, 1], [MJ, 1], [MX], [MP], [ML, 1, 0], [MX]]],              # stale Close of cycle 1 after cycle 2 started
        [3, [[MJ, 0], [ML, 0, 0], [MJ, 1], [ML, 1, 0], [MJ, 2], [MX], [MX], [MP], [ME]]],   # two stale Closes
        [5, [[MJ, 0], [MP], [MJ, 1], [MP], [ML, 0, 0], [MP], [ML, 1, 1], [MJ, 2], [MX], [MP], [ML, 2, 0], [MX],
             [MJ, 3], [MJ, 4], [MP], [ME]]],                                            # Coq's non-vacuity example
    ]

def mcast_rand_case(rng, max_n):
    n = rng.randint(2, max_n)
    fresh, members, pending, alive, ev = 0, [], 0, True, []
    steps = rng.randint(4, 16)
    prompt = rng.random() < 0.5           # the stopped cycle's goroutine exits at once / some time later
    for _ in range(steps):
        r = rng.random()
        if pending and (prompt or r < 0.25):
            ev.append([MX]); pending -= 1
        elif fresh < n and (not members or r < 0.45) and r < 0.75:
            ev.append([MJ, fresh]); members.append(fresh); fresh += 1
        elif members and r < 0.8:
            i = rng.choice(members); members.remove(i)
            ev.append([ML, i, rng.choice([0, 1])])
            if not members:
                pending += 1
        else:
            ev.append([MP])
    while pending and rng.random() < 0.7:
        ev.append([MX]); pending -= 1
    if rng.random() < 0.6:
        ev.append([ME])
    return [n, ev]

def multicast_cycles(ck):
    import vlib
    rng = ck.rng
    cases = mcast_witnesses() + [mcast_rand_case(rng, 6 if ck.thorough else 5) for _ in range(600 if ck.thorough else 30)]
    try:
        wf = vlib.run_driver("C03", "C03_mcast_wf", [vlib.vs(c) for c in cases])
    except vlib.Broken as b:
        ck.broken.append(b)
        return
    cases = [c for c, w in zip(cases, wf) if w == "1"]
    def cycles(c):      # joins into an idle proxy
        k, m = 0, 0
        for e in c[1]:
            if e[0] == MJ:
                k += (m == 0); m += 1
            elif e[0] == ML:
                m -= 1
            elif e[0] == ME:
                m = 0
        return k
    ck.stream("multicast-cycles", cases, "C03_mcast_run", "C03_mcast", "C03_mcast_ok",
              nontrivial=lambda c: cycles(c) >= 2, sig=lambda c, e, o: "multicast-cycles", timeout=1500)

_transport_release_before_mcast = transport_release
def transport_release(ck):
    _transport_release_before_mcast(ck)
    multicast_cycles(ck)

RELEASE_RULE = RELEASE_RULE + " (6) the multicast proxy through repeated use cycles: " + MCAST_RULE


# ---------------------------------------------------------------- early exits and error paths of the adapters
# (appended block; model coq/Model/C03Adapter.v, theorems C03_adapter_* / C03_faults_* in Properties/C03.v, wire
#  wrappers coq/Run/RunC03Faults.v, harness command C03_faults = harness/transports/faults.go)
FAULT_RULE = ("viewers whose attach fails at a scripted step, one after the other on a live stream while 0-2 ordinary viewers "
              "stay attached: RTSP/TCP, RTSP/UDP, ws-rtsp and WSP clients on real sockets that drop the connection after 0..4 "
              "answered handshake requests (nothing sent at all, DESCRIBE only, SETUP never followed by PLAY, ...) or right "
              "after PLAY; HTTP-FLV and ws-FLV through the production handlers flv.ConsumeByHTTP / flv.ConsumeByWebsocket on "
              "in-memory connections: stream not found, stream without FLV output, the FLV header write fails, a later tag "
              "write fails, the peer closes; after every attempt and after the end of the stream: the active RTSP / FLV / WSP "
              "connection counters relative to their values before the case and the consumers registered on the streams; "
              "the oracle ok_faults demands that every attempt leaves all four exactly as they were (C03_faults_model_passes).")

def fault_witnesses():
    every = lambda k, n, pts: [[k, n, p] for p in pts]
    return [
        [[], every(5, 0, (0, 1, 2, 3, 5))],                       # ws-FLV: every fault point
        [[], every(4, 0, (0, 1, 2, 3))],                          # HTTP-FLV
        [[2], [[5, 0, 2]] * 3],                                   # three failed header writes, a ws-rtsp viewer attached
        [[4], [[4, 0, 2]] * 2 + [[5, 0, 2]]],                     # ... with an HTTP-FLV viewer attached (shared counter)
        [[0, 5], every(0, 4, range(6))],                          # RTSP/TCP: dropped after 0..4 requests, after PLAY
        [[], every(1, 4, (0, 2, 5)) + every(2, 4, (0, 1, 3, 4))], # RTSP/UDP, ws-rtsp
        [[3], every(3, 4, (0, 1, 3, 4, 5))],                      # WSP
    ]

def fault_rand_case(rng):
    bg = [rng.choice((0, 1, 2, 3, 4, 5)) for _ in range(rng.choice((0, 0, 1, 1, 2)))]
    atts = []
    for _ in range(rng.randint(2, 8)):
        k = rng.choice((0, 1, 2, 3, 4, 4, 5, 5, 5))
        if k in (4, 5):
            atts.append([k, 0, rng.choice((0, 1, 2, 2, 2, 3, 5))])
        else:
            atts.append([k, 4, rng.randint(0, 5)])
    return [bg, atts]

def adapter_faults(ck):
    rng = ck.rng
    cases = fault_witnesses() + [fault_rand_case(rng) for _ in range(500 if ck.thorough else 14)]
    ck.stream("adapter-faults", cases, "C03_faults_run", "C03_faults", "C03_faults_ok",
              nontrivial=lambda c: len(c[1]) >= 2, sig=lambda c, e, o: "adapter-faults", timeout=1500)

_transport_release_before_faults = transport_release
def transport_release(ck):
    _transport_release_before_faults(ck)
    adapter_faults(ck)

RELEASE_RULE = RELEASE_RULE + " (7) early exits and error paths of the adapters: " + FAULT_RULE


# ---------------------------------------------------------------- the stream's source as a real transport
# (appended block; model coq/Model/C03Source.v, theorems C03_source_* in Properties/C03.v, wire wrappers
#  coq/Run/RunC03Source.v, harness command C03_source = harness/transports/source.go)
SQ, SA, SD, SO, SE = 0, 1, 2, 3, 4
QO, QA, QS, QR = 0, 1, 2, 3

SOURCE_RULE = ("the stream published by a real RTSP RECORD session (TCP interleaved) with 1-3 real players of mixed transports "
               "(RTSP/TCP, RTSP/UDP, ws-rtsp, WSP, HTTP-FLV, ws-FLV) attached to whatever is registered under the path; the "
               "publisher repeats OPTIONS / ANNOUNCE / SETUP / RECORD at any moment (RECORD while recording with players attached "
               "in every run), players come and go, in some cases another publisher takes the path; the source ends by TEARDOWN "
               "or by dropping its connection; after every event: ConsumerCount of every stream ever registered under the path "
               "(detected through the registry after each publishing request), the active RTSP / FLV / WSP connections relative to "
               "before the case, which players have seen their connection end, and the conversion goroutines (RTP demuxer, FLV "
               "muxer, TS muxer) alive in the process; the oracle ok_source demands the observations of the session as specified "
               "(C03_source_model_passes; C03_source_end_releases_all says what they amount to when the source ends).")

def source_witnesses():
    R = lambda r: [SQ, r]
    return [
        [[0], [R(QA), R(QS), R(QR), [SA, 0], R(QR), [SE, 1]]],                                   # RECORD again, disconnect
        [[5, 3], [R(QA), R(QS), R(QR), [SA, 0], [SA, 1], R(QR), R(QR), [SE, 0]]],                # ... TEARDOWN, FLV + WSP players
        [[4, 1], [R(QA), R(QS), R(QR), [SA, 0], [SA, 1], R(QS), R(QA), R(QR), [SE, 0]]],         # SETUP / ANNOUNCE while recording
        [[0, 5, 3, 2], [R(QO), R(QA), R(QA), R(QS), R(QS), R(QR), [SA, 0], R(QR), [SA, 1], R(QA), [SA, 2], [SD, 1, 0],
                        R(QR), [SO], [SA, 3], R(QO), [SE, 0]]],                                  # Coq's non-vacuity example
        [[2], [[SO], [SA, 0], R(QA), R(QS), R(QR), [SE, 1]]],                                    # takes the path from another publisher
        [[1], [R(QS), R(QR), R(QA), R(QR), [SE, 1]]],                                            # never allowed to record
    ]

def source_rand_case(rng):
    kinds = [rng.choice((0, 0, 1, 2, 3, 4, 5, 5)) for _ in range(rng.randint(1, 3))]
    status, mode, reg, fresh, att, ev = 0, False, False, 0, [], []
    def req(r):
        nonlocal status, mode, reg
        ev.append([SQ, r])
        if r == QA and status == 0:
            mode = True
        elif r == QS and status < 2:
            status = 1
        elif r == QR and status == 1 and mode:
            status, reg = 2, True
    if rng.random() < 0.8:
        for r in (QA, QS, QR):
            req(r)
    for _ in range(rng.randint(3, 12)):
        x = rng.random()
        if reg and fresh < len(kinds) and x < 0.35:
            ev.append([SA, fresh]); att.append(fresh); fresh += 1
        elif att and x < 0.45:
            i = rng.choice(att); att.remove(i)
            ev.append([SD, i, rng.choice((0, 1)) if kinds[i] != 4 else 1])
        elif x < 0.52:
            ev.append([SO]); reg = True
        else:
            req(rng.choice((QO, QA, QS, QR, QR, QR)))
    if status == 2 and att and rng.random() < 0.7:
        req(QR)
    ev.append([SE, rng.choice((0, 1))])
    return [kinds, ev]

def source_release(ck):
    import vlib
    rng = ck.rng
    cases = source_witnesses() + [source_rand_case(rng) for _ in range(500 if ck.thorough else 20)]
    cases = [c for c in cases if not any(e[0] == SD and c[0][e[1]] == 4 for e in c[1])]   # HTTP-FLV players are not stopped mid-stream
    try:
        wf = vlib.run_driver("C03", "C03_source_wf", [vlib.vs(c) for c in cases])
    except vlib.Broken as b:
        ck.broken.append(b)
        return
    cases = [c for c, w in zip(cases, wf) if w == "1"]
    def rerecord(c):       # RECORD while recording with somebody attached
        rec, att = 0, 0
        for e in c[1]:
            if e[0] == SQ and e[1] == QR:
                rec += 1
                if rec >= 2 and att > 0:
                    return True
            elif e[0] == SA:
                att += 1
            elif e[0] == SD:
                att -= 1
        return False
    ck.stream("source-release", cases, "C03_source_run", "C03_source", "C03_source_ok",
              nontrivial=rerecord, sig=lambda c, e, o: "source-release", timeout=1500)

_transport_release_before_source = transport_release
def transport_release(ck):
    _transport_release_before_source(ck)
    source_release(ck)

RELEASE_RULE = RELEASE_RULE + " (8) the stream's source as a real transport: " + SOURCE_RULE


# ---------------------------------------------------------------- administrative stop by the LISTED id
# (appended block; same engine, specification and oracle as "transport-release": stop mode 2 = the harness reads the id
#  the server lists for the client's consumer (Stream.Info(true), what the runtime API shows and service.onStopConsumer
#  parses) and calls StopConsume with exactly that value)
ADMIN_RULE = ("cycle histories of every transport (RTSP/TCP, RTSP/UDP, ws-rtsp, WSP, HTTP-FLV, ws-FLV: RTP and FLV consumers) in "
              "which the clients are stopped by the administrator: StopConsume with exactly the id that Stream.Info(true) lists "
              "for that consumer; the stopped consumer must be released as by any other stop (ok_release).")

def admin_stop_cases(rng, thorough):
    out = []
    kinds = [T.TCP, T.UDP, T.WSRTSP, T.WSP, T.WSFLV, T.HTTPFLV, T.WSFLV, T.TCP]
    if thorough:
        kinds = kinds * 12
    for k in kinds:
        other = rng.choice([T.TCP, T.WSFLV, T.WSP])
        c = T.gen_cycle_case(rng, False, [T.WSFLV if k == T.HTTPFLV else k, other], max_pkts=8, last_stops=rng.random() < 0.5)
        if k == T.HTTPFLV:
            c[2][0][0] = T.HTTPFLV
        for e in c[3]:
            if e[0] == 2 and (e[1] == 0 or rng.random() < 0.5):
                e[2] = 2
        out.append(c)
    return out

def admin_stop(ck):
    ck.stream("admin-stop", admin_stop_cases(ck.rng, ck.thorough), None, "C03_transports", "C03_wire_ok", compare=False,
              nontrivial=lambda c: any(e[0] == 2 and e[2] == 2 for e in c[3]),
              sig=lambda c, e, o: "admin-stop", timeout=900)

_transport_release_before_admin = transport_release
def transport_release(ck):
    _transport_release_before_admin(ck)
    admin_stop(ck)

RELEASE_RULE = RELEASE_RULE + " (9) administrative stop by the listed id: " + ADMIN_RULE
