"""C09 — MPEG-TS writer.  Frames (and source NAL/AAC frames through the
packetizers and mpegts.NewMuxer) are written by the real code into a buffer; the
extracted Gallina writer predicts the bytes; the independent TS/PES/PSI/ADTS
demultiplexer of Model/C09TsDemux.v (the function C09_model_passes is about)
is applied to the implementation's bytes."""

M33 = 1 << 33
VPID, APID = 256, 257


def stamp(rng):
    k = rng.random()
    if k < 0.25:
        return rng.choice([0, 1, 2, (1 << 15) - 1, 1 << 15, (1 << 30) - 1, 1 << 30, M33 - 2, M33 - 1])
    if k < 0.35:
        return rng.choice([M33, M33 + 1, (1 << 40) + 12345, (1 << 62) + 99, -1, -90000])
    if k < 0.6:
        return rng.randrange(0, 1 << 20)
    return rng.randrange(0, M33)


def rbytes(rng, n):
    return rng.getrandbits(8 * n).to_bytes(n, "big") if n else b""


def ts_frame(rng, total, key=None, two=None, pid=None, hlen=None):
    """one mpegts.Frame whose Header+Payload has `total` bytes (payload >= 1)"""
    if pid is None:
        pid = VPID if rng.random() < 0.7 else APID
    if key is None:
        key = rng.random() < 0.4
    if two is None:
        two = rng.random() < 0.5
    if hlen is None:
        hlen = rng.choice([0, 0, 3, 4, 6, 7, 10, 40])
    hlen = max(0, min(hlen, total - 1))
    dts = stamp(rng)
    pts = dts
    if two:
        while pts == dts:
            pts = rng.choice([dts + 3600, dts + 1, dts - 1, stamp(rng)])
    sid = 0xe0 if pid == VPID else 0xc0
    return [pid, sid, dts, pts, rbytes(rng, hlen), rbytes(rng, total - hlen), key]


CAP = 350 * 1024   # bytes per case: the extracted model recurses over whole streams (8 MB stack ~ 500 KB)


def capped(rng, big, used):
    n = size_dist(rng, big)
    return n if used + n <= CAP else rng.randint(1, 400)


def size_dist(rng, big):
    k = rng.random()
    if k < 0.35:
        return rng.randint(1, 400)
    if k < 0.7:
        # around multiples of 184: the stuffing paths of the last packet
        return max(1, 184 * rng.randint(1, 12) + rng.randint(-30, 30))
    if k < 0.97:
        return rng.randint(1, 6000)
    if k < 0.985:
        return rng.randint(65480, 65560)          # PES_packet_length boundary
    return rng.randint(6000, big)


def writer_nontrivial(c):
    return any(len(f[5]) > 0 for f in c)


# ---------------------------------------------------------------- source frames
def nal(rng, size, t=None):
    if t is None:
        k = rng.random()
        if k < 0.45:
            t = 1
        elif k < 0.65:
            t = 5
        elif k < 0.75:
            t = 6
        elif k < 0.9:
            t = rng.choice([7, 8, 9])
        else:
            t = rng.choice([0, 2, 3, 4, 10, 11, 12, 13, 14, 19, 20, 23, 24, 28, 31])
    b0 = (rng.choice([0, 0x20, 0x40, 0x60, 0x80]) | t) & 0xff
    return bytes([b0]) + rbytes(rng, size - 1)


def ns(rng):
    k = rng.random()
    if k < 0.2:
        return rng.choice([0, 1, 11111, 11112, 1000000000, 102481911520608])   # last: largest ns with ns*90000 < 2^63
    if k < 0.5:
        return rng.randrange(0, 10 ** 10)
    if k < 0.9:
        return rng.randrange(0, 95443717688888)    # up to 2^33 ticks of 90 kHz
    return rng.randrange(0, 102481911520608)


# ---- AudioSpecificConfig classes.  An env (aot sfi chan signalling ext_sfi) describes a configuration
# (signalling: 0 plain, 1 hierarchical SBR, 2 hierarchical PS, 3 sync extension sbrPresentFlag 0,
# 4 sync extension sbrPresentFlag 1, 5 = 4 + PS extension); the bytes come from the Gallina encoder
# asc_encode (driver function C09_asc_bytes), so there is one definition of the syntax.
ASC_POOL = []


def gen_env(rng, sig):
    sfi = rng.randint(0, 12)
    ext = rng.randint(0, 12)
    if sig in (1, 2, 4, 5) and rng.random() < 0.7:
        ext = max(0, sfi - 3)                      # SBR doubles the rate
    chan = rng.choice([1, 2, 2, 2, 6, 7, rng.randint(0, 7)])
    return [rng.choice([2, 2, 2, 1, 3, 4]), sfi, chan, sig, ext]


def build_asc_pool(ck, rng, per_class):
    import vlib
    envs = [gen_env(rng, sig) for sig in range(6) for _ in range(per_class)]
    envs.append([2, 4, 2, 3, 0])                   # the repository's own vector 121056E500
    envs.append([2, 7, 2, 4, 4])                   # 139056E5A0
    envs.append([2, 7, 2, 1, 4])                   # 2B920800
    out = vlib.run_driver(ck.prop, "C09_asc_bytes", [vlib.vs(e) for e in envs])
    ASC_POOL[:] = [(vlib.vparse(o), e) for o, e in zip(out, envs)]


def asc2(rng):
    return rng.choice(ASC_POOL)


def mux_case(rng, mode, nframes, big, empty_video=False, late=False):
    sps = b"" if rng.random() < 0.1 else bytes([0x67]) + rbytes(rng, rng.randint(0, 40))
    pps = b"" if rng.random() < 0.1 else bytes([0x68]) + rbytes(rng, rng.randint(0, 8))
    frames = []
    for _ in range(nframes):
        if rng.random() < 0.65:
            d = ns(rng)
            p = d if rng.random() < 0.4 else rng.choice([d + 40000000, d + 11112, ns(rng)])
            p = min(p, 102481911520608)
            if empty_video and rng.random() < 0.3:
                frames.append([True, d, p, b""])
            else:
                frames.append([True, d, p, nal(rng, capped(rng, big, sum(len(f[3]) for f in frames)))])
        else:
            k = rng.random()
            n = 0 if k < 0.05 else (rng.randint(1, 400) if k < 0.7 else rng.randint(1, 8184))
            if k > 0.97:
                n = rng.choice([8184, 8183, 177, 178, 184 - 7 - 14])
            p = ns(rng)
            frames.append([False, p, p, rbytes(rng, n)])
    want = sum(1 for f in frames if (not f[0]) or (len(f[3]) > 0 and not 7 <= (f[3][0] & 0x1f) <= 9))
    if late:
        frames, sps, pps = late_params(rng, frames, sps, pps)
    cfg, env = asc2(rng)
    return [mode, sps, pps, cfg, frames, want, 0, env]


def is_set(f):
    return f[0] == 2 and not isinstance(f[0], bool)


def is_idr(f):
    return (not is_set(f)) and f[0] and len(f[3]) > 0 and (f[3][0] & 0x1f) == 5


def late_params(rng, frames, sps, pps):
    """the meta is EMPTY when the muxer is created (SDP without sprop-parameter-sets); the
    parameter sets are stored into it later — before the first IDR — and, sometimes, replaced
    between two IDRs.  Returns (events, sps-at-creation, pps-at-creation)."""
    if not sps:
        sps = bytes([0x67, 0x64]) + rbytes(rng, 6)
    if not pps:
        pps = bytes([0x68]) + rbytes(rng, 3)
    idrs = [i for i, f in enumerate(frames) if is_idr(f)]
    first = idrs[0] if idrs else len(frames)
    at = rng.randint(0, first)
    ev = list(frames)
    if rng.random() < 0.3 and at < first:
        # SPS and PPS arrive separately
        mid = rng.randint(at, first)
        ev.insert(mid, [2, sps, pps])
        ev.insert(at, [2, sps, b""])
    else:
        ev.insert(at, [2, sps, pps])
    if len(idrs) >= 2 and rng.random() < 0.5:
        k = rng.randint(1, len(idrs) - 1)
        pos = next(i for i, f in enumerate(ev) if f is frames[idrs[k]])
        ev.insert(rng.randint(pos - 1 if pos > 0 else 0, pos), [2, bytes([0x67, 0x42]) + rbytes(rng, 9), bytes([0x68, 0xce]) + rbytes(rng, 2)])
    return ev, b"", b""


def hls_case(rng, nframes, late=False):
    """realistic interleaving for the HLS path: 25 fps video with key frames every ~1 s so that
    segments roll over, AAC frames every ~23 ms (several per 100 ms group) of DIFFERENT sizes,
    some timestamp jitter and an occasional jump (audio resync); closed by four video frames
    that force two segment cuts, so that only the very last key frame stays unobserved"""
    sps = bytes([0x67]) + rbytes(rng, rng.randint(1, 20))
    pps = bytes([0x68]) + rbytes(rng, rng.randint(1, 6))
    frag = rng.choice([1, 1, 2])
    rate = rng.choice([44100, 44100, 48000, 32000])
    MS = 1000000
    t0 = rng.randrange(0, 3000) * MS
    vt, at = t0, t0 + rng.randrange(0, 40) * MS
    frames = []
    gop = rng.randint(8, 30)
    vi = 0
    while len(frames) < nframes:
        if vt <= at:
            k = rng.random()
            if vi % gop == 0:
                t = 5
            elif k < 0.08:
                t = rng.choice([7, 8, 9, 6])
            else:
                t = 1
            if t in (7, 8, 9, 6):
                frames.append([True, vt, vt, nal(rng, rng.randint(2, 30), t)])
            else:
                pts = vt + rng.choice([0, 0, 40 * MS, 80 * MS])
                frames.append([True, vt, pts, nal(rng, rng.choice([rng.randint(1, 400), rng.randint(100, 3000)]), t)])
                vi += 1
                vt += 40 * MS + rng.choice([0, 0, 0, 1, -1]) * rng.randrange(0, 3) * MS
        else:
            n = rng.choice([0] + [rng.randint(1, 700)] * 30 + [8184])
            frames.append([False, at, at, rbytes(rng, n)])
            at += 1024 * 1000000000 // rate + rng.choice([0, 0, 0, 1, -1]) * rng.randrange(0, 2 * MS)
            if rng.random() < 0.02:
                at += rng.randrange(150, 900) * MS       # gap: the time correction resyncs
    end = max(f[2] for f in frames)
    T1 = end + (frag + 1) * 1000 * MS
    T2 = T1 + 40 * MS + (frag + 1) * 1000 * MS
    frames += [[True, T1, T1, nal(rng, 50, 1)], [True, T1 + 40 * MS, T1 + 40 * MS, nal(rng, 300, 5)],
               [True, T2, T2, nal(rng, 50, 1)], [True, T2 + 40 * MS, T2 + 40 * MS, nal(rng, 20, 5)]]
    if late:
        frames, sps, pps = late_params(rng, frames, sps, pps)
    cfg, env = asc2(rng)
    return [0, sps, pps, cfg, frames, frag, rate, env]


E2E_SPS = bytes.fromhex("6764001facd9405005ba10000003001000000303c8f18319 60".replace(" ", ""))
E2E_PPS = bytes.fromhex("68efbcb0")


def e2e_case(rng):
    """source NAL units for media.NewStream (SDP without sprop): SPS, PPS in-band in front of every
    IDR (a real, decodable SPS — the depacketizer parses it), 25 fps, one GOP that exceeds the 5 s
    fragment so that one natural cut happens, then the four closing frames (two more cuts): three
    closed segments in all, never more than the playlist keeps"""
    MS = 1000000
    frames = []
    t = rng.randrange(1, 1000) * MS

    def key(n, marker=b""):
        nonlocal t
        frames.append([True, t, t, E2E_SPS])
        frames.append([True, t, t, E2E_PPS if rng.random() < 0.7 else E2E_PPS + b"\x80"])
        frames.append([True, t, t, bytes([0x65]) + marker + rbytes(rng, n)])
        t += 40 * MS

    def inter(n):
        nonlocal t
        frames.append([True, t, t, bytes([rng.choice([0x41, 0x01, 0x61])]) + rbytes(rng, n)])
        t += 40 * MS

    key(rng.randint(3, 1300))
    for _ in range(rng.randint(126, 140)):          # > 5 s at 25 fps
        inter(rng.randint(3, 500))
    key(rng.randint(3, 1300))                        # natural cut
    for _ in range(rng.randint(3, 40)):
        inter(rng.randint(3, 500))
    marker = bytes([0xC0, 0x9E]) + rbytes(rng, 14)
    t += 6000 * MS
    inter(20)
    key(40, marker)                                  # cut 2; this key frame carries the marker
    t += 6000 * MS
    inter(20)
    key(10)                                          # cut 3 closes the segment with the marker
    return [0, b"", b"", bytes([0x12, 0x10]), frames, marker]


def hls_nontrivial(c):
    # at least two audio frames of different sizes and a key frame
    sizes = {len(f[3]) for f in c[4] if not is_set(f) and not f[0] and len(f[3]) > 0}
    return len(sizes) >= 2 and any(is_idr(f) for f in c[4])


def has_paramset(c):
    return any((not is_set(f)) and f[0] and len(f[3]) > 0 and 7 <= (f[3][0] & 0x1f) <= 9 for f in c[4])


def mux_nontrivial(c):
    fs = [f for f in c[4] if not is_set(f)]
    return any(f[0] and len(f[3]) > 0 for f in fs) and any(len(f[3]) > 0 for f in fs)


def late_nontrivial(c):
    # an IDR is pushed after the parameter sets were stored into an initially empty meta
    seen = False
    for f in c[4]:
        if is_set(f):
            seen = seen or len(f[1]) > 0
        elif is_idr(f) and seen:
            return len(c[1]) == 0
    return False


def run(ck):
    if not ck.prepare():
        return ck.finish(rule="build failed")
    rng = ck.rng
    T = ck.thorough
    build_asc_pool(ck, rng, 12 if T else 6)
    big = 200 * 1024 if T else 40 * 1024

    # 1. every total size around 0, 1, 2 (3) packets in the four flag combinations, both header shapes
    sweep = []
    top = 1300 if T else 600
    for key in (False, True):
        for two in (False, True):
            for n in range(1, top + 1):
                sweep.append([ts_frame(rng, n, key=key, two=two, pid=VPID if (n + key) % 3 else APID)])
    # the PES_packet_length boundary (n + headerSize + 3 > 65535) in the four combinations
    for key in (False, True):
        for two in (False, True):
            for n in (range(65500, 65545) if T else (65519, 65521, 65522, 65523, 65524, 65526, 65527, 65528)):
                sweep.append([ts_frame(rng, n, key=key, two=two, pid=VPID)])
                if not key:
                    sweep.append([ts_frame(rng, n, key=False, two=two, pid=APID)])
    ck.stream("size_sweep", sweep, "C09_write", "C09_write", "C09_write_ok", nontrivial=writer_nontrivial,
              sig=lambda c, e, o: "writer", sample=2)

    # 2. random frame lists: both PIDs interleaved (continuity counters), empty payloads, all flags
    lists = []
    for _ in range(1500 if T else 260):
        fs = []
        for _ in range(rng.randint(1, 40 if T else 18)):
            if rng.random() < 0.06:
                f = ts_frame(rng, 5)
                f[5] = b""                         # empty payload: nothing is written, counter untouched
                fs.append(f)
            else:
                fs.append(ts_frame(rng, capped(rng, big, sum(len(f[4]) + len(f[5]) for f in fs))))
        lists.append(fs)
    if T:
        for n in range(1, 200 * 1024, 4099):      # stepped sizes to 200 KiB
            lists.append([ts_frame(rng, n)])
    ck.stream("frame_lists", lists, "C09_write", "C09_write", "C09_write_ok", nontrivial=writer_nontrivial,
              sig=lambda c, e, o: "writer", sample=2)

    # 3. source frames through the packetizers (mode 0) and through mpegts.NewMuxer (mode 1)
    msig = lambda c, e, o: "mux:inband-paramset" if has_paramset(c) else "mux"
    mux0 = [mux_case(rng, 0, rng.randint(1, 30 if T else 14), big) for _ in range(1200 if T else 220)]
    # the D18 witness is replayed on every run: in-band SPS, PPS, AUD between slices
    mux0.append([0, bytes([0x67, 1, 2]), bytes([0x68, 3]), bytes([0x12, 0x10, 0x56, 0xe5, 0x00]),
                 [[True, 0, 0, bytes([0x67, 0x42, 0, 0x1e])], [True, 0, 0, bytes([0x68, 0xce, 0x38, 0x80])],
                  [True, 0, 0, bytes([0x09, 0xf0])], [True, 0, 40000000, bytes([0x65, 0x88, 0x84, 0])],
                  [False, 0, 0, bytes([0x21, 0x10, 5])], [True, 40000000, 40000000, bytes([0x41, 0x9a, 1])]], 3, 0,
                 [2, 4, 2, 3, 0]])
    ck.stream("packetizers", mux0, "C09_mux", "C09_mux", "C09_mux_ok", nontrivial=mux_nontrivial, sig=msig, sample=2)
    mux1 = [mux_case(rng, 1, rng.randint(1, 30 if T else 14), big) for _ in range(300 if T else 60)]
    ck.stream("muxer", mux1, "C09_mux", "C09_mux", "C09_mux_ok", nontrivial=mux_nontrivial, sig=msig, sample=1)

    # 3b. frames that are written later than they are prepared (a consumer that keeps the Frame, as
    # hls.SegmentGenerator does): the packetizers with a deferring FrameWriter
    mux2 = [mux_case(rng, 2, rng.randint(2, 30 if T else 14), 7000) for _ in range(400 if T else 60)]

    ck.stream("deferred", mux2, "C09_mux", "C09_mux", "C09_mux_ok", nontrivial=mux_nontrivial, sig=msig, sample=1)

    # 3c. the real HLS path: packetizers -> hls.SegmentGenerator (memory segments) -> mpegts.Writer per segment;
    # audio is grouped (~100 ms) and flushed later than it is packetized.  No byte prediction (the
    # segmenter is C10's model); the proved oracle ok_hls is applied to the segments.
    hls = [hls_case(rng, rng.randint(40, 400 if T else 160)) for _ in range(300 if T else 40)]
    ck.stream("hls_segments", hls, None, "C09_hls", "C09_hls_ok", compare=False, nontrivial=hls_nontrivial,
              sig=lambda c, e, o: "hls", sample=1)

    # 3d. parameter sets learned in-band: the meta is empty when the muxer / packetizers are created and is
    # filled before the first IDR (and changed again between IDRs), through every entry point
    latec = []
    for i in range(600 if T else 90):
        c = mux_case(rng, i % 3, rng.randint(3, 30 if T else 14), 3000 + 4000, late=True)
        latec.append(c)
    ck.stream("late_paramsets", latec, "C09_mux", "C09_mux", "C09_mux_ok", nontrivial=late_nontrivial,
              sig=lambda c, e, o: "mux:late-paramsets", sample=1)
    lateh = [hls_case(rng, rng.randint(40, 300 if T else 120), late=True) for _ in range(150 if T else 25)]
    ck.stream("hls_late_paramsets", lateh, None, "C09_hls", "C09_hls_ok", compare=False, nontrivial=late_nontrivial,
              sig=lambda c, e, o: "hls:late-paramsets", sample=1)
    # 3e. end to end: media.NewStream, SDP without sprop-parameter-sets, SPS/PPS arrive as RTP packets
    e2e = [e2e_case(rng) for _ in range(40 if T else 6)]
    ck.stream("e2e_inband_paramsets", e2e, None, "C09_e2e", "C09_e2e_ok", compare=False, timeout=600,
              sig=lambda c, e, o: "e2e:inband-paramsets", sample=1)

    # 3f. concurrent writers sharing the scratch-buffer pool: 2-3 real mpegts.Writers on scripted io.Writers;
    # a trigger makes another writer write a whole frame between two TS packets of a frame in progress
    wcases = []
    for _ in range(400 if T else 60):
        nw = rng.choice([2, 2, 3])
        writers = []
        for _w in range(nw):
            fs = [ts_frame(rng, rng.choice([rng.randint(150, 1900), rng.randint(150, 700), rng.randint(1, 6000)]))
                  for _ in range(rng.randint(1, 6))]
            writers.append(fs)
        trig = []
        for a in range(nw):
            npk = sum((len(f[4]) + len(f[5]) + 14 + 183) // 184 + 1 for f in writers[a])
            for _ in range(rng.randint(1, 5)):
                trig.append([a, rng.randint(1, max(1, npk)), rng.choice([b for b in range(nw) if b != a])])
        wcases.append([writers, trig])
    ck.stream("concurrent_writers", wcases, "C09_writers", "C09_writers", "C09_writers_ok",
              nontrivial=lambda c: len(c[1]) > 0 and sum(len(w) for w in c[0]) >= 2,
              sig=lambda c, e, o: "writers:shared-pool", sample=1)
    # 3g. two HLS streams (own packetizers, own hls.SegmentGenerator) fed alternately
    two = [[hls_case(rng, rng.randint(40, 200 if T else 100)), hls_case(rng, rng.randint(40, 200 if T else 100), late=rng.random() < 0.3)]
           for _ in range(80 if T else 12)]
    ck.stream("hls_two_streams", two, None, "C09_hls2", "C09_hls2_ok", compare=False,
              nontrivial=lambda c: hls_nontrivial(c[0]) and hls_nontrivial(c[1]), sig=lambda c, e, o: "hls:two-streams", sample=1)

    # 4. malformed: empty video payloads (Payload[0] on an empty slice); result left open by the property
    bad = [mux_case(rng, 0, rng.randint(1, 8), 7000, empty_video=True) for _ in range(300 if T else 40)]
    ck.stream("malformed", bad, "C09_mux", "C09_mux", "C09_mux_loose_ok", compare=False,
              nontrivial=lambda c: any(f[0] and len(f[3]) == 0 for f in c[4]), sig=lambda c, e, o: "mux-malformed", sample=1)

    # 4b. the ADTS header as a function of the configuration: every class, all payload sizes of interest;
    # oracle: an independent ADTS parse of the header must give the fields asc_of_env announces
    hdrs = []
    for cfg, env in ASC_POOL:
        for n in (0, 1, rng.randint(2, 8184), 8184):
            hdrs.append([cfg, n, env])
    ck.stream("asc_adts_header", hdrs, "C09_asc_header", "C09_asc_header", "C09_asc_header_ok",
              nontrivial=lambda c: c[2][3] != 0, sig=lambda c, e, o: "asc-header:sig%d" % c[2][3], sample=2)
    # configurations outside the specified classes (escape sampling frequency, reserved indices, channel
    # configurations 8..15, other object types, a sync extension that is not SBR, truncated / padded
    # configurations): the Decode/ToAdtsHeader model against the Go code, no oracle
    odd = []
    for _ in range(1500 if T else 250):
        cfg, env = rng.choice(ASC_POOL)
        b = bytearray(cfg)
        k = rng.random()
        if k < 0.25:
            b = b[:rng.randint(0, len(b))]                       # truncated: a read past the end
        elif k < 0.45:
            b += rbytes(rng, rng.randint(1, 4))                  # trailing bytes (may contain 0x2b7 by chance)
        elif k < 0.6:
            i = rng.randrange(len(b)); b[i] ^= 1 << rng.randrange(8)   # one flipped bit
        elif k < 0.75:
            # near misses of the sync pattern behind a plain configuration: one bit of 0x2b7 flipped, the
            # pattern with a leading 1, shifted by 0..7 bits, followed by what a real extension would carry
            pat = rng.choice([0x2b7 ^ (1 << rng.randrange(11)), 0x2b7, 0x6b7 & 0x7ff, 0x2b6, 0x3b7])
            bits = "".join(format(x, "08b") for x in cfg[:2]) + "1" * rng.randrange(8) + format(pat, "011b") \
                + "00101" + "1" + format(rng.randint(0, 12), "04b") + "0" * 12
            bits += "0" * (-len(bits) % 8)
            b = bytearray(int(bits[i:i + 8], 2) for i in range(0, len(bits), 8))
        else:
            aot = rng.choice([1, 2, 3, 4, 6, 7, 17, 23, 30])
            sfi = rng.choice([13, 14, 15, rng.randint(0, 12)])
            chan = rng.randint(0, 15)
            bits = format(aot, "05b") + format(sfi, "04b") + (format(rng.randrange(1 << 24), "024b") if sfi == 15 else "") \
                + format(chan, "04b") + "000"
            if rng.random() < 0.5:
                bits += format(0x2b7, "011b") + format(rng.choice([5, 5, 2, 1]), "05b") + rng.choice(["0", "1"]) \
                    + format(rng.choice([15, 13, rng.randint(0, 12)]), "04b") + format(rng.randrange(1 << 24), "024b")
            bits += "0" * (-len(bits) % 8)
            b = bytearray(int(bits[i:i + 8], 2) for i in range(0, len(bits), 8))
        odd.append([bytes(b), rng.choice([0, 7, 100, 8184])])
    # the model does not cover the escape object type, ALS, ER_BSAC inside hierarchical signalling: it says so
    import vlib
    verdict = vlib.run_driver(ck.prop, "C09_asc_header", [vlib.vs(c) for c in odd])
    odd = [c for c, v in zip(odd, verdict) if v != "(2)"]
    ck.stream("asc_decode_model", odd, "C09_asc_header", "C09_asc_header", None, sig=lambda c, e, o: "asc-model", sample=1)

    # 5. components: NewADTSHeader on the whole uint8 domain, CRC-32/MPEG against a second implementation
    adts = [[rng.randrange(256), rng.randrange(256), rng.randrange(256), rng.choice([0, 1, 8184, 8185, rng.randrange(70000)])]
            for _ in range(3000 if T else 400)]
    ck.stream("adts_header", adts, "C09_adts", "C09_adts", None, sig=lambda c, e, o: "adts", sample=1)
    crcs = [rbytes(rng, rng.randint(0, 64)) for _ in range(1000 if T else 150)]
    ck.stream("crc32_mpeg", crcs, "C09_crc", "C09_crc", None, sig=lambda c, e, o: "crc", sample=1)

    return ck.finish(
        rule="writer: every Header+Payload size 1..%d in the four combinations (key frame or not, PTS only or PTS+DTS) on both PIDs, "
             "the sizes around the PES_packet_length limit, and random frame lists (sizes concentrated around multiples of 184, up to %d KiB; "
             "both PIDs interleaved; PTS/DTS at 0, 2^15, 2^30, 2^33-1, beyond 2^33 and negative; empty payloads); "
             "source level: random NAL-unit/AAC sequences (types 1,5,6 mostly, in-band 7/8/9, rare others; empty SPS/PPS; AAC up to 8184 bytes) "
             "through the packetizers and through mpegts.NewMuxer; full byte stream compared with the extracted model and the independent "
             "demultiplexer oracle applied to the implementation's bytes; non-trivial = at least one frame is actually written; "
             "HLS path: realistic interleaved video/AAC sequences (different AAC sizes, several per 100 ms group, key frames rolling segments over) "
             "through the packetizers into a real hls.SegmentGenerator, every segment read and checked by ok_hls; a deferring FrameWriter stream; "
             "parameter sets stored into an initially empty shared video meta before the first IDR and replaced between IDRs (packetizers, NewMuxer, deferred, HLS); "
             "end to end media.NewStream + RTP with an SDP without sprop-parameter-sets, HLS segments checked by ok_hls_es; "
             "AudioSpecificConfig drawn from every signalling class in all source-level streams, plus Decode+ToAdtsHeader component streams; "
             "2-3 real Writers on scripted io.Writers with another writer's frame written between two packets of a frame in progress; two HLS streams fed alternately; "
             "separate malformed stream (empty video payloads); NewADTSHeader and CRC-32/MPEG component streams"
             % (top, big // 1024),
        trusted=["the ISO/IEC 13818-1 / 13818-7 / H.264 Annex B reading embodied in Model/C09TsDemux.v, C09Adts.v (adts_parse1) and "
                 "C09TsFrame.v (spec_video_es) is the specification",
                 "harness hook mpegts.VerifNewFrame (sets the unexported key flag)"],
        assumptions=["frames carry PID 256 or 257 (other PIDs share the video counter in the Go writer)",
                     "AudioSpecificConfig of the classes plain / hierarchical SBR / hierarchical PS / sync extension (sbrPresentFlag 0, 1, 1+PS), core object type 1..4, sampling indices 0..12, channel configuration 0..7; for explicitly signalled SBR the ADTS index expected is the extension index (the code's and nginx-rtmp's convention)",
                     "end-to-end stream: time stamps are not checked (DTS is wall clock there), structure and Annex-B content only",
                     "source time stamps 0 <= ns with ns*90000 < 2^63 (beyond, about 28.5 h, the int64 conversion to 90 kHz overflows)",
                     "AAC frame + 7 < 8192 (13-bit ADTS frame_length)",
                     "AUD is demanded before NAL unit types 1, 5, 6 only; in-band SPS/PPS/AUD (7..9) are replaced by the stream's own"])
