"""C15 — codec parameter sets.  Syntax records are sampled over every optional
branch and Exp-Golomb width, encoded by the extracted Gallina `emit` of the
standard's syntax description (the function in the theorems), and decoded by the
real RawSPS / H265RawSPS / H265RawVPS / AudioSpecificConfig; the proved oracle
compares the reported values with the standard's derived-value formulas.  A
second family of streams (bit flips, truncations, random bytes) checks totality
and, because the model is the whole Go decoder, also error/no-error and values."""
import os, sys
sys.path.insert(0, os.path.join(os.path.dirname(os.path.abspath(__file__)), "..", "bin"))
import vlib


def K(i, j=0):
    return i * 4294967296 + j


def ue_sample(rng, hi):
    """log-uniform over Exp-Golomb code lengths: every prefix length that fits below hi"""
    if hi <= 0:
        return 0
    nmax = (hi + 1).bit_length() - 1
    n = rng.randint(0, nmax)
    lo = (1 << n) - 1
    return rng.randint(lo, min(hi, (1 << (n + 1)) - 2))


def se_sample(rng, lo, hi):
    v = ue_sample(rng, max(hi, -lo))
    if rng.random() < 0.5:
        v = -v
    return max(lo, min(hi, v))


def flag(rng, p=0.5):
    return 1 if rng.random() < p else 0


# ---------------------------------------------------------------- H.264
H264_HIGH = [100, 110, 122, 244, 44, 83, 86, 118]
H264_BASE = [66, 77, 88]


def gen_scaling_deltas(rng, size):
    """delta_scale values; sometimes drives nextScale to 0 (early termination), negative deltas included"""
    out = []
    nxt = 8
    stop_at = rng.choice([None, None, 0, 1, rng.randint(0, size - 1)])
    for j in range(size):
        if nxt == 0:
            break
        if stop_at is not None and j == stop_at:
            d = -nxt if nxt <= 128 else 256 - nxt
        else:
            d = rng.choice([0, 0, rng.randint(-128, 127), rng.randint(-4, 4)])
        out.append(d)
        nxt = (nxt + d + 256) % 256
    return out


def gen_h264_hrd(rng, rec, h):
    cnt = rng.choice([0, 0, 1, 2, rng.randint(0, 31)])
    rec[K(80, h)] = cnt
    rec[K(81, h)] = rng.randint(0, 15)
    rec[K(82, h)] = rng.randint(0, 15)
    for i in range(cnt + 1):
        rec[K(83, h * 256 + i)] = ue_sample(rng, 2 ** 32 - 2)
        rec[K(84, h * 256 + i)] = ue_sample(rng, 2 ** 32 - 2)
        rec[K(85, h * 256 + i)] = flag(rng)
    for k in (86, 87, 88, 89):
        rec[K(k, h)] = rng.randint(0, 31)


def gen_h264(rng):
    r = {}
    r[K(1)] = 0
    r[K(2)] = rng.randint(0, 3)
    r[K(3)] = 7
    high = rng.random() < 0.65
    r[K(4)] = rng.choice(H264_HIGH if high else H264_BASE)
    for i in range(6):
        r[K(5, i)] = flag(rng)
    r[K(6)] = 0
    r[K(7)] = rng.choice([10, 11, 12, 13, 20, 21, 22, 30, 31, 32, 40, 41, 42, 50, 51, 52, 60, 61, 62])
    r[K(8)] = ue_sample(rng, 31)
    chroma = 1
    sep = 0
    if high:
        chroma = rng.randint(0, 3)
        r[K(9)] = chroma
        if chroma == 3:
            sep = flag(rng)
            r[K(10)] = sep
        r[K(11)] = rng.randint(0, 6)
        r[K(12)] = rng.randint(0, 6)
        r[K(13)] = flag(rng)
        sm = flag(rng, 0.45)
        r[K(14)] = sm
        if sm:
            for i in range(12 if chroma == 3 else 8):
                p = flag(rng, 0.6)
                r[K(15, i)] = p
                if p:
                    for j, d in enumerate(gen_scaling_deltas(rng, 16 if i < 6 else 64)):
                        r[K(16, i * 64 + j)] = d
    r[K(17)] = rng.randint(0, 12)
    poc = rng.randint(0, 2)
    r[K(18)] = poc
    if poc == 0:
        r[K(19)] = rng.randint(0, 12)
    elif poc == 1:
        r[K(20)] = flag(rng)
        r[K(21)] = se_sample(rng, -(2 ** 31 - 1), 2 ** 31 - 1)
        r[K(22)] = se_sample(rng, -(2 ** 31 - 1), 2 ** 31 - 1)
        n = rng.choice([0, 1, 2, 3, rng.randint(0, 255)])
        r[K(23)] = n
        for i in range(n):
            r[K(24, i)] = se_sample(rng, -(2 ** 31 - 1), 2 ** 31 - 1)
    r[K(25)] = rng.randint(0, 16)
    r[K(26)] = flag(rng)
    wm = ue_sample(rng, 1054)
    hm = ue_sample(rng, 1054)
    r[K(27)] = wm
    r[K(28)] = hm
    fmo = flag(rng, 0.6)
    r[K(29)] = fmo
    if not fmo:
        r[K(30)] = flag(rng)
    r[K(31)] = flag(rng)
    crop = flag(rng, 0.6)
    r[K(32)] = crop
    if crop:
        cat = 0 if sep else chroma
        ux = 1 if cat == 0 else (2 if chroma in (1, 2) else 1)
        uy = (2 - fmo) if cat == 0 else (2 if chroma == 1 else 1) * (2 - fmo)
        maxx = ((wm + 1) * 16 - 1) // ux
        maxy = ((2 - fmo) * (hm + 1) * 16 - 1) // uy
        tx = rng.choice([0, 1, rng.randint(0, maxx), ue_sample(rng, maxx)])
        ty = rng.choice([0, 1, rng.randint(0, maxy), ue_sample(rng, maxy)])
        l = rng.randint(0, tx)
        t = rng.randint(0, ty)
        r[K(33)], r[K(34)], r[K(35)], r[K(36)] = l, tx - l, t, ty - t
    vui = flag(rng, 0.7)
    r[K(37)] = vui
    if vui:
        if flag(rng):
            r[K(40)] = 1
            r[K(41)] = rng.choice([1, 2, 16, 255, 255])
            r[K(42)] = rng.randint(0, 65535)
            r[K(43)] = rng.randint(0, 65535)
        if flag(rng):
            r[K(44)] = 1
            r[K(45)] = flag(rng)
        if flag(rng):
            r[K(46)] = 1
            r[K(47)] = rng.randint(0, 7)
            r[K(48)] = flag(rng)
            r[K(49)] = flag(rng)
            for k in (50, 51, 52):
                r[K(k)] = rng.randint(0, 255)
        if flag(rng):
            r[K(53)] = 1
            r[K(54)] = rng.randint(0, 5)
            r[K(55)] = rng.randint(0, 5)
        if flag(rng, 0.75):
            r[K(56)] = 1
            r[K(57)] = rng.choice([1, 1000, 1001, rng.randint(1, 2 ** 31 - 1), ue_sample(rng, 2 ** 31 - 2) + 1])
            r[K(58)] = rng.choice([0, 25, 50000, 60000, rng.randint(0, 2 ** 32 - 1), ue_sample(rng, 2 ** 32 - 2)])
            r[K(59)] = flag(rng)
        if flag(rng, 0.35):
            r[K(60)] = 1
            gen_h264_hrd(rng, r, 0)
        if flag(rng, 0.35):
            r[K(61)] = 1
            gen_h264_hrd(rng, r, 1)
        r[K(62)] = flag(rng)
        r[K(63)] = flag(rng)
        if flag(rng):
            r[K(64)] = 1
            r[K(65)] = flag(rng)
            for k in (66, 67, 68, 69, 70, 71):
                r[K(k)] = rng.randint(0, 16)
    return r


# ---------------------------------------------------------------- H.265
def gen_ptl(rng, r, max_sub):
    def prof(si):
        r[K(110, si)] = rng.randint(0, 3)
        r[K(111, si)] = flag(rng)
        r[K(112, si)] = rng.choice([1, 2, 3, 4, 5, 9, rng.randint(0, 31)])
        r[K(113, si)] = rng.randrange(2 ** 32)
        r[K(114, si)] = rng.randint(0, 15)
        r[K(115, si)] = rng.choice([0, rng.randrange(2 ** 43)])
        r[K(116, si)] = flag(rng)
    prof(0)
    r[K(117, 0)] = rng.choice([30, 60, 90, 93, 120, 123, 150, 153, 156, 180, 183, 186])
    for i in range(max_sub):
        pp, lp = flag(rng), flag(rng)
        r[K(118, i)], r[K(119, i)] = pp, lp
        if pp:
            prof(i + 1)
        if lp:
            r[K(117, i + 1)] = rng.randint(0, 255)


def gen_hrd265(rng, r, q, max_sub, common=True):
    nal = vcl = sub = 0
    if common:
        nal, vcl = flag(rng, 0.6), flag(rng, 0.4)
        r[K(220, q)], r[K(221, q)] = nal, vcl
        if nal or vcl:
            sub = flag(rng, 0.4)
            r[K(222, q)] = sub
            if sub:
                r[K(223, q)] = rng.randint(0, 255)
                r[K(224, q)] = rng.randint(0, 31)
                r[K(225, q)] = flag(rng)
                r[K(226, q)] = rng.randint(0, 31)
            r[K(227, q)] = rng.randint(0, 15)
            r[K(228, q)] = rng.randint(0, 15)
            if sub:
                r[K(229, q)] = rng.randint(0, 15)
            for k in (230, 231, 232):
                r[K(k, q)] = rng.randint(0, 31)
    for i in range(max_sub + 1):
        g = flag(rng)
        r[K(233, q * 8 + i)] = g
        cvs = 1 if g else flag(rng)
        if not g:
            r[K(234, q * 8 + i)] = cvs
        low = 0
        if cvs:
            r[K(235, q * 8 + i)] = ue_sample(rng, 2047)
        else:
            low = flag(rng)
            r[K(236, q * 8 + i)] = low
        cnt = 0
        if not low:
            cnt = rng.choice([0, 0, 1, 2, rng.randint(0, 31)])
            r[K(237, q * 8 + i)] = cnt
        for t, on in ((0, nal), (1, vcl)):
            if on:
                for c in range(cnt + 1):
                    base = ((q * 8 + i) * 2 + t) * 64 + c
                    for f in range(4):
                        r[K(240 + f, base)] = ue_sample(rng, 2 ** 32 - 2)
                    r[K(244, base)] = flag(rng)


def gen_slo(rng, r, max_sub):
    present = flag(rng)
    r[K(133)] = present
    for i in (range(max_sub + 1) if present else [max_sub]):
        r[K(134, i)] = rng.randint(0, 16)
        r[K(135, i)] = rng.randint(0, 16)
        r[K(136, i)] = ue_sample(rng, 2 ** 32 - 2)


def gen_h265(rng):
    r = {}
    r[K(101)] = 33
    r[K(102)] = rng.choice([0, 0, rng.randint(0, 62)])
    r[K(103)] = rng.randint(1, 7)
    r[K(104)] = rng.randint(0, 15)
    max_sub = rng.choice([0, 0, 1, 2, rng.randint(0, 6)])
    r[K(105)] = max_sub
    r[K(106)] = flag(rng)
    gen_ptl(rng, r, max_sub)
    r[K(120)] = ue_sample(rng, 15)
    chroma = rng.randint(0, 3)
    r[K(121)] = chroma
    sep = 0
    if chroma == 3:
        sep = flag(rng)
        r[K(122)] = sep
    log2cb = rng.randint(0, 3)
    unit = 1 << (log2cb + 3)
    w = unit * rng.choice([1, 2, rng.randint(1, 16888 // unit), ue_sample(rng, 16888 // unit - 1) + 1])
    h = unit * rng.choice([1, 2, rng.randint(1, 16888 // unit), ue_sample(rng, 16888 // unit - 1) + 1])
    r[K(123)], r[K(124)] = w, h
    cf = flag(rng, 0.6)
    r[K(125)] = cf
    if cf:
        sw = 2 if chroma in (1, 2) and not sep else 1
        sh = 2 if chroma == 1 and not sep else 1
        tx = rng.choice([0, 1, rng.randint(0, (w - 1) // sw), ue_sample(rng, (w - 1) // sw)])
        ty = rng.choice([0, 1, rng.randint(0, (h - 1) // sh), ue_sample(rng, (h - 1) // sh)])
        l, t = rng.randint(0, tx), rng.randint(0, ty)
        r[K(126)], r[K(127)], r[K(128)], r[K(129)] = l, tx - l, t, ty - t
    r[K(130)] = rng.randint(0, 8)
    r[K(131)] = rng.randint(0, 8)
    r[K(132)] = rng.randint(0, 12)
    gen_slo(rng, r, max_sub)
    r[K(137)] = log2cb
    r[K(138)] = rng.randint(0, 3)
    r[K(139)] = rng.randint(0, 3)
    r[K(140)] = rng.randint(0, 3)
    r[K(141)] = rng.randint(0, 4)
    r[K(142)] = rng.randint(0, 4)
    se = flag(rng, 0.4)
    r[K(143)] = se
    if se:
        sp = flag(rng, 0.7)
        r[K(144)] = sp
        if sp:
            for s_ in range(4):
                for m in range(0, 6, 3 if s_ == 3 else 1):
                    pm = flag(rng)
                    r[K(145, s_ * 8 + m)] = pm
                    if not pm:
                        r[K(146, s_ * 8 + m)] = rng.randint(0, m // 3 if s_ == 3 else m)
                    else:
                        if s_ > 1:
                            r[K(147, s_ * 8 + m)] = rng.randint(-7, 247)
                        for i in range(min(64, 1 << (4 + 2 * s_))):
                            r[K(148, (s_ * 8 + m) * 64 + i)] = rng.choice([0, rng.randint(-128, 127), rng.randint(-3, 3)])
    r[K(149)] = flag(rng)
    r[K(150)] = flag(rng)
    pcm = flag(rng, 0.3)
    r[K(151)] = pcm
    if pcm:
        r[K(152)] = rng.randint(0, 15)
        r[K(153)] = rng.randint(0, 15)
        r[K(154)] = rng.randint(0, 2)
        r[K(155)] = rng.randint(0, 2)
        r[K(156)] = flag(rng)
    nrps = rng.choice([0, 1, 2, 3, rng.randint(0, 64)])
    r[K(157)] = nrps
    for i in range(nrps):
        nn = rng.choice([0, 1, 2, rng.randint(0, 16)])
        npos = rng.choice([0, 0, 1, rng.randint(0, 16 - nn)])
        r[K(163, i)], r[K(164, i)] = nn, npos
        for j in range(nn):
            r[K(165, i * 32 + j)] = ue_sample(rng, 32767)
            r[K(166, i * 32 + j)] = flag(rng)
        for j in range(npos):
            r[K(167, i * 32 + j)] = ue_sample(rng, 32767)
            r[K(168, i * 32 + j)] = flag(rng)
    lt = flag(rng, 0.3)
    r[K(169)] = lt
    if lt:
        n = rng.choice([0, 1, 2, rng.randint(0, 32)])
        r[K(170)] = n
        for i in range(n):
            r[K(171, i)] = rng.randrange(1 << (r[K(132)] + 4))
            r[K(172, i)] = flag(rng)
    r[K(173)] = flag(rng)
    r[K(174)] = flag(rng)
    vui = flag(rng, 0.75)
    r[K(175)] = vui
    if vui:
        if flag(rng):
            r[K(180)] = 1
            r[K(181)] = rng.choice([1, 2, 255, 255])
            r[K(182)], r[K(183)] = rng.randrange(65536), rng.randrange(65536)
        if flag(rng):
            r[K(184)] = 1
            r[K(185)] = flag(rng)
        if flag(rng):
            r[K(186)] = 1
            r[K(187)] = rng.randint(0, 7)
            r[K(188)] = flag(rng)
            r[K(189)] = flag(rng)
            for k in (190, 191, 192):
                r[K(k)] = rng.randint(0, 255)
        if flag(rng):
            r[K(193)] = 1
            r[K(194)], r[K(195)] = rng.randint(0, 5), rng.randint(0, 5)
        r[K(196)], r[K(197)], r[K(198)] = flag(rng), flag(rng), flag(rng)
        if flag(rng, 0.4):
            r[K(199)] = 1
            for i in range(4):
                r[K(200, i)] = ue_sample(rng, 16888)
        if flag(rng, 0.75):
            r[K(201)] = 1
            r[K(202)] = rng.choice([1, 1000, 1001, rng.randint(1, 2 ** 32 - 1), ue_sample(rng, 2 ** 32 - 2) + 1])
            r[K(203)] = rng.choice([0, 25, 30000, 60000, rng.randrange(2 ** 32)])
            if flag(rng):
                r[K(204)] = 1
                r[K(205)] = ue_sample(rng, 2 ** 32 - 2)
            if flag(rng, 0.5):
                r[K(206)] = 1
                gen_hrd265(rng, r, 0, max_sub)
        if flag(rng):
            r[K(207)] = 1
            r[K(208)], r[K(209)], r[K(210)] = flag(rng), flag(rng), flag(rng)
            r[K(211)] = ue_sample(rng, 4095)
            for k in (212, 213, 214, 215):
                r[K(k)] = rng.randint(0, 16)
    if flag(rng, 0.3):
        r[K(176)] = 1
        r[K(177)] = rng.randint(0, 255)
    return r


def gen_vps(rng):
    r = {}
    r[K(101)] = 32
    r[K(102)] = 0
    r[K(103)] = rng.randint(1, 7)
    r[K(104)] = rng.randint(0, 15)
    r[K(260)], r[K(261)] = flag(rng), flag(rng)
    r[K(262)] = rng.randint(0, 63)
    max_sub = rng.choice([0, 0, 1, 2, rng.randint(0, 6)])
    r[K(105)] = max_sub
    r[K(106)] = 1 if max_sub == 0 else flag(rng)
    gen_ptl(rng, r, max_sub)
    gen_slo(rng, r, max_sub)
    mli = rng.choice([0, 0, 1, rng.randint(0, 62)])
    r[K(263)] = mli
    nls = rng.choice([0, 0, 1, 2, rng.randint(0, 20)])
    r[K(264)] = nls
    for i in range(1, nls + 1):
        for j in range(mli + 1):
            r[K(265, i * 64 + j)] = flag(rng)
    if flag(rng, 0.7):
        r[K(266)] = 1
        r[K(267)] = rng.choice([1, 1001, rng.randrange(2 ** 32)])
        r[K(268)] = rng.choice([25, 60000, rng.randrange(2 ** 32)])
        if flag(rng):
            r[K(269)] = 1
            r[K(270)] = ue_sample(rng, 2 ** 32 - 2)
        nh = rng.choice([0, 0, 1, 2, rng.randint(0, 4)])
        r[K(271)] = nh
        for i in range(nh):
            r[K(272, i)] = ue_sample(rng, 1023)
            if i > 0:
                r[K(273, i)] = 1
            gen_hrd265(rng, r, i + 1, max_sub)
    r[K(274)] = flag(rng)
    return r


# ---------------------------------------------------------------- AudioSpecificConfig
def gen_sfi(rng):
    return rng.choice(list(range(13)) + [15, 15, 15])


SYNCB = [0, 1, 0, 1, 0, 1, 1, 0, 1, 1, 1]


def bits_of(v, n):
    return [(v >> (n - 1 - i)) & 1 for i in range(n)]


def payload_clean(rest, sync, total_before_rest):
    """mirror of payload_ok (the Gallina asc_wf stays the judge): no accidental 0x2b7 in the unread bits"""
    if sync:
        s = rest + SYNCB
        return all(s[k:k + 11] != SYNCB for k in range(len(rest)))
    pad = (-(total_before_rest + len(rest))) % 8
    bs = rest + [0] * pad
    return not any(bs[k:k + 11] == SYNCB for k in range(len(bs)) if len(bs) - k > 15)


def als_rest(rng):
    """ALSSpecificConfig after `channels`: file_type .. aux_data_enabled (64 bits), header_size, trailer_size,
    orig_header[], orig_trailer[], optional crc"""
    crc = flag(rng, 0.3)
    b = bits_of(rng.randrange(8), 3) + bits_of(rng.randrange(8), 3) + [flag(rng), flag(rng)]
    b += bits_of(rng.choice([2047, 4095, rng.randrange(65536)]), 16) + bits_of(rng.randrange(256), 8)
    b += bits_of(rng.randrange(3), 2) + [flag(rng)] + bits_of(rng.randrange(4), 2) + [flag(rng)]
    b += bits_of(rng.randrange(1024), 10) + bits_of(rng.randrange(4), 2)
    b += [flag(rng), flag(rng), flag(rng), flag(rng), 0, 0, crc, flag(rng)] + [0] * 5 + [0]
    nh, nt = rng.choice([0, 0, 1, 4]), rng.choice([0, 0, 2])
    b += bits_of(nh, 32) + bits_of(nt, 32)
    for _ in range(nh + nt):
        b += bits_of(rng.randrange(256), 8)
    if crc:
        b += bits_of(rng.randrange(2 ** 32), 32)
    return b


GA_AOTS = [1, 2, 2, 2, 3, 4]
OTHER_AOTS = [6, 7, 8, 9, 12, 13, 14, 15, 16, 17, 19, 20, 21, 22, 23, 24, 25, 26, 27, 28, 30, 35, 37, 38, 39, 40,
              41, 42, 43, 44, 45, 63, 95]


def gen_asc(rng, wide=False):
    for _ in range(50):
        r = {}
        cls = "als" if wide else rng.choice(["plain", "plain", "plain", "als", "als", "other", "other", "pce"])
        hier = rng.choice([0, 0, 1, 2]) if cls in ("plain", "pce") else 0
        r[K(2)] = hier
        if cls == "plain":
            aot = rng.choice(GA_AOTS) if hier else rng.choice(GA_AOTS + [32, 33, 34])
        elif cls == "pce":
            aot = rng.choice(GA_AOTS)
        elif cls == "als":
            aot = 36
        else:
            aot = rng.choice(OTHER_AOTS)
        r[K(1)] = aot
        sfi = gen_sfi(rng)
        r[K(3)] = sfi
        r[K(4)] = rng.choice([0, 1, 44100, 48000, rng.randrange(2 ** 24), ue_sample(rng, 2 ** 24 - 1)])
        chan = 0 if cls == "pce" else (rng.choice([0, 0, 0, 2, rng.randint(0, 7)]) if cls == "als" else
                                        (rng.randint(1, 7) if cls == "plain" else rng.randint(0, 7)))
        r[K(5)] = chan
        flen = flag(rng)
        r[K(6)] = flen
        r[K(7)] = gen_sfi(rng)
        r[K(8)] = rng.choice([1, 44100, 48000, 96000, rng.randrange(1, 2 ** 24), ue_sample(rng, 2 ** 24 - 2) + 1])
        sync = 0 if cls == "als" else flag(rng, 0.6)
        r[K(9)] = sync
        r[K(10)] = flag(rng, 0.7)
        r[K(11)] = flag(rng)
        r[K(12)] = flag(rng)
        head = (5 if aot < 31 else 11) + 4 + (24 if sfi == 15 else 0) + 4
        opaque = []
        if cls == "als":
            r[K(15)] = rng.choice([8000, 44100, 48000, 96000, 192000, rng.randint(1, 2 ** 32 - 1), ue_sample(rng, 2 ** 32 - 2) + 1])
            r[K(16)] = rng.choice([0, 65536, rng.randrange(2 ** 32)])
            r[K(17)] = (rng.choice([255, 256, 511, 65535, rng.randint(255, 65535)]) if wide else
                        rng.choice([0, 0, 1, 1, 5, 7, 254, rng.randint(0, 254)]))
            opaque = als_rest(rng)
            head += 5 + 112
            rest = opaque
        elif cls == "other":
            opaque = [flag(rng) for _ in range(rng.choice([0, 1, 3, 8, 17, rng.randint(0, 64)]))]
            rest = opaque
        elif cls == "pce":
            opaque = [flag(rng) for _ in range(rng.randint(10, 90))]
            rest = [flen, 0, 0] + opaque
        else:
            rest = [flen, 0, 0] if aot <= 4 else [0]
        r[K(13)] = len(opaque)
        for i, b in enumerate(opaque):
            if b:
                r[K(14, i)] = 1
        if hier or payload_clean(rest, sync, head):
            return r
    return r


def zero_rich(rng):
    """32-bit values whose big-endian bytes hold 00 00 03 / 00 00 0x at some bit alignment"""
    return rng.choice([1, 2, 3, 1001, 3 << rng.randint(0, 8), (3 << rng.randint(0, 8)) | (rng.randrange(256) << 16 if rng.random() < 0.3 else 0),
                       0x00000300 | rng.randrange(256), 0x03000000 >> rng.randint(0, 7)])


def epb_prone(rng, r, kind):
    """make the record carry timing fields that need emulation prevention (and, at the right
    alignment, an RBSP that itself contains 00 00 03)"""
    if kind == 264:
        r[K(37)] = 1
        r[K(56)] = 1
        r[K(57)] = max(1, zero_rich(rng)) % (2 ** 31) or 1
        r[K(58)] = zero_rich(rng)
        r[K(59)] = flag(rng)
    elif kind == 265:
        r[K(175)] = 1
        r[K(201)] = 1
        r[K(202)] = max(1, zero_rich(rng))
        r[K(203)] = zero_rich(rng)
    else:
        r[K(266)] = 1
        r[K(267)] = zero_rich(rng)
        r[K(268)] = zero_rich(rng)
        r.setdefault(K(271), 0)
    return r


def epb_stats(ck, name, nals):
    n = max(1, len(nals))
    epb = sum(1 for b in nals if b"\0\0\3" in b)
    deep = sum(1 for b in nals if b"\0\0\3\3" in b)      # the un-escaped RBSP itself contains 00 00 03
    ck.extra.setdefault("epb", {})[name] = {"records": len(nals), "with_00_00_03": epb, "rbsp_with_00_00_03": deep}
    if epb < 0.10 * n or deep < 0.02 * n:
        ck.fail(name, "generator", "", note="emulation-prevention coverage too low: %d with EPB, %d with 00 00 03 in the RBSP, of %d" % (epb, deep, n))


def rec_val(r):
    return [[k, v] for k, v in sorted(r.items())]


# ---------------------------------------------------------------- malformed inputs
def mutate(rng, b):
    b = bytearray(b)
    k = rng.random()
    if k < 0.35 and b:
        for _ in range(rng.choice([1, 1, 2, 5])):
            i = rng.randrange(len(b) * 8)
            b[i >> 3] ^= 0x80 >> (i & 7)
    elif k < 0.6:
        b = b[:rng.randint(0, len(b))]
    elif k < 0.75 and b:
        i = rng.randrange(len(b))
        b[i:i + rng.randint(1, 4)] = bytes(rng.randrange(256) for _ in range(rng.randint(0, 4)))
    elif k < 0.85:
        i = rng.randint(0, len(b))
        b[i:i] = bytes(rng.choice([0, 0, 0, 1, 3, 255]) for _ in range(rng.randint(1, 5)))
    else:
        b = bytearray(b[:rng.randint(0, min(len(b), 6))]) + bytes(rng.randrange(256) for _ in range(rng.randint(0, 40)))
    return bytes(b)


def emit_all(ck, fn, recs):
    """run the Gallina encoder in the driver: record -> bytes (None when not well-ranged)"""
    out = vlib.run_driver(ck.prop, fn, [vlib.vs(rec_val(r)) for r in recs])
    res = []
    for o in out:
        v = vlib.vparse(o)
        res.append(v[0] if v else None)
    return res


def sig_of(name):
    return lambda c, e, o: name + (":panic" if o.startswith("(x21") else "")


def run(ck):
    if not ck.prepare():
        return ck.finish(rule="build failed")
    rng = ck.rng
    T = ck.thorough
    # ---- bit reader against utils/bits
    rd = []
    for _ in range(6000 if T else 800):
        data = bytes(rng.choice([0, 0, rng.randrange(256), 255, 1, 128]) for _ in range(rng.randint(0, 14)))
        ops = []
        for _ in range(rng.randint(1, 8)):
            t = rng.choice([0, 1, 1, 2, 2, 3])
            ops.append([t, rng.choice([-1, 0, 1, 3, 8, 13, 31, 32, 33, 40])] if t in (0, 3) else [t])
        rd.append([data, ops])
    ck.stream("bit_reader", rd, "C15_reader", "reader", None, nontrivial=lambda c: len(c[0]) > 1,
              sig=sig_of("bit-reader"), sample=2)
    # ---- H.264 records
    n = 12000 if T else 1200
    recs = [epb_prone(rng, gen_h264(rng), 264) if rng.random() < 0.4 else gen_h264(rng) for _ in range(n)]
    nals = emit_all(ck, "C15_h264_emit", recs)
    bad = [r for r, b in zip(recs, nals) if b is None]
    if len(bad) > n // 50:
        ck.fail("h264_records", "generator", vlib.vs(rec_val(bad[0])), note="%d of %d generated H.264 records not well-ranged" % (len(bad), n))
    cases = [[rec_val(r), b] for r, b in zip(recs, nals) if b is not None]
    ck.stream("h264_records", cases, "C15_h264_run", "h264", "C15_h264_ok", sig=sig_of("h264-record"))
    epb_stats(ck, "h264_records", [c[1] for c in cases])
    valid = [c[1] for c in cases]
    garb = [mutate(rng, rng.choice(valid)) for _ in range(10000 if T else 800)]
    garb += [bytes([0x67]) + bytes(rng.randrange(256) for _ in range(rng.randint(0, 60))) for _ in range(3000 if T else 300)]
    garb += [bytes(rng.randrange(256) for _ in range(rng.randint(0, 30))) for _ in range(1000 if T else 200)]
    ck.stream("h264_malformed", garb, "C15_h264_bytes", "h264b", "C15_total_ok", nontrivial=lambda c: len(c) > 4,
              sig=sig_of("h264-malformed"), sample=2)
    # glue: the same parameter sets inside a generated SDP through sdp.ParseMetadata and media.NewStream
    g = 2000 if T else 100
    ck.stream("h264_sdp", sorted(cases, key=lambda c: b"\0\0\3" not in c[1])[:g], "C15_h264_glue", "sdp264", "C15_glue_ok", sig=sig_of("h264-sdp"), sample=1)
    ck.stream("h264_sdp_malformed", garb[:g], "C15_h264_glueb", "sdp264b", "C15_glue_total_ok", nontrivial=lambda c: len(c) > 4,
              sig=sig_of("h264-sdp-malformed"), sample=1)
    # ---- H.265 SPS / VPS
    n = 8000 if T else 1000
    recs = [epb_prone(rng, gen_h265(rng), 265) if rng.random() < 0.4 else gen_h265(rng) for _ in range(n)]
    nals = emit_all(ck, "C15_h265_emit", recs)
    cases = [[rec_val(r), b] for r, b in zip(recs, nals) if b is not None]
    if len(cases) < n * 0.98:
        bad = [r for r, b in zip(recs, nals) if b is None]
        ck.fail("h265_records", "generator", vlib.vs(rec_val(bad[0])), note="%d of %d generated H.265 SPS records not well-ranged" % (len(bad), n))
    ck.stream("h265_records", cases, "C15_h265_run", "h265", "C15_h265_ok", sig=sig_of("h265-record"))
    epb_stats(ck, "h265_records", [c[1] for c in cases])
    valid = [c[1] for c in cases]
    garb = [mutate(rng, rng.choice(valid)) for _ in range(8000 if T else 900)]
    garb += [bytes([0x42, 0x01]) + bytes(rng.randrange(256) for _ in range(rng.randint(0, 80))) for _ in range(2000 if T else 300)]
    ck.stream("h265_malformed", garb, "C15_h265_bytes", "h265b", "C15_total_ok", nontrivial=lambda c: len(c) > 4,
              sig=sig_of("h265-malformed"), sample=2)
    ck.stream("h265_sdp", sorted(cases, key=lambda c: b"\0\0\3" not in c[1])[:g], "C15_h265_glue", "sdp265", "C15_h265_glue_ok", sig=sig_of("h265-sdp"), sample=1)
    ck.stream("h265_sdp_malformed", garb[:g], "C15_h265_glueb", "sdp265b", "C15_glue_total_ok", nontrivial=lambda c: len(c) > 4,
              sig=sig_of("h265-sdp-malformed"), sample=1)
    # D30 (known finding): the last short-term RPS predicted from the previous one — valid per 7.3.7
    irecs = []
    for _ in range(400 if T else 60):
        r = gen_h265(rng)
        nr = r[K(157)]
        if nr < 2:
            nr = 2
            r[K(157)] = 2
            for i in range(2):
                r.setdefault(K(163, i), 0)
                r.setdefault(K(164, i), 0)
        last = nr - 1
        ndp = r.get(K(163, last - 1), 0) + r.get(K(164, last - 1), 0)
        r[K(158, last)] = 1
        r[K(159, last)] = flag(rng)
        r[K(160, last)] = ue_sample(rng, 32767)
        for j in range(ndp + 1):
            u = flag(rng, 0.7)
            r[K(161, last * 32 + j)] = u
            if not u:
                r[K(162, last * 32 + j)] = flag(rng)
        irecs.append(r)
    inals = emit_all(ck, "C15_h265i_emit", irecs)
    icases = [[rec_val(r), b] for r, b in zip(irecs, inals) if b is not None]
    if len(icases) < len(irecs) * 0.9:
        ck.fail("h265_inter_rps", "generator", "", note="inter-RPS witnesses not well-ranged")
    ck.stream("h265_inter_rps", icases, "C15_h265_run", "h265", "C15_h265i_ok",
              sig=lambda c, e, o: "h265-inter-rps" if o.startswith("((0) ") and e == o else "h265-inter-rps:other")
    n = 5000 if T else 700
    recs = [epb_prone(rng, gen_vps(rng), 0) if rng.random() < 0.4 else gen_vps(rng) for _ in range(n)]
    nals = emit_all(ck, "C15_vps_emit", recs)
    cases = [[rec_val(r), b] for r, b in zip(recs, nals) if b is not None]
    if len(cases) < n * 0.98:
        bad = [r for r, b in zip(recs, nals) if b is None]
        ck.fail("vps_records", "generator", vlib.vs(rec_val(bad[0])), note="%d of %d generated VPS records not well-ranged" % (len(bad), n))
    ck.stream("vps_records", cases, "C15_vps_run", "vps", "C15_vps_ok", sig=sig_of("vps-record"))
    epb_stats(ck, "vps_records", [c[1] for c in cases])
    valid = [c[1] for c in cases]
    garb = [mutate(rng, rng.choice(valid)) for _ in range(5000 if T else 600)]
    garb += [bytes([0x40, 0x01]) + bytes(rng.randrange(256) for _ in range(rng.randint(0, 60))) for _ in range(1500 if T else 300)]
    ck.stream("vps_malformed", garb, "C15_vps_bytes", "vpsb", "C15_vps_total_ok", nontrivial=lambda c: len(c) > 4,
              sig=sig_of("vps-malformed"), sample=2)
    # ---- AudioSpecificConfig
    n = 8000 if T else 1200
    recs = [gen_asc(rng) for _ in range(n)]
    cfgs = emit_all(ck, "C15_asc_emit", recs)
    cases = [[rec_val(r), b] for r, b in zip(recs, cfgs) if b is not None]
    if len(cases) < n * 0.98:
        bad = [r for r, b in zip(recs, cfgs) if b is None]
        ck.fail("asc_records", "generator", vlib.vs(rec_val(bad[0])), note="%d of %d generated ASC records not well-ranged" % (len(bad), n))
    # every class must be present among the well-ranged records (ALS incl. >= 6 channels, other AOTs, AOT >= 32, PCE)
    def aot_of(c):
        return dict((k, v) for k, v in c[0]).get(K(1), 0)
    cls_count = {"als": sum(1 for c in cases if aot_of(c) == 36),
                 "als6": sum(1 for c in cases if aot_of(c) == 36 and dict(map(tuple, c[0])).get(K(17), 0) >= 5),
                 "escape": sum(1 for c in cases if aot_of(c) >= 32),
                 "other": sum(1 for c in cases if aot_of(c) in OTHER_AOTS),
                 "pce": sum(1 for c in cases if aot_of(c) <= 4 and dict(map(tuple, c[0])).get(K(5), 0) == 0)}
    ck.extra["asc_classes"] = cls_count
    for k, v in cls_count.items():
        if v < 10:
            ck.fail("asc_records", "generator", "", note="ASC class %s reached only %d times" % (k, v))
    ck.stream("asc_records", cases, "C15_asc_run", "asc", "C15_asc_ok", sig=sig_of("asc-record"))
    # known finding: ALS with more than 255 channels (the decoder keeps the count in a uint8)
    wrecs = [gen_asc(rng, wide=True) for _ in range(300 if T else 40)]
    wcfgs = emit_all(ck, "C15_asc_wide_emit", wrecs)
    wcases = [[rec_val(r), b] for r, b in zip(wrecs, wcfgs) if b is not None]
    if len(wcases) < len(wrecs) * 0.9:
        ck.fail("asc_als_wide", "generator", "", note="wide ALS witnesses not well-ranged")
    ck.stream("asc_als_wide", wcases, "C15_asc_run", "asc", "C15_asc_wide_ok",
              sig=lambda c, e, o: "asc-als-wide-channels" if e == o and o.startswith("((1 ") else "asc-als-wide:other")
    valid = [c[1] for c in cases]
    garb = [mutate(rng, rng.choice(valid)) for _ in range(8000 if T else 900)]
    garb += [bytes(rng.randrange(256) for _ in range(rng.randint(0, 24))) for _ in range(4000 if T else 400)]
    # ALS (AOT 36) configurations, well-formed and damaged
    for _ in range(1500 if T else 300):
        bits = "11111" + format(36 - 32, "06b") + format(rng.randrange(13), "04b") + format(rng.randrange(8), "04b") + "00000"
        body = (b"" if rng.random() < 0.5 else bytes(3)) + b"ALS\0" + rng.choice([bytes(4), (48000).to_bytes(4, "big"), bytes(rng.randrange(256) for _ in range(4))]) \
            + bytes(4) + rng.randrange(65536).to_bytes(2, "big") + bytes(rng.randrange(256) for _ in range(rng.randint(0, 6)))
        allb = bits + "".join(format(x, "08b") for x in body)
        allb += "0" * (-len(allb) % 8)
        cfg = bytes(int(allb[i:i + 8], 2) for i in range(0, len(allb), 8))
        garb.append(cfg if rng.random() < 0.6 else mutate(rng, cfg))
    ck.stream("asc_malformed", garb, "C15_asc_bytes", "ascb", "C15_asc_total_ok", nontrivial=lambda c: len(c) > 1,
              sig=sig_of("asc-malformed"), sample=2)
    ck.stream("aac_sdp", (valid + garb)[:2 * g], "C15_sdpaac", "sdpaac", "C15_aac_glue_ok", nontrivial=lambda c: len(c) > 1,
              sig=sig_of("aac-sdp"), sample=1)
    # ---- emulation prevention and the float quotient on their own
    esc = [bytes(rng.choice([0, 0, 0, 1, 2, 3, 3, 4, 255]) for _ in range(rng.randint(0, 12))) for _ in range(4000 if T else 500)]
    ck.stream("unescape", esc, "C15_unescape", "unescape", None, nontrivial=lambda c: b"\0\0\3" in c,
              sig=sig_of("unescape"), sample=2)
    fd = [[rng.choice([0, 1, 25, 30000, rng.randrange(2 ** 32)]), rng.choice([0, 1, 2, 1001, 2002, rng.randrange(2 ** 32)])] for _ in range(4000 if T else 500)]
    ck.stream("f64_quotient", fd, "C15_f64div", "f64div", None, nontrivial=lambda c: c[1] > 2,
              sig=sig_of("f64div"), sample=2)
    return ck.finish(
        rule="syntax records (H.264 SPS, H.265 SPS and VPS, AudioSpecificConfig) drawn field by field over every optional "
             "branch: profile class, chroma_format_idc 0..3, separate_colour_plane, scaling lists with negative deltas and early "
             "termination, POC types, field coding, cropping / conformance window, VUI, NAL/VCL and sub-picture HRD, 1..7 "
             "temporal sub-layers with and without ordering info and sub-layer PTL, short-term RPS, long-term pictures, PCM, "
             "layer sets; ASC rate index 0..12 and the 24-bit escape, every object type 1..95 (escape-coded >= 32: Layer 1-3, "
             "ALS with ALSSpecificConfig als_id/samp_freq/samples/channels 1..255 channels, others with opaque specific "
             "configuration), channelConfiguration 0 with PCE bits, hierarchical SBR/PS and the 0x2b7/0x548 sync extensions "
             "(each class required >= 10 times per run); ue/se values log-uniform over all code lengths. Each record is encoded by the Gallina "
             "emit of the standard's syntax (run in the driver, the function in the theorems), NAL-wrapped with rbsp trailing "
             "bits and emulation prevention, and decoded by the real decoder. Every parser entry point (Decode and the MetadataIsReady shortcut) is called "
             "on the case's bytes placed in a long-lived backing array shared by consecutive cases, with 8 guard bytes inside "
             "the slice's capacity; observed = (first result, backing array after both calls, second result). Oracle = the "
             "proved pure_ok . ok_*: buffer and guard unchanged, second result = first, reported values = the standard's "
             "derived-value formulas; >= 10% of the NAL records must need emulation prevention and >= 2% must have an RBSP "
             "that itself contains 00 00 03 (quick tier: ~70-90% / ~15-20%); non-trivial = record well-ranged (emit succeeded; >98% required). The same "
             "parameter sets (EPB-bearing ones first) travel inside a generated SDP through sdp.ParseMetadata and media.NewStream: "
             "the stream's stored Sps/Vps/Pps must be the bytes sent and a second consumer's parse must agree. Malformed: bit flips, "
             "truncations, splices, inserted 00/03 bytes, random and ALS configurations, compared (error/no-error and values) "
             "against the model of the Go decoder; plus bit reader, emulation-prevention removal and float quotient directly.",
        trusted=["float64(uint32)/float64(uint32) is the correctly rounded quotient (f64_div_bits, compared with the hardware every run)",
                 "nal_shape_ok (NAL >= 4 bytes, non-zero header byte) and h26x_ranges (absent field = 0, flags are bits, "
                 "num_units_in_tick > 0) are hypotheses of the dims theorems re-checked by the oracle on every case"],
        assumptions=["H.264: profile_idc not in {128,138,139,134,135} (subset-SPS profiles) nor 183; num_units_in_tick in 1..2^31-1; "
                     "picture size within Table A-1 (<= 1055 macroblocks per side)",
                     "H.265: short-term RPS without inter prediction (D30, known finding, witness replayed every run); VPS hrd with "
                     "cprms_present_flag = 1; the fixed-rate flag of H265RawSPS (a TODO in the source: FrameRate() > 0) is not compared; "
                     "frame rate = time_scale / num_units_in_tick",
                     "ASC: object types 1..95 except 5/29 as core; GASpecificConfig with dependsOnCoreCoder = 0; specific-config bits "
                     "the parser does not read must not spell the sync word 0x2b7 before the real one (payload_ok; automatic for "
                     "AAC/Layer configurations); ALS channel count <= 255 (known finding asc-als-wide-channels replayed every run); "
                     "channels = Table 1.19 of channelConfiguration, 0 reported when it is 0 (PCE not parsed), PS up-mix not applied"])
