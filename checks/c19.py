"""C19 — port multiplexing: patricia tree, sniffing Conn, Listener.serve with the
production matchers on a scripted net.Conn, and real loopback connections."""

RTSP_METHODS = ["DESCRIBE", "ANNOUNCE", "SETUP", "PLAY", "PAUSE", "TEARDOWN",
                "GET_PARAMETER", "SET_PARAMETER", "RECORD", "REDIRECT"]
HTTP_METHODS = ["OPTIONS", "GET", "HEAD", "POST", "PATCH", "PUT", "DELETE", "TRACE", "CONNECT"]
RTSP_TABLE = ["OPTIONS * RTSP", "OPTIONS * rtsp", "OPTIONS rtsp://", "OPTIONS RTSP://"] + RTSP_METHODS
TARGETS = ["*", "rtsp://h/x", "RTSP://10.0.0.1:554/live/1", "rtsp://u:p@cam/s?a=1", "/", "/index.html",
           "http://x/", "/ws/live", "rtsp:/x", "Rtsp://x", "*x", "rtsps://h/x", "rtsp://"]
VERSIONS = ["RTSP/1.0", "rtsp/1.0", "HTTP/1.1", "HTTP/1.0", "RTSP/2.0", "Rtsp/1.0", "HTTP/2", ""]
EOF, TIMEOUT, OTHER = 1, 2, 3


def gen_first_line(rng):
    """mostly well-formed request lines over the method/target/version grammar"""
    k = rng.random()
    if k < 0.40:
        m = rng.choice(RTSP_METHODS)
    elif k < 0.75:
        m = rng.choice(HTTP_METHODS)
    else:
        m = "OPTIONS"
    t = rng.choice(TARGETS)
    v = rng.choice(VERSIONS)
    if m in RTSP_METHODS and rng.random() < 0.7:
        t = rng.choice(TARGETS[:4]); v = "RTSP/1.0"
    if m in HTTP_METHODS and m != "OPTIONS" and rng.random() < 0.7:
        t = rng.choice(TARGETS[4:8]); v = rng.choice(["HTTP/1.1", "HTTP/1.0"])
    return m + " " + t + (" " + v if v else "") + "\r\n"


def gen_bad_line(rng):
    """the malformed stream: arbitrary prefixes, wrong case, truncations, wrong separators, binary"""
    base = gen_first_line(rng)
    k = rng.randrange(9)
    if k == 0:
        return rng.choice(["\r\n", " ", "\x00", "\x16\x03\x01", "$\x00\x00\x10", "X"]) + base
    if k == 1:
        return base.lower()
    if k == 2:
        return base[:rng.randint(0, min(len(base), 17))]
    if k == 3:
        return base.replace(" ", rng.choice(["  ", "\t", ""]), 1)
    if k == 4:
        i = rng.randrange(min(len(base), 16))
        return base[:i] + chr((ord(base[i]) ^ rng.choice([1, 32, 0x80])) & 0xff) + base[i + 1:]
    if k == 5:
        return "".join(chr(rng.randrange(256)) for _ in range(rng.randint(0, 24)))
    if k == 6:
        return rng.choice(RTSP_METHODS + HTTP_METHODS) + rng.choice(["X", "_", "S", "\r\n", ""]) + " / HTTP/1.1\r\n"
    if k == 7:
        return rng.choice(["OPTIONS *  RTSP/1.0\r\n", "OPTIONS * RTS", "OPTIONS * HTTP/1.1\r\n", "OPTIONS rtsp:/",
                           "OPTIONS rtsp:/x RTSP/1.0\r\n", "OPTIONS", "OPTIONS ", "OPTIONS *", "OPTIONS * ",
                           "OPTION", "GET_PARAMETE", "GET_", "GET", "GE", "SET", "SETU", "P", "PLA", "PU", "DE", "DES"])
    return ""


def gen_stream(rng, maxbody):
    line = gen_first_line(rng) if rng.random() < 0.7 else gen_bad_line(rng)
    if rng.random() < 0.25:
        return line.encode("latin-1")
    hdr = "CSeq: %d\r\nHost: x\r\n\r\n" % rng.randrange(100)
    n = rng.choice([0, 0, 1, 5, 17, 64, maxbody]) if maxbody else 0
    body = bytes(rng.randrange(256) for _ in range(rng.randint(0, n)))
    return (line + hdr).encode("latin-1") + body


def chunk(rng, data, fine):
    """a segmentation of the client's writes"""
    out = []
    i = 0
    style = rng.random()
    while i < len(data):
        if style < 0.15:
            n = 1
        elif style < 0.3:
            n = len(data)
        elif fine and i < 20:
            n = rng.choice([1, 1, 2, 3, 5, 7, 8, 9, 15, 16, 17])
        else:
            n = rng.choice([1, 2, 7, 8, 16, 33, 100, 1000, 5000])
        out.append(data[i:i + n])
        i += n
    return out


def gen_script(rng, data, hostile):
    """read results of the raw connection: segments of the stream, optionally with
    errors attached, spurious (0,nil), (0,timeout), and an explicit (0,EOF)"""
    items = [[c, 0] for c in chunk(rng, data, True)]
    if hostile:
        j = 0
        while j < len(items):
            r = rng.random()
            if r < 0.12:
                items[j][1] = rng.choice([EOF, OTHER, TIMEOUT])       # data together with an error
            elif r < 0.18:
                items.insert(j, [b"", rng.choice([0, 0, TIMEOUT, OTHER])]); j += 1
            j += 1
        if rng.random() < 0.4:
            items.append([b"", rng.choice([EOF, TIMEOUT, OTHER])])
    return items


SVC_SIZES = [0, 1, 1, 2, 3, 5, 7, 8, 15, 16, 17, 31, 64, 4096]


def gen_svc(rng, total, nitems):
    """read-buffer sizes of the receiving service; usually enough of them to drain the connection"""
    style = rng.random()
    out = []
    budget = total + nitems + 3 if rng.random() < 0.8 else rng.randint(0, 6)
    if style < 0.25:
        n = rng.choice([1, 2, 3, 5, 64, 4096])
        cnt = min(budget, total // max(n, 1) + nitems + 3)
        return [n] * min(cnt, 400)
    got = 0
    while (got < budget) and len(out) < 400:
        n = rng.choice(SVC_SIZES)
        out.append(n)
        got += max(n, 1) if n else 0
        if n == 0:
            budget -= 0
    return out


def gen_sessions(rng):
    k = rng.randrange(5)
    out = []
    for _ in range(k):
        style = rng.random()
        if style < 0.4:                      # io.ReadFull-like
            want = rng.choice([1, 4, 8, 16, 24])
            out.append([want, max(want - rng.randint(1, 8), 0) or 1, rng.randint(1, want)])
        else:
            out.append([rng.choice([0, 1, 2, 3, 8, 16, 40]) for _ in range(rng.randint(0, 5))])
    return out


def gen_table(rng):
    k = rng.random()
    if k < 0.2:
        return list(RTSP_TABLE)
    if k < 0.35:
        return list(HTTP_METHODS) + rng.sample(["PRI", "GE", "GETX", "OPTIONS *"], rng.randint(0, 2))
    alpha = rng.choice(["ab", "abc", "GETS_ "])
    n = rng.choice([0, 1, 1, 2, 2, 3, 4, 6, 9])
    t = ["".join(rng.choice(alpha) for _ in range(rng.choice([0, 1, 1, 2, 3, 3, 4, 6]))) for _ in range(n)]
    if t and rng.random() < 0.3:
        t.append(rng.choice(t) + rng.choice(alpha))          # one string a prefix of another
    if t and rng.random() < 0.2:
        t.append(rng.choice(t))                               # duplicate
    rng.shuffle(t)
    return t


def gen_inputs(rng, table, n):
    out = [""]
    alpha = "abGETS_ c"
    for _ in range(n):
        k = rng.random()
        if table and k < 0.35:
            s = rng.choice(table)
            out.append(s + "".join(rng.choice(alpha) for _ in range(rng.randint(0, 3))))
        elif table and k < 0.55:
            s = rng.choice(table)
            out.append(s[:rng.randint(0, len(s))])
        elif table and k < 0.8:
            s = rng.choice(table) + rng.choice(alpha)
            i = rng.randrange(len(s))
            out.append(s[:i] + rng.choice(alpha) + s[i + 1:])
        else:
            out.append("".join(rng.choice(alpha) for _ in range(rng.randint(0, 8))))
    return out


def stream_of(script):
    return b"".join((x[0] if isinstance(x[0], (bytes, bytearray)) else x[0].encode("latin-1")) for x in script)


def classify_py(data):
    s = data.decode("latin-1")
    if any(s.startswith(t) for t in RTSP_TABLE):
        return 0
    if any(s.startswith(t) for t in HTTP_METHODS):
        return 1
    return -1


SDP = ("v=0\r\no=- 0 0 IN IP4 127.0.0.1\r\ns=x\r\nc=IN IP4 127.0.0.1\r\nt=0 0\r\n"
       "m=video 0 RTP/AVP 96\r\na=rtpmap:96 H264/90000\r\na=control:streamid=0\r\n")


def gen_body(rng, kind):
    k = rng.random()
    if kind == "sdp" and k < 0.7:
        return SDP[:rng.choice([len(SDP), len(SDP), 60, 20])].encode()
    if k < 0.5:
        return ("param%d: %d\r\n" % (rng.randrange(9), rng.randrange(1000))).encode() * rng.randint(1, 4)
    if k < 0.7:                                   # a body that looks like a header block / another request
        return b"x\r\n\r\nOPTIONS * RTSP/1.0\r\n\r\n"[:rng.randint(3, 30)]
    return bytes(rng.randrange(256) for _ in range(rng.choice([1, 2, 5, 17, 64, 300])))


def gen_rtsp_messages(rng, first=True):
    """a connection's byte stream: 1-4 RTSP requests, most with a body; returns (stream, spans of the bodies)"""
    out, spans = b"", []
    for i in range(rng.choice([1, 2, 2, 3, 4])):
        m = rng.choice(["ANNOUNCE", "SET_PARAMETER", "GET_PARAMETER", "OPTIONS", "DESCRIBE", "SETUP", "PLAY", "RECORD", "TEARDOWN"])
        body = b""
        if m == "ANNOUNCE":
            body = gen_body(rng, "sdp")
        elif m in ("SET_PARAMETER", "GET_PARAMETER") and rng.random() < 0.85:
            body = gen_body(rng, "param")
        head = "%s rtsp://h/live/s%d RTSP/1.0\r\nCSeq: %d\r\n" % (m, rng.randrange(5), i + 1)
        if body or rng.random() < 0.2:
            if m == "ANNOUNCE":
                head += "Content-Type: application/sdp\r\n"
            head += "Content-Length: %d\r\n" % len(body)
        head += "\r\n"
        out += head.encode()
        spans.append((len(out), len(out) + len(body)))
        out += body
    return out, spans


def gen_http_messages(rng):
    out, spans = b"", []
    for i in range(rng.choice([1, 2, 2, 3])):
        m = rng.choice(["POST", "PUT", "PATCH", "GET", "DELETE", "POST"])
        body = gen_body(rng, "param") if m in ("POST", "PUT", "PATCH") else b""
        head = "%s /api/v1/r%d HTTP/1.1\r\nHost: x\r\n" % (m, rng.randrange(5))
        if body or m in ("POST", "PUT", "PATCH"):
            head += "Content-Length: %d\r\n" % len(body)
        head += "\r\n"
        out += head.encode()
        spans.append((len(out), len(out) + len(body)))
        out += body
    return out, spans


def interesting_cuts(rng, n, spans):
    """cut positions: inside the sniffed prefix, in the headers, at the header/body boundary, inside and at the end of bodies"""
    cand = [rng.randint(1, 15), rng.randint(16, max(17, spans[0][0] - 1))]
    for a, b in spans:
        cand += [a, a - 2, a - 1]
        if b > a:
            cand += [a + 1, b - 1, b, rng.randint(a, b), rng.randint(a, b)]
    return sorted(set(k for k in cand if 0 < k < n))


def cut_script(data, cuts):
    out, last = [], 0
    for k in sorted(set(cuts)):
        if last < k < len(data):
            out.append([data[last:k], 0]); last = k
    out.append([data[last:], 0])
    return out


def cut_in_body(cuts, spans):
    return any(a < k < b for k in cuts for a, b in spans)


def run(ck):
    if not ck.prepare():
        return ck.finish(rule="build failed")
    rng = ck.rng
    T = ck.thorough

    # ---- 1. the tree against its specification
    cases = []
    for _ in range(12000 if T else 500):
        t = gen_table(rng)
        cases.append([t, gen_inputs(rng, t, 14)])
    ck.stream("ptree", cases, "C19_ptree_run", "C19_ptree", "C19_ptree_ok",
              nontrivial=lambda c: len(c[0]) >= 2, sig=lambda c, e, o: "ptree-match", sample=2)

    # ---- 2. the sniffing Conn under arbitrary matcher / service read sequences
    cases = []
    for i in range(30000 if T else 1500):
        data = gen_stream(rng, 200 if not T else 700)
        sc = gen_script(rng, data, hostile=rng.random() < 0.6)
        cases.append([sc, gen_sessions(rng), gen_svc(rng, len(data), len(sc))])
    ck.stream("sniffer", cases, "C19_sniff_run", "C19_sniff", "C19_sniff_ok",
              nontrivial=lambda c: len(c[1]) >= 1 and len(c[0]) >= 2 and len(c[2]) >= 2,
              sig=lambda c, e, o: "sniffer-replay", sample=2)

    # ---- 3. Listener.serve with the production matchers (and random tables) on a scripted conn
    cases = []
    for i in range(50000 if T else 1800):
        data = gen_stream(rng, 100 if not T else 500)
        nch = 3 if T else 2
        for _ in range(nch):
            sc = gen_script(rng, data, hostile=rng.random() < 0.35)
            cases.append([0, sc, gen_svc(rng, len(data), len(sc))])
    for i in range(3000 if T else 300):
        tabs = [t for t in (gen_table(rng) for _ in range(rng.randint(1, 3))) if t]
        if not tabs:
            continue
        pick = rng.choice(tabs)
        data = (rng.choice(pick) + "".join(rng.choice("abGET ") for _ in range(rng.randint(0, 30)))).encode()
        if rng.random() < 0.3:
            data = data[:rng.randint(0, len(data))]
        sc = gen_script(rng, data, hostile=rng.random() < 0.3)
        cases.append([tabs, sc, gen_svc(rng, len(data), len(sc))])
    if T:   # payloads to 64 KiB through the scripted conn
        for n in (20000, 40000, 65536):   # larger ones (to 1 MiB) go through the loopback stream: the extracted model recurses on the list
            data = (gen_first_line(rng) + "\r\n").encode() + bytes(rng.randrange(256) for _ in range(n))
            # model evaluation is O(stream) per read (unary nat, inductive lists): coarse segments, large reads
            sc = [[c, 0] for c in chunk(rng, data[:40], True)]
            i = 40
            while i < len(data):
                k = rng.choice([4096, 16384, 65536])
                sc.append([data[i:i + k], 0]); i += k
            cases.append([0, sc, [7] + [65536] * (len(sc) + 3)])
    ck.stream("serve", cases, "C19_serve_run", "C19_serve", "C19_serve_ok",
              nontrivial=lambda c: len(c[1]) >= 2 and len(stream_of(c[1])) >= 8,
              sig=lambda c, e, o: "serve-" + ("misroute" if (e or "").split(" ")[0] != (o or "").split(" ")[0] else "replay"),
              sample=3, timeout=1500)

    # ---- 3b. read errors at every position of the sniff phase, followed by more data
    cases = []
    lines = ["GET /", "PLAY ", "OPTIONS * RTSP", "GET / HTTP/1.1\r\nHost: x\r\n\r\nbody",
             "DESCRIBE rtsp://h/live/1 RTSP/1.0\r\nCSeq: 1\r\n\r\n", "OPTIONS * RTSP/1.0\r\nCSeq: 1\r\n\r\n",
             "POST /api HTTP/1.1\r\nContent-Length: 3\r\n\r\nabc", "SET_PARAMETER rtsp://h/x RTSP/1.0\r\n\r\n"]
    for line in (lines if T else rng.sample(lines, 5) + lines[:3]):
        full = line.encode() + (b" and more bytes that arrive late\r\n\r\n" if len(line) < 16 else b"")
        for k in range(0, min(len(full), 18)):
            for kind in ([TIMEOUT, OTHER, EOF] if T else [TIMEOUT, rng.choice([OTHER, EOF, TIMEOUT])]):
                sc = []
                if k:
                    sc.append([full[:k], 0])
                sc.append([b"", kind])                                  # an error with no bytes while sniffing
                if rng.random() < 0.3:
                    sc.append([b"", kind])                              # ... a deadline that keeps firing
                rest = full[k:]
                j = rng.randint(1, max(1, min(len(rest), 12)))
                sc.append([rest[:j], 0])
                if rest[j:]:
                    sc.append([rest[j:], rng.choice([0, 0, 0, EOF])])   # now and then the last bytes come with EOF
                svc = [rng.choice([1, 2, 3, 5]) for _ in range(len(full))] + [4096, 4096, 4096]
                cases.append([0, sc, svc])
            if k and rng.random() < 0.5:                                 # an error together with bytes, then more data
                sc = [[full[:k], rng.choice([OTHER, TIMEOUT])], [full[k:], 0]]
                cases.append([0, sc, [rng.choice([1, 2, 7]) for _ in range(len(full))] + [4096, 4096]])
    ck.stream("sniff_errors", cases, "C19_serve_run", "C19_serve", "C19_serve_ok",
              nontrivial=lambda c: any(x[1] for x in c[1]) and len(stream_of(c[1])) >= 4,
              sig=lambda c, e, o: "sniff-error-replayed", sample=2, timeout=1500)

    # ---- 4. real loopback connections through listener.New / Serve with stub services
    cases = []
    for i in range(800 if T else 44):
        k = rng.random()
        line = gen_first_line(rng) if rng.random() < 0.75 else gen_bad_line(rng)
        head = (line + "CSeq: 1\r\n\r\n").encode("latin-1") if rng.random() < 0.8 else line.encode("latin-1")
        fill = 0
        if len(head) >= 16:
            fill = rng.choice([0, 10, 1000, 70000] + ([1 << 20, 300000] if T else [150000]))
        silent = rng.random() < 0.35
        tmo = 0
        splits, gap = [], 0
        if silent and len(head) < 16:
            tmo = 120                                        # sniff timeout must fire
        else:
            if rng.random() < 0.2:
                tmo = 3000
            if rng.random() < 0.7:
                splits = [rng.choice([1, 2, 3, 5, 7, 8, 9, 16]) for _ in range(rng.randint(1, 5))]
                gap = rng.choice([0, 200, 1500])
        cases.append([tmo, head, fill, rng.randrange(1 << 30), splits, gap, rng.choice([1, 3, 16, 64, 4096, 65536]) if fill < 100000 else rng.choice([512, 4096, 65536]), silent])
    # the sniff deadline must be lifted once matched: the payload arrives after it would have fired
    for m in ("PLAY rtsp://h/x RTSP/1.0\r\nCSeq: 1\r\n\r\n", "POST /upload HTTP/1.1\r\nHost: x\r\n\r\n"):
        cases.append([120, m.encode(), 2000, 7, [len(m)], 250000, 512, rng.random() < 0.5])
    # service.listen itself (hook service.VerifListen): production registration order, tcp.Server and http.Server
    for i in range(60 if T else 14):
        k = rng.random()
        if k < 0.4:
            m = rng.choice(RTSP_METHODS + ["OPTIONS"])
            head = ("%s %s RTSP/1.0\r\nCSeq: 1\r\n\r\n" % (m, rng.choice(["rtsp://h/x", "*", "RTSP://h/s"]))).encode()
            fill = rng.choice([0, 100, 5000])
        elif k < 0.8:
            m = rng.choice(["GET", "POST", "PUT", "DELETE", "OPTIONS", "PATCH", "HEAD"])
            fill = rng.choice([0, 10, 3000]) if m in ("POST", "PUT", "PATCH") else 0
            head = ("%s %s HTTP/1.1\r\nHost: x\r\nContent-Length: %d\r\n\r\n" % (m, rng.choice(["/", "/api/v1/x", "/streams/a.flv"]), fill)).encode()
        else:
            head = rng.choice([b"\x16\x03\x01\x02\x00\x01\x00\x01\xfc\x03\x03aaaaaaaaaa", b"SSH-2.0-OpenSSH_8.9\r\n", b"get / http/1.1\r\n\r\n",
                               b"describe rtsp://h/x RTSP/1.0\r\n\r\n", b" GET / HTTP/1.1\r\nHost: x\r\n\r\n"])
            fill = 0
        splits = [rng.choice([1, 3, 7, 8, 16])] * rng.randint(0, 3)
        cases.append([-1, head, fill, rng.randrange(1 << 30), splits, rng.choice([0, 300]), rng.choice([7, 512, 4096]), rng.random() < 0.5])
    # a slow client: a matching prefix shorter than the matcher depth, the sniff time-out (120 ms) fires,
    # the rest arrives later — routed on the prefix, and the service must still get every byte
    for m, k in (("GET / HTTP/1.0\r\nHost: x\r\n\r\n", 5), ("PLAY rtsp://h/live/1 RTSP/1.0\r\nCSeq: 2\r\n\r\n", 5),
                 ("OPTIONS * RTSP/1.0\r\nCSeq: 1\r\n\r\n", 14)):
        cases.append([120, m.encode(), 0, 0, [k], 300000, rng.choice([2, 64, 4096]), False])
    # a silent connection that sent nothing must be closed at the sniff timeout
    cases.append([120, b"", 0, 0, [], 0, 16, True])
    cases.append([120, b"GET /\r\n", 0, 0, [], 0, 16, True])
    cases.append([120, b"PLAY", 0, 0, [], 0, 16, True])
    ck.stream("loopback", cases, "C19_loop_run", "C19_loop", "C19_loop_ok",
              nontrivial=lambda c: len(c[1]) >= 4,
              sig=lambda c, e, o: "loopback", sample=2, timeout=1500)

    # ---- 5. several connections in the sniff phase at once (Listener.Serve classifies concurrently)
    def conc_conn(first_only=False):
        line = gen_first_line(rng) if rng.random() < 0.85 else gen_bad_line(rng)
        data = (line + ("CSeq: %d\r\n\r\n" % rng.randrange(100) if rng.random() < 0.8 else "")).encode("latin-1")
        if len(data) < 2:
            data = b"GET / HTTP/1.0\r\n\r\n"
        cuts = sorted(set(rng.randint(1, min(15, len(data) - 1)) for _ in range(rng.choice([1, 1, 1, 2, 3]))))
        if rng.random() < 0.15:
            cuts = []
        frags, last = [], 0
        for k in cuts + [len(data)]:
            frags.append(data[last:k]); last = k
        return data, frags

    def interleave(nfr):
        # each connection i appears once per fragment; patterns put complete lines of others between A's fragments
        style = rng.random()
        idx = list(range(len(nfr)))
        if style < 0.5:
            rng.shuffle(idx)
            a = idx[0]
            sched = [a]
            for j in idx[1:]:
                sched += [j] * nfr[j]
            sched += [a] * (nfr[a] - 1)
            return sched
        if style < 0.75:                     # round robin: everybody's first fragment, then second, ...
            sched = []
            for r in range(max(nfr)):
                sched += [j for j in idx if r < nfr[j]]
            return sched
        sched = [j for j in idx for _ in range(nfr[j])]
        rng.shuffle(sched)
        return sched

    cases = []
    for _ in range(4000 if T else 400):
        k = rng.choice([2, 2, 3, 4])
        conns, nfr = [], []
        for _ in range(k):
            data, frags = conc_conn()
            conns.append([[[f, 0] for f in frags], gen_svc(rng, len(data), len(frags))])
            nfr.append(len(frags))
        cases.append([0, conns, interleave(nfr)])
    ck.stream("concurrent", cases, "C19_conc_run", "C19_conc", "C19_conc_ok",
              nontrivial=lambda c: len(c[1]) >= 2 and any(len(x[0]) >= 2 for x in c[1]),
              sig=lambda c, e, o: "concurrent-sniff", sample=2, timeout=1500)

    cases = []
    for _ in range(60 if T else 8):
        k = rng.choice([2, 3, 3, 4])
        specs = []
        for _ in range(k):
            data, frags = conc_conn()
            specs.append([data, len(frags[0]) if len(frags) > 1 else 0])
        order = list(range(k))
        rng.shuffle(order)
        if rng.random() < 0.7:               # A: fragment; B (C): complete; A: rest
            sched = [order[0]] + [j for j in order[1:] for _ in range(2)] + [order[0]]
        else:
            sched = order + order[::-1]
        cases.append([specs, sched])
    ck.stream("concurrent_loopback", cases, "C19_cloop_run", "C19_cloop", "C19_cloop_ok",
              nontrivial=lambda c: sum(1 for x in c[0] if x[1] > 0) >= 1,
              sig=lambda c, e, o: "concurrent-sniff-loopback", sample=1, timeout=1500)

    # ---- 6. what the service reads off the connection it was handed (RTSP session reader stack, net/http reader)
    cases, meta = [], {}
    def add_msgs(data, spans, cuts):
        sc = cut_script(data, cuts)
        cases.append([sc])
        meta[vs_key(sc)] = cut_in_body(cuts, spans)
    def vs_key(sc):
        return tuple(len(x[0]) for x in sc)
    nstreams = 40 if T else 6
    for j in range(nstreams):
        data, spans = gen_rtsp_messages(rng) if j % 3 != 2 else gen_http_messages(rng)
        if rng.random() < 0.15 and spans[-1][1] > spans[-1][0] + 1:          # peer goes away inside the last body
            data = data[:rng.randint(spans[-1][0] + 1, spans[-1][1] - 1)]
        if j < (8 if T else 2):
            for k in range(1, len(data)):                                     # every single cut position
                add_msgs(data, spans, [k])
        else:
            for k in interesting_cuts(rng, len(data), spans):
                add_msgs(data, spans, [k])
        for _ in range(40 if T else 25):                                      # several cuts
            ic = interesting_cuts(rng, len(data), spans)
            cuts = rng.sample(ic, min(len(ic), rng.randint(2, 4))) + [rng.randrange(1, len(data)) for _ in range(rng.randint(0, 3))]
            add_msgs(data, spans, cuts)
        add_msgs(data, spans, [])
        add_msgs(data, spans, list(range(1, len(data))) if len(data) < 400 else [])
    ck.stream("messages", cases, "C19_msgs_run", "C19_msgs", "C19_msgs_ok",
              nontrivial=lambda c: len(c[0]) >= 2 and meta.get(vs_key(c[0]), False),
              sig=lambda c, e, o: "service-reads-segmented", sample=2, timeout=1500)

    cases = []
    for j in range(10 if T else 2):
        while True:                                   # at least one body worth cutting
            data, spans = gen_rtsp_messages(rng) if j % 2 == 0 else gen_http_messages(rng)
            if any(b - a >= 8 for a, b in spans):
                break
        ic = interesting_cuts(rng, len(data), spans)
        cutsets = [[k] for k in ic] + [[k] for k in range(1, len(data), 1 if T else 7)]
        for _ in range(10):
            cutsets.append(sorted(rng.sample(ic, min(len(ic), rng.randint(2, 3)))))
        cases.append([data, cutsets[:400], 50])
    ck.stream("messages_loopback", cases, "C19_lmsgs_run", "C19_lmsgs", "C19_lmsgs_ok",
              nontrivial=lambda c: len(c[1]) >= 10,
              sig=lambda c, e, o: "service-reads-segmented-loopback", sample=1, timeout=1500)

    return ck.finish(
        rule="(1) random prefix tables (production RTSP/HTTP tables, small-alphabet tables with duplicates, empty strings and "
             "strings that are prefixes of one another) x inputs derived from the table (listed string + suffix, truncation, one byte "
             "changed) and random: tree dump, maxDepth, prefix- and exact-mode answers vs the Gallina tree; non-trivial = table of >= 2 strings. "
             "(2) sniffing Conn on a scripted net.Conn: stream = request line over the method/target/version grammar (70%) or a malformed "
             "line (arbitrary prefix, wrong case, truncation, wrong separator, flipped byte, binary), headers, body; script = random "
             "segmentation (1-byte, single, fine near the sniff depth) optionally with errors attached to data, (0,nil), (0,timeout), (0,EOF) "
             "items; 0-4 matcher sessions of arbitrary read sizes; service read sizes from {0..4096}; non-trivial = >= 1 session, >= 2 segments, "
             ">= 2 service reads. (3) Listener.serve with rtsp.MatchRTSP()/listener.MatchHTTP() registered as in service.listen (and random "
             "tables) on scripted conns, each first line under several segmentations; non-trivial = >= 2 segments and >= 8 bytes. "
             "(3b) for request lines and for matching prefixes shorter than the matcher depth ('GET /', 'PLAY ', 'OPTIONS * RTSP'): a read error with "
             "no bytes (timeout, other, EOF; sometimes repeated) at every position 0..17 of the sniff phase followed by more data, and errors "
             "together with bytes followed by more data; service reads of 1-5 bytes: the replayed reads must carry no error but the one that came "
             "with the last sniffed byte. "
             "(4) real loopback connections through listener.New/ServeAsync/Serve with stub services, client write splits with gaps, "
             "half-close or silence (sniff timeout 120 ms), slow clients whose second write comes after the sniff time-out, payloads to 150 KB (1 MiB thorough); plus well-formed RTSP/HTTP requests and "
             "non-protocol openings through the production service.listen (tcp.Server / http.Server behind it). "
             "(5) 2-4 connections in the sniff phase at once: request lines split at 1-3 positions inside the first 16 bytes, fragments of the "
             "connections released in a deterministic interleaving (A's first fragment, complete lines of the others, A's rest; round robin; random) "
             "to goroutines running Listener.serve on gated scripted conns over one shared listener (no sleeps: the harness waits until the connection "
             "blocks for more), and the same over real TCP through listener.New/Serve; every connection must reach the service classify predicts for "
             "its own bytes and deliver its own bytes; non-trivial = >= 2 connections, one of them split. "
             "(6) byte streams of 1-4 RTSP requests (ANNOUNCE with SDP, SET_/GET_PARAMETER with text, binary and header-look-alike bodies, body-less "
             "methods) or HTTP requests with bodies, cut at every single position (some streams), at positions inside the sniffed prefix, in the "
             "headers, at the header/body boundary, inside and at the end of every body, and at 2-7 positions at once, also with the peer going away "
             "inside the last body; through Listener.serve on a scripted conn (every cut is exactly one read of the raw connection) and over real TCP "
             "(50 ms pause per cut, eight connections at a time); the service side reads with the RTSP session's reader stack "
             "(buffered.NewConn + receive/ReadRequest) resp. net/http's request reader; observed (method, body) of every message and the way the "
             "stream ended must be the framing of the bytes the client wrote; non-trivial = a cut strictly inside a body.",
        trusted=["the scripted net.Conn of the harness implements the read-script semantics of Model/C19Sniffer.v (src_read)",
                 "scripted-conn and stub-service streams register rtsp.MatchRTSP() then listener.MatchHTTP() like service.listen; service.listen itself is exercised by the loopback cases with timeout -1 (hook service.VerifListen)",
                 "bytes.Buffer Write/Bytes/Len/Cap, io.ReadFull and copy are modelled from their documentation",
                 "loopback stream: payload equality is computed by the harness; TCP re-segmentation is arbitrary, the model's answer is proved independent of it (mux_classify)"],
        assumptions=["TLS handshake and accept backlog are outside the model (the sniffer sits above tls.Conn; its read results are covered by the script model)",
                     "classification theorem needs: no read error before max_depth (16) bytes have arrived, unless nothing more ever arrives (guard `good`)"])
