"""C01 — fan-out delivers every packet once, in order, unmodified, to every consumer."""
import os, sys
sys.path.insert(0, os.path.dirname(__file__))
import ltsgen as G

def run(ck):
    if not ck.prepare():
        return ck.finish(rule="build failed")
    rng = ck.rng
    n = 1500 if ck.thorough else 140
    cases = []
    for _ in range(n):
        c = G.rand_case(rng, G.FIXED, max_cons=4 if ck.thorough else 3, max_pkts=20, max_len=110,
                        with_close=rng.random() < 0.3, panic_p=0.05)
        c[6] = c[6] + G.drain(c[1], 2)
        cases.append(c)
    ck.stream("random-schedules", cases, "C01_lts", "C01_lts", "C01_ok",
              nontrivial=lambda c: len(c[4]) >= 3 and c[1] >= 2, sig=lambda c, e, o: "lts", timeout=1500)
    transports(ck)
    buffer_independence(ck)
    return ck.finish(rule="(3) adapter buffers: " + POOL_RULE + " (2) transport adapters: " + TRANSPORT_RULE + " (1) random schedules of publisher / attach / stop / consumer goroutines (1-4 consumers, <= 20 packets on the "
                          "video and audio channels incl. parameter sets and key frames, GOP cache on/off) replayed through the "
                          "schedule points on a real media.Stream with recording consumers; non-trivial = >= 2 consumers and >= 3 packets")


# ---------------------------------------------------------------- transport adapters
import trgen as T
from vlib import vparse, Broken

TRANSPORT_RULE = ("scripted packet lists (4-14 packets on all four channels: SPS/PPS/IDR/non-IDR NAL units, AAC access units, RTCP "
                  "sender reports; 2..1400 bytes, 30% of the cases without UDP clients also 4000..65535) published into a registered "
                  "media.Stream while 1-3 clients of mixed transports (RTSP/TCP, RTSP/UDP, multicast, ws-rtsp, WSP, HTTP-FLV, ws-FLV) with varied "
                  "channel maps (swapped, high channel numbers, video-only, audio-only, RTP without RTCP) attach at scripted positions, "
                  "some stop mid-stream (TEARDOWN or dropped connection), then the stream ends (Close / replaced / idle); every RTP client "
                  "must have received exactly the subscribed sublist of replay ++ live (ok_wire), every FLV client exactly the tags of an "
                  "in-process consumer attached at the same quiescent moment (ok_flv); non-trivial = >= 2 clients or a mid-stream attach.")

def transports(ck):
    rng = ck.rng
    n = 900 if ck.thorough else 70
    pool = [T.TCP, T.TCP, T.UDP, T.WSRTSP, T.WSP, T.HTTPFLV, T.WSFLV, T.MCAST]
    cases = [T.gen_case(rng, True, pool, max_pkts=22 if ck.thorough else 14, replace_p=0.2) for _ in range(n)]
    obs = ck.stream("transports", cases, None, "C01_transports", "C01_wire_ok", compare=False,
                    nontrivial=lambda c: len(c[2]) >= 2 or c[3][0][0] == 0,
                    sig=lambda c, e, o: "transport-delivery", timeout=1500)
    # non-vacuity: media really flowed through every transport
    seen = {}
    for c, o in zip(cases, obs):
        try:
            v = vparse(o)
            for cl, ob in zip(c[2], v[0]):
                if len(ob[0]) >= 3:
                    seen[cl[0]] = seen.get(cl[0], 0) + 1
        except Exception:
            pass
    ck.extra["transport_clients_with_media"] = {str(k): v for k, v in sorted(seen.items())}
    if obs and any(seen.get(k, 0) < 2 for k in range(7)):
        ck.broken.append(Broken("C01 transports: a transport no longer carries media in the harness: %r" % seen))


POOL_RULE = ("2-3 viewers of one stream (WSP data channels, ws-rtsp, RTSP/TCP; mostly two WSP) on scripted connections under the "
             "schedule controller with one P: after 0-3 packets one viewer is parked inside its data-channel socket write - before any "
             "byte of the message is taken from the caller's buffer, or between the two halves of the message - while 2-5 more packets "
             "are published and the other viewers' delivery goroutines deliver them completely (every pooled buffer is taken and "
             "returned), optionally a keep-alive request of some viewer is answered in that window; then the viewer is released message "
             "by message; every viewer must have received exactly its own subscribed packets, in order, byte-identical (ok_wire).")

def buffer_independence(ck):
    rng = ck.rng
    n = 800 if ck.thorough else 60
    cases = [T.gen_pool_case(rng) for _ in range(n)]
    obs = ck.stream("buffer-independence", cases, None, "C01_pool", "C01_wire_ok", compare=False,
                    nontrivial=lambda c: len(c[2]) >= 2, sig=lambda c, e, o: "adapter-buffer", timeout=1500)
    parked = 0
    for o in obs:
        try:
            v = vparse(o)
            parked += isinstance(v[0], list) and v[2] == b""
        except Exception:
            pass
    ck.extra["buffer_independence_parked"] = parked
    if obs and parked < len(cases) // 2:
        ck.broken.append(Broken("C01 buffer-independence: the viewer was parked inside its write in only %d of %d cases" % (parked, len(cases))))
