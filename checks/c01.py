"""C01 — fan-out delivers every packet once, in order, unmodified, to every consumer."""
import os, sys
sys.path.insert(0, os.path.dirname(__file__))
import ltsgen as G

def run(ck):
    if not ck.prepare():
        return ck.finish(rule="build failed")
    rng = ck.rng
    n = 1500 if ck.thorough else 140
    cases = []
    for _ in range(n):
        c = G.rand_case(rng, G.FIXED, max_cons=4 if ck.thorough else 3, max_pkts=20, max_len=110,
                        with_close=rng.random() < 0.3, panic_p=0.05)
        c[6] = c[6] + G.drain(c[1], 2)
        cases.append(c)
    ck.stream("random-schedules", cases, "C01_lts", "C01_lts", "C01_ok",
              nontrivial=lambda c: len(c[4]) >= 3 and c[1] >= 2, sig=lambda c, e, o: "lts", timeout=1500)
    return ck.finish(rule="random schedules of publisher / attach / stop / consumer goroutines (1-4 consumers, <= 20 packets on the "
                          "video and audio channels incl. parameter sets and key frames, GOP cache on/off) replayed through the "
                          "schedule points on a real media.Stream with recording consumers; non-trivial = >= 2 consumers and >= 3 packets")
