"""C01 — fan-out delivers every packet once, in order, unmodified, to every consumer."""
import os, sys
sys.path.insert(0, os.path.dirname(__file__))
import ltsgen as G

def run(ck):
    if not ck.prepare():
        return ck.finish(rule="build failed")
    rng = ck.rng
    n = 1500 if ck.thorough else 140
    cases = []
    for _ in range(n):
        c = G.rand_case(rng, G.FIXED, max_cons=4 if ck.thorough else 3, max_pkts=20, max_len=110,
                        with_close=rng.random() < 0.3, panic_p=0.05)
        c[6] = c[6] + G.drain(c[1], 2)
        cases.append(c)
    ck.stream("random-schedules", cases, "C01_lts", "C01_lts", "C01_ok",
              nontrivial=lambda c: len(c[4]) >= 3 and c[1] >= 2, sig=lambda c, e, o: "lts", timeout=1500)
    aggregated(ck)
    transports(ck)
    buffer_independence(ck)
    return ck.finish(rule="(4) packets by bytes: " + AGG_RULE + " (3) adapter buffers: " + POOL_RULE + " (2) transport adapters: " + TRANSPORT_RULE + " (1) random schedules of publisher / attach / stop / consumer goroutines (1-4 consumers, <= 20 packets on the "
                          "video and audio channels incl. parameter sets and key frames, GOP cache on/off) replayed through the "
                          "schedule points on a real media.Stream with recording consumers; non-trivial = >= 2 consumers and >= 3 packets")


# ---------------------------------------------------------------- packets given by their bytes
# A case entry (id _ channel xPAYLOAD) is a packet given by its RTP payload (coq/Model/C04RawPkt.v; the
# harness builds it with lts.MakeRaw and reads the id back from payload[1..4]).  Its kind in the model is
# what coq/Model/C02Classify.v makes of the bytes: one kind per packet, so one slot of the pack cache and
# one place in a join replay (C01_join_prefix_nodup, C01_agg_packet_one_kind).
AGG_RULE = ("H.264 and H.265 streams (GOP cache on/off) whose video packets are given by their bytes: aggregation packets "
            "(RFC 6184 STAP-A / RFC 7798 AP) carrying every non-empty subset of the parameter sets (SPS, PPS / VPS, SPS, PPS) in "
            "any order, alone or followed by an IDR/IRAP or a non-key unit, aggregation packets without parameter sets, single "
            "parameter-set units, between ordinary video/audio packets; 2-4 consumers, at least one attached from the start and "
            "one joining right after an aggregation packet with parameter sets (scripted), plus random schedules over the same "
            "packet lists; oracle ok_C01 on the case normalised by the classifier (C01_model_passes_on_the_wire_raw); "
            "non-trivial = a consumer was replayed a multi-parameter-set aggregation packet.")

H264_T = {"sps": 7, "pps": 8, "idr": 5, "non": 1}
H265_T = {"vps": 32, "sps": 33, "pps": 34, "idr": 19, "cra": 21, "non": 1}

def nal_unit(rng, h265, what, body_len):
    """one NAL unit: header (1 byte H.264, 2 bytes H.265) + body"""
    body = bytes(rng.randrange(256) for _ in range(body_len))
    if h265:
        return bytes([H265_T[what] << 1, 1]) + body
    nri = 0 if what == "non" and rng.random() < 0.3 else rng.choice([1, 2, 3])
    return bytes([(nri << 5) | H264_T[what]]) + body

def agg_payload(rng, h265, units, n):
    """aggregation packet of the given unit kinds; payload[1..4] (= the id the harness reads back) is made unique
    by n (1..250): H.264 through the second byte of the first unit, H.265 through the size of the first unit"""
    nals = []
    for j, w in enumerate(units):
        if j == 0:
            nals.append(nal_unit(rng, h265, w, n if h265 else rng.randint(2, 6)))
        else:
            nals.append(nal_unit(rng, h265, w, rng.randint(1, 9)))
    if not h265:
        nals[0] = nals[0][:1] + bytes([n]) + nals[0][2:]
    hdr = bytes([48 << 1, 1]) if h265 else bytes([(rng.choice([1, 2, 3]) << 5) | 24])
    pl = hdr + b"".join(len(x).to_bytes(2, "big") + x for x in nals)
    return pl

def raw_video(pl):
    return [int.from_bytes(pl[1:5], "big"), 0, 0, pl]

def single_payload(rng, h265, what, n):
    """a single NAL unit packet whose payload[1..4] is unique through n"""
    if h265:
        return bytes([H265_T[what] << 1, 1, 0xA0 | rng.randrange(16), n, rng.randrange(256)]) + bytes(rng.randrange(256) for _ in range(rng.randint(0, 5)))
    u = nal_unit(rng, False, what, 6)
    return u[:1] + bytes([0xA0 | rng.randrange(16), rng.randrange(256), n]) + u[4:]

def param_subsets(h265):
    names = ["vps", "sps", "pps"] if h265 else ["sps", "pps"]
    return [[x for i, x in enumerate(names) if m >> i & 1] for m in range(1, 1 << len(names))]

def agg_packets(rng, h265, count):
    """a packet list: ordinary packets by kind (small ids) and packets by bytes (ids >= 65536); returns
    (packets, indices of the aggregation packets that carry >= 2 kinds of parameter set)"""
    subsets = param_subsets(h265)
    pkts, multi, n, small = [], [], 0, 0
    def plain(kind):
        nonlocal small
        small += 1
        pkts.append([small, kind])
    while len(pkts) < count:
        r = rng.random()
        n += 1
        if r < 0.42:
            units = list(rng.choice(subsets)) if rng.random() < 0.5 else list(max(subsets, key=len))
            rng.shuffle(units)
            t = rng.random()
            if t < 0.3:
                units.append(rng.choice(["idr", "cra"]) if h265 else "idr")
            elif t < 0.4:
                units.append("non")
            if len(set(units) & {"vps", "sps", "pps"}) >= 2:
                multi.append(len(pkts))
            pkts.append(raw_video(agg_payload(rng, h265, units, n)))
        elif r < 0.5:
            units = rng.choice([["idr", "non"], ["non", "non"], ["non"], ["idr"]])
            pkts.append(raw_video(agg_payload(rng, h265, units, n)))
        elif r < 0.6:
            pkts.append(raw_video(single_payload(rng, h265, rng.choice(["vps", "sps", "pps"] if h265 else ["sps", "pps"]), n)))
        elif r < 0.7:
            plain(2)
        elif r < 0.9:
            plain(1)
        else:
            plain(0)
    return pkts, multi

def agg_script(rng, h265, gop):
    """consumer 0 from the start; a joiner right after each of up to two multi-parameter-set aggregation packets;
    everything is delivered"""
    while True:
        pkts, multi = agg_packets(rng, h265, rng.randint(5, 11))
        if multi:
            break
    joins = sorted({min(len(pkts) - 1, i + rng.choice([0, 0, 0, 1, 2]))      # right after it, or a packet or two later
                    for i in rng.sample(multi, min(len(multi), rng.choice([1, 2, 2])))})
    n = 1 + len(joins)
    sched = [[G.ATT, 0]] * 3
    who = 1
    for i in range(len(pkts)):
        sched += [[G.PUB, 0]] * 3
        if rng.random() < 0.7:
            sched += [[G.CONS, 0]] * 2
        if i in joins:
            sched += [[G.ATT, who]] * 3
            who += 1
    for c in range(n):
        sched += [[G.CONS, c]] * (2 * len(pkts) + 8)
    return [G.FIXED, n, 1000, gop, pkts, [False] * n, sched, [0] * n, False, 1, h265, False, False]

def agg_random(rng, h265, gop):
    c = G.rand_case(rng, G.FIXED, max_cons=4, max_pkts=4, max_len=90, with_close=rng.random() < 0.2, panic_p=0.05, flv_p=0)
    pkts, _ = agg_packets(rng, h265, rng.randint(3, 12))
    c[4], c[3], c[10], c[11] = pkts, gop, h265, False
    c[6] = c[6] + G.drain(c[1], 2)
    return c + [False]

def aggregated(ck):
    rng = ck.rng
    cases = []
    reps = 14 if ck.thorough else 2
    for _ in range(reps):
        for h265 in (False, True):
            for gop in (False, True):
                cases.append(agg_script(rng, h265, gop))
    cases += [agg_random(rng, rng.random() < 0.6, rng.random() < 0.5) for _ in range(400 if ck.thorough else 36)]
    scripted = {id(c) for c in cases[:reps * 4]}
    obs = ck.stream("aggregated-parameter-sets", cases, "C01_lts", "C01_lts", "C01_ok",
                    nontrivial=lambda c: id(c) in scripted, sig=lambda c, e, o: "lts-agg", timeout=1500)
    # non-vacuity: late joiners really were replayed aggregation packets (ids >= 65536 at the head of what a
    # consumer other than the first one received)
    replayed = 0
    for c, o in zip(cases, obs):
        try:
            v = vparse(o)
            for k in v[0][1:]:
                if k[0] and k[0][0] >= 65536:
                    replayed += 1
        except Exception:
            pass
    ck.extra["aggregation_packets_replayed_to_joiners"] = replayed
    if obs and replayed < 4:
        ck.broken.append(Broken("C01 aggregated-parameter-sets: only %d joiners were replayed an aggregation packet" % replayed))


# ---------------------------------------------------------------- transport adapters
import trgen as T
from vlib import vparse, Broken

TRANSPORT_RULE = ("scripted packet lists (4-14 packets on all four channels: SPS/PPS/IDR/non-IDR NAL units, AAC access units, RTCP "
                  "sender reports; 2..1400 bytes, 30% of the cases without UDP clients also 4000..65535) published into a registered "
                  "media.Stream while 1-3 clients of mixed transports (RTSP/TCP, RTSP/UDP, multicast, ws-rtsp, WSP, HTTP-FLV, ws-FLV) with varied "
                  "channel maps (swapped, high channel numbers, video-only, audio-only, RTP without RTCP) attach at scripted positions, "
                  "some stop mid-stream (TEARDOWN or dropped connection), then the stream ends (Close / replaced / idle); every RTP client "
                  "must have received exactly the subscribed sublist of replay ++ live (ok_wire), every FLV client exactly the tags of an "
                  "in-process consumer attached at the same quiescent moment (ok_flv); non-trivial = >= 2 clients or a mid-stream attach.")

def transports(ck):
    rng = ck.rng
    n = 900 if ck.thorough else 70
    pool = [T.TCP, T.TCP, T.UDP, T.WSRTSP, T.WSP, T.HTTPFLV, T.WSFLV, T.MCAST]
    cases = [T.gen_case(rng, True, pool, max_pkts=22 if ck.thorough else 14, replace_p=0.2) for _ in range(n)]
    # several multicast players of one stream, joining and leaving in every order
    cases += [T.gen_mcast_case(rng, True, max_pkts=18 if ck.thorough else 12) for _ in range(160 if ck.thorough else 12)]
    obs = ck.stream("transports", cases, None, "C01_transports", "C01_wire_ok", compare=False,
                    nontrivial=lambda c: len(c[2]) >= 2 or c[3][0][0] == 0,
                    sig=lambda c, e, o: "transport-delivery", timeout=1500)
    # non-vacuity: media really flowed through every transport
    seen = {}
    for c, o in zip(cases, obs):
        try:
            v = vparse(o)
            for cl, ob in zip(c[2], v[0]):
                if len(ob[0]) >= 3:
                    seen[cl[0]] = seen.get(cl[0], 0) + 1
        except Exception:
            pass
    ck.extra["transport_clients_with_media"] = {str(k): v for k, v in sorted(seen.items())}
    if obs and any(seen.get(k, 0) < 2 for k in range(7)):
        ck.broken.append(Broken("C01 transports: a transport no longer carries media in the harness: %r" % seen))


POOL_RULE = ("2-3 viewers of one stream (WSP data channels, ws-rtsp, RTSP/TCP; mostly two WSP) on scripted connections under the "
             "schedule controller with one P: after 0-3 packets one viewer is parked inside its data-channel socket write - before any "
             "byte of the message is taken from the caller's buffer, or between the two halves of the message - while 2-5 more packets "
             "are published and the other viewers' delivery goroutines deliver them completely (every pooled buffer is taken and "
             "returned), optionally a keep-alive request of some viewer is answered in that window; then the viewer is released message "
             "by message; every viewer must have received exactly its own subscribed packets, in order, byte-identical (ok_wire).")

def buffer_independence(ck):
    rng = ck.rng
    n = 800 if ck.thorough else 60
    cases = [T.gen_pool_case(rng) for _ in range(n)]
    obs = ck.stream("buffer-independence", cases, None, "C01_pool", "C01_wire_ok", compare=False,
                    nontrivial=lambda c: len(c[2]) >= 2, sig=lambda c, e, o: "adapter-buffer", timeout=1500)
    parked = 0
    for o in obs:
        try:
            v = vparse(o)
            parked += isinstance(v[0], list) and v[2] == b""
        except Exception:
            pass
    ck.extra["buffer_independence_parked"] = parked
    if obs and parked < len(cases) // 2:
        ck.broken.append(Broken("C01 buffer-independence: the viewer was parked inside its write in only %d of %d cases" % (parked, len(cases))))
