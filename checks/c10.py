"""C10 — HLS playlist / segments.  Frame sequences with synthetic PTS are pushed through the real TS
packetizers into hls.SegmentGenerator; after every operation the playlist, the resolvable sequence
numbers, the files on disk and the content of newly listed segments are compared with the extracted
Coq model and judged by the proved oracle.  Kept readers / kept playlist slices are read after
rollovers (the D19 schedule)."""

TICKS = 90000
PTS_MAX = 1 << 33


# bytes a stream path / a token can carry: the token is a percent-decoded query value, the path a decoded URL path
WILD = [b"%", b"%s", b"%d", b"%%", b"%!", b"%v", b"%e", b"%.3f", b"%0", b"%!s(MISSING)", b"#", b"?", b"&", b"=", b" ",
        b"?token=", b"\xc3\xa9", b"\xff", b"\x00", b"\t", b"\r", b"/", b"a", b"Z9", b"tok", b"%25", b"+"]


def wild_bytes(rng, lo=1, hi=6):
    return b"".join(rng.choice(WILD) for _ in range(rng.randint(lo, hi)))


def gen_token(rng):
    r = rng.random()
    if r < 0.25:
        return b""
    if r < 0.45:
        return rng.choice([b"tk", b"a1b2c3", b"tokA"])
    if r < 0.97:
        return wild_bytes(rng)
    return wild_bytes(rng, 100, 700)            # very long (up to ~5 KB)


def gen_path(rng):
    r = rng.random()
    if r < 0.45:
        return rng.choice([b"/live/a", b"/cam1", b"/a/b/c", b"/x"])
    return b"/" + rng.choice([b"live/", b"", b"a"]) + wild_bytes(rng, 1, 4).replace(b"\r", b"")


def payload(rng, kind, big=False):
    first = {0: rng.randrange(256), 1: 0x65, 2: 0x41}[kind]
    n = rng.choice([1, 2, 3, 5, 8, 13]) if not big else rng.choice([150, 180, 190, 400, 700])
    return bytes([first] + [rng.randrange(256) for _ in range(n)])


def gen_cfg(rng, frag=None, mem=None):
    if frag is None:
        frag = rng.choice([1, 1, 1, 2, 2, 3, 5, 0, -1])
    rate = rng.choice([44100, 44100, 48000, 22050, 8000, 96000])
    if mem is None:
        mem = rng.random() < 0.6
    path = gen_path(rng)
    sps = rng.choice([b"\x67\x42\x00\x1e", b"\x67\x01", b""])
    pps = rng.choice([b"\x68\xce\x38\x80", b"\x68", b""])
    return [frag, rate, mem, True, path, sps, pps]


def gen_frames(rng, cfg, nframes):
    """a stream as a camera would produce it, in phases: video+audio, video only, audio only; GOPs shorter
    and longer than the fragment; jittery audio timestamps; a PTS origin that need not be 0"""
    frag = max(cfg[0], 1)
    rate = cfg[1]
    origin = rng.choice([0, 0, 0, 1, 3600, TICKS * frag - 1, TICKS * frag, 2 * TICKS * frag, 2 * TICKS * frag + 1,
                         rng.randrange(0, 1 << 31), PTS_MAX - 40 * TICKS * frag])
    vstep = rng.choice([3600, 9000, 18000, 18000, 30000, 45000, TICKS])
    astep = 1024 * TICKS // rate
    frames = []
    t = origin
    vnext, anext = t, t + rng.randrange(0, astep + 1)
    gop = rng.choice([1, 2, 3, 5, 8, 12, 25, 60])
    vcount = 0
    phase = rng.choice(["av", "av", "av", "v", "a"])
    phase_left = rng.randint(5, 60)
    # audio arrives in bursts coarser than its frame duration when the video step is large
    while len(frames) < nframes and min(vnext, anext) < PTS_MAX - 30000:
        if phase_left <= 0:
            phase = rng.choice(["av", "av", "v", "a", "a"])
            phase_left = rng.randint(5, 60)
            gop = rng.choice([1, 2, 3, 5, 8, 12, 25, 60])
            if rng.random() < 0.15:     # a jump in the source clock
                j = rng.choice([TICKS * frag, 2 * TICKS * frag, -vstep, 10 * TICKS])
                vnext = max(0, vnext + j)
                anext = max(0, anext + j)
        take_video = phase == "v" or (phase == "av" and vnext <= anext)
        if phase == "a":
            take_video = False
            vnext = max(vnext, anext)
        if phase == "v":
            anext = max(anext, vnext)
        if take_video:
            key = (vcount % gop == 0)
            vcount += 1
            pts = vnext
            r = rng.random()
            if key and r < 0.25:
                # place the key frame on a duration boundary of the running segment (model the boundary exactly)
                pts = max(0, pts + rng.choice([-1, 0, 1]))
            dts = pts if rng.random() < 0.8 else max(0, pts - rng.choice([1, vstep, 2 * vstep]))
            if pts < PTS_MAX:
                frames.append([0, 1 if key else 2, pts, dts, payload(rng, 1 if key else 2, rng.random() < 0.03)])
            vnext += vstep
        else:
            pts = anext + rng.choice([0, 0, 0, 1, -1, 7, -7, 200, -200, 8999, 9001, -9001, 20000])
            pts = max(0, pts)
            if rng.random() < 0.04:
                pay = b""
            else:
                pay = payload(rng, 0, rng.random() < 0.03)
            if pts < PTS_MAX:
                frames.append([0, 0, pts, pts, pay])
            anext += astep * rng.choice([1, 1, 1, 1, 2, 5])
        phase_left -= 1
    return frames


def gen_case(rng, nframes, frag=None, mem=None):
    cfg = gen_cfg(rng, frag, mem)
    dtok = gen_token(rng)
    frames = gen_frames(rng, cfg, nframes)
    ops = []
    nread = npl = 0
    seq_guess = 1
    for f in frames:
        ops.append(f)
        if f[1] == 1:
            seq_guess += rng.random() < 0.5
        r = rng.random()
        if r < 0.06:
            ops.append([1, max(0, int(seq_guess) - rng.choice([0, 1, 2, 3, 4, 6]))])
            nread += 1
        elif r < 0.10 and nread:
            ops.append([2, rng.randrange(-1, nread + 1)])
        elif r < 0.13:
            ops.append([3, gen_token(rng)])
            npl += 1
        elif r < 0.16 and npl:
            ops.append([4, rng.randrange(-1, npl + 1)])
        elif r < 0.165:
            ops.append([5])
    if rng.random() < 0.4:
        ops.append([5])
        for h in range(min(nread, 3)):
            ops.append([2, h])
    if rng.random() < 0.2 and len(ops) > 6:
        ops.insert(rng.randrange(3, len(ops)), [7, leftovers(rng)])
    # the stream's SPS/PPS are not known when the packetizer is built: they arrive as an operation of the history
    # (before the first frame mostly; after some frames, between two key frames, or changing later in some)
    if rng.random() < 0.75:
        sps, pps = cfg[5], cfg[6]
        cfg[5] = cfg[6] = b""
        r = rng.random()
        if r < 0.6:
            at = 0
        else:
            keys = [i for i, o in enumerate(ops) if o[0] == 0 and o[1] == 1]
            at = rng.choice(keys[:6]) + rng.choice([0, 1]) if keys and r < 0.85 else rng.randrange(0, min(len(ops), 12) + 1)
        ops.insert(at, [6, sps, pps])
        if rng.random() < 0.25:
            ops.insert(rng.randrange(at + 1, len(ops) + 1), [6, rng.choice([b"\x67\x64\x00\x1f\xac", sps, b""]),
                                                              rng.choice([b"\x68\xee\x3c\x80", pps])])
    return [cfg, dtok, ops]


def boundary_case(rng, mem):
    """durations exactly on / one tick off every threshold: fragment, 2 x fragment (audio path), 100 ms (discard)"""
    frag = rng.choice([0, 0, 1, 2, 5, -1])
    cfg = gen_cfg(rng, frag, mem)
    f = max(frag, 0)
    ds = [TICKS * f - 1, TICKS * f, TICKS * f + 1, 2 * TICKS * f - 1, 2 * TICKS * f, 2 * TICKS * f + 1,
          8999, 9000, 9001, 0, 1, 9000 - 1920, 4500]
    ops = []
    t = rng.choice([0, 0, 77, 9000, 2 * TICKS * max(f, 1)])
    for _ in range(rng.randint(6, 14)):
        d = max(0, rng.choice(ds))
        ops.append([0, 1, t, t, payload(rng, 1)])
        if d:
            ops.append([0, 2, t + d, t + d, payload(rng, 2)])
            if rng.random() < 0.25:
                # a reordered picture whose pts equals the key frame's (= the segment start when that key opened it)
                ops.append([0, 2, t, t + d, payload(rng, 2)])
        r = rng.random()
        if r < 0.45:
            # the audio path looks at the duration: one frame starts the batch, a second one (<= 100 ms later) checks again
            a = t + d + rng.choice([0, 1, 10])
            ops.append([0, 0, a, a, payload(rng, 0)])
            ops.append([0, 0, a + rng.choice([1, 8999, 9000, 9001]), 0, payload(rng, 0)])
            ops[-1][3] = ops[-1][2]
        t = t + d + rng.choice([1, 3600])
    ops.append([0, 1, t, t, payload(rng, 1)])
    return [cfg, gen_token(rng), ops]


def jitter_case(rng, mem):
    """48 kHz audio (1920 ticks per frame, so the estimate is exact) whose timestamps sit exactly on / next to the
    +-100 ms resynchronisation window and the 100 ms flush threshold; a key frame now and then so segments are cut"""
    cfg = gen_cfg(rng, rng.choice([1, 2]), mem)
    cfg[1] = 48000
    ops = []
    k = 0
    base = rng.choice([0, 9001, 50000])
    d = 0
    for i in range(rng.randint(30, 90)):
        if rng.random() < 0.25:
            d = rng.choice([0, 9000, -9000, 9001, -9001, 8999, -8999, 1, 1920, 18000, -18000])
        pts = max(0, base + k * 1920 + d)
        ops.append([0, 0, pts, pts, payload(rng, 0)])
        k += rng.choice([1, 1, 1, 1, 2])
        if i % 12 == 5:
            v = base + k * 1920
            ops.append([0, 1, v, v, payload(rng, 1)])
    return [cfg, "", ops]


def lts_frames(rng, frag, nseg):
    """frames that close one segment per group: K, P, [A], P one fragment later; the next K reaps"""
    step = TICKS * frag
    t = rng.choice([0, 5000, 123456])
    fs = []
    for _ in range(nseg):
        fs.append([1, t, t, payload(rng, 1)])
        fs.append([2, t + step // 2, t + step // 2, payload(rng, 2, rng.random() < 0.1)])
        if rng.random() < 0.4:
            fs.append([0, t + step // 2, t + step // 2, payload(rng, 0)])
        fs.append([2, t + step, t + step, payload(rng, 2)])
        t += step + 3600
    fs.append([1, t, t, payload(rng, 1)])
    return fs


class WriterSim:
    """where the writer is if it never has to wait: a frame that closes a segment (in lts_frames: every key frame
    but the first) takes two writer steps, list and finish"""
    def __init__(self, fs, sched):
        self.fs, self.sched, self.pos, self.mid, self.listed = fs, sched, 0, False, 0

    def step(self):
        self.sched.append([0])
        if self.mid:
            self.mid = False
        elif self.pos < len(self.fs):
            if self.fs[self.pos][0] == 1 and self.pos > 0:
                self.mid = True
                self.listed += 1
            self.pos += 1

    def done(self):
        return self.pos >= len(self.fs) and not self.mid


def lts_case(rng, mem, shape):
    """schedules of one writer and several fetchers: ( 0 ) writer step, ( 1 id seq ) lookup, ( 2 id ) copy"""
    frag = rng.choice([1, 2, 5])
    cfg = gen_cfg(rng, frag, mem)
    nseg = rng.randint(5, 9)
    fs = lts_frames(rng, frag, nseg)
    sched = []
    w = WriterSim(fs, sched)
    if shape == "hold":
        # let k segments close, look one of the listed numbers up, push frames across 1..3 rollovers, then copy
        k = rng.randint(3, nseg - 2)
        while w.listed < k or w.mid:
            w.step()
        want = rng.choice([k - 2, k - 2, k - 1, k])
        sched.append([1, 0, want])
        if rng.random() < 0.4:
            sched.append([1, 1, rng.choice([k - 2, k - 1, k, k + 1, 0])])
        for _ in range(int(len(fs) / nseg * rng.choice([1, 2, 3])) + 2):
            sched.append([0])
        sched.append([2, 0])
        for _ in range(rng.randint(0, 6)):
            sched.append([0])
        sched.append([2, 1])
        sched += [[0]] * rng.randint(0, len(fs))
    elif shape == "listed":
        # the writer stands at hls.segment.listed (segment just listed, rest of the frame not yet run): fetch the
        # newest listed number (and now and then an older one) to completion, then let the writer go on
        fid = 0
        while not w.done():
            w.step()
            if w.mid and rng.random() < 0.8:
                for seq in [w.listed] + ([w.listed - rng.choice([1, 2, 3])] if rng.random() < 0.3 else []):
                    sched.append([1, fid, max(0, seq)])
                    if rng.random() < 0.85:
                        sched.append([2, fid])
                    fid += 1
        for h in range(fid):
            if rng.random() < 0.5:
                sched.append([2, h])
    elif shape == "quick":
        # lookup and copy back to back between writer steps
        fid = 0
        while not w.done():
            w.step()
            if rng.random() < 0.3:
                sched.append([1, fid, max(0, w.listed - rng.choice([0, 1, 2, 3, 4]))])
                sched.append([2, fid])
                fid += 1
    else:
        fid = 0
        live = []
        for _ in range(rng.randint(20, 4 * len(fs))):
            r = rng.random()
            if r < 0.55:
                w.step()
            elif r < 0.78:
                sched.append([1, fid, max(0, w.listed - rng.choice([0, 0, 1, 2, 2, 3, 4]))])
                live.append(fid); fid += 1
            elif live:
                sched.append([2, live.pop(rng.randrange(len(live))) if rng.random() < 0.8 else rng.randrange(fid)])
    return [cfg, fs, sched]


def leftovers(rng):
    """files an earlier run under the same path left in the directory: ( number content )"""
    out = []
    for _ in range(rng.choice([0, 0, 1, 1, 2, 3])):
        n = rng.choice([1, 1, 2, 2, 3, 4, 5, 7])
        size = rng.choice([10, 188, 376, 1000, 3000, 9000])
        out.append([n, bytes(rng.choice([0x47, 0xff, 0x00, rng.randrange(256)]) for _ in range(size))])
    return out


def generations_case(rng, mem):
    """several generations of one stream over one storage directory: earlier ones with longer segments, closed or
    abandoned at any point; leftover files of yet earlier runs; the last generation's segments must be its own"""
    frag = rng.choice([1, 1, 2])
    cfg = gen_cfg(rng, frag, mem)
    ops = []
    ngen = rng.choice([2, 2, 3])
    for gi in range(ngen):
        last = gi == ngen - 1
        big = (not last) and rng.random() < 0.75
        fs = lts_frames(rng, frag, rng.randint(2, 6))
        if big:
            fs = [[k, p, d, payload(rng, k, True)] for k, p, d, _ in fs]
        if not last and rng.random() < 0.6:
            fs = fs[:rng.randint(1, len(fs))]          # abandoned in mid-stream
        nread = 0
        est = 0
        for k, p, d, pay in fs:
            ops.append([0, k, p, d, pay])
            est += k == 1
            r = rng.random()
            if r < 0.08:
                ops.append([1, max(0, est - rng.choice([1, 2, 3]))]); nread += 1
            elif r < 0.12 and nread:
                ops.append([2, rng.randrange(nread)])
        if not last:
            if rng.random() < 0.3:
                ops.append([5])
            ops.append([7, leftovers(rng)])
    return [cfg, gen_token(rng), ops]


def rollover_case(rng, mem, frag, extra):
    """fetch a reader and a playlist, roll the window over [extra] more times, then read them"""
    cfg = gen_cfg(rng, frag, mem)
    step = TICKS * frag
    ops = []
    t = rng.choice([0, 5000, 123456])
    k = 0

    def segment_frames():
        nonlocal t, k
        ops.append([0, 1, t, t, payload(rng, 1)])
        ops.append([0, 2, t + step // 2, t + step // 2, payload(rng, 2, rng.random() < 0.2)])
        if rng.random() < 0.5:
            ops.append([0, 0, t + step // 2, t + step // 2, payload(rng, 0)])
        ops.append([0, 2, t + step, t + step, payload(rng, 2)])
        t += step + 3600
        k += 1
    for _ in range(4):
        segment_frames()
    want = rng.choice([1, 2, 3])
    ops.append([1, want])
    ops.append([3, "tokA"])
    ops.append([2, 0])
    for _ in range(extra):
        segment_frames()
        if rng.random() < 0.3:
            ops.append([2, 0])
    ops.append([2, 0])
    ops.append([3, rng.choice(["tokBBBB", "", "tokA"])])
    ops.append([4, 0])
    ops.append([4, 1])
    ops.append([5])
    ops.append([2, 0])
    ops.append([4, 0])
    return [cfg, gen_token(rng), ops]


def long_gop_witness(mem):
    """D35: fragment 1 s, one key frame then 0.2 s P-frames and audio for 3 s: the audio path reaps at 2 s"""
    cfg = [1, 44100, mem, True, "/live/a", b"\x67\x01", b"\x68"]
    ops = [[0, 1, 0, 0, b"\x65\x01"]]
    for i in range(1, 16):
        ops.append([0, 2, i * 18000, i * 18000, bytes([0x41, i])])
        ops.append([0, 0, i * 18000 + 100, i * 18000 + 100, bytes([0x21, i])])
    # three more GOPs so that the segment opened in mid-GOP gets listed
    t = 16 * 18000
    for g in range(4):
        ops.append([0, 1, t, t, bytes([0x65, 0x80 + g])])
        for i in range(1, 6):
            ops.append([0, 2, t + i * 18000, t + i * 18000, bytes([0x41, g, i])])
        t += 6 * 18000
    return [cfg, "", ops]


def nontrivial(c):
    frames = [o for o in c[2] if o[0] == 0]
    keys = [o for o in frames if o[1] == 1]
    if len(frames) < 8:
        return False
    span = max(o[2] for o in frames) - min(o[2] for o in frames)
    return span >= 4 * TICKS * max(c[0][0], 1) and (len(keys) >= 4 or any(o[1] == 0 for o in frames))


def run(ck):
    if not ck.prepare():
        return ck.finish(rule="build failed")
    rng = ck.rng
    big = ck.thorough
    # 1. random histories, memory and disk
    n = 4000 if big else 110
    cases = [gen_case(rng, rng.randint(20, 400 if big else 140)) for _ in range(n)]
    # fragment 5 (the smallest value config.HlsFragment() can return) with a coarse frame rate
    cases += [gen_case(rng, rng.randint(60, 300 if big else 120), frag=5) for _ in range(n // 5)]
    ck.stream("histories", cases, "C10_run", "C10", "C10_ok", nontrivial=nontrivial,
              sig=lambda c, e, o: "hls-history-" + ("memory" if c[0][2] else "disk"), timeout=1500)
    # 2. the fetch-versus-rollover schedule (D19) and the kept playlist slice, both storage modes
    rc = []
    for mem in (True, False):
        for extra in (1, 2, 3, 4, 6):
            for _ in range(6 if big else 2):
                rc.append(rollover_case(rng, mem, rng.choice([1, 2, 5]), extra))
    ck.stream("fetch-vs-rollover", rc, "C10_run", "C10", "C10_ok", nontrivial=lambda c: True,
              sig=lambda c, e, o: "hls-reader-after-rollover-" + ("memory" if c[0][2] else "disk"))
    # 2b. thresholds: durations and audio timestamps exactly on and one tick beside every comparison
    bc = [boundary_case(rng, rng.random() < 0.5) for _ in range(600 if big else 60)]
    bc += [jitter_case(rng, rng.random() < 0.5) for _ in range(400 if big else 40)]
    ck.stream("thresholds", bc, "C10_run", "C10", "C10_ok", nontrivial=lambda c: len(c[2]) >= 10,
              sig=lambda c, e, o: "hls-threshold-" + ("memory" if c[0][2] else "disk"))
    # 2c. interleavings of fetches with rollover, replayed with the schedule controller on the real lock:
    #     a fetcher parked at hls.segment.get holds the read lock, the writer must wait for it; the writer parked at
    #     hls.segment.listed has just listed a segment, which must already be complete in the store
    lc = []
    for shape, k in (("hold", 12), ("listed", 12), ("quick", 4), ("random", 14)):
        for _ in range(k * (12 if big else 1)):
            lc.append(lts_case(rng, rng.random() < 0.5, shape))
    ck.stream("fetch-rollover-schedules", lc, "C10_lts_run", "C10_lts", "C10_lts_ok",
              nontrivial=lambda c: any(l[0] == 1 for l in c[2]) and any(l[0] == 2 for l in c[2]),
              sig=lambda c, e, o: "hls-fetch-vs-rollover-" + ("memory" if c[0][2] else "disk"))
    # 2d. generations: the storage directory outlives the generator and file names repeat from 1
    gc = [generations_case(rng, False) for _ in range(300 if big else 36)]
    gc += [generations_case(rng, True) for _ in range(100 if big else 10)]
    ck.stream("generations", gc, "C10_run", "C10", "C10_ok", nontrivial=lambda c: any(o[0] == 7 for o in c[2]),
              sig=lambda c, e, o: "hls-generations-" + ("memory" if c[0][2] else "disk"))
    # 3. the float reformulations and "%.3f"
    fl = []
    for nfr in (-1, 0, 1, 2, 5, 10, 600):
        for d in (-2, -1, 0, 1, 2):
            fl.append([max(0, TICKS * nfr + d), nfr])
            fl.append([max(0, 2 * TICKS * nfr + d), 2 * nfr])
    for x in (0, 1, 44, 45, 46, 89, 90, 135, 5625, 8999, 9000, 9001, 89999, 90000, 90001, PTS_MAX - 1, PTS_MAX + 9000):
        fl.append([x, rng.choice([1, 5])])
    for _ in range(20000 if big else 1500):
        r = rng.random()
        if r < 0.4:
            x = 90 * rng.randrange(0, 1 << 26) + 45          # exactly between two thousandths
        elif r < 0.5:
            x = 5625 * rng.randrange(0, 1 << 20)             # dyadic quotients: the float is exact
        elif r < 0.8:
            x = rng.randrange(0, 1 << rng.randint(1, 34))
        else:
            x = 90 * rng.randrange(0, 1 << 26) + rng.choice([44, 46, 0, 1, 89])
        fl.append([x, rng.choice([0, 1, 2, 5, 10, x // TICKS, x // TICKS + 1])])
    ck.stream("float-and-%.3f", fl, "C10_float", "C10_float", None, nontrivial=lambda c: c[0] % 90 == 45 or c[0] % TICKS < 2,
              sig=lambda c, e, o: "hls-float", sample=2)
    # 3b. disk mode, several streams in one directory: the segment files are <murmur32(path)>_<n>.ts.  The murmur model
    #     against utils/murmur.OfString on every length class (0..3 tail bytes, 0..70 blocks), and two real generators
    #     over ONE directory whose paths share long prefixes: each playlist must resolve to its own stream's segments
    ms = [b"", b"/", b"/live/a", b"/cam1"]
    for n in list(range(0, 24)) + [31, 32, 33, 62, 63, 64, 65, 66, 67, 68, 127, 128, 129, 255, 256, 257, 280]:
        for _ in range(6 if big else 2):
            ms.append(bytes(rng.randrange(256) for _ in range(n)))
        ms.append(b"/" + b"a" * n)
    for _ in range(3000 if big else 200):
        pre = bytes(rng.choice(b"/abcxyz019_-") for _ in range(rng.choice([3, 8, 60, 63, 64, 65, 100, 200])))
        ms.append(b"/" + pre + wild_bytes(rng, 0, 9))
    ck.stream("murmur", ms, "C10_murmur", "C10_murmur", None, nontrivial=lambda c: len(c) >= 4,
              sig=lambda c, e, o: "hls-file-name-hash", sample=2)
    tw = []
    for _ in range(200 if big else 24):
        pre = b"/" + bytes(rng.choice(b"/abcxyz019_-") for _ in range(rng.choice([2, 6, 30, 63, 64, 65, 66, 90, 128, 200])))
        r = rng.random()
        if r < 0.5:       # same length, differ in the last byte(s)
            ta, tb = rng.sample([b"1", b"2", b"a", b"b", b"10", b"11", b"cam1", b"cam2"], 2)
        elif r < 0.8:     # one is a prefix of the other
            ta, tb = b"", rng.choice([b"1", b"/x", b"abcd"])
        else:             # differ in the middle, same tail
            ta, tb = b"A/tail/of/some/length", b"B/tail/of/some/length"
        tw.append([pre + ta, pre + tb, rng.choice([2, 3, 4])])
    ck.stream("two-streams-one-directory", tw, "C10_two_run", "C10_two", "C10_two_ok",
              nontrivial=lambda c: len(c[0]) > 64 and len(c[1]) > 64 and c[0][:64] == c[1][:64],
              sig=lambda c, e, o: "hls-disk-streams-share-files")
    # 4. D35 replayed on the implementation with the unguarded oracle (known finding)
    wit = [long_gop_witness(True), long_gop_witness(False)]
    ck.stream("long-gop-witness", wit, "C10_run", "C10", "C10_strict", nontrivial=lambda c: True,
              sig=lambda c, e, o: "D35-long-gop-audio-reap-opens-segment-mid-gop")
    return ck.finish(
        rule="camera-like frame sequences with synthetic 90 kHz PTS (phases video+audio / video only / audio only, GOP of 1..60 "
             "frames against fragments of -1,0,1,2,3,5 s so both shorter and longer than the fragment and >= 2 fragments, jittered "
             "and jumping audio timestamps, key frames on the duration boundary +-1 tick, PTS origin 0 / at the fragment boundary / near 2^33, "
             "empty and multi-packet payloads, dts != pts; the stream's SPS/PPS assigned to the VideoMeta after the packetizer was built, as an "
             "operation before the first frame / after some frames / between key frames / changing later) pushed through the real H.264/AAC TS packetizers into hls.SegmentGenerator in "
             "memory and disk mode, stream paths and tokens over all bytes a URL can deliver ('%', printf verbs, '#', '?', '&', '=', '?token=', blanks, NUL, "
             "non-ASCII, tokens of up to ~10 KB; no line feed), interleaved with Segment fetches (readers kept and read later), M3u8 calls with other tokens (slices kept "
             "and re-read) and Close; after every operation playlist text + parsed view, resolvable numbers, files on disk and the demultiplexed "
             "(and re-multiplexed, byte-compared) content of each newly listed segment are compared with the extracted model and judged by the "
             "oracle of C10_model_passes; non-trivial = at least 8 frames spanning >= 4 fragments with >= 4 key frames or audio; plus the explicit "
             "generations of one stream over one storage directory (earlier ones with longer segments, closed or abandoned anywhere, plus leftover "
             "files of arbitrary content under the same names); fetch / 1..6 rollovers / read schedule, the float64 and %.3f reformulations on boundary, tie and random values, the D35 witness, "
             "the murmur32 model of the disk-mode file-name hash against utils/murmur.OfString on byte strings of 0..280 bytes (every tail length, "
             "shared prefixes of 3..200 bytes), two real disk-mode generators over one directory with paths sharing prefixes of 2..200 bytes "
             "(each playlist must resolve to segments holding only its own stream's frames; oracle of C10_two_streams_model_passes), "
             "and schedules of one writer and several fetchers (lookup, frames across 1..3 rollovers, copy; fetch of the newest number while the writer "
             "stands at hls.segment.listed; back-to-back; random) replayed on the "
             "real RW lock with the schedule controller: fetch results and the writer-blocked trace judged by the oracle of C10_lts_model_passes",
        trusted=["TS bytes of a segment are an opaque function of its frame list (mpegts.Writer, C09): the harness demultiplexes a segment "
                 "and checks that re-multiplexing with the real Writer reproduces the bytes",
                 "float64 division/comparison and fmt %.3f as modelled by fl_div90k/millis (validated by the float stream every run)",
                 "POSIX unlink semantics for disk-mode readers (an open file stays readable after os.Remove)",
                 "sync.Pool returns any free buffer or a new one (c_pick); bytes.Buffer capacity 512 KiB not exceeded in the aliasing model"],
        assumptions=["0 <= pts,dts < 2^33 and sample rate > 0 (wf)", "NAL types 1 and 5, AAC-LC ADTS headers",
                     "concurrency at frame granularity: a frame is atomic for fetchers (everything they see changes under the write lock); M3u8 calls are sequential",
                     "segment_starts_with_key holds for segments not opened by the audio-driven reap (D35 known finding)"])
