"""C17 — route resolution. Histories of save/del/match/get/all over nested and
overlapping patterns; each Match is repeated by the harness so Go's map
randomisation is exercised."""
SEGS = ["a", "b", "ab", "A", "c"]

def gen_path(rng, dirp=None):
    n = rng.choice([0, 1, 1, 2, 2, 3, 4])
    p = "/".join(rng.choice(SEGS) for _ in range(n))
    style = rng.random()
    if style < 0.6:
        p = "/" + p
    elif style < 0.7:
        p = " /" + p + " "
    elif style < 0.8:
        p = "/" + p.replace("/", "//", 1)
    elif style < 0.85:
        p = "/" + p + "/../" + rng.choice(SEGS)
    elif style < 0.9:
        p = "/./" + p
    if dirp is None:
        dirp = rng.random() < 0.5
    if dirp and not p.endswith("/"):
        p += "/"
    return p

def gen_url(rng):
    u = rng.choice(["rtsp://cam1", "rtsp://u:p@10.0.0.2:554/live", "rtsp://h/x/", "rtsp://h/", "r", "/"])
    if rng.random() < 0.3:
        u += rng.choice(["/", "/s1", "?a=1"])
    return u

def gen_case(rng, nops):
    ops = []
    pats = []
    for _ in range(nops):
        k = rng.random()
        if k < 0.35:
            p = gen_path(rng, dirp=rng.random() < 0.7)
            pats.append(p)
            ops.append([0, [p, gen_url(rng), rng.random() < 0.3]])
        elif k < 0.45 and pats:
            ops.append([1, rng.choice(pats)])
        elif k < 0.85:
            if pats and rng.random() < 0.7:
                base = rng.choice(pats)
                q = base + rng.choice(["", "x", "a", "a/b", "b/c/d", "/a", "../a"])
            else:
                q = gen_path(rng, dirp=rng.random() < 0.1)
            ops.append([2, q])
        elif k < 0.93 and pats:
            ops.append([3, rng.choice(pats)])
        else:
            ops.append([4])
    return ops

def nontrivial(c):
    # at least two saves and a match
    return sum(1 for o in c if o[0] == 0) >= 2 and any(o[0] == 2 for o in c)

def run(ck):
    if not ck.prepare():
        return ck.finish(rule="build failed")
    rng = ck.rng
    n = 6000 if ck.thorough else 600
    cases = [gen_case(rng, rng.randint(3, 40 if ck.thorough else 14)) for _ in range(n)]
    ck.stream("histories", cases, "C17_run", "C17", "C17_ok", nontrivial=nontrivial,
              sig=lambda c, e, o: "route-history")
    # the string model against Go directly
    alpha = "aB/. "
    strs = []
    if ck.thorough:
        import itertools
        for L in range(0, 8):
            strs += ["".join(t) for t in itertools.product(alpha, repeat=L)]
    else:
        strs = ["".join(rng.choice(alpha) for _ in range(rng.randint(0, 9))) for _ in range(4000)]
    ck.stream("canonical_path", strs, "C17_canon", "strgo_canon", None, nontrivial=lambda s: "/" in s,
              sig=lambda c, e, o: "canonical-path", sample=2)
    return ck.finish(
        rule="random save/del/match/get/all histories over nested/overlapping directory and exact patterns "
             "(non-canonical spellings included), every Match repeated 5x against Go's randomised map order; "
             "non-trivial = at least two saves and one match; plus CanonicalPath vs the Gallina model on strings over {a,B,/,.,space}",
        trusted=["url.Parse is an oracle (generator emits only URLs it accepts); route URL non-empty (guard op_wf)"],
        assumptions=["ASCII paths", "route URL non-empty (an empty URL makes Match index URL[-1]; modelled as Panic, excluded by op_wf)"])
