"""C17 — route resolution. Histories of save/del/match/get/all over nested and
overlapping patterns; each Match is repeated by the harness so Go's map
randomisation is exercised.  Stream "publish": histories on media.GetOrCreate
(registry fast path, route, factory choice, Create(localPath, url), keep-alive)."""
SEGS = ["a", "b", "ab", "A", "c"]

def gen_path(rng, dirp=None):
    n = rng.choice([0, 1, 1, 2, 2, 3, 4])
    p = "/".join(rng.choice(SEGS) for _ in range(n))
    style = rng.random()
    if style < 0.6:
        p = "/" + p
    elif style < 0.7:
        p = " /" + p + " "
    elif style < 0.8:
        p = "/" + p.replace("/", "//", 1)
    elif style < 0.85:
        p = "/" + p + "/../" + rng.choice(SEGS)
    elif style < 0.9:
        p = "/./" + p
    if dirp is None:
        dirp = rng.random() < 0.5
    if dirp and not p.endswith("/"):
        p += "/"
    return p

def gen_url(rng):
    u = rng.choice(["rtsp://cam1", "rtsp://u:p@10.0.0.2:554/live", "rtsp://h/x/", "rtsp://h/", "r", "/"])
    if rng.random() < 0.3:
        u += rng.choice(["/", "/s1", "?a=1"])
    return u

def gen_case(rng, nops):
    ops = []
    pats = []
    for _ in range(nops):
        k = rng.random()
        if k < 0.35:
            p = gen_path(rng, dirp=rng.random() < 0.7)
            if rng.random() < 0.12:
                p = rng.choice(["/", " /", "/./", ""])        # the root route
            pats.append(p)
            ops.append([0, [p, gen_url(rng), rng.random() < 0.3]])
        elif k < 0.45 and pats:
            ops.append([1, rng.choice(pats)])
        elif k < 0.85:
            r2 = rng.random()
            if pats and r2 < 0.2:
                # raw spelling does not end in '/', the canonical path does (or is the root): resolves to nothing
                base = rng.choice(pats)
                if not base.strip().endswith("/"):
                    base = base.strip() + "/"
                q = base + rng.choice([" ", "\t", "  ", ".", "a/..", "x/../.", "./ ", "a/b/../..", "a/../\t"])
            elif r2 < 0.27:
                q = rng.choice(["", " ", "\t ", "/.", "/..", "/a/..", "/ab/../.", "a/..", ".", "/ ", "/a/b/../.."])
            elif pats and r2 < 0.75:
                base = rng.choice(pats)
                q = base + rng.choice(["", "x", "a", "a/b", "b/c/d", "/a", "../a"])
            else:
                q = gen_path(rng, dirp=rng.random() < 0.1)
            ops.append([2, q])
        elif k < 0.93 and pats:
            ops.append([3, rng.choice(pats)])
        else:
            ops.append([4])
    return ops


# ---------------------------------------------------------------- publish stream (media.GetOrCreate)
def py_canon_once(p):
    """the body of utils.CanonicalPath (ASCII): TrimSpace, ToLower, leading '/', path.Clean, trailing '/' kept"""
    p = p.strip(" \t\n\v\f\r").lower()
    if p == "":
        return "/"
    if p[0] != "/":
        p = "/" + p
    st = []
    for seg in p.split("/"):
        if seg == "" or seg == ".":
            continue
        if seg == "..":
            if st:
                st.pop()
            continue
        st.append(seg)
    np = "/" + "/".join(st)
    if p[-1] == "/" and np != "/":
        np += "/"
    return np

def py_canon(p):
    """utils.CanonicalPath since fix 1c2de2b: the body repeated until nothing changes"""
    while True:
        np = py_canon_once(p)
        if np == p:
            return np
        p = np

def py_stable(p):
    return py_canon(py_canon(p)) == py_canon(p)

PSEGS = ["cam", "in", "a", "b", "ab", "x1", "live"]
# segments a URL parser would treat specially: a stream path is not a URL, they are ordinary characters of it
# (the front ends hand over the *decoded* URL path: .../door%232 arrives as "/cams/door#2")
SPECIAL = ["door#2", "yard?sub", "gate%31", "a%2fb", "p+q", "s;t", "u@v", "w:1", "#t", "n?"]

def pseg(rng):
    return rng.choice(SPECIAL) if rng.random() < 0.3 else rng.choice(PSEGS)

def one_hash(p):
    """at most one '#' per path (a second one would be escaped in the fragment of the URL the pull client prints,
    a spelling difference that is not an observable)"""
    i = p.find("#")
    return p if i < 0 else p[:i + 1] + p[i + 1:].replace("#", "-")

def respell(rng, cp):
    """another spelling of the canonical path cp (same CanonicalPath, checked)"""
    for _ in range(8):
        segs = cp.strip("/").split("/") if cp.strip("/") else []
        out = []
        for sg in segs:
            r = rng.random()
            if r < 0.35:
                sg = "".join(ch.upper() if rng.random() < 0.5 else ch for ch in sg)
            out.append(sg)
            r = rng.random()
            if r < 0.12:
                out.append(".")
            elif r < 0.22:
                out.append("")            # '//'
            elif r < 0.30:
                out += [rng.choice(PSEGS), ".."]
        q = "/".join(out)
        if cp.endswith("/") and cp != "/":
            q += "/"
        r = rng.random()
        if r < 0.75:
            q = "/" + q
        elif r < 0.85:
            q = "//" + q
        if rng.random() < 0.2:
            q = rng.choice([" ", "  ", "\t"]) + q
        if rng.random() < 0.2:
            q = q + rng.choice([" ", "\t ", "  "])
        if rng.random() < 0.08 and not cp.endswith("/"):
            # a blank left at the end by resolving "..": one pass of the old CanonicalPath body is not enough
            q = q.rstrip(" \t") + rng.choice([" /x/..", "  /in/../", " /./a/.."])
        if py_canon(q) == cp and py_stable(q):
            return q
    return cp

def gen_purl(rng, schemes):
    sch = rng.choice(schemes)
    host = {"rtsp://": rng.choice(["cam.test", "cam.test", "cam.test", "dead.test"])}.get(sch, rng.choice(["up", "up", "h2", "bad"]))
    u = sch + host + rng.choice(["", "/", "/base", "/base/", "/x/y", "/live?a=1"])
    return u

FACTORY_POOL = [
    [0, "", ""],                      # the real RTSP pull factory (loopback fake camera cam.test, dead.test refuses)
    [1, "fka://", "fka://bad"],       # recording fakes; overlapping Can so that the order of the list decides
    [1, "fk", "fkb://bad"],
    [1, "fkb://", ""],
]

def gen_publish_case(rng, nops):
    k = rng.choice([1, 2, 2, 3, 3, 3, 4])
    fs = rng.sample(FACTORY_POOL, k)
    if rng.random() < 0.1:
        fs = []
    schemes = ["fka://", "fka://", "fkb://", "fkb://", "fkc://", "rtsp://", "rtsp://", "rtsp://", "http://"]
    ops, routes, paths = [], [], []       # routes: canonical patterns saved; paths: canonical stream paths touched

    def fresh_pattern():
        n = rng.choice([1, 1, 2, 2, 3])
        p = "/" + "/".join(pseg(rng) for _ in range(n))
        if routes and rng.random() < 0.5:           # nest under / shadow an existing pattern
            base = rng.choice(routes)
            p = (base if base.endswith("/") else base + "/") + pseg(rng)
        if rng.random() < 0.65:
            p += "/"
        return one_hash(p)

    def target():
        """a canonical stream path worth asking for"""
        r = rng.random()
        if routes and r < 0.6:
            base = rng.choice(routes)
            if base.endswith("/"):
                return one_hash(base + rng.choice(["a", "b", "in/x1", "live", "cam/a/b", "ab"] + SPECIAL + ["door", "gate1", "yard"]))
            return base
        if paths and r < 0.85:
            cp = rng.choice(paths)
            if rng.random() < 0.25 and "#" not in cp and not cp.endswith("/"):
                return cp + rng.choice(["#2", "?sub", "%31"])      # next to a live path, differing only in what a URL parser drops
            return cp
        return one_hash("/" + "/".join(pseg(rng) for _ in range(rng.choice([1, 2, 3]))))

    for _ in range(nops):
        r = rng.random()
        if r < 0.25 or not routes:
            pat = fresh_pattern()
            routes.append(pat)
            ops.append([0, [respell(rng, pat) if rng.random() < 0.3 else pat, gen_purl(rng, schemes), rng.random() < 0.4]])
        elif r < 0.30:
            ops.append([1, respell(rng, rng.choice(routes))])
        elif r < 0.38:
            cp = target(); paths.append(cp)
            ops.append([2, respell(rng, cp)])
        elif r < 0.46 and paths:
            ops.append([3, respell(rng, rng.choice(paths))])
        elif r < 0.85:
            cp = target(); paths.append(cp)
            q = respell(rng, cp)
            if rng.random() < 0.06:
                q = q.rstrip(" \t") + "/"                 # a directory request: resolves to nothing
            ops.append([4, q])
            if rng.random() < 0.45:                        # the same stream asked for again, spelt differently
                ops.append([rng.choice([4, 4, 5]), respell(rng, cp)])
        elif r < 0.93 and paths:
            ops.append([5, respell(rng, rng.choice(paths))])
        else:
            ops.append([6])
    return [fs, ops]

def publish_nontrivial(c):
    # a route, and a request spelt non-canonically
    return any(o[0] == 0 for o in c[1]) and any(o[0] == 4 and py_canon(o[1]) != o[1] for o in c[1])

def publish_sig(c, e, o):
    return "publish-history"

def unstable_witnesses(rng):
    """regression for the repaired defect (1c2de2b): with the one-pass CanonicalPath a request like "/a /b/.." was
    looked up in the registry under "/a " and published under "/a", so the same request pulled again"""
    out = []
    for seg in ["a", "cam", "x1"]:
        q = "/%s /b/.." % seg
        out.append([[[1, "fka://", ""]], [[0, ["/" + seg, "fka://up/s", True]], [4, q], [4, q], [5, q]]])
        out.append([[[1, "fka://", ""]], [[0, ["/", "fka://up/d/", False]], [4, q], [4, q]]])
    return out

def nontrivial(c):
    # at least two saves and a match
    return sum(1 for o in c if o[0] == 0) >= 2 and any(o[0] == 2 for o in c)

def run(ck):
    if not ck.prepare():
        return ck.finish(rule="build failed")
    rng = ck.rng
    n = 6000 if ck.thorough else 600
    cases = [gen_case(rng, rng.randint(3, 40 if ck.thorough else 14)) for _ in range(n)]
    ck.stream("histories", cases, "C17_run", "C17", "C17_ok", nontrivial=nontrivial,
              sig=lambda c, e, o: "route-history")
    # media.GetOrCreate: registry fast path, route, factory choice, what is published where
    npub = 5000 if ck.thorough else 600
    pcases = [gen_publish_case(rng, rng.randint(3, 30 if ck.thorough else 12)) for _ in range(npub)]
    ck.stream("publish", pcases, "C17_publish_run", "C17_publish", "C17_publish_ok",
              nontrivial=publish_nontrivial, sig=publish_sig)
    ck.stream("publish_canon_regression", unstable_witnesses(rng), "C17_publish_run", "C17_publish", "C17_publish_ok",
              nontrivial=lambda c: True,
              sig=lambda c, e, o: "publish-request-canon-unstable")   # fixed in /repo (1c2de2b); a reappearance is reported under this name
    # the string model against Go directly
    alpha = "aB/. "
    alpha2 = "aB/. ?#%3+;@:"          # characters a URL parser treats specially are ordinary in a stream path
    strs = []
    if ck.thorough:
        import itertools
        for L in range(0, 8):
            strs += ["".join(t) for t in itertools.product(alpha, repeat=L)]
        for L in range(1, 5):
            strs += ["".join(t) for t in itertools.product(alpha2, repeat=L)]
        strs += ["".join(rng.choice(alpha2) for _ in range(rng.randint(5, 12))) for _ in range(20000)]
    else:
        strs = ["".join(rng.choice(alpha) for _ in range(rng.randint(0, 9))) for _ in range(2500)]
        strs += ["".join(rng.choice(alpha2) for _ in range(rng.randint(0, 10))) for _ in range(1500)]
        strs += [respell(rng, one_hash("/" + "/".join(pseg(rng) for _ in range(rng.randint(1, 3))))) for _ in range(500)]
    ck.stream("canonical_path", strs, "C17_canon", "strgo_canon", None, nontrivial=lambda s: "/" in s,
              sig=lambda c, e, o: "canonical-path", sample=2)
    return ck.finish(
        rule="random save/del/match/get/all histories over nested/overlapping directory and exact patterns "
             "(non-canonical spellings included; requests whose raw spelling does not end in '/' while the canonical path does or is the root: "
             "blank/tab after the slash, dot segments collapsing onto a directory pattern or '/', empty and all-blank paths; root route '/' saved), "
             "every Match repeated 5x against Go's randomised map order; "
             "non-trivial = at least two saves and one match; "
             "publish: random histories of route save/del, publisher registration, closure, media.Get and media.GetOrCreate on the real "
             "media package with a per-case list (random subset and order) of pull factories: recording fakes with overlapping Can "
             "prefixes and failing hosts, and the real RTSP factory against a loopback fake camera (DESCRIBE URL observed); "
             "requests are respellings (upper case, no leading '/', '//', '/./', '/x/../', blanks, trailing '/') of route patterns + "
             "remainders and of live stream paths, often asked twice in two spellings; patterns and requests contain segments with "
             "'?', '#', '%31', '%2f', '+', ';', '@', ':' and paths that differ from a live path only in what a URL parser drops; "
             "after every request the whole registry (exact keys, stream ids) is compared; non-trivial = a route and a non-canonically spelt request; "
             "publish_canon_regression: the repaired defect (one-pass CanonicalPath) replayed; "
             "plus CanonicalPath vs the Gallina model on strings over {a,B,/,.,space} and over {a,B,/,.,space,?,#,%,3,+,;,@,:}",
        trusted=["url.Parse is an oracle (generator emits only URLs it accepts); route URL non-empty (guard op_wf)",
                 "whether a factory's Create succeeds is external (f_ok): the loopback fake camera cam.test answers, dead.test refuses; "
                 "symbolic hosts are mapped to loopback addresses by the harness",
                 "the recording wrapper around the real RTSP factory only records arguments and results"],
        assumptions=["ASCII paths", "route URL non-empty (an empty URL makes Match index URL[-1]; modelled as Panic, excluded by op_wf)"])
