"""C20 — on-demand pull against a scriptable fake camera (harness/cmd/c20).
A case = (cfg rounds); cfg = (creds tracks sdpkind urlkind keepalive routed split); a round = (again script);
a script = reply kinds: item 0 answers the connect, item n+1 the n-th request, items after the
accepted PLAY are play events.  Kinds: 0 ok, 1 401 Basic, 2 401 Digest, 3 4xx, 4 5xx, 5 malformed,
6 silence until the time-out, 7 reset, 8 EOF, 9 401 with an unknown scheme."""
import hashlib, os, re, subprocess, threading
import vlib
from vlib import vparse, vs

OK, BASIC, DIGEST, E4, E5, MALF, SILENCE, RESET, EOF, AUTHX = range(10)
KINDS = list(range(10))
CHALLENGES = [BASIC, DIGEST, AUTHX]


def cfg(creds=1, tracks=3, sdpkind=0, urlkind=0, keepalive=1, routed=1, split=0):
    # split: the camera sends an answer that has a body (DESCRIBE) in two TCP segments
    return [creds, tracks, sdpkind, urlkind, keepalive, routed, split]


def nsteps(tracks):
    # connect, OPTIONS, DESCRIBE, SETUP per track, PLAY
    return 4 + (tracks & 1) + ((tracks >> 1) & 1)


def step_cases():
    """every (step x reply kind), with and without credentials in the route URL; the step after PLAY
    is the first play event"""
    out = []
    for creds in (1, 0):
        for tracks in (3, 1):
            n = nsteps(tracks)
            for p in range(0, n + 1):
                for k in KINDS:
                    if creds == 0 and k not in CHALLENGES and tracks == 1:
                        continue
                    if creds == 0 and k in (SILENCE,):
                        continue
                    out.append([cfg(creds=creds, tracks=tracks), [[(p + k) % 2, [OK] * p + [k] + [OK] * 8]]])
    return out


def auth_cases(rng, thorough):
    """one, two and three consecutive challenges at every request step, then a later request pulls afresh"""
    out = []
    for p in range(1, 6):
        for k1 in CHALLENGES:
            for k2 in CHALLENGES + [OK, E4, EOF]:
                out.append([cfg(), [[0, [OK] * p + [k1, k2] + [OK] * 8], [1, [OK] * 8]]])
                if k2 in CHALLENGES:
                    for k3 in (KINDS if thorough else [rng.choice(KINDS), OK]):
                        if k3 == SILENCE and not thorough:
                            continue
                        out.append([cfg(), [[0, [OK] * p + [k1, k2, k3] + [OK] * 8]]])
    # challenges at two different steps (a Basic challenge after a Digest one keeps the nonce)
    for k1 in (BASIC, DIGEST):
        for k2 in (BASIC, DIGEST):
            for p2 in range(0, 4):
                out.append([cfg(), [[0, [OK, k1, OK] + [OK] * p2 + [k2] + [OK] * 8]]])
                out.append([cfg(), [[0, [OK, k1, k1, OK] + [OK] * p2 + [k2] + [OK] * 8]]])
    return out


def config_cases():
    out = []
    full = [OK] * 9
    for tracks in (0, 1, 2, 3):
        for urlkind in (0, 1, 2):
            for keep in (0, 1):
                out.append([cfg(creds=tracks & 1, tracks=tracks, urlkind=urlkind, keepalive=keep), [[1, full], [0, full]]])
    for sdpkind in (1, 2):
        for creds in (0, 1):
            out.append([cfg(creds=creds, sdpkind=sdpkind), [[0, full], [0, [OK, DIGEST] + full]]])
    out.append([cfg(routed=0), [[0, full], [1, full]]])
    for tracks in (1, 2, 3):
        for creds in (0, 1):
            out.append([cfg(creds=creds, tracks=tracks, split=1), [[creds, full], [0, [OK, DIGEST] + full]]])
    out.append([cfg(), [[0, []], [0, [OK]], [0, [OK, OK]], [0, [OK] * 6]]])
    return out


def rand_script(rng, maxlen, silence):
    n = rng.randint(0, maxlen)
    s = []
    for _ in range(n):
        x = rng.random()
        if x < 0.68:
            s.append(OK)
        elif x < 0.84:
            s.append(rng.choice(CHALLENGES[:2]))
        elif x < 0.86 and silence:
            s.append(SILENCE)
        else:
            s.append(rng.choice([E4, E5, MALF, RESET, EOF, AUTHX]))
    return s


def rand_case(rng, silence):
    c = cfg(creds=1 if rng.random() < 0.8 else 0, tracks=rng.choice([0, 1, 2, 3, 3, 3]),
            sdpkind=0 if rng.random() < 0.9 else rng.choice([1, 2]), urlkind=rng.choice([0, 0, 1, 2]),
            keepalive=rng.choice([0, 1]), routed=0 if rng.random() < 0.03 else 1,
            split=1 if rng.random() < 0.15 else 0)
    return [c, [[rng.choice([0, 1]), rand_script(rng, 16, silence)] for _ in range(rng.randint(1, 3))]]


def play_cases(thorough):
    """disconnects (and everything else) at many offsets of the play phase"""
    out = []
    offs = range(0, 21) if thorough else (0, 1, 5)
    for n in offs:
        for k in (EOF, RESET, MALF, E4, DIGEST) + ((SILENCE,) if thorough and n % 5 == 0 else ()):
            out.append([cfg(tracks=1 + (n % 3)), [[n % 2, [OK] * nsteps(1 + (n % 3)) + [OK] * n + [k, OK, OK]], [0, [OK] * 7]]])
    return out


def nontrivial(c):
    # a round whose script deviates from the all-ok handshake or reaches the play phase
    return any(any(k != OK for k in r[1]) or len(r[1]) > nsteps(c[0][1]) for r in c[1])


def sig(c, e, o):
    try:
        v = vparse(o)
        if v and isinstance(v[0], (bytes, bytearray)):
            return "pull-" + bytes(v[0]).decode()[1:]
        outs = [r[0] for r in v]
        if 2 in outs:
            return "pull-panic-reaches-requester"
        if 3 in outs:
            return "pull-requester-hangs"
        for r in v:
            if r[5][:4] != [0, 0, 0, 0] or r[5][4] != 1:
                return "pull-leftover-after-end"
            if r[0] == 0 and r[2] != [0, 0, 0, 0]:
                return "pull-leftover-after-failure"
    except Exception:
        pass
    return "pull-scenario"


SKIP = vs(["!skip"])
UNEVAL = vs(["!uneval"])


def observe(prop, vh_cmd, lines, timeout=3000):
    """run the harness on the cases.  A process that has run into one of its (generous) wait bounds answers the
    cases that follow with "!skip" instead of measuring next to leftovers: those are re-run in a fresh process."""
    obs = [SKIP] * len(lines)
    todo = list(range(len(lines)))
    for _ in range(4):
        if not todo:
            break
        out = vlib.run_vh(prop, vh_cmd, [lines[i] for i in todo], timeout=timeout)
        nxt = []
        for i, o in zip(todo, out):
            obs[i] = o
            if o == SKIP:
                nxt.append(i)
        if len(nxt) == len(todo):   # no progress
            break
        todo = nxt
    return obs


class Lane(threading.Thread):
    """a harness process of its own (own registry, counters, time-out setting) running in parallel"""
    def __init__(self, prop, vh_cmd, lines):
        super().__init__()
        self.args, self.obs, self.err = (prop, vh_cmd, lines), None, None
        self.start()

    def run(self):
        try:
            self.obs = observe(*self.args)
        except Exception as ex:   # reported by account()
            self.err = ex


def account(ck, name, cases, run_fn, ok_fn, obs, nontrivial=None, sig=None, sample=3):
    """ck.stream's bookkeeping for observations made by observe(); cases that could not be evaluated ("!skip" left
    over, "!uneval" = the scenario's set-up was not reached) are counted, not judged"""
    lines = [vs(c) for c in cases]
    st = {"stream": name, "cases": len(lines), "oracle_failures": 0, "divergences": 0, "panics": 0, "unevaluated": 0}
    ck.streams.append(st)
    if not lines:
        return st
    try:
        exp = vlib.run_driver(ck.prop, run_fn, lines)
        oks = vlib.run_driver(ck.prop, ok_fn, ["(%s %s)" % (l, o) for l, o in zip(lines, obs)])
    except vlib.Broken as b:
        ck.broken.append(b)
        return st
    seen = set()
    for c, l, e, o, k in zip(cases, lines, exp, obs, oks):
        if o in (SKIP, UNEVAL):
            st["unevaluated"] += 1
            continue
        ck.evaluations += 1
        h = hashlib.md5(l.encode()).hexdigest()
        if nontrivial is None or nontrivial(c):
            ck.nontrivial.add(name + h)
        if o.startswith(vlib.PANIC_PREFIX) or o.startswith("(x2163726173") or o.startswith("(x2168616e67"):
            st["panics"] += 1
        if k != "1":
            st["oracle_failures"] += 1
            ck.failures.append({"stream": name, "sig": sig(c, e, o) if sig else name, "case": l, "expected": e,
                                "observed": o, "run_fn": run_fn, "vh_cmd": "C20" if run_fn == "C20_run" else run_fn[:-4],
                                "ok_fn": ok_fn})
        elif e != o:
            st["divergences"] += 1
            ck.divergences.append({"stream": name, "case": l, "expected": e, "observed": o, "run_fn": run_fn,
                                   "vh_cmd": "C20" if run_fn == "C20_run" else run_fn[:-4], "ok_fn": ok_fn})
        if len([x for x in ck.samples if x["stream"] == name]) < sample and h not in seen:
            seen.add(h)
            ck.samples.append({"stream": name, "case": l[:400], "observed": o[:400]})
    return st


def has_silence(c):
    return any(SILENCE in r[1] for r in c[1])


def race_step(ck):
    """thorough tier: cameras that hang up right after accepting PLAY (no waiting for the harness), under the Go
    race detector; a report whose two conflicting accesses are both in the pull client / pull factory is a failure
    (reports inside other packages belong to other properties and are ignored here)"""
    exe = vlib.vh_exe(ck.prop, race=True)
    cases = [[cfg(creds=c, tracks=t, keepalive=k), [[0, [OK] * nsteps(t) + [e]]]]
             for c in (0, 1) for t in (0, 1, 3) for k in (0, 1) for e in (RESET, EOF)]
    lines = [vs(c) for c in cases]
    st = {"stream": "race", "cases": len(lines), "oracle_failures": 0, "divergences": 0, "panics": 0}
    ck.streams.append(st)
    env = dict(os.environ, C20_UNGATED="1", GORACE="halt_on_error=0")
    try:
        p = subprocess.run([exe, "C20"], input=("\n".join(lines) + "\n").encode(), stdout=subprocess.PIPE,
                           stderr=subprocess.PIPE, env=env, timeout=900)
    except subprocess.TimeoutExpired:
        ck.fail("race", "pull-race-run-hangs", lines[0])
        return
    ck.count(len(lines), "race")
    err = p.stderr.decode("utf-8", "replace")
    mine = ("service/rtsp.(*PullClient)", "service/rtsp.(*pullStreamFactory)")
    for b in err.split("WARNING: DATA RACE")[1:]:
        tops = re.findall(r"(?:Write|Read|Previous write|Previous read) at [^\n]*\n\s+(\S+)", b)
        if len(tops) >= 2 and all(any(m in t for m in mine) for t in tops[:2]):
            st["oracle_failures"] += 1
            ck.fail("race", "pull-client-field-race", lines[0], observed=b[:1500],
                    note="data race between the pull client's goroutine and the requester")
            break


def run(ck):
    T = ck.thorough
    if not ck.prepare(race=T):
        return ck.finish(rule="build failed")
    rng = ck.rng
    # scenario streams; the cases that contain a silence (2 s each: the client's time-out under test) run in
    # processes of their own, in parallel with the others
    groups = [("steps", step_cases()), ("auth", auth_cases(rng, T)), ("config", config_cases()),
              ("play", play_cases(T))]
    n = 1500 if T else 120
    groups.append(("random", [rand_case(rng, (i % 4 == 0) if T else (i % 10 == 0)) for i in range(n)]))
    slow = [c for _, cs in groups for c in cs if has_silence(c)]
    nl = 3 if T else 2
    lanes = [Lane(ck.prop, "C20", [vs(c) for c in slow[i::nl]]) for i in range(nl)]
    results = []
    for name, cs in groups:
        fast = [c for c in cs if not has_silence(c)]
        results.append(account(ck, name, fast, "C20_run", "C20_ok", observe(ck.prop, "C20", [vs(c) for c in fast]),
                               nontrivial=nontrivial, sig=sig))
    for ln in lanes:
        ln.join()
    sobs = [None] * len(slow)
    for i, ln in enumerate(lanes):
        if ln.err is not None:
            ck.broken.append(vlib.Broken("harness failed on the silence lane", str(ln.err)))
            ln.obs = [SKIP] * len(slow[i::nl])
        sobs[i::nl] = ln.obs
    results.append(account(ck, "silence", slow, "C20_run", "C20_ok", sobs, nontrivial=nontrivial, sig=sig))
    # simultaneous first requests: n requesters, delays (ms) at the point between swap and retire in media.Regist
    conc = []
    for n in (2, 3, 4) if T else (2, 3):
        for tracks in (1, 3):
            conc.append([n, tracks, [0] * n])
            for _ in range(12 if T else 2):
                conc.append([n, tracks, [rng.choice([0, 0, 1, 3, 8]) for _ in range(n)]])
    results.append(account(ck, "concurrent", conc, "C20conc_run", "C20conc_ok",
                           observe(ck.prop, "C20conc", [vs(c) for c in conc]), nontrivial=lambda c: c[0] >= 2,
                           sig=lambda c, e, o: "pull-concurrent"))
    # overlapping first requests with consumers attached before / during / after the other registration; the
    # cameras end later: case = (tracks first attach1 attach2 end2first kind1 kind2 keepalive), attach1 = 0 none,
    # 1 before the second registration, 2 between its swap and its consumer-count check, 3 right after stream 1
    # became "replaced", 4 after the second registration has finished
    repl = []
    for rep in range(4 if T else 1):
        for first in (0, 1):
            for a1 in (0, 1, 2, 3, 4):
                for a2 in (0, 1):
                    for e in (0, 1):
                        repl.append([rng.choice([1, 3]), first, a1, a2, e, rng.choice([EOF, RESET]),
                                     rng.choice([EOF, RESET]), rng.choice([0, 1])])
    for _ in range(60 if T else 8):
        repl.append([rng.choice([0, 1, 2, 3]), rng.choice([0, 1]), rng.choice([0, 1, 2, 3, 4, 4]), rng.choice([0, 1]),
                     rng.choice([0, 1]), rng.choice([EOF, RESET]), rng.choice([EOF, RESET]), rng.choice([0, 1])])
    results.append(account(ck, "replaced", repl, "C20repl_run", "C20repl_ok",
                           observe(ck.prop, "C20repl", [vs(c) for c in repl]), nontrivial=lambda c: c[2] or c[3],
                           sig=lambda c, e, o: "pull-replaced-stream-consumers"))
    if T:
        race_step(ck)
    # cases that could not be evaluated are not violations; too many of them make the run worthless
    total = sum(r["cases"] for r in results)
    uneval = sum(r["unevaluated"] for r in results)
    ck.extra["unevaluated"] = uneval
    if not ck.failures and uneval * 10 > total:
        ck.fail("all", "pull-too-few-cases-evaluated", "", note="%d of %d cases could not be evaluated" % (uneval, total))
    return ck.finish(
        rule="scripts for a fake RTSP camera on 127.0.0.1 (reply kind per request: ok, 401 Basic, 401 Digest, 401 unknown scheme, "
             "4xx, 5xx, malformed, silence until the time-out, reset, EOF), requests through media.GetOrCreate with the route "
             "configured by route.Save: (steps) every handshake step incl. connect and the first play event x every reply kind, "
             "with/without credentials in the route URL, 1 and 2 tracks; (auth) 1-3 consecutive challenges of every scheme "
             "combination at every step and challenges at two different steps, followed by a second request that must pull "
             "afresh; (config) 0-2 tracks x URL path forms (empty, trailing slash) x keep-alive, unusable SDP bodies, the DESCRIBE answer in two TCP segments, unrouted "
             "path, scripts that end after 0..n steps; (play) ending/non-ending events at offsets of the play phase; (random) "
             "1-3 rounds of random scripts of length 0..16; (concurrent) 2-4 requesters released together against an all-ok camera, with "
             "delays injected between swap and retire in media.Regist, observed after a packet on every connection; (replaced) two "
             "overlapping requests with per-connection gated handshakes: stream 1 registers, stream 2 registers (replacing it) and "
             "optionally gets a consumer; the consumer of stream 1 joins before the second registration, between its swap and its "
             "consumer-count check, right after stream 1's status became replaced, after the second registration, or never; then a packet on every connection, then the cameras end in "
             "either order (EOF/reset): Close calls per consumer, ConsumerCount of both streams, registry, connections, counter, "
             "goroutines at three points; (race, thorough) "
             "cameras hanging up right after PLAY under the Go race detector, reports confined to pull client/factory. Compared per round: requester's answer, request sequence read by "
             "the camera (method, Authorization scheme verified against the route URL's credentials incl. the MD5 variant, "
             "Session echo), socket/registry/stats.RtspConns/goroutine state when the requester has its answer and after the "
             "script has ended, packets delivered to a consumer, consumer closed. non-trivial = a script that deviates from "
             "the all-ok handshake or reaches the play phase",
        trusted=["the fake camera and its request classifier (harness) — Authorization headers are recomputed from the route URL's credentials",
                 "open connections = the process's own file descriptors whose getpeername is the camera's port; goroutines through runtime.Stack filtered to pull_client functions",
                 "the client's response deadline (config.NetTimeout, set through config.VerifSetNetTimeout) is 20 s in every step that is not a time-out scenario and 2 s only for the read that meets the scripted silence (the camera shortens it just before answering the preceding step; a play phase ending in a silence is kept busy with ignored unsolicited responses until the silence starts); every wait of the harness is a wait for the event itself with a 30 s bound; a process that ran into a bound answers later cases !skip and they are re-run in a fresh process; unevaluable cases are counted (evidence: unevaluated), never judged"],
        assumptions=["the camera's 200 replies to SETUP and PLAY carry a Session header, other replies do not",
                     "loopback TCP; DNS and faults below TCP are outside", "keep-alive OPTIONS (30 s) does not fire within a scenario"])
