"""C18 — users and routes survive edits, reloads and crashes intact.
Histories of save/del/get/all/flush/restart on the real JSON providers (temporary
files), and flushes performed by a child process killed at every crash point."""
import os, sys
sys.path.insert(0, os.path.join(os.path.dirname(os.path.abspath(__file__)), "..", "bin"))
import vlib

NAMES = ["bob", "Bob", "BOB", "alice", "Alice", "admin", "ADMIN", "carol", "x", "", "a.b", "Zed9"]
PWS = ["pw1", "secret", "", "0123456789abcdef0123456789abcdef", "p\"q\\r", "<&>"]
ACC = ["", "*", "/a", "/a/*;/b/+/c", "/live/cam1;/x", " /a /b ", ";"]

def gen_user(rng):
    return [rng.choice(NAMES), rng.choice(PWS), rng.random() < 0.35, rng.choice(ACC), rng.choice(ACC)]

def gen_uops(rng, n, restarts=True):
    ops = []
    used = []
    for _ in range(n):
        k = rng.random()
        if k < 0.40:
            u = gen_user(rng)
            if used and rng.random() < 0.5:        # aim at an existing name, any spelling
                nm = rng.choice(used)
                u[0] = rng.choice([nm, nm.upper(), nm.lower(), nm.capitalize()])
            used.append(u[0])
            ops.append([0, [u, rng.random() < 0.5]])
        elif k < 0.55:
            nm = rng.choice(used) if used and rng.random() < 0.8 else rng.choice(NAMES)
            ops.append([1, rng.choice([nm, nm.upper(), nm.lower()])])
        elif k < 0.67:
            nm = rng.choice(used) if used and rng.random() < 0.8 else rng.choice(NAMES)
            ops.append([2, rng.choice([nm, nm.upper()])])
        elif k < 0.77:
            ops.append([3])
        elif k < 0.90:
            ops.append([4])
        elif restarts:
            # a restart follows a flush most of the time (the property's case); sometimes changes are pending
            if rng.random() < 0.7:
                ops.append([4])
            ops.append([5])
            ops.append([3])
    return ops

SEGS = ["a", "b", "ab", "A", "c", "live"]
def gen_pat(rng):
    n = rng.choice([0, 1, 1, 2, 2, 3])
    p = "/".join(rng.choice(SEGS) for _ in range(n))
    style = rng.random()
    if style < 0.6:
        p = "/" + p
    elif style < 0.7:
        p = " /" + p + " "
    elif style < 0.8:
        p = "/" + p.replace("/", "//", 1)
    elif style < 0.87:
        p = "/" + p + "/../" + rng.choice(SEGS)
    elif style < 0.93:
        p = "/./" + p
    if rng.random() < 0.5 and not p.endswith("/"):
        p += "/"
    return p

URLS = ["rtsp://cam1", "rtsp://u:p@10.0.0.2:554/live", "rtsp://h/x/", "rtsp://h/", "r", "/", "", "rtsp://h/a?b=1&c=<2>"]
BADURLS = [":bad", ":", "://x"]            # url.Parse: missing protocol scheme

def gen_rops(rng, n, restarts=True, bad=True):
    ops = []
    used = []
    for _ in range(n):
        k = rng.random()
        if k < 0.40:
            p = rng.choice(used) if used and rng.random() < 0.4 else gen_pat(rng)
            used.append(p)
            url = rng.choice(BADURLS) if bad and rng.random() < 0.12 else rng.choice(URLS)
            ops.append([0, [p, url, rng.random() < 0.3]])
        elif k < 0.55:
            p = rng.choice(used) if used and rng.random() < 0.8 else gen_pat(rng)
            ops.append([1, rng.choice([p, p.upper(), " " + p])])
        elif k < 0.67:
            p = rng.choice(used) if used and rng.random() < 0.8 else gen_pat(rng)
            ops.append([2, p])
        elif k < 0.77:
            ops.append([3])
        elif k < 0.90:
            ops.append([4])
        elif restarts:
            if rng.random() < 0.7:
                ops.append([4])
            ops.append([5])
            ops.append([3])
    return ops

def hist_project(line):
    """the content of the pending saves/removes lists is not constrained by the property (only whether
    anything is pending, and the full list): drop it before model and implementation are compared"""
    try:
        v = vlib.vparse(line)
        for o in v:
            if isinstance(o, list) and o and o[0] == 4 and len(o) > 1 and o[1]:
                o[1][0][1] = []
                o[1][0][2] = []
        return vlib.vs(v)
    except Exception:
        return line

def hist_nontrivial(c):
    # an update of an existing key or a delete, and a flush followed by a restart
    saves = sum(1 for o in c if o[0] == 0)
    fl = [i for i, o in enumerate(c) if o[0] == 4]
    rs = [i for i, o in enumerate(c) if o[0] == 5]
    return saves >= 2 and any(o[0] == 1 for o in c) and any(f < r for f in fl for r in rs)

def prefix_classes(rng, n, every):
    if n <= 1:
        return []
    if every:
        return list(range(1, n))
    ks = {1, n - 1, n // 2, rng.randint(1, n - 1), rng.randint(1, n - 1)}
    return sorted(k for k in ks if 0 < k < n)

# patterns the one-pass CanonicalPath mapped to something it would change again (a segment ending in a blank
# exposed by ".."); repaired in /repo (1c2de2b) — kept as a regression
UNSTABLE = ["/a /b/..", "/x/y /c/..", "/a\t/b/..", "/q /./r/.."]

def unstable_cases(rng):
    out = []
    for p in UNSTABLE:
        out.append([[0, [p, rng.choice(URLS[:4]), False]], [4], [5], [3]])
    return out

def crash_cases(ck, kind, n, gen):
    rng = ck.rng
    pre = []
    for _ in range(n):
        mode = rng.random()
        old = [] if mode < 0.15 else gen(rng, rng.randint(1, 8))      # 15%: nothing on disk before
        delta = [] if mode > 0.93 else gen(rng, rng.randint(1, 6))    # 7%: nothing pending, no provider call
        delta = [o for o in delta if o[0] != 4]                       # the second server flushes once, at the end
        pre.append([old, delta])
    enc = ck.stream(kind + "-encodings", pre, None, "C18_%senc" % kind, None, sample=1)
    cases = []
    nevery = 0
    for (old, delta), e in zip(pre, enc):
        v = vlib.vparse(e)
        if not (isinstance(v, list) and len(v) == 2 and isinstance(v[1], bytes)):
            ck.fail(kind + "-encodings", "encodings-harness", vlib.vs([old, delta]), observed=e)
            continue
        oldf, newb = v
        # thorough: every prefix length for up to 12 cases with a small file (the wire carries each state's content)
        every = ck.thorough and 1 < len(newb) <= 500 and nevery < 12
        nevery += 1 if every else 0
        ks = prefix_classes(rng, len(newb), every)
        cases.append([old, delta, ks, oldf, newb])
    torn = [[c[0], c[1], [0] + c[2]] for c in cases if len(c[4]) > 1]
    return cases, torn

# ---- several flushes in a row, crashes in between, the directory never cleaned ----
GROW_U = ["dave", "erin", "frank", "grace", "heidi", "ivan", "judy"]
GROW_R = ["/g1/", "/g2", "/g3/x/", "/g4", "/g5/y", "/g6/", "/g7"]

def grow_ops(rng, kind, n):
    ops = []
    for name in rng.sample(GROW_U if kind == "u" else GROW_R, n):
        if kind == "u":
            ops.append([0, [[name, rng.choice(PWS), rng.random() < 0.3, rng.choice(ACC), rng.choice(ACC)], True]])
        else:
            ops.append([0, [name, rng.choice(URLS[:5]), rng.random() < 0.3]])
    return ops

def shrink_ops(rng, kind):
    pool = (GROW_U + ["admin", "bob", "alice", "carol", "x"]) if kind == "u" else (GROW_R + ["/a", "/a/", "/b/", "/live/"])
    return [[1, k] for k in pool if rng.random() < 0.8]

def recrash_cases(ck, kind, n, gen):
    rng = ck.rng
    pre = []
    for _ in range(n):
        old = gen(rng, rng.randint(0, 5))
        rounds = []
        nr = rng.randint(2, 4)
        for j in range(nr - 1):
            style = rng.random()
            delta = grow_ops(rng, kind, rng.randint(2, 6)) if style < 0.6 else \
                    shrink_ops(rng, kind) if style < 0.75 else [o for o in gen(rng, rng.randint(1, 5)) if o[0] != 4]
            i = rng.choice([0, 1, 1, 2, 2, 3, 4, 4, 5])
            rounds.append([delta, i, 0])
        style = rng.random()
        last = shrink_ops(rng, kind) if style < 0.6 else grow_ops(rng, kind, rng.randint(1, 3)) if style < 0.9 else []
        if style < 0.3:
            last = last + grow_ops(rng, kind, 1)
        rounds.append([last, 5, 0])
        pre.append([old, rounds])
    enc = ck.stream(kind + "-round-encodings", pre, None, "C18_%sencs" % kind, None, sample=1)
    cases = []
    for (old, rounds), e in zip(pre, enc):
        v = vlib.vparse(e)
        if not (isinstance(v, list) and len(v) == 2 and isinstance(v[1], list) and len(v[1]) == len(rounds)):
            ck.fail(kind + "-round-encodings", "encodings-harness", vlib.vs([old, rounds]), observed=e)
            continue
        oldf, datas = v
        for r, dta in zip(rounds, datas):
            if r[1] == 1 and len(dta) > 2 and rng.random() < 0.7:      # a torn write
                r[2] = rng.choice([1, len(dta) - 1, rng.randint(1, len(dta) - 1)])
        cases.append([old, rounds, oldf, datas])
    return cases

def recrash_project(line):
    """stray temporary files have random names: compare them as a multiset of contents"""
    try:
        v = vlib.vparse(line)
        for o in v:
            o[1] = sorted(o[1])
        return vlib.vs(v)
    except Exception:
        return line

def recrash_nontrivial(c):
    # a flush interrupted after (part of) its write, followed later by a completed flush of fewer bytes
    datas = c[3]
    rounds = c[1]
    return any(1 <= rounds[j][1] <= 4 and len(datas[j]) > len(datas[-1]) for j in range(len(rounds) - 1))

# ---- schedules with a Flush in flight: API calls racing the periodic / shutdown Flush ----
def gen_sched(rng, kind, thorough):
    def edit():
        if kind == "u":
            if rng.random() < 0.7:
                u = gen_user(rng)
                return [0, [u, rng.random() < 0.5]]
            return [1, rng.choice(NAMES + ["admin", "admin"])]
        if rng.random() < 0.7:
            return [0, [gen_pat(rng), rng.choice(URLS), rng.random() < 0.3]]
        return [1, gen_pat(rng)]
    ev = []
    for _ in range(rng.randint(0, 3)):
        ev.append(edit())
    for _ in range(rng.randint(1, 4 if thorough else 3)):
        if rng.random() < 0.85:
            ev.append(edit())                      # something pending, so the Flush reaches the provider
        ev.append([6, rng.random() < 0.8])         # 20%: the provider fails
        k = rng.random()
        if k < 0.75:
            ev.append([7, edit()])
        elif k < 0.82:
            ev.append([7, [4]])                    # a second Flush racing the first
        elif k < 0.87:
            ev.append([7, [5]])                    # Reset racing the Flush
        # (no queries while the Flush is parked: whether Get/All may pass a Flush in flight is not the property's business)
        ev.append([8])
        if rng.random() < 0.3:
            ev.append(rng.choice([[3], edit(), [4]]))
    if rng.random() < 0.25:
        ev.append(edit())
    ev += [[4], [5], [3]]                          # the shutdown flush, a restart, and what it loaded
    return ev

def sched_project(line):
    try:
        v = vlib.vparse(line)
        def walk(o):
            if isinstance(o, list):
                if len(o) == 3 and o[0] == 4 and isinstance(o[1], list) and o[1] and isinstance(o[1][0], list) and len(o[1][0]) == 3:
                    o[1][0][1] = []
                    o[1][0][2] = []
                for x in o:
                    walk(x)
        walk(v)
        return vlib.vs(v)
    except Exception:
        return line

def sched_nontrivial(c):
    # an edit issued while a successful Flush is parked in the provider, and no later edit before the final flush + restart
    for i in range(len(c) - 2):
        if c[i][0] == 6 and c[i][1] and c[i + 1][0] == 7 and c[i + 1][1][0] in (0, 1) and c[i + 2][0] == 8:
            if all(e[0] not in (0, 1, 7) for e in c[i + 3:]):
                return True
    return False

def run(ck):
    if not ck.prepare():
        return ck.finish(rule="build failed")
    rng = ck.rng
    T = ck.thorough
    n = 5000 if T else 400
    ucases = [gen_uops(rng, rng.randint(3, 40 if T else 16)) for _ in range(n)]
    ck.stream("user-histories", ucases, "C18_users_run", "C18_users", "C18_users_ok",
              nontrivial=hist_nontrivial, sig=lambda c, e, o: "user-history", project=hist_project)
    rcases = [gen_rops(rng, rng.randint(3, 40 if T else 16)) for _ in range(n)]
    ck.stream("route-histories", rcases, "C18_routes_run", "C18_routes", "C18_routes_ok",
              nontrivial=hist_nontrivial, sig=lambda c, e, o: "route-history", project=hist_project)
    m = 300 if T else 16
    def gu(r, k): return gen_uops(r, k, restarts=False)
    def gr(r, k): return gen_rops(r, k, restarts=False)
    cn = lambda c: len(c[2]) >= 3 and len(c[3]) == 1
    uc, ut = crash_cases(ck, "u", m, gu)
    ck.stream("user-crash", uc, "C18_ucrash_run", "C18_ucrash", "C18_ucrash_ok",
              nontrivial=cn, sig=lambda c, e, o: "user-crash", timeout=3000, sample=1)
    rc, rt = crash_cases(ck, "r", m, gr)
    ck.stream("route-crash", rc, "C18_rcrash_run", "C18_rcrash", "C18_rcrash_ok",
              nontrivial=cn, sig=lambda c, e, o: "route-crash", timeout=3000, sample=1)
    ns = 2500 if T else 150
    ck.stream("user-flush-in-flight", [gen_sched(rng, "u", T) for _ in range(ns)], "C18_usched_run", "C18_usched", "C18_usched_ok",
              nontrivial=sched_nontrivial, sig=lambda c, e, o: "user-flush-in-flight", project=sched_project, timeout=3000, sample=1)
    ck.stream("route-flush-in-flight", [gen_sched(rng, "r", T) for _ in range(ns)], "C18_rsched_run", "C18_rsched", "C18_rsched_ok",
              nontrivial=sched_nontrivial, sig=lambda c, e, o: "route-flush-in-flight", project=sched_project, timeout=3000, sample=1)
    mr = 300 if T else 30
    ck.stream("user-crash-then-flush", recrash_cases(ck, "u", mr, gu), "C18_urecrash_run", "C18_urecrash", "C18_urecrash_ok",
              nontrivial=recrash_nontrivial, sig=lambda c, e, o: "user-crash-then-flush", timeout=3000, sample=1,
              project=recrash_project)
    ck.stream("route-crash-then-flush", recrash_cases(ck, "r", mr, gr), "C18_rrecrash_run", "C18_rrecrash", "C18_rrecrash_ok",
              nontrivial=recrash_nontrivial, sig=lambda c, e, o: "route-crash-then-flush", timeout=3000, sample=1,
              project=recrash_project)
    # the JSON laws (trusted base of the crash theorems) on the real decoder, and at the same time the
    # states the pre-repair sequence OpenFile(O_TRUNC)+write could leave: empty / torn target => LoadAll fails
    tn = lambda c: len(c[2]) >= 3
    ck.stream("user-torn-file", ut, "C18_utorn_run", "C18_utorn", "C18_utorn_ok", nontrivial=tn,
              sig=lambda c, e, o: "json-law-user", sample=1)
    ck.stream("route-torn-file", rt, "C18_rtorn_run", "C18_rtorn", "C18_rtorn_ok", nontrivial=tn,
              sig=lambda c, e, o: "json-law-route", sample=1)
    # regression for the repaired finding (CanonicalPath not idempotent): such a pattern must reload unchanged
    ck.stream("route-reload-unstable-pattern", unstable_cases(rng), "C18_routes_run", "C18_routes", "C18_routes_ok",
              sig=lambda c, e, o: "route-reload-noncanonical-stable" if e == o else "route-history", sample=1)
    return ck.finish(
        rule="(1) random histories of save/del/get/all/flush/restart on auth.* and route.* with the real JSON providers "
             "on temporary files (names/patterns in several spellings aimed at existing keys, updates with and without "
             "password change, admin flag with empty access lists, rejected URLs, flushes with nothing pending, restarts "
             "with and without a preceding flush); whether provider.Flush is called and with which full list, what LoadAll sees after every "
             "flush and the table after every restart are compared with the model and judged by ok_hist; non-trivial = "
             ">= 2 saves, a delete and a flush followed by a restart.  (2) crash experiment: a first server writes the old "
             "table (15% nothing on disk), a child process starts on it, applies a delta (7% nothing pending) and flushes; it "
             "is killed (SIGKILL) at each hook point of EncodeJSONFile in turn; the directory after each death, plus the file "
             "being written truncated to prefix classes {1, n/2, n-1, 2 random} (thorough: every length for 12 cases per table kind), is "
             "compared byte for byte with the model's crash_states and loaded by a fresh provider: the result must be the "
             "complete old or new table (crash_ok); the hook log must equal the model's operation names.  (2b) crash-then-flush: 2-4 "
             "servers in a row on ONE directory that is never cleaned: each starts on what the previous left (stray temporary "
             "files included), applies a delta (grow by 2-6 entries / delete most entries / random) and flushes; all but the last "
             "are killed at a random hook point or inside the write (torn to 1, n-1 or a random length), the last one completes; "
             "after every round the directory (target + multiset of stray files) is compared with the model and a fresh provider "
             "must load the old or new table, after the completed flush exactly the new one (round_ok); non-trivial = a flush "
             "interrupted after (part of) its write followed by a completed flush of fewer bytes.  (2c) flush-in-flight: schedules "
             "replayed on the real managers — the provider handed to Reset parks inside provider.Flush (20% then fails), meanwhile "
             "a Save/Del (75%), a second Flush or a Reset is issued from another goroutine (whether it waits for the lock "
             "is read off the goroutine's wait reason), the provider is released; 1-3 such episodes, 70% end with no further edit "
             "before the shutdown flush + restart; every API result is judged in the state in which the model (Flush under the "
             "write lock) runs the call (sok); non-trivial = an edit issued during a successful parked Flush with no later edit.  (3) the JSON laws on "
             "the real decoder: the target overwritten with its own prefixes must not load.  (4) regression: patterns the one-pass CanonicalPath changed on reload ('/a /b/..') must reload unchanged.",
        trusted=["JSON (encoding/json Marshal+Indent / Unmarshal) is an oracle constrained by the laws roundtrip "
                 "(decode (encode t) = Some t), prefix_safe (a strict prefix of an encoding does not decode to a different "
                 "table) and empty_invalid (the empty file does not decode); all three are exercised on the implementation "
                 "by the flush/restart and torn-file streams",
                 "file-system semantics of Model/C18CrashFs.v: process death (written data is visible whether synced or "
                 "not), rename is atomic, the temporary name is fresh; compared with the real directory after every kill",
                 "url.Parse is an oracle (generator URLs + one rejected class, agreement checked through Save's result)"],
        assumptions=["ASCII names and patterns (Go lower-cases runes; invalid UTF-8 is changed by json.Marshal)",
                     "process death, not power loss: unsynced page cache and directory fsync are outside",
                     "table files are written by Flush only (a hand-edited file with duplicate names is outside)"])
