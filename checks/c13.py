"""C13 — concurrent writers never tear messages on an interleaved connection."""
SIZE = 8192   # buffered.minBufferSize: the smallest buffer the code accepts

def gen_bconn(rng):
    ops = []
    for _ in range(rng.randint(1, 9)):
        r = rng.random()
        if r < 0.12:
            ops.append([1])
            continue
        if r < 0.45:
            n = rng.randint(0, 64)
        elif r < 0.7:
            n = rng.randint(SIZE - 80, SIZE + 80)
        elif r < 0.9:
            n = rng.randint(64, SIZE)
        else:
            n = rng.randint(SIZE, 3 * SIZE)
        seed = rng.randrange(256)
        ops.append([0, bytes((seed + 7 * i) & 255 for i in range(n)), rng.random() < 0.5])
    rate = rng.choice([1, 2, 50, 1000, 1000, 1000])
    if rate == 1000:
        # pauses: the limiter is drained (following writes are buffered), then 1-3 tokens come back
        for _ in range(rng.randint(1, 3)):
            ops.insert(rng.randrange(len(ops) + 1), [2, rng.choice([0, 1500, 3000])])
        if rng.random() < 0.6:
            # buffered bytes pending while the next write is not limited: the "flush buffer first" path
            def blob(n):
                sd = rng.randrange(256)
                return bytes((sd + 11 * i) & 255 for i in range(n))
            ops = [[2, 0], [0, blob(rng.randint(1, 2000)), True], [2, rng.choice([1500, 3000])],
                   [0, blob(rng.choice([1, 5, 31, 32, 200, SIZE])), False]] + ops[:4]
    return [SIZE, ops, rate]

def run(ck):
    if not ck.prepare():
        return ck.finish(rule="build failed")
    rng = ck.rng
    n = 1500 if ck.thorough else 90
    cases = [gen_bconn(rng) for _ in range(n)]
    # the limiter's verdict depends on wall-clock time, so the model trace is not compared; the proved
    # oracle (sent ++ pending = written after every operation, pending <= size) is applied to the implementation
    ck.stream("buffered-conn", cases, None, "C13_bconn", "C13_bconn_ok", compare=False,
              nontrivial=lambda c: sum(1 for o in c[1] if o[0] == 0 and len(o[1]) > 0) >= 2,
              sig=lambda c, e, o: "buffered-conn-order")
    session_streams(ck)
    two_sessions(ck)
    pool_sessions(ck)
    return ck.finish(rule="(1) Write/Flush scripts on buffered.Conn over a scripted socket: write sizes 0..64, around the 8 KiB buffer "
                          "(+-80), up to 3x the buffer, flush rates 1..1000/s so that both limiter verdicts occur; "
                          "non-trivial = at least two non-empty writes. (2) a real playing RTSP session (TCP interleaved, every 4th "
                          "ws-rtsp) on a scripted socket under the schedule controller: 1-4 published RTP packets (video/audio, 1..700 "
                          "bytes, some carrying response-/frame-like bytes) against 1-4 requests (OPTIONS, PLAY, GET_PARAMETER, PAUSE); "
                          "schedules: media parked between frame prefix and payload then a request; responder parked inside the socket "
                          "write of its response/Flush then a packet; random interleavings of publish / request / step-media / step-responder "
                          "(every socket write and the prefix/payload gap are schedule points); the proved oracle ok_sink is applied to the "
                          "client's bytes against the intended frames and responses; non-trivial = at least one packet and one request; the stream's real demuxer goroutine is a controlled thread stepped "
                          "while the writer is parked between prefix and body, 30-70 % of the packets carry RTP padding (P bit, 1..255 octets), a purity "
                          "probe (ok_pure) checks every published packet after the history. "
                          "(3) two or three RTSP/TCP viewers of one stream with different channel maps on their own scripted connections, one "
                          "P: viewer 0 is parked inside the socket write of a frame prefix (queue emptied, flush token available: the socket "
                          "reads the caller's slice) or between its halves while the others deliver frames of other lengths and channels, then "
                          "it continues; ok_sink per connection against that connection's own frames and keep-alive answers. "
                          "(4) pool-sessions: histories on the production HTTP handler over in-memory connections with real gorilla clients: 1-3 "
                          "earlier WSP / ws-rtsp sessions that answer 1-3 keep-alives (some play one packet) and disconnect, then one or two "
                          "playing sessions (WSP control+data channel or ws-rtsp, different interleaved channel maps), 1-4 packets of 1..12000 "
                          "bytes (below, around and above gorilla's 4 KiB write buffer and its 8 KiB direct-write limit) against 1-4 keep-alive "
                          "OPTIONS / PLAY / GET_PARAMETER; one P, no GC, pools emptied before the case; forced meetings (media goroutine parked "
                          "between frame prefix and payload / inside the frame's socket write / responder parked inside its socket write while "
                          "the others compose and send) then scripted choices among publish / request / step a goroutine; the proved oracle "
                          "ok_pool on the messages each client read and on both pools drained after everybody left; non-trivial = at least one "
                          "packet, one request and one earlier session that answered a keep-alive",
                     trusted=["net.Conn.Write writes the whole slice or returns an error (its contract)",
                              "the rate limiter's verdict is an arbitrary boolean per call (the theorem quantifies over it)",
                              "schedule controller harness/sched: a goroutine parked at a point or blocked on the lock does not run",
                              "ws-rtsp: one Write on the websocket.Conn is one WebSocket message (gorilla NextWriter/Close in network/websocket)",
                              "intended response bytes = the server's own answer to the same request taken while nothing else writes, CSeq substituted",
                              "pool-sessions: sync.Pool on one P without GC hands out what was put (runtime/sync internals); net.Pipe + real http.Server + "
                              "gorilla client deliver WebSocket messages unchanged; WSP header lines are compared sorted (the server writes them in map order); "
                              "VerifDrainBuffers (verif tag) returns what is in the package pools at quiescence"])


# ---------------------------------------------------------------- session level: a real playing session under the schedule controller
from vlib import vs, vparse, run_driver, Broken

def _vpkt(rng, seq, n):
    return [0, bytes([0x80, 96, seq >> 8, seq & 255, 0, 0, 0, seq & 255, 1, 2, 3, 4, 0x41]) + bytes(rng.randrange(256) for _ in range(n))]

def _apkt(rng, seq, n):
    return [2, bytes([0x80, 97, seq >> 8, seq & 255, 0, 0, 0, seq & 255, 5, 6, 7, 8, 0x00, 0x10, (n >> 5) & 255, (n << 3) & 255])
            + bytes(rng.randrange(256) for _ in range(n))]

def _pad(rng, body):
    """RTP padding (RFC 3550 5.1): P bit set, n padding octets, the last one holds n"""
    n = rng.choice([1, 2, 3, 4, 8, 31, 64, 200, 255]) if rng.random() < 0.7 else rng.randint(1, 255)
    d = bytearray(body[1])
    d[0] |= 0x20
    return [body[0], bytes(d) + bytes(n - 1) + bytes([n])]

def gen_session(rng, ws, scenario):
    npk = rng.randint(1, 4)
    pk = []
    for i in range(npk):
        n = rng.choice([1, 8, 40, 120, 300, 600]) if rng.random() < 0.8 else rng.randint(1, 700)
        body = (_vpkt if rng.random() < 0.7 else _apkt)(rng, i + 1, n)
        if rng.random() < 0.25:
            # payload bytes that look like the other kind of message, so that a torn stream mis-parses visibly
            body[1] = body[1][:16] + b"RTSP/1.0 200 OK\r\nCSeq: 1\r\n\r\n$\x00\x00\x05" + body[1][16:]
            if body[0] == 2:   # keep the AU header consistent
                n2 = len(body[1]) - 16
                body[1] = body[1][:14] + bytes([(n2 >> 5) & 255, (n2 << 3) & 255]) + body[1][16:]
        if rng.random() < (0.7 if scenario == 0 and i == 0 else 0.3):
            body = _pad(rng, body)
        pk.append(body)
    rq = [[rng.choice([0, 0, 4, 4, 8, 7, 1, 1]), str(100 + i)] for i in range(rng.randint(1, 4))]
    sched = [rng.randrange(64) for _ in range(rng.randint(0, 80))] if scenario == 2 else \
            [rng.randrange(64) for _ in range(rng.randint(0, 12))]
    return [ws, scenario, pk, rq, sched, rng.choice([0, 1, 2])]

def session_streams(ck):
    rng = ck.rng
    n = 600 if ck.thorough else 60
    cases = []
    for i in range(n):
        ws = 1 if i % 4 == 3 else 0
        cases.append(gen_session(rng, ws, i % 3))
    obs = ck.stream("session-sched", cases, None, "C13_session", None, compare=False,
                    nontrivial=lambda c: len(c[2]) >= 1 and len(c[3]) >= 1, sig=lambda c, e, o: "session")
    if len(obs) != len(cases):
        return
    lines, idx = [], []
    pure_lines, pure_idx, padded_at_prefix = [], [], 0
    forced = {0: 0, 1: 0}
    for i, (c, o) in enumerate(zip(cases, obs)):
        v = vparse(o)
        if not (isinstance(v, list) and len(v) >= 9 and isinstance(v[0], bytes) and not v[0].startswith(b"!")
                and isinstance(v[1], list)):
            ck.fail("session-sched", "session-harness", vs(c), observed=o, note="harness could not run the case")
            continue
        sink, frames, resps, parsed, overlap, expect, writes, note = v[:8]
        # the frames the harness says were published must be the ones of the case, with the SETUP's channel map
        want = [[b"$" + bytes([p[0], len(p[1]) >> 8, len(p[1]) & 255]), p[1]] for p in c[2]]
        if frames != want or len(resps) != len(c[3]) + 1:
            ck.fail("session-sched", "session-harness", vs(c), observed=o, note="intended messages differ from the case")
            continue
        lines.append("((%s %s) (%s))" % (vs(frames), vs(resps), vs(sink)))
        idx.append(i)
        # purity probe: the published packets (shared with the demuxer) are what was published
        pub, after, padchg = v[8]
        if pub != [p[1] for p in c[2]][:len(pub)]:
            ck.fail("session-sched", "session-harness", vs(c), observed=o, note="published packets differ from the case")
            continue
        pure_lines.append("((%s) (%s))" % (vs(pub), vs(after)))
        pure_idx.append(i)
        if padchg:
            ck.fail("session-sched", "packet-mutated", vs(c), observed=o, note="the Padding flag of a published packet was changed")
        if c[1] == 0 and c[2] and c[2][0][1][0] & 0x20 and expect != 0 and not note:
            padded_at_prefix += 1
        # the real readers split the client's bytes into exactly these messages
        if parsed != [len(frames), len(resps), 1]:
            ck.fail("session-sched", "session-reader", vs(c), observed=o,
                    note="the rtsp/rtp readers found %r, sent %d frames and %d responses" % (parsed, len(frames), len(resps)))
        if overlap:
            ck.fail("session-sched", "session-overlap", vs(c), observed=o,
                    note="both writers were inside their write sections at the same time")
        if expect == 0 and not c[0]:
            ck.fail("session-sched", "session-not-blocked", vs(c), observed=o,
                    note="the second writer was not blocked while the first was inside its message")
        if expect == 1:
            forced[c[1]] = forced.get(c[1], 0) + 1
        if c[0]:
            # ws-rtsp: every socket write (= WebSocket message) is exactly one complete message
            whole = set(b"".join(m) for m in frames) | set(b"".join(m) for m in resps)
            if any(w not in whole for w in writes) or len(writes) != len(frames) + len(resps):
                ck.fail("session-sched", "session-ws-message", vs(c), observed=o,
                        note="a WebSocket message is not exactly one complete response or frame")
    try:
        oks = run_driver(ck.prop, "C13_sink_ok", lines)
        pures = run_driver(ck.prop, "C13_pure_ok", pure_lines)
    except Broken as b:
        ck.broken.append(b)
        return
    for i, k in zip(pure_idx, pures):
        if k != "1":
            ck.fail("session-sched", "packet-mutated", vs(cases[i]), observed=obs[i],
                    note="a published packet (shared by the viewers' goroutines and the demuxer) was modified")
    ck.extra["session_padded_packet_demuxed_between_prefix_and_body"] = padded_at_prefix
    if padded_at_prefix < 2:
        ck.broken.append(Broken("C13 session schedules no longer run the demuxer on a padded packet between prefix and body (%d)" % padded_at_prefix))
    for i, k in zip(idx, oks):
        ck.count(1, "sink" + str(i))
        if k != "1":
            ck.fail("session-sched", "session-torn", vs(cases[i]), observed=obs[i],
                    note="the client's bytes are not an order-preserving interleaving of the complete frames and responses")
    ck.extra.update({"session_forced_prefix_overlaps": forced.get(0, 0), "session_forced_response_overlaps": forced.get(1, 0)})
    if forced.get(0, 0) < 3 or forced.get(1, 0) < 3:
        ck.broken.append(Broken("C13 session schedules no longer force the two writers to meet (prefix: %d, response: %d)"
                                % (forced.get(0, 0), forced.get(1, 0))))


# ---------------------------------------------------------------- two sessions: each connection carries only its own messages
import os, sys
sys.path.insert(0, os.path.dirname(__file__))
import trgen as T

def gen_two(rng):
    nv = rng.choice([2, 2, 3])
    maps = [[0, 1, 2, 3]] + [rng.choice([[4, 5, 6, 7], [2, 3, 0, 1], [8, 9, 10, 11], [0, 1, 2, 3], [1, 0, 3, 2]]) for _ in range(nv - 1)]
    if rng.random() < 0.3:
        maps[0] = rng.choice([[6, 7, 8, 9], [2, 3, 0, 1]])
    pkts = T.gen_packets(rng, rng.randint(6, 12), False, max_small=600)
    k0 = rng.randint(0, 3)
    return [[[p[0], p[1]] for p in pkts], maps, [k0, rng.randint(2, 5), rng.choice([1, 1, 2])]]

def two_sessions(ck):
    rng = ck.rng
    n = 500 if ck.thorough else 40
    cases = [gen_two(rng) for _ in range(n)]
    obs = ck.stream("two-sessions", cases, None, "C13_two", None, compare=False,
                    nontrivial=lambda c: len(c[1]) >= 2, sig=lambda c, e, o: "two-sessions")
    if len(obs) != len(cases):
        return
    lines, idx, parked = [], [], 0
    for i, (c, o) in enumerate(zip(cases, obs)):
        v = vparse(o)
        if not (isinstance(v, list) and len(v) == 2 and isinstance(v[0], list) and len(v[0]) == len(c[1])):
            ck.fail("two-sessions", "two-sessions-harness", vs(c), observed=o, note="harness could not run the case")
            continue
        parked += v[1] == b""
        for k, (m, conn) in enumerate(zip(c[1], v[0])):
            frames = [[b"$" + bytes([m[p[0]], len(p[1]) >> 8, len(p[1]) & 255]), p[1]] for p in c[0] if m[p[0]] >= 0]
            lines.append("((%s %s) (%s))" % (vs(frames), vs([[r] for r in conn[1]]), vs(conn[0])))
            idx.append((i, k))
    try:
        oks = run_driver(ck.prop, "C13_sink_ok", lines)
    except Broken as b:
        ck.broken.append(b)
        return
    bad = set()
    for (i, k), ok in zip(idx, oks):
        ck.count(1, "two%d-%d" % (i, k))
        if ok != "1" and i not in bad:
            bad.add(i)
            ck.fail("two-sessions", "two-sessions-torn", vs(cases[i]), observed=obs[i],
                    note="connection %d does not carry exactly its own complete frames and responses" % k)
    ck.extra["two_sessions_parked_in_prefix_write"] = parked
    if parked < len(cases) // 2:
        ck.broken.append(Broken("C13 two-sessions: the viewer was parked inside a frame's socket write in only %d of %d cases" % (parked, len(cases))))


# ---------------------------------------------------------------- WebSocket transports: the pooled staging buffers
POOL_SIZES = [1, 8, 40, 120, 300, 700, 1400, 4070, 4085, 4100, 5000, 8170, 8190, 8210, 9000, 12000]

def _pool_pkt(rng, seq, big):
    n = rng.choice(POOL_SIZES[7:]) if big else rng.choice(POOL_SIZES[:7])
    body = (_vpkt if rng.random() < 0.7 else _apkt)(rng, seq, n)
    if rng.random() < 0.25:
        body[1] = body[1][:16] + b"RTSP/1.0 200 OK\r\nCSeq: 1\r\n\r\n$\x00\x00\x05" + body[1][16:]
        if body[0] == 2:
            n2 = len(body[1]) - 16
            body[1] = body[1][:14] + bytes([(n2 >> 5) & 255, (n2 << 3) & 255]) + body[1][16:]
    if rng.random() < 0.35:
        body = _pad(rng, body)
    return body

def gen_pool(rng, i):
    earlier = [[rng.choice([3, 3, 2]), rng.randint(1, 3), 1 if rng.random() < 0.3 else 0] for _ in range(rng.randint(1, 3))]
    if i % 5 == 4:
        earlier = []                      # a first session on empty pools
    maps = [[0, 1, 2, 3], [4, 5, 6, 7], [2, 3, 0, 1], [8, 9, 10, 11]]
    rng.shuffle(maps)
    k0 = rng.choice([3, 2])
    # two sessions of one kind share one package pool (wsp or rtsp); a mixed pair shares the stream only
    kinds = [k0] if rng.random() < 0.35 else [k0, k0 if rng.random() < 0.65 else 5 - k0]
    if i % 4 in (1, 2) and kinds == [2]:
        kinds = [2, 2]                    # one ws-rtsp session alone: lockW keeps its other goroutine out while one is inside a socket write
    playing = [[k, maps[j]] for j, k in enumerate(kinds)]
    for pl in playing:
        if rng.random() < 0.15:
            pl[1] = pl[1][:2] + [-1, -1]  # video track only: audio packets are not for this viewer
    npk = rng.randint(1, 4)
    bigs = [rng.random() < 0.45 for _ in range(npk)]
    if i % 4 == 1:
        bigs[0] = True                    # the frame whose socket write is parked does not fit gorilla's write buffer
    pk = [_pool_pkt(rng, k + 1, bigs[k]) for k in range(npk)]
    rq = [[rng.randrange(len(playing)), rng.choice([0, 0, 4, 8])] for _ in range(rng.randint(1, 4))]
    sched = [rng.randrange(64) for _ in range(rng.randint(0, 40))]
    return [earlier, playing, pk, rq, [i % 4, rng.randrange(len(playing))], sched]

def _pool_progs(sessions):
    """the goroutines as the code has them: per playing session a media goroutine (Get, prefix, payload, one message on
    the data connection, Put) and a request goroutine (WSP: one buffer per request, Puts deferred to the end of the
    session; ws-rtsp: Get .. Put inside response())"""
    progs = []
    for kind, ctrl, data, frames, resps in sessions:
        m = []
        for f in frames:
            m += [[0, 0, 1], [2, 0, f[:4]], [2, 0, f[4:]], [3, 0, data], [4, 0]]
        progs.append(m)
        r = []
        if kind == 3:
            for k, t in enumerate(resps):
                r += [[0, k, 1], [2, k, t], [3, k, ctrl]]
            r += [[4, k] for k in reversed(range(len(resps)))]
        else:
            for t in resps:
                r += [[0, 0, 1], [2, 0, t], [3, 0, ctrl], [4, 0]]
        progs.append(r)
    return progs

def _pool_split(conns):
    return [[c[0], [m for m in c[1] if m[:1] == b"$"], [m for m in c[1] if m[:1] != b"$"]] for c in conns]

def pool_sessions(ck):
    rng = ck.rng
    n = 400 if ck.thorough else 40
    cases = [gen_pool(rng, i) for i in range(n)]
    obs = ck.stream("pool-sessions", cases, None, "C13_pool", None, compare=False, timeout=1500,
                    nontrivial=lambda c: len(c[2]) >= 1 and len(c[3]) >= 1 and any(e[1] >= 1 for e in c[0]),
                    sig=lambda c, e, o: "pool")
    if len(obs) != len(cases):
        return
    ok_lines, run_lines, idx = [], [], []
    pure_lines, frame_lines = [], []
    forced = {0: 0, 1: 0, 2: 0}
    for i, (c, o) in enumerate(zip(cases, obs)):
        v = vparse(o)
        if not (isinstance(v, list) and len(v) == 8 and isinstance(v[0], list) and isinstance(v[1], list)):
            ck.fail("pool-sessions", "pool-harness", vs(c), observed=o, note="harness could not run the case")
            continue
        conns, sessions, wsp_pool, rtsp_pool, bad, frc, note, (pub, after, padchg) = v
        # intended frames are computed here from the case (packet bytes, channel map of the SETUP) and must be what the
        # harness published; one intended response per request
        good = len(sessions) == len(c[1])
        for j, s in enumerate(sessions if good else []):
            m = c[1][j][1]
            want = [b"$" + bytes([m[p[0]], len(p[1]) >> 8, len(p[1]) & 255]) + p[1] for p in c[2] if m[p[0]] >= 0]
            nreq = sum(1 for q in c[3] if q[0] % len(c[1]) == j)
            good = good and s[3] == want and len(s[4]) == nreq and s[0] == c[1][j][0]
        if not good:
            ck.fail("pool-sessions", "pool-harness", vs(c), observed=o, note="intended messages differ from the case")
            continue
        if bad:
            ck.fail("pool-sessions", "pool-setup-message", vs(c), observed=o,
                    note="a WebSocket message of the sequential phase is not exactly one complete response: %r" % bad[0][:120])
        if pub != [p[1] for p in c[2]][:len(pub)]:
            ck.fail("pool-sessions", "pool-harness", vs(c), observed=o, note="published packets differ from the case")
            continue
        if padchg:
            ck.fail("pool-sessions", "packet-mutated", vs(c), observed=o, note="the Padding flag of a published packet was changed")
        pure_lines.append("((%s) (%s))" % (vs(pub), vs(after)))
        # the frames of every data connection, as (packet, announced length, body), against the published packets
        fr = []
        for s_ in sessions:
            mine = [k for k, p in enumerate(c[2]) if c[1][sessions.index(s_)][1][p[0]] >= 0]
            got = [m for cn in conns if cn[0] == s_[2] for m in cn[1] if m[:1] == b"$"]
            fr += [[mine[k] if k < len(mine) else len(c[2]), (m[2] << 8 | m[3]) if len(m) >= 4 else 70000, m[4:]] for k, m in enumerate(got)]
        frame_lines.append("((%s) (%s))" % (vs([p[1] for p in c[2]]), vs(fr)))
        progs = _pool_progs(sessions)
        drained = list(wsp_pool) + [1000 + b for b in rtsp_pool]
        ok_lines.append("((%s) (%s ()))" % (vs(progs), vs(conns)))       # the messages
        ok_lines.append("((%s) (() %s))" % (vs(progs), vs(drained)))     # the ownership probe
        # the model on the same goroutines under a schedule of its own (the theorem: the per-sender sequences do not depend on it)
        order = [t for t, p in enumerate(progs) for _ in p]
        rng.shuffle(order)
        msched = [[t, rng.choice([0, 0, 1, 7])] for t in order]
        run_lines.append("(%s %s %s)" % (vs(progs), vs(msched), vs([k[0] for k in conns])))
        idx.append(i)
        if frc == 1:
            forced[c[4][0]] = forced.get(c[4][0], 0) + 1
    try:
        oks = run_driver(ck.prop, "C13_pool_ok", ok_lines)
        runs = run_driver(ck.prop, "C13_pool_run", run_lines)
        pures = run_driver(ck.prop, "C13_pure_ok", pure_lines)
        fros = run_driver(ck.prop, "C13_frames_ok", frame_lines)
    except Broken as b:
        ck.broken.append(b)
        return
    for n_, i in enumerate(idx):
        ck.count(1, "pool" + str(i))
        c, o = cases[i], obs[i]
        msg_ok, own_ok = oks[2 * n_] == "1", oks[2 * n_ + 1] == "1"
        if not msg_ok:
            ck.fail("pool-sessions", "pool-message", vs(c), observed=o,
                    note="a WebSocket message is not exactly one complete response or one complete frame of its sender, in the sender's order")
        if pures[n_] != "1":
            ck.fail("pool-sessions", "packet-mutated", vs(c), observed=o,
                    note="a published packet (shared by the viewers' goroutines and the demuxer) was modified")
        if fros[n_] != "1":
            ck.fail("pool-sessions", "pool-frame", vs(c), observed=o,
                    note="a frame's announced length is not the length of its body, or the body is not the published packet")
        if not own_ok:
            ck.fail("pool-sessions", "pool-ownership", vs(c), observed=o,
                    note="after everybody left, a staging buffer is in a pool more than once")
        mv = vparse(runs[n_])
        if mv[2] != 1 or mv[3] != 1:
            ck.broken.append(Broken("C13 pool: the model did not finish the goroutines built from case %d" % i))
        elif msg_ok and _pool_split(mv[0]) != _pool_split(vparse(o)[0]):
            ck.divergences.append({"stream": "pool-sessions", "case": vs(c), "expected": runs[n_], "observed": o,
                                   "run_fn": "C13_pool_run", "vh_cmd": "C13_pool", "ok_fn": "C13_pool_ok"})
    ck.extra.update({"pool_forced_prefix": forced[0], "pool_forced_socket_write": forced[1], "pool_forced_responder": forced[2]})
    need = max(2, len(cases) // 8)
    if min(forced.values()) < need:
        ck.broken.append(Broken("C13 pool-sessions: the schedules no longer force a goroutine to compose and send while another holds "
                                "its buffer (prefix %d, socket write %d, responder %d; need %d each)"
                                % (forced[0], forced[1], forced[2], need)))
