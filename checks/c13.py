"""C13 — concurrent writers never tear messages on an interleaved connection."""
SIZE = 8192   # buffered.minBufferSize: the smallest buffer the code accepts

def gen_bconn(rng):
    ops = []
    for _ in range(rng.randint(1, 9)):
        r = rng.random()
        if r < 0.12:
            ops.append([1])
            continue
        if r < 0.45:
            n = rng.randint(0, 64)
        elif r < 0.7:
            n = rng.randint(SIZE - 80, SIZE + 80)
        elif r < 0.9:
            n = rng.randint(64, SIZE)
        else:
            n = rng.randint(SIZE, 3 * SIZE)
        seed = rng.randrange(256)
        ops.append([0, bytes((seed + 7 * i) & 255 for i in range(n)), rng.random() < 0.5])
    rate = rng.choice([1, 2, 50, 1000, 1000, 1000])
    if rate == 1000:
        # pauses: the limiter is drained (following writes are buffered), then 1-3 tokens come back
        for _ in range(rng.randint(1, 3)):
            ops.insert(rng.randrange(len(ops) + 1), [2, rng.choice([0, 1500, 3000])])
        if rng.random() < 0.6:
            # buffered bytes pending while the next write is not limited: the "flush buffer first" path
            def blob(n):
                sd = rng.randrange(256)
                return bytes((sd + 11 * i) & 255 for i in range(n))
            ops = [[2, 0], [0, blob(rng.randint(1, 2000)), True], [2, rng.choice([1500, 3000])],
                   [0, blob(rng.choice([1, 5, 31, 32, 200, SIZE])), False]] + ops[:4]
    return [SIZE, ops, rate]

def run(ck):
    if not ck.prepare():
        return ck.finish(rule="build failed")
    rng = ck.rng
    n = 1500 if ck.thorough else 90
    cases = [gen_bconn(rng) for _ in range(n)]
    # the limiter's verdict depends on wall-clock time, so the model trace is not compared; the proved
    # oracle (sent ++ pending = written after every operation, pending <= size) is applied to the implementation
    ck.stream("buffered-conn", cases, None, "C13_bconn", "C13_bconn_ok", compare=False,
              nontrivial=lambda c: sum(1 for o in c[1] if o[0] == 0 and len(o[1]) > 0) >= 2,
              sig=lambda c, e, o: "buffered-conn-order")
    return ck.finish(rule="Write/Flush scripts on buffered.Conn over a scripted socket: write sizes 0..64, around the 8 KiB buffer "
                          "(+-80), up to 3x the buffer, flush rates 1..1000/s so that both limiter verdicts occur; "
                          "non-trivial = at least two non-empty writes",
                     trusted=["net.Conn.Write writes the whole slice or returns an error (its contract)",
                              "the rate limiter's verdict is an arbitrary boolean per call (the theorem quantifies over it)"])
