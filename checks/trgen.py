"""generator shared by the transport streams of C01 ("transports") and C03 ("transport-release"):
a scripted packet list published into a real media.Stream while clients of mixed transports attach,
stop and finally see the stream end."""
import base64

TCP, UDP, WSRTSP, WSP, HTTPFLV, WSFLV, MCAST = range(7)
SPS = base64.b64decode("Z2QAH6zZQFAFuhAAAAMAEAAAAwPI8YMZYA==")
PPS = base64.b64decode("aO+8sA==")

def rtp_header(pt, seq, ts, ssrc, marker=True):
    return bytes([0x80, (0x80 if marker else 0) | pt, (seq >> 8) & 255, seq & 255,
                  (ts >> 24) & 255, (ts >> 16) & 255, (ts >> 8) & 255, ts & 255]) + ssrc

def blob(rng, n):
    s = rng.randrange(256)
    k = rng.choice([1, 7, 13, 31])
    return bytes((s + k * i) & 255 for i in range(n))

def gen_packets(rng, n, big_ok, max_small=1400):
    """(channel, data, tag): tag 3 = SPS, 4 = PPS, else 0; parameter sets and a key frame first"""
    out = []
    ssrc = bytes(rng.randrange(256) for _ in range(4))   # per case: tells our datagrams from foreign multicast traffic
    seq = {0: 100, 2: 500}
    frame = 0
    def video(nal_hdr, body, tag=0):
        nonlocal frame
        seq[0] += 1
        frame += 1
        out.append([0, rtp_header(96, seq[0], 3600 * frame, ssrc) + bytes([nal_hdr]) + body, tag])
    def size():
        r = rng.random()
        if r < 0.4:
            return rng.randint(2, 60)
        if r < 0.7:
            return rng.randint(60, max_small)
        if r < 0.9:
            # packet lengths on and next to the boundaries a transport may care about (13 = RTP header + NAL header)
            lim = 65535 if big_ok else max_small
            total = rng.choice([x for x in (128, 255, 256, 512, 1000, 1024, 1200, 1400, 1460, 1500, 2048, 4096, 8192, 16384, 32768, 65535)
                                if x <= lim]) + rng.choice([0, 0, -1, 1])
            return max(2, min(total, 65535) - 13)
        if big_ok and r < 0.97:
            return rng.choice([4000, 9000, 20000, 65000, 65535 - 13])
        return rng.choice([2, 3, max_small])
    video(SPS[0], SPS[1:], 3)
    video(PPS[0], PPS[1:], 4)
    video(0x65, blob(rng, size()))
    while len(out) < n:
        r = rng.random()
        if r < 0.45:
            video(0x41, blob(rng, size()))
        elif r < 0.55:
            video(0x65, blob(rng, size()))
        elif r < 0.62:
            video(SPS[0], SPS[1:], 3)
            video(PPS[0], PPS[1:], 4)
        elif r < 0.85:
            seq[2] += 1
            m = rng.choice([1, 7, 100, 400, 1000])
            out.append([2, rtp_header(97, seq[2], 1024 * seq[2], ssrc) + bytes([0x00, 0x10, (m >> 5) & 255, (m << 3) & 255]) + blob(rng, m), 0])
        else:
            ch = rng.choice([1, 3])
            # RTCP sender report (28 bytes), optionally followed by an empty SDES
            sr = bytes([0x80, 200, 0, 6]) + ssrc + blob(rng, 8) + bytes([0, 0, 0, 1, 0, 0, 0, 9, 0, 0, 1, 0])
            out.append([ch, sr, 0])
    return out[:max(n, 3)]

def gen_chmap(rng, kind):
    if kind in (HTTPFLV, WSFLV):
        return [0, 1, 2, 3]
    r = rng.random()
    if kind in (UDP, MCAST):
        return rng.choice([[0, 1, 2, 3]] * 4 + [[0, -1, 2, 3], [0, 1, -1, -1], [-1, -1, 2, 3], [0, -1, 2, -1]])
    if kind == WSP:   # WSP needs the video track (its SETUP refuses an empty video control path only) - any subset works
        return rng.choice([[0, 1, 2, 3]] * 3 + [[4, 5, 2, 3], [0, 1, -1, -1], [6, -1, 2, 3]])
    return rng.choice([[0, 1, 2, 3]] * 3 + [[2, 3, 0, 1], [4, 5, 6, 7], [0, 1, -1, -1], [-1, -1, 0, 1], [8, -1, 2, 3],
                                            [0, 1, 200, 255], [5, 4, 3, 2]])

def replay(pkts, k, start=0):
    """what the H.264 cache (GOP cache off) replays to a consumer joining after k packets of a stream that
    got its first packet at index start: latest SPS, latest PPS"""
    sps = pps = None
    for i in range(start, k):
        if pkts[i][2] == 3:
            sps = i
        elif pkts[i][2] == 4:
            pps = i
    return [i for i in (sps, pps) if i is not None]

def gen_case(rng, refs, kinds_pool, max_clients=3, max_pkts=14, allow_big=True, replace_p=0.0, kinds=None, stop_p=0.35):
    ncl = rng.randint(1, max_clients)
    replaced = rng.random() < replace_p
    if replaced:
        ncl = max(ncl, 2)
    if kinds is None:
        kinds = [rng.choice(kinds_pool) for _ in range(ncl)]
        for i, k in enumerate(kinds):   # one multicast member per case here; several of them: gen_mcast_case
            if k == MCAST and MCAST in kinds[:i]:
                kinds[i] = TCP
    else:
        kinds, ncl, replaced = list(kinds), len(kinds), False
    big_ok = allow_big and UDP not in kinds and MCAST not in kinds and rng.random() < 0.3
    pkts = gen_packets(rng, rng.randint(4, max_pkts), big_ok)
    n = len(pkts)
    attach = sorted(rng.choice([0, 0, 3, rng.randint(0, n)]) for _ in range(ncl))
    rep = None
    if replaced:
        # a second publisher takes the path while the first client is attached to the old stream; the
        # second client attaches to the new one (consumer ids are per stream: both are number 1)
        rep = rng.randint(attach[0], max(attach[0], min(attach[1], n)))
        attach[1:] = [max(a, rep) for a in attach[1:]]
    stops = []
    for i, k in enumerate(kinds):
        p = 0.8 if (replaced and i == 0) else stop_p
        if k != HTTPFLV and rng.random() < p:
            lo = max(attach[i], rep) if (replaced and i == 0) else attach[i]
            stops.append([i, rng.randint(lo, n), rng.choice([0, 1])])
    # event list; at equal positions: the old stream's client attaches, the new publisher arrives, the others attach, stops
    marks = [(attach[i], 0 if (replaced and i == 0) else 2, 1, i, 0) for i in range(ncl)]
    marks += [(s[1], 3, 2, s[0], s[2]) for s in stops]
    if replaced:
        marks.append((rep, 1, 4, 0, 0))
    marks.sort()
    # multicast players share the stream's one proxy: it runs while at least one of them is a member
    mcast_running, members = {}, set()
    for at, _, what, i, mode in marks:
        if kinds[i] != MCAST or what == 4:
            continue
        if what == 1:
            mcast_running[i] = len(members) > 0
            members.add(i)
        elif what == 2:
            members.discard(i)
    events, pos = [], 0
    for at, _, what, i, mode in marks:
        if at > pos:
            events.append([0, at - pos])
            pos = at
        events.append([1, i] if what == 1 else [2, i, mode] if what == 2 else [4])
    if n > pos:
        events.append([0, n - pos])
    events.append([3])
    clients = []
    for i, k in enumerate(kinds):
        end = n
        for s in stops:
            if s[0] == i:
                end = s[1]
        start = 0
        if replaced:
            if i == 0:
                end = min(end, rep)      # the old stream has lost its publisher
            else:
                start = rep              # the new stream's cache starts empty
        rep_part = replay(pkts, attach[i], start)
        if k == MCAST and mcast_running[i]:
            rep_part = []        # the proxy replays to the group when it starts: a further member gets the live packets only
        delivered = rep_part + list(range(attach[i], max(attach[i], end)))
        clients.append([k, gen_chmap(rng, k), delivered])
    return [refs, [[p[0], p[1]] for p in pkts], clients, events, rng.choice([1, 1, 2, 3])]


def gen_mcast_case(rng, refs, max_pkts=14):
    """2-3 multicast players of one stream (plus, half of the time, a viewer of another transport) joining and
    leaving in every order while packets are published: every player must receive exactly the packets of its own
    interval, whoever else joins or leaves (the player that started the proxy leaving first in particular)"""
    kinds = [MCAST] * rng.choice([2, 2, 3])
    if rng.random() < 0.5:
        kinds.insert(rng.randrange(len(kinds) + 1), rng.choice([TCP, UDP, WSRTSP, WSP]))
    return gen_case(rng, refs, None, max_pkts=max_pkts, allow_big=False, kinds=kinds, stop_p=0.75)


def gen_cycle_case(rng, refs, kinds, max_pkts=14, last_stops=None, how=None):
    """repeated use cycles on one live stream: the clients attach ONE AFTER THE OTHER, each leaves (TEARDOWN or
    dropped connection) before the next one attaches, so the stream's consumer count goes back to 0 between
    them; the last one leaves too or is still attached when the stream ends.  Whatever is started on demand by
    the first consumer and stopped by the last (the multicast proxy of a RECORD stream in particular) is
    restarted in every cycle.  Sequential multicast members are allowed here (every cycle has its own first
    member, which triggers the proxy's replay)."""
    ncl = len(kinds)
    kinds = list(kinds)
    if last_stops is None:
        last_stops = rng.random() < 0.5
    for i, k in enumerate(kinds):      # an HTTP-FLV client cannot be stopped mid-stream by the harness
        if k == HTTPFLV and (i < ncl - 1 or last_stops):
            kinds[i] = WSFLV
    pkts = gen_packets(rng, rng.randint(max(6, 2 * ncl), max(max_pkts, 2 * ncl + 2)), False)
    n = len(pkts)
    cuts = sorted(rng.randint(0, n) for _ in range(2 * ncl))
    if rng.random() < 0.5:
        cuts[0] = 0
    events, clients, pos = [], [], 0
    def advance(to):
        nonlocal pos
        if to > pos:
            events.append([0, to - pos])
            pos = to
    for i, k in enumerate(kinds):
        a, e = cuts[2 * i], cuts[2 * i + 1]
        advance(a)
        events.append([1, i])
        stops = i < ncl - 1 or last_stops
        if stops:
            advance(e)
            events.append([2, i, rng.choice([0, 1])])
        end = e if stops else n
        clients.append([k, gen_chmap(rng, k), replay(pkts, a, 0) + list(range(a, max(a, end)))])
    advance(n)
    events.append([3])
    return [refs, [[p[0], p[1]] for p in pkts], clients, events, how if how is not None else rng.choice([1, 1, 2, 3])]


def gen_pool_case(rng, kinds_pool=(WSP, WSP, WSP, WSRTSP, TCP)):
    """buffer independence: 2-3 viewers of one stream, all attached before the first packet; one of them is
    parked inside its data write while the others deliver the window's packets (and optionally a control
    request is answered), then it is released"""
    nv = rng.choice([2, 2, 3])
    kinds = [rng.choice(kinds_pool) for _ in range(nv)]
    # the adapters of one package share a buffer pool: mostly two viewers of the same family, one of them parked
    r = rng.random()
    family = WSP if r < 0.4 else WSRTSP if r < 0.65 else TCP if r < 0.9 else None
    if family is not None:
        kinds[0] = kinds[1] = family
    if family == TCP and rng.random() < 0.5:
        kinds[1] = rng.choice([WSP, WSRTSP])    # the frame prefix is built by rtp.Packet.Write for every transport
    # distinct payloads of equal and of different lengths: an overwritten buffer shows either way
    pkts = gen_packets(rng, rng.randint(6, 12), False, max_small=600)
    n = len(pkts)
    parked = rng.randrange(2) if family is not None else rng.randrange(nv)
    if family == TCP:
        parked = 0
    elif kinds[parked] == TCP and rng.random() < 0.7:
        parked = next((i for i, k in enumerate(kinds) if k != TCP), parked)
    k0 = rng.randint(0, 3)
    window = rng.randint(2, max(2, min(5, n - k0)))
    ctrl = rng.choice([-1, -1] + list(range(nv)))
    mode = rng.choice([1, 1, 2])
    clients = [[k, gen_chmap(rng, k) if rng.random() < 0.4 else [0, 1, 2, 3], list(range(n))] for k in kinds]
    return [0, [[p[0], p[1]] for p in pkts], clients, [k0, parked, mode, window, ctrl]]
