"""C07 — malformed media input is contained and never stops conversion of later good data.

Valid streams from C06's Gallina packetisers get a bad packet injected at every
kind of place; the Go side (rtp.ReadPacket -> rtp.NewDemuxer -> recording
FrameWriter, plus the cache classifiers, SyncClock.Decode, rtsp.receive,
sdp.ParseMetadata, the TS AAC packetizer) must neither panic nor stop, and the
frames of the legal packets that follow must be exactly the sender's units
(oracle ok_c07 of theorem C07_model_passes)."""
import os, sys, importlib.util
sys.path.insert(0, os.path.join(os.path.dirname(os.path.abspath(__file__)), "..", "bin"))
import vlib
sys.path.insert(0, os.path.dirname(os.path.abspath(__file__)))
import trgen as TR

_spec = importlib.util.spec_from_file_location("chk_c06_gen", os.path.join(os.path.dirname(os.path.abspath(__file__)), "c06.py"))
c06 = importlib.util.module_from_spec(_spec)
_spec.loader.exec_module(c06)
H264, H265, AAC = 0, 1, 2

def parse_frame(fr, cd):
    """interleaved frame (bytes) -> raw event of the C07 plan"""
    ch = fr[1]
    data = fr[4:]
    if ch in (0, 2):
        cc = data[0] & 15
        return [4, int.from_bytes(data[2:4], "big"), int.from_bytes(data[4:8], "big"), data[1] >> 7, data[12 + 4 * cc:]]
    return [5, data]

def reframe(ch, data):
    return bytes([0x24, ch]) + len(data).to_bytes(2, "big") + data

def legal_streams(ck, rng, n, T):
    """n legal loss-free streams: (cd, clock, cc, seq0, raw events, number of data packets)"""
    plans = []
    for i in range(n):
        cd = (H264, H265, AAC)[i % 3]
        plan, npk = c06.gen_plan(rng, cd, False, nitems=rng.randint(2, 5), big_ok=False)
        # keep the base packets small: every offset of every packet is going to be cut
        for it in plan[4]:
            if it[0] in (0, 2) and len(it[3]) > 60:
                it[3] = it[3][:rng.randint(8, 60)]
                if it[0] == 2:
                    it[4] = [rng.randint(1, 9)] * rng.randint(1, 3)
            if it[0] == 1:
                it[3] = [u[:rng.randint(3, 20)] for u in it[3][:3]]
        plan[4] = [it for it in plan[4] if it[0] != 3]
        if not plan[4]:
            plan[4] = [[0, 1000, 1, c06.gen_unit(rng, cd, 12) if cd != AAC else b"\x01\x02\x03"]]
        tot = sum(len(it[4]) + 1 if it[0] == 2 and cd != AAC else 1 for it in plan[4])
        plans.append(plan + [[0, [1] * tot]])
    outs = vlib.run_driver(ck.prop, "C07_legal", [vlib.vs(p) for p in plans])
    res = []
    for p, o in zip(plans, outs):
        frames = vlib.vparse(o)
        res.append((p[0], p[1], p[2], p[3], [parse_frame(f, p[0]) for f in frames], len(frames)))
    return res

def gen_suffix(rng, cd):
    plan, npk = c06.gen_plan(rng, cd, False, nitems=rng.randint(1, 4), big_ok=False)
    items = [it for it in plan[4] if it[0] != 3]
    for it in items:
        if it[0] in (0, 2) and len(it[3]) > 300:
            it[3] = it[3][:rng.randint(20, 300)]
            if it[0] == 2:
                it[4] = [rng.randint(1, 60)] * rng.randint(1, 4)
    if not items:
        items = [[0, 5000, 1, c06.gen_unit(rng, cd, 9) if cd != AAC else b"\x09\x08"]]
    return items

def bad_payloads(rng, cd, good):
    """mutations of one valid payload + free-standing hostile payloads"""
    out = []
    for n in range(len(good)):                         # every truncation offset
        out.append(good[:n])
    for pos in range(min(len(good), 6)):               # header / FU header / size fields
        for v in (0, 0xff, good[pos] ^ 0x80, good[pos] ^ 0x40, good[pos] ^ 0x1f, rng.randrange(256)):
            out.append(good[:pos] + bytes([v]) + good[pos + 1:])
    heads = {H264: [0x78, 0x7c, 0x79, 0x7a, 0x7b, 0x7d, 0x18, 0x1c, 0x3c, 0x5c, 0x7e, 0x7f, 0x00],
             H265: [0x60, 0x62, 0x61, 0x63, 0xe0, 0xe2, 0x64, 0x00, 0x7e],
             AAC: [0x00, 0xff, 0x7f, 0x01]}[cd]
    for h in heads:
        out.append(bytes([h]))
        for _ in range(3):
            out.append(bytes([h]) + c06.rbytes(rng, rng.randint(1, 24)))
        out.append(bytes([h, 0x00, 0x00]))
        out.append(bytes([h, 0x01, 0x00, 0x01]))
        out.append(bytes([h, 0xff, 0xff, 0x41]))
        out.append(bytes([h, 0x00, 0x01, 0x41, 0x00]))
        out.append(bytes([h, 0x00, 0x01, 0x41, 0x00, 0x09, 0x41]))
    # aggregation packets whose 16-bit size fields sit on the arithmetic boundaries (wrap of uint16 / int16
    # sums: 0xfff0..0xffff, 0x7fff / 0x8000), at the first and at a later unit position
    if cd in (H264, H265):
        hdr = bytes([0x78]) if cd == H264 else bytes([0x60, 0x01])
        unit = bytes([0x41, 0x9a, 1, 2]) if cd == H264 else bytes([0x02, 0x01, 1, 2])
        edge = [0xfff0, 0xfff8, 0xfffb, 0xfffc, 0xfffd, 0xfffe, 0xffff, 0x7ffe, 0x7fff, 0x8000, 0x8001, 0xff00]
        for n in edge:
            sz = n.to_bytes(2, "big")
            out.append(hdr + sz + unit)                                              # first unit
            out.append(hdr + len(unit).to_bytes(2, "big") + unit + sz + unit)        # second unit
            out.append(hdr + sz)                                                     # size field, nothing behind it
        for n in (0xfffc, 0xffff, 0x8000):
            out.append(hdr + len(unit).to_bytes(2, "big") + unit + len(unit).to_bytes(2, "big") + unit + n.to_bytes(2, "big") + unit[:1])
    # parameter-set NAL units that must not replace the stream's own sets: truncated, bit-flipped, oversized,
    # alone and inside an aggregation packet
    if cd == H264:
        sps, pps = bytes([0x67, 0x64, 0x00, 0x1f, 0xac, 0xd9, 0x40, 0x50]), bytes([0x68, 0xef, 0xbc, 0xb0])
        for ps in (sps, pps):
            for n in (1, 2, 3, len(ps)):
                out.append(ps[:n])
            out.append(bytes([ps[0], ps[1] ^ 0xff]) + ps[2:])
            out.append(ps + c06.rbytes(rng, 1500))
            out.append(bytes([0x78, 0, 3]) + ps[:3])
            out.append(bytes([0x78, 0, len(ps)]) + ps + bytes([0, 2, 0x41, 0x9a]))
    elif cd == H265:
        vps, sps, pps = bytes([0x40, 1, 0x0c, 1, 0xff, 0xff]), bytes([0x42, 1, 1, 1, 0x60, 0]), bytes([0x44, 1, 0xc1, 0x72])
        for ps in (vps, sps, pps):
            for n in (2, 3, len(ps)):
                out.append(ps[:n])
            out.append(ps[:2] + bytes([ps[2] ^ 0xff]) + ps[3:])
            out.append(ps + c06.rbytes(rng, 1500))
            out.append(bytes([0x60, 1, 0, 3]) + ps[:3])
    if cd == AAC:
        out += [bytes([0, 16, 0, 80, 1, 2]), bytes([0, 32, 0, 8]), bytes([0xff, 0xf0]) + c06.rbytes(rng, 30),
                bytes([0, 16, 0xff, 0xf8]) + c06.rbytes(rng, 10), bytes([0, 16]), bytes([0, 17, 0])]
    out.append(b"")
    for _ in range(6):
        out.append(c06.rbytes(rng, rng.randint(1, 40)))
    return out

def bad_rtcp(rng):
    out = [b"", b"\x80", b"\x80\xc8", bytes([0x80, 200, 0, 1, 0, 0, 0, 1])]
    for n in (3, 8, 12, 16, 19, 20, 21, 28):
        out.append(bytes([0x80, 200]) + c06.rbytes(rng, n - 2) if n >= 2 else b"")
        out.append(c06.rbytes(rng, n))
    out.append(bytes([0x80, 200, 0, 6]) + bytes(12) + (0).to_bytes(4, "big") + bytes(8))      # RTPTime 0
    out.append(bytes([0x81, 201, 0, 7]) + c06.rbytes(rng, 28))                                # receiver report
    return out

def bad_frames(rng):
    """well-framed interleaved frames whose content is not a usable RTP packet"""
    out = []
    for ch in (4, 9, 0x24, 255):
        out.append(reframe(ch, c06.rbytes(rng, rng.randint(0, 30))))
    for ch in (0, 2):
        for n in range(0, 12):
            out.append(reframe(ch, bytes([0x80, 96]) + bytes(max(0, n - 2)) if n >= 2 else bytes(n)))
        out.append(reframe(ch, bytes([0x8f, 96]) + bytes(14)))                     # CSRC count past the end
        out.append(reframe(ch, bytes([0x90, 96]) + bytes(10) + b"\xbe\xde\x00\x10" + bytes(3)))   # extension longer than the packet
        out.append(reframe(ch, bytes([0x90, 96]) + bytes(10) + b"\xbe\xde\x00\x01\x1f\x00\x00\x00"))  # one-byte extension overrun
        out.append(reframe(ch, bytes([0x90, 96]) + bytes(10) + b"\x10\x00\x00\x01\x01\xff\x00\x00"))  # two-byte extension overrun
        out.append(reframe(ch, bytes([0x90, 96]) + bytes(10)))                     # X bit without extension header
        out.append(reframe(ch, bytes([0x00, 0]) + bytes(10)))                      # version 0, empty payload
        out.append(reframe(ch, c06.rbytes(rng, rng.randint(12, 40))))
        out.append(reframe(ch, b""))
    return out

SDPS = [
    "", "v=0\r\n", "garbage", "v=0\r\no=- 0 0 IN IP4 0.0.0.0\r\ns=x\r\nt=0 0\r\nm=video 0 udp 33\r\n",
    "v=0\r\no=- 0 0 IN IP4 0.0.0.0\r\ns=x\r\nt=0 0\r\nm=audio 0 TCP x\r\n",
    "v=0\r\no=- 0 0 IN IP4 0.0.0.0\r\ns=x\r\nt=0 0\r\nm=video 0 RTP/AVP\r\n",
    "v=0\r\no=- 0 0 IN IP4 0.0.0.0\r\ns=x\r\nt=0 0\r\nm=video 0 RTP/AVP 96\r\n",
    "v=0\r\no=- 0 0 IN IP4 0.0.0.0\r\ns=x\r\nt=0 0\r\nm=video 0 RTP/AVP 96\r\na=rtpmap:96 H264/90000\r\na=fmtp:96 sprop-parameter-sets=\r\n",
    "v=0\r\no=- 0 0 IN IP4 0.0.0.0\r\ns=x\r\nt=0 0\r\nm=video 0 RTP/AVP 96\r\na=rtpmap:96 H264/90000\r\na=fmtp:96 sprop-parameter-sets=,\r\n",
    "v=0\r\no=- 0 0 IN IP4 0.0.0.0\r\ns=x\r\nt=0 0\r\nm=video 0 RTP/AVP 96\r\na=rtpmap:96 H264/90000\r\na=fmtp:96 sprop-parameter-sets=!!!!,====\r\n",
    "v=0\r\no=- 0 0 IN IP4 0.0.0.0\r\ns=x\r\nt=0 0\r\nm=video 0 RTP/AVP 96\r\na=rtpmap:96 H264/90000\r\na=fmtp:96 sprop-parameter-sets=Zw==,aA==\r\n",
    "v=0\r\no=- 0 0 IN IP4 0.0.0.0\r\ns=x\r\nt=0 0\r\nm=video 0 RTP/AVP 96\r\na=rtpmap:96 H265/90000\r\na=fmtp:96 sprop-vps=;sprop-sps=QgE=;sprop-pps=\r\n",
    "v=0\r\no=- 0 0 IN IP4 0.0.0.0\r\ns=x\r\nt=0 0\r\nm=video 0 RTP/AVP 96\r\na=rtpmap:96 H265/90000\r\na=fmtp:96 sprop-vps\r\n",
    "v=0\r\no=- 0 0 IN IP4 0.0.0.0\r\ns=x\r\nt=0 0\r\nm=audio 0 RTP/AVP 97\r\na=rtpmap:97 MPEG4-GENERIC/0/0\r\na=fmtp:97 config=\r\n",
    "v=0\r\no=- 0 0 IN IP4 0.0.0.0\r\ns=x\r\nt=0 0\r\nm=audio 0 RTP/AVP 97\r\na=rtpmap:97 MPEG4-GENERIC/44100/2\r\na=fmtp:97 config=zz;mode=AAC-hbr\r\n",
    "v=0\r\no=- 0 0 IN IP4 0.0.0.0\r\ns=x\r\nt=0 0\r\nm=audio 0 RTP/AVP 97\r\na=rtpmap:97 MPEG4-GENERIC/44100/2\r\na=fmtp:97 config=f8\r\n",
    "v=0\r\no=- 0 0 IN IP4 0.0.0.0\r\ns=x\r\nt=0 0\r\nm=audio 0 RTP/AVP 97\r\na=rtpmap:97 MPEG4-GENERIC/44100/2\r\na=fmtp:97 config=ffffffffffffffff\r\n",
    "v=0\r\no=- 0 0 IN IP4 0.0.0.0\r\ns=x\r\nt=0 0\r\nm=audio 0 RTP/AVP 97\r\na=rtpmap:97\r\n",
    "v=0\r\no=- 0 0 IN IP4 0.0.0.0\r\ns=x\r\nt=0 0\r\nm=audio 0 RTP/AVP 97\r\na=fmtp:97\r\n",
    "v=0\r\no=- 0 0 IN IP4 0.0.0.0\r\ns=x\r\nt=0 0\r\nm=video 0 RTP/AVP 96\r\nb=AS:\r\n",
    "v=0\r\no=- 0 0 IN IP4 0.0.0.0\r\ns=x\r\nt=0 0\r\nm=video 0 RTP/AVP 300\r\n",
    "v=0\r\no=- 0 0 IN IP4 0.0.0.0\r\ns=x\r\nt=0 0\r\nm=video\r\n",
    "v=0\r\no=- 0 0 IN IP4 0.0.0.0\r\ns=x\r\nt=0 0\r\nm=video 0 RTP/AVP 96\r\na=rtpmap:96 H264/90000\r\na=fmtp:96 packetization-mode=1;sprop-parameter-sets=Z0IAH5WoFAFuQA==,aM48gA==\r\nm=audio 0 RTP/AVP 97\r\na=rtpmap:97 MPEG4-GENERIC/44100/2\r\na=fmtp:97 config=1210\r\n",
]

def run(ck):
    if not ck.prepare():
        return ck.finish(rule="build failed")
    rng = ck.rng
    T = ck.thorough
    kinds = {}
    def kind(k, n=1):
        kinds[k] = kinds.get(k, 0) + n
    try:
        base = legal_streams(ck, rng, 60 if T else 12, T)
        # ---- A: faults behind a valid RTP header, modelled exactly -----------------------------
        plans = []
        budget = 40000 if T else 1500
        for (cd, clock, cc, seq0, evs, ndata) in base:
            data_pos = [i for i, e in enumerate(evs) if e[0] == 4]
            for vi, victim in enumerate(data_pos):
                bads = bad_payloads(rng, cd, evs[victim][4])
                if not T and vi > 0:
                    bads = rng.sample(bads, min(len(bads), 25))
                for bad in bads:
                    if len(plans) >= budget:
                        break
                    e2 = list(evs)
                    style = rng.random()
                    badev = [4, evs[victim][1], evs[victim][2], evs[victim][3], bad]
                    if style < 0.6:
                        e2[victim] = badev                      # the packet arrives damaged
                    elif style < 0.8:
                        e2.insert(victim, badev)                # an extra packet
                    else:
                        e2 = e2[:victim] + [badev]              # the stream is cut right after it
                    if rng.random() < 0.3:
                        e2.insert(rng.randrange(len(e2) + 1), [5, rng.choice(bad_rtcp(rng))])
                    pin = [rng.randint(1, 2**32 - 1), 7, 9] if rng.random() < 0.5 else []
                    ksuf = rng.choice([ndata, ndata + 1, rng.randint(0, 65535)])
                    plans.append([cd, clock, cc, seq0, ksuf, pin, e2, gen_suffix(rng, cd)])
                    kind("payload fault (truncation / corrupted field / hostile payload)")
        # size-field boundaries of aggregation packets, in every video stream (not left to sampling)
        for (cd, clock, cc, seq0, evs, ndata) in base:
            if cd == AAC:
                continue
            hdr = bytes([0x78]) if cd == H264 else bytes([0x60, 0x01])
            unit = bytes([0x41, 0x9a, 1, 2]) if cd == H264 else bytes([0x02, 0x01, 1, 2])
            for n in (0xfff0, 0xfffb, 0xfffc, 0xfffd, 0xfffe, 0xffff, 0x7fff, 0x8000):
                for pl in (hdr + n.to_bytes(2, "big") + unit, hdr + len(unit).to_bytes(2, "big") + unit + n.to_bytes(2, "big") + unit):
                    pos = rng.randrange(len(evs) + 1)
                    e2 = evs[:pos] + [[4, 31000, 555, 0, pl]] + evs[pos:]
                    plans.append([cd, clock, cc, seq0, ndata, [rng.randint(1, 2**32 - 1), 7, 9], e2, gen_suffix(rng, cd)])
                    kind("payload fault (truncation / corrupted field / hostile payload)")
        # a parameter set reassembled from fragments (FU-A / FU): start + end fragment with consecutive sequence numbers
        for (cd, clock, cc, seq0, evs, ndata) in base:
            if cd == AAC:
                continue
            for typ in ((7, 8) if cd == H264 else (32, 33, 34)):
                if cd == H264:
                    frs = [bytes([0x7c, 0x80 | typ, 0x64]), bytes([0x7c, 0x40 | typ, 0x00])]
                else:
                    frs = [bytes([0x62, 1, 0x80 | typ, 1]), bytes([0x62, 1, 0x40 | typ, 2])]
                pos = rng.randrange(len(evs) + 1)
                e2 = evs[:pos] + [[4, 30000, 777, 0, frs[0]], [4, 30001, 777, 1, frs[1]]] + evs[pos:]
                plans.append([cd, clock, cc, seq0, ndata, [rng.randint(1, 2**32 - 1), 7, 9], e2, gen_suffix(rng, cd)])
                kind("payload fault (truncation / corrupted field / hostile payload)")
        # RTCP garbage at every position of a few streams
        for (cd, clock, cc, seq0, evs, ndata) in base[:6 if not T else 30]:
            for bad in bad_rtcp(rng):
                pos = rng.randrange(len(evs) + 1)
                e2 = evs[:pos] + [[5, bad]] + evs[pos:]
                plans.append([cd, clock, cc, seq0, ndata, [] if rng.random() < 0.7 else [rng.randint(1, 2**32 - 1), 1, 2], e2, gen_suffix(rng, cd)])
                kind("RTCP garbage")
        wf = vlib.run_driver(ck.prop, "C07_wf", [vlib.vs(p) for p in plans])
        ck.extra["stream_cases_inside_theorem_guard"] = "%d of %d" % (sum(1 for x in wf if x == "1"), len(wf))
        outs = vlib.run_driver(ck.prop, "C07_gen", [vlib.vs(p) for p in plans])
        cases = [[p, vlib.vparse(o)] for p, o in zip(plans, outs)]
        c06.eval_stream(ck, "payload_faults", cases, "C07_run", "C07", "C07_ok", nontrivial=lambda c: len(c[0][6]) >= 2,
                  sig=lambda c, e, o: "contain-payload-" + ("h264", "h265", "aac")[c[0][0]], sample=4)
        # ---- B: faults in the interleaved frame / RTP header, not modelled: oracle only ---------
        fcases = []
        for (cd, clock, cc, seq0, evs, ndata) in base[: (30 if T else 8)]:
            pin = [rng.randint(1, 2**32 - 1), 3, 4]
            plan = [cd, clock, cc, seq0, ndata, pin, evs, gen_suffix(rng, cd)]
            wire = vlib.vparse(vlib.run_driver(ck.prop, "C07_gen", [vlib.vs(plan)])[0])
            nprefix = 1 + len(evs)
            for bad in bad_frames(rng):
                for pos in ([rng.randrange(nprefix + 1)] if not T else sorted(set([0, nprefix] + [rng.randrange(nprefix + 1) for _ in range(3)]))):
                    fcases.append([plan, wire[:pos] + [bad] + wire[pos:]])
                    kind("frame fault (unknown channel / short or hostile RTP header)")
            # a valid frame truncated at every offset of its RTP header, length field adjusted
            victim = wire[rng.randrange(1, nprefix)]
            for n in range(0, min(len(victim) - 4, 20)):
                pos = rng.randrange(1, nprefix)
                fcases.append([plan, wire[:pos] + [reframe(victim[1], victim[4:4 + n])] + wire[pos:]])
                kind("frame fault (unknown channel / short or hostile RTP header)")
        c06.eval_stream(ck, "frame_faults", fcases, None, "C07", "C07_ok", nontrivial=lambda c: True, compare=False,
                  sig=lambda c, e, o: "contain-frame-" + ("h264", "h265", "aac")[c[0][0]], sample=3)
        # ---- cache classifiers ---------------------------------------------------------------------
        for cd, name in ((H264, "cls264"), (H265, "cls265")):
            pls = []
            for (c2, clock, cc, seq0, evs, ndata) in base:
                if c2 != cd:
                    continue
                for e in evs:
                    if e[0] == 4:
                        pls += bad_payloads(rng, cd, e[4])[: (400 if T else 30)] + [e[4]]
            pls += bad_payloads(rng, cd, b"")        # all free-standing hostile payloads incl. the size-field boundaries
            pls += [c06.rbytes(rng, rng.randint(0, 12)) for _ in range(2000 if T else 150)]
            kind("classifier payload", len(pls))
            ck.stream(name, pls, "C07_" + name, name, "C07_alive", nontrivial=lambda c: len(c) >= 3,
                      sig=lambda c, e, o, name=name: "contain-" + name, sample=2)
        # ---- SyncClock.Decode --------------------------------------------------------------------
        rt = []
        for _ in range(40 if T else 8):
            rt += bad_rtcp(rng)
        rt += [bytes([rng.randrange(256), 200]) + c06.rbytes(rng, rng.randint(0, 30)) for _ in range(300)]
        kind("RTCP bytes to SyncClock.Decode", len(rt))
        ck.stream("rtcp_decode", rt, "C07_sr", "sr", "C07_alive", nontrivial=lambda c: len(c) >= 2,
                  sig=lambda c, e, o: "contain-rtcp", sample=2)
        # ---- receive loop: valid frames around frames that must be skipped ------------------------
        rc = []
        good = [f for (cd, clock, cc, seq0, evs, ndata) in base[:4] for f in
                vlib.vparse(vlib.run_driver(ck.prop, "C07_gen", [vlib.vs([cd, clock, cc, seq0, 0, [], evs, []])])[0])]
        for _ in range(300 if T else 60):
            fr = []
            for _ in range(rng.randint(2, 10)):
                if rng.random() < 0.5:
                    fr.append([1, rng.choice(good)])
                else:
                    fr.append([0, rng.choice(bad_frames(rng))])
            fr.append([1, rng.choice(good)])
            rc.append(fr)
        # only frames that are certainly rejected are labelled bad; the doubtful ones are dropped from this stream
        rc = [[[v, f] for v, f in fr if v == 1 or clearly_bad(f)] for fr in rc]
        kind("receive loop stream", len(rc))
        ck.stream("receive", rc, None, "recv", "C07_recv_ok", nontrivial=lambda c: any(v == 0 for v, _ in c),
                  compare=False, sig=lambda c, e, o: "contain-receive", sample=2)
        # ---- SDP bodies, TS AAC packetizer with undecodable config ---------------------------------
        sd = list(SDPS)
        for s in SDPS[3:]:
            for _ in range(4 if T else 1):
                cut = rng.randrange(len(s) + 1)
                sd.append(s[:cut])
                i = rng.randrange(len(s))
                sd.append(s[:i] + rng.choice(["\r\n", "=", ":", " ", ";", "\x00", "/", "m=video 0 x 0\r\n"]) + s[i + 1:])
        kind("SDP body", len(sd))
        ck.stream("sdp", sd, None, "sdp", "C07_alive", nontrivial=lambda c: "m=" in c, compare=False,
                  sig=lambda c, e, o: "contain-sdp", sample=2)
        ts = [[cfg, [b"\x01\x02\x03", b"", c06.rbytes(rng, 40)]] for cfg in
              [b"", b"\x00", b"\xff", b"\x12", b"\x12\x10", b"\xf8\x00", b"\x00\x00", c06.rbytes(rng, 2), c06.rbytes(rng, 5), b"\xff\xff\xff\xff"]]
        kind("TS AAC config", len(ts))
        ck.stream("ts_aac_config", ts, None, "tsaac", "C07_alive", nontrivial=lambda c: len(c[0]) < 2, compare=False,
                  sig=lambda c, e, o: "contain-ts-aac", sample=2)
        # ---- converters: FLV muxer loop + packetizers, TS packetizers, hostile metadata --------------
        def conv_frames(n):
            out = []
            for _ in range(n):
                k = rng.random()
                if k < 0.55:
                    b0 = rng.choice([0x65, 0x41, 0x61, 0x67, 0x68, 0x09, 0x06, 0x0c, 0x26, 0x40, 0x42, 0x44, 0x02, rng.randrange(256)])
                    out.append([0, bytes([b0]) + c06.rbytes(rng, rng.choice([0, 1, 3, 20, 200]))])
                elif k < 0.9:
                    out.append([1, c06.rbytes(rng, rng.choice([0, 0, 1, 7, 90]))])
                else:
                    out.append([rng.choice([2, 3, 5, -1]), c06.rbytes(rng, rng.choice([0, 2]))])
            out.insert(rng.randrange(len(out) + 1), [0, bytes([rng.choice([0x41, 0x65, 0x26, 0x01])])])   # a one-byte unit
            return out
        def conv_cfgs():
            good_sps, good_pps = bytes([0x67, 0x42, 0x00, 0x1f, 0x95, 0xa8]), bytes([0x68, 0xce, 0x3c, 0x80])
            cfgs = []
            for sps in (good_sps, b"", b"\x67", b"\x67\x42", b"\x67\x42\x00", b"\x67\x42\x00\x1f", c06.rbytes(rng, 3), c06.rbytes(rng, 9)):
                for pps in (good_pps, b"", b"\x68"):
                    cfgs.append([0, sps, pps, b""])
            hv = [bytes([0x40, 1, 0x0c, 1, 0xff, 0xff, 1, 0x60, 0, 0, 3, 0, 0x90, 0, 0, 3, 0, 0, 3, 0, 0x5d, 0x95, 0x98, 9]),
                  b"", b"\x40", b"\x40\x01", c06.rbytes(rng, 5), c06.rbytes(rng, 30), bytes([0x40, 1]) + b"\xff" * 40]
            hs = [bytes([0x42, 1, 1, 1, 0x60, 0, 0, 3, 0, 0x90, 0, 0, 3, 0, 0, 3, 0, 0x5d, 0xa0, 2, 0x80, 0x80, 0x2d, 0x16, 0x59, 0x59, 0xa4, 0x93, 0x2b, 0xc0, 0x40, 0x40, 0, 0, 3, 0, 0x40, 0, 0, 6, 0x42]),
                  b"", b"\x42", b"\x42\x01\x01", c06.rbytes(rng, 7), c06.rbytes(rng, 40), bytes([0x42, 1]) + b"\xff" * 60, bytes([0x42, 1]) + b"\x00" * 60]
            for vps in hv:
                for sps in rng.sample(hs, 4):
                    cfgs.append([1, sps, rng.choice([bytes([0x44, 1, 0xc1, 0x72, 0xb4, 0x62, 0x40]), b"", b"\x44"]), vps])
            return cfgs
        ASCS = [b"\x12\x10", b"", b"\x00", b"\xff", b"\x12", b"\xf8\x00", b"\x00\x00", b"\xff\xff\xff\xff", b"\x13\x90", b"\x2b\x92\x08\x00"]
        cc = []
        for cfg in conv_cfgs():
            for _ in range(6 if T else 1):
                aac = rng.random() < 0.6
                cc.append([cfg[0], cfg[1], cfg[2], cfg[3], aac, rng.choice(ASCS) if aac else b"", conv_frames(rng.randint(1, 8))])
        kind("FLV converter (metadata x frames)", len(cc))
        c06.eval_stream(ck, "flv_conv", cc, None, "flvconv", "C07_flvconv_ok", nontrivial=lambda c: len(c[6]) >= 2, compare=False,
                  sig=lambda c, e, o: "contain-flv-conv", sample=2)
        tc = [[0, rng.choice([b"", b"\x67", bytes([0x67, 0x42, 0, 0x1f, 1]), c06.rbytes(rng, 12)]),
               rng.choice([b"", b"\x68\x01", c06.rbytes(rng, 4)]), b"", 1, rng.choice(ASCS + [c06.rbytes(rng, rng.randint(1, 6))]),
               conv_frames(rng.randint(1, 10))] for _ in range(600 if T else 80)]
        kind("TS converter (metadata x frames)", len(tc))
        c06.eval_stream(ck, "ts_conv", tc, None, "tsconv", "C07_tsconv_ok", nontrivial=lambda c: len(c[6]) >= 2, compare=False,
                  sig=lambda c, e, o: "contain-ts-conv", sample=2)
        # ---- isolation: two streams + two receive loops in one process, faults into one of them -------
        def rtp_frame(ch, payload):
            # RTP timestamps not ahead of the stream clock: a packet from the far future that looks like a
            # key frame makes the HLS segmenter wait for the clock to catch up (same class as the known finding)
            hdr = bytes([0x80, 96 if ch == 0 else 97]) + rng.randrange(65536).to_bytes(2, "big") + \
                  rng.choice([0, 1, 90000, 44100]).to_bytes(4, "big") + b"\x01\x02\x03\x04"
            return reframe(ch, hdr + payload)
        faults = []
        joinshape = [bytes([0x78, 0, 1]), bytes([0x78, 0, 1, 0x65, 0]), bytes([0x78, 0, 9, 0x65, 0]), bytes([0x78, 0xff, 0xff, 0x41]),
                     bytes([0x79, 0, 1]), bytes([0x7a, 0, 0, 1]), bytes([0x7b, 0, 1, 2]), bytes([0x18, 0, 2, 0x67]),
                     bytes([0x78]), bytes([0x78, 0]), bytes([0x7c]), bytes([0x7c, 0x85]), bytes([0x7d, 0x45, 1])]
        for pl in joinshape:
            faults.append(rtp_frame(0, pl))                      # classification of a hostile aggregation packet (join section)
        psets = [bytes([0x67, 0x64, 0x00]), bytes([0x67]), bytes([0x68]), bytes([0x68, 0xef]), bytes([0x67, 0x9b, 0xff, 0xe0]) + c06.rbytes(rng, 30),
                 bytes([0x67]) + c06.rbytes(rng, 1400), bytes([0x78, 0, 3, 0x67, 0x64, 0x00]), bytes([0x78, 0, 1, 0x68, 0, 2, 0x41, 0x9a]),
                 bytes([0x27, 0x64, 0x00]), bytes([0x28])]
        for pl in psets:
            faults.append(rtp_frame(0, pl))                      # malformed in-band parameter sets (shared metadata)
        edges = []
        for n in (0xfff0, 0xfffc, 0xfffd, 0xfffe, 0xffff, 0x7fff, 0x8000):
            edges.append(bytes([0x78]) + n.to_bytes(2, "big") + bytes([0x41, 0x9a, 1]))
            edges.append(bytes([0x78, 0, 2, 0x41, 0x9a]) + n.to_bytes(2, "big") + bytes([0x65, 1]))
        for pl in edges:
            faults.append(rtp_frame(0, pl))                      # aggregation size fields on the uint16 / int16 boundaries
        some = base[0][4] if base else []
        good_v = next((e[4] for (cd, _, _, _, evs, _) in base if cd == H264 for e in evs if e[0] == 4), bytes([0x41, 1, 2, 3]))
        good_a = next((e[4] for (cd, _, _, _, evs, _) in base if cd == AAC for e in evs if e[0] == 4), bytes([0, 16, 0, 16, 1, 2]))
        for pl in bad_payloads(rng, H264, good_v):
            faults.append(rtp_frame(0, pl))
        for pl in bad_payloads(rng, AAC, good_a):
            faults.append(rtp_frame(2, pl))
        for d in bad_rtcp(rng):
            faults.append(reframe(rng.choice([1, 3]), d))
        faults += bad_frames(rng)
        for _ in range(40):                                      # several faults at once
            faults.append(b"".join(rng.sample(faults, 3)))
        faults = [calm(f) for f in faults]
        rng.shuffle(faults)
        if not T:
            faults = joinshape_first(faults, [calm(rtp_frame(0, pl)) for pl in joinshape + psets + edges], 420)
        per = 140
        iso = [[1, faults[i:i + per]] for i in range(0, len(faults), per)]
        # the malformed parameter set is the very first packet of the stream (before any sequence header / segment)
        iso += [[2, [calm(rtp_frame(0, pl)), calm(rtp_frame(0, rng.choice(psets)))]] for pl in psets[:4]]
        kind("isolation fault (two streams, two sessions)", len(faults))
        ck.extra["isolation_faults"] = len(faults)
        c06.eval_stream(ck, "isolation", iso, None, "iso", "C07_iso_ok", nontrivial=lambda c: len(c[1]) >= 2, compare=False,
                  sig=lambda c, e, o: "contain-isolation", sample=1)
        # known finding, replayed every run: no sender report has pinned the clock yet and a forged one arrives
        forged = reframe(1, bytes([0x80, 200, 0, 6]) + bytes(12) + (2**31).to_bytes(4, "big") + bytes(8))
        c06.eval_stream(ck, "isolation_unpinned", [[0, [forged]]], None, "iso", "C07_iso_ok", nontrivial=lambda c: True, compare=False,
                  sig=lambda c, e, o: "hls-stall-after-clock-rebase" if vlib.vparse(o) == [[0, 1, 0, 1, 1]] else "contain-isolation-unpinned",
                  sample=1)
        # ---- real viewers of every transport while hostile-but-framed packets are published ----------
        def tr_case(kinds, with_faults):
            ssrc = bytes(rng.randrange(256) for _ in range(4))
            seq = [100]
            def media(ch, payload):
                seq[0] += 1
                return [ch, TR.rtp_header(96 if ch == 0 else 97, seq[0], 3600 * seq[0], ssrc) + payload]
            def sized(ch, total):                       # an RTP packet of exactly `total` bytes (>= 12)
                body = max(0, total - 12)
                pl = (bytes([0x41]) + TR.blob(rng, body - 1)) if body else b""
                if ch == 2 and body >= 4:
                    pl = bytes([0, 16, ((body - 4) >> 5) & 255, ((body - 4) << 3) & 255]) + TR.blob(rng, body - 4)
                return media(ch, pl)
            pk = [media(0, TR.SPS), media(0, TR.PPS), media(0, bytes([0x65]) + TR.blob(rng, 40))]
            extremes = [12, 13, 1400, 1460, 1500, 8192, 65507, 65508, 65535]
            rtcp_sizes = [0, 1, 12, 28, 1500, 65507, 65508, 65535]
            if TR.MCAST in kinds:     # the harness tells its own multicast datagrams from foreign traffic by the SSRC
                rtcp_sizes = [n for n in rtcp_sizes if n >= 8]
            body = []
            for total in rng.sample(extremes, 5) + [65508, 65535, 65507]:
                body.append(sized(rng.choice([0, 0, 2]), total))
            for n in rng.sample(rtcp_sizes, 4) + [65508]:
                body.append([rng.choice([1, 3]), (bytes([0x80, 200, 0, 6]) + ssrc + TR.blob(rng, max(0, n - 8)))[:n]])

            if with_faults:
                for pl in rng.sample(bad_payloads(rng, H264, bytes([0x41, 1, 2, 3, 4, 5, 6, 7])), 6):
                    body.append(media(0, pl))
                for pl in rng.sample(bad_payloads(rng, AAC, bytes([0, 16, 0, 16, 1, 2])), 3):
                    body.append(media(2, pl))
            rng.shuffle(body)
            good = [media(0, bytes([0x41]) + TR.blob(rng, 30)), media(2, bytes([0, 16, 0, 40, 1, 2, 3, 4, 5])),
                    media(0, bytes([0x65]) + TR.blob(rng, 60)), media(0, bytes([0x41]) + TR.blob(rng, 20))]
            # fill levels of the sessions' buffered.Conn (128 KiB): a burst of frames that ends on / next to the limit
            # (back to back, so that the rate limiter keeps them in the buffer); not with datagram viewers (socket buffers)
            burst = []
            if not any(k in (TR.UDP, TR.MCAST) for k in kinds):
                for total in rng.choice([[65532, 65532, 40], [65535, 65529, 100], [65531, 65535, 12], [32768, 32768, 32768, 32756, 500], [65535, 65535, 65535]]):
                    burst.append(sized(0, total))
            pk = pk + body + burst + good
            clients = []
            for k in kinds:
                chmap = [0, 1, 2, 3] if k in (TR.HTTPFLV, TR.WSFLV) or rng.random() < 0.6 else TR.gen_chmap(rng, k)
                lim = 65507 if k in (TR.UDP, TR.MCAST) else 65535
                deliv = [i for i, p in enumerate(pk) if len(p[1]) <= lim]
                clients.append([k, chmap, deliv])
            nb = len(pk) - len(burst) - len(good)
            events = [[1, i] for i in range(len(kinds))] + [[0, 1] for _ in range(nb)] + ([[0, len(burst)]] if burst else []) + \
                     [[0, 1] for _ in good] + [[3]]
            return [1, pk, clients, events, 1]
        trc = []
        sets = [[TR.TCP, TR.UDP, TR.WSRTSP, TR.WSP, TR.WSFLV], [TR.UDP, TR.MCAST, TR.TCP], [TR.TCP, TR.WSRTSP, TR.WSP, TR.WSFLV], [TR.UDP, TR.UDP, TR.WSP], [TR.TCP, TR.TCP, TR.WSRTSP]]
        for i in range(24 if T else 4):
            trc.append(tr_case(sets[i % len(sets)], with_faults=(i % 2 == 0)))
        kind("transport case (real viewers, size extremes)", len(trc))
        c06.eval_stream(ck, "transports", trc, None, "C07_transports", "C07_tr_ok", nontrivial=lambda c: len(c[2]) >= 2, compare=False,
                  sig=lambda c, e, o: "contain-transport", sample=1)
    except vlib.Broken as b:
        ck.broken.append(b)
    ck.extra["fault_kinds"] = kinds
    return ck.finish(
        rule="12 (quick) / 60 (thorough) legal loss-free streams from C06's Gallina packetisers (H.264, H.265, AAC), base packets "
             "kept under 60 bytes so that EVERY truncation offset of every packet is injected, plus six corruptions of each of the "
             "first six payload bytes (NAL / FU / size / AU-header fields), ~60 hostile free-standing payloads per codec (STAP/AP "
             "with size fields past the end, lone FU fragments, MTAP/FU-B types, AU-header sections longer than the payload, "
             "empty, random); the bad packet replaces a packet, is added, or ends the prefix; RTCP garbage (0..28 bytes, SR and "
             "non-SR types) at random positions; then a fresh legal suffix at a continuing or unrelated sequence position. Second "
             "stream: well-framed interleaved frames that are not usable RTP (unknown channels, every RTP header length 0..11, "
             "CSRC/extension lengths past the end, both RFC 8285 extension overruns) at random positions, and a valid frame cut at "
             "every header offset. Plus classifier payloads, RTCP bytes, receive-loop streams, hostile SDP bodies, AAC configs. "
             "non-trivial = at least two prefix events (streams) / payload of 3+ bytes (classifiers)",
        trusted=["pion/rtp Header.Unmarshal, go-sdp and rtp.ReadPacket framing are exercised, not modelled: for header-level garbage "
                 "the theorem covers 'whatever packets it turned into' (C07_stream_resync is for ALL event lists)",
                 "the harness read loop skips a frame that ReadPacket returns together with an error, as rtsp.receive does "
                 "(checked directly by the receive stream)"],
        assumptions=["memory exhaustion by sheer volume is outside", "FLV / TS packetisers: only the property that the depacketisers "
                     "never hand them an empty frame is proved here; their own structure belongs to C08 / C09",
                     "metadata ready (parameter sets known from the SDP) for the resynchronisation theorem",
                     "the second-stream / second-session isolation of the property statement is covered by the demuxer being "
                     "per-stream state only (no shared mutable state in av/format/rtp); it is not replayed here"])

def calm(data):
    """zero the RTP timestamp of every media-channel frame in a run of interleaved frames"""
    out, i = bytearray(), 0
    while i + 4 <= len(data) and data[i] == 0x24:
        n = int.from_bytes(data[i + 2:i + 4], "big")
        fr = bytearray(data[i:i + 4 + n])
        if fr[1] in (0, 2) and n >= 8:
            fr[8:12] = b"\x00\x00\x00\x00"
        out += fr
        i += 4 + n
    return bytes(out) + data[i:]

def joinshape_first(faults, first, limit):
    """quick tier: keep the join-section shapes, fill up with a sample of the rest"""
    rest = [f for f in faults if f not in first]
    return first + rest[:max(0, limit - len(first))]

def clearly_bad(frame):
    """frames that rtp.ReadPacket certainly rejects: unknown channel, or a media-channel RTP header
    shorter than its fixed part / CSRC list / announced extension (the RFC 8285 inner overruns are
    left to the frame_faults stream, where no delivery count is asserted)"""
    ch = frame[1]
    data = frame[4:]
    if ch > 3:
        return True
    if ch in (1, 3):
        return False
    if len(data) < 12:
        return True
    off = 12 + 4 * (data[0] & 15)
    if len(data) < off:
        return True
    if data[0] & 0x10:
        if len(data) < off + 4:
            return True
        if len(data) < off + 4 + 4 * int.from_bytes(data[off + 2:off + 4], "big"):
            return True
    return False
