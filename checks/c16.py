"""C16 — permission patterns mean what the configuration guide says.

One case = one right string (or one bare pattern) asked about many paths, so that
millions of (right, path) pairs fit in a few thousand wire lines.
  ( 0 admin right ( path ... ) )  auth.Save / auth.Get / User.ValidatePermission (push and pull right)
  ( 1 mask ( path ... ) )         auth.NewPathMatcher(mask).Match(path)
  ( 2 ( ( admin pw push pull updpw ) ... ) ( path ... ) )
                                  the same user name saved 1-3 times through auth.Save (existing name -> CopyFrom ->
                                  init), then auth.Get(name).ValidatePermission, push and pull per path
The model (Go mirror, x_C16_run) predicts, the oracle (x_C16_ok) is the documented
language itself (spec_case), proved equal to the mirror for all inputs."""
import itertools
import vlib

LETTERS = "abAB"
ALPHA = "abcxABCX+*/; "            # the property's alphabet: letters in both cases, + * / ; space
WS = [" ", "  ", "\t", " \t"]
SEGS = ["a", "b", "ab", "A", "B", "aB", "c", "rooms", "Live", "+", "*", "", "a+", "*a", "+*", "**", "a b"]

def blank_edge(rng, s):
    k = rng.random()
    if k < 0.5:
        return rng.choice(WS) + s
    if k < 0.8:
        return s + rng.choice(WS)
    return rng.choice(WS) + s + rng.choice(WS)

def gen_item(rng, blanks):
    """one pattern; mostly of the documented shape, with odd wildcard positions and slash styles"""
    n = rng.choice([0, 1, 1, 2, 2, 3, 3, 4])
    segs = []
    for _ in range(n):
        k = rng.random()
        if k < 0.55:
            s = rng.choice(SEGS[:9])
        elif k < 0.8:
            s = "+"
        else:
            s = rng.choice(SEGS)
        if rng.random() < blanks:
            s = blank_edge(rng, s)
        segs.append(s)
    k = rng.random()
    if k < 0.4:
        segs.append("*")
    elif k < 0.45:
        segs.append(blank_edge(rng, "*") if blanks else "*")
    p = "/".join(segs)
    k = rng.random()
    if k < 0.7:
        p = "/" + p
    elif k < 0.8:
        p = "//" + p
    if rng.random() < 0.15:
        p += "/"
    if rng.random() < 0.1 and "/" in p[1:]:
        i = p.index("/", 1)
        p = p[:i] + "/" + p[i:]
    return p

def gen_right(rng, blanks):
    k = rng.random()
    if k < 0.06:
        return ""
    if k < 0.10:
        return rng.choice([" ", ";", " ; ", "*", " * ", ";*;", "/", "/*", "*/", "+", "/+/*", "**"])
    items = [gen_item(rng, blanks) for _ in range(rng.choice([1, 1, 1, 2, 2, 3, 4]))]
    out = ""
    for i, it in enumerate(items):
        if i:
            out += rng.choice([";", ";", "; ", " ;", ";;", " ; "])
        out += it
    if rng.random() < 0.1:
        out = rng.choice([" ", ";", "; "]) + out
    if rng.random() < 0.1:
        out += rng.choice([" ", ";", " ;"])
    return out

def flip_case(rng, s):
    return "".join(c.swapcase() if rng.random() < 0.3 else c for c in s)

def path_for(rng, item, blanks):
    """a path built from a pattern: wildcards instantiated, then possibly damaged"""
    segs = [s.strip() for s in item.strip().strip("/").split("/")]
    out = []
    for i, s in enumerate(segs):
        if s == "*" and i == len(segs) - 1:
            out += [rng.choice(SEGS[:8]) for _ in range(rng.choice([0, 0, 1, 2, 3]))]
        elif s == "+":
            out.append(rng.choice(SEGS[:10] + [""]))
        else:
            out.append(flip_case(rng, s))
    k = rng.random()
    if k < 0.12 and out:
        del out[rng.randrange(len(out))]
    elif k < 0.24:
        out.insert(rng.randint(0, len(out)), rng.choice(SEGS[:8]))
    elif k < 0.36 and out:
        out[rng.randrange(len(out))] = rng.choice(SEGS)
    elif k < 0.42 and out:
        i = rng.randrange(len(out))
        out[i] = out[i] + rng.choice("ab")
    if blanks:
        out = [blank_edge(rng, s) if rng.random() < blanks else s for s in out]
    p = "/".join(out)
    k = rng.random()
    if k < 0.75:
        p = "/" + p
    elif k < 0.8:
        p = " /" + p + " "
    elif k < 0.85:
        p = "//" + p
    if rng.random() < 0.1:
        p += "/"
    return p

def rand_str(rng, alpha, lo, hi):
    return "".join(rng.choice(alpha) for _ in range(rng.randint(lo, hi)))

def gen_paths(rng, right, n, blanks):
    items = [i for i in right.split(";") if i.strip()] or ["/a"]
    out = []
    for _ in range(n):
        k = rng.random()
        if k < 0.8:
            out.append(path_for(rng, rng.choice(items), blanks))
        elif k < 0.9:
            out.append(gen_item(rng, blanks))
        else:
            out.append(rand_str(rng, ALPHA, 0, 10))
    return out

def structured_cases(rng, ncases, npaths):
    cases = []
    for _ in range(ncases):
        blanks = rng.choice([0, 0, 0.15, 0.4])
        if rng.random() < 0.8:
            right = gen_right(rng, blanks)
            admin = rng.random() < 0.25
            cases.append([0, admin, right, gen_paths(rng, right, npaths, blanks)])
        else:
            mask = gen_item(rng, blanks)
            k = rng.random()
            if k < 0.1:
                mask = rng.choice(["*", " *", "* ", " * ", "\t*", "", " ", "/", "//", "/ /"])
            elif k < 0.2:
                mask = blank_edge(rng, mask)
            cases.append([1, mask, gen_paths(rng, mask, npaths, blanks)])
    return cases

def random_cases(rng, ncases, npaths):
    """the malformed stream: plain random strings over the property's alphabet (and a little other ASCII)"""
    cases = []
    for _ in range(ncases):
        alpha = ALPHA if rng.random() < 0.85 else ALPHA + "\t\n.-_%\\0\x00\x7f"
        small = rng.choice(["a+*/; ", "aA/ ;*", "ab/+", ALPHA, alpha])
        right = rand_str(rng, small, 0, 12)
        paths = [rand_str(rng, small if rng.random() < 0.8 else alpha, 0, 10) for _ in range(npaths)]
        if rng.random() < 0.75:
            cases.append([0, rng.random() < 0.3, right, paths])
        else:
            cases.append([1, right, paths])
    return cases

def gen_save(rng, admin, push, pull):
    return [admin, rng.choice(["", "pw", "secret"]), push, pull, rng.random() < 0.5]

def history_cases(rng, ncases, npaths):
    """the same user name saved two or three times (auth.Save -> CopyFrom -> init), then asked.
    Scenarios: demote / promote with an empty right, narrow, widen, withdraw, '*' <-> list, plus free mixes.
    The paths are derived from the rights of ALL saves, so what an earlier save granted is asked again."""
    cases = []
    for k in range(ncases):
        blanks = rng.choice([0, 0, 0, 0.15])
        wide = rng.choice(["/a/*", "/rooms/*", "*", "/a/*;/b/*", gen_right(rng, blanks)])
        narrow = rng.choice(["/a/b", "/rooms/+/entrance", "/a/b/c;/b", gen_right(rng, blanks)])
        other = gen_right(rng, blanks)
        kind = k % 9
        if kind == 0:      # demote with empty right: administrator "" -> ordinary ""
            h = [(True, "", ""), (False, "", "")]
        elif kind == 1:    # promote with empty right
            h = [(False, rng.choice(["", narrow]), ""), (True, "", "")]
        elif kind == 2:    # narrow
            h = [(False, wide, wide), (False, narrow, narrow)]
        elif kind == 3:    # widen
            h = [(False, narrow, narrow), (False, wide, rng.choice([wide, narrow]))]
        elif kind == 4:    # withdraw
            h = [(rng.random() < 0.3, wide, narrow), (False, "", rng.choice(["", " ", ";"]))]
        elif kind == 5:    # '*' <-> list, administrator flag flips with non-empty rights
            h = [(True, "*", other), (False, narrow, "*")]
        elif kind == 6:    # demote, one right empty one not; then a third save
            h = [(True, "", narrow), (False, "", narrow), (rng.random() < 0.5, rng.choice(["", other]), "")]
        elif kind == 7:    # promote then demote again
            h = [(False, narrow, ""), (True, "", ""), (False, "", rng.choice(["", narrow]))]
        else:              # free mix of two or three saves
            pool = ["", "", "*", wide, narrow, other, " "]
            h = [(rng.random() < 0.4, rng.choice(pool), rng.choice(pool)) for _ in range(rng.choice([2, 3]))]
        if rng.random() < 0.15:
            h = h[:1] if rng.random() < 0.5 else [h[-1]] + h       # a single save / an extra earlier save
        h = h[:3]
        saves = [gen_save(rng, a, pu, pl) for a, pu, pl in h]
        rights = ";".join(r for _, pu, pl in h for r in (pu, pl)) or "/a"
        paths = gen_paths(rng, rights if rights.strip(" ;*") else "/a/b;/live/x", npaths, blanks)
        paths[:3] = ["/live/a", "/a/b", "/"]
        cases.append([2, saves, paths])
    return cases

def all_strings(alpha, maxlen):
    out = []
    for L in range(maxlen + 1):
        out += ["".join(t) for t in itertools.product(alpha, repeat=L)]
    return out

def exhaustive_cases(rights_alpha, rmax, paths_alpha, pmax, rng, chunk=1200):
    """every right string <= rmax over rights_alpha against every path <= pmax over paths_alpha;
    odd-numbered rights go through the bare matcher as well, the admin flag alternates"""
    rights = all_strings(rights_alpha, rmax)
    paths = all_strings(paths_alpha, pmax)
    cases = []
    for i, r in enumerate(rights):
        for j in range(0, len(paths), chunk):
            ps = paths[j:j + chunk]
            cases.append([0, r == "" or (i % 7 == 0), r, ps])
            if ";" not in r and i % 2:
                cases.append([1, r, ps])
    return cases, len(rights), len(paths)

def has_blank_edge(case):
    """label only: does some pattern segment of the right / mask carry a leading or trailing blank"""
    if case[0] == 2:
        return False
    right = case[2] if case[0] == 0 else case[1]
    right = right if isinstance(right, str) else right.decode("latin-1")
    items = [i.strip() for i in right.split(";")] if case[0] == 0 else [right]
    for it in items:
        if not it:
            continue
        for seg in it.strip("/").split("/"):
            if seg != seg.strip():
                return True
    return False

def sig(c, e, o):
    if o.startswith("(x21"):
        return "matcher-crash"
    if c[0] == 2:
        return "resaved-user-not-as-currently-saved" if len(c[1]) > 1 else "pattern-language"
    return "blank-edged-pattern-segment" if has_blank_edge(c) else "pattern-language"

def npairs(cases):
    return sum(len(c[3]) if c[0] == 0 else len(c[2]) * (2 if c[0] == 2 else 1) for c in cases)

def history_matters(c):
    """a history case is non-trivial when the last save differs from an earlier one in (admin, push, pull)"""
    last = c[1][-1]
    return any((sv[0], sv[2], sv[3]) != (last[0], last[2], last[3]) for sv in c[1][:-1])

def run(ck):
    if not ck.prepare():
        return ck.finish(rule="build failed")
    rng = ck.rng
    pairs = 0
    mixed = set()

    def go(name, cases, classify=True):
        nonlocal pairs
        # non-trivial = the documented language permits some of the case's paths and refuses others
        if classify == "history":
            nt = history_matters
        elif classify:
            spec = vlib.run_driver(ck.prop, "C16_spec", [vlib.vs(c) for c in cases])
            keys = {id(c): ("01" in s and "00" in s[1:]) for c, s in zip(cases, spec)}
            nt = lambda c: keys.get(id(c), False)
        else:
            # exhaustive sweeps (every path <= 6 is asked): non-trivial = the right has at least one non-empty item
            nt = lambda c: any(ch not in " ;" for ch in (c[2] if c[0] == 0 else c[1]))
        ck.stream(name, cases, "C16_run", "C16", "C16_ok", nontrivial=nt, sig=sig, sample=2, timeout=1800)
        pairs += npairs(cases)

    # the documented examples (docs/config.md 3.2.1-3.2.3) and the D31 witness, replayed on the implementation every run
    doc = [
        [0, False, "/a", ["/a", "/a/b"]],
        [0, False, "/a/*", ["/a", "/a/b", "/a/c", "/a/b/c", "/b"]],
        [0, False, "/a/+/c/*", ["a/b/c", "a/d/c", "a/b/c/d", "a/b/c/d/e", "a/c"]],
        [0, False, "/test/*;/rooms/*", ["/test", "/rooms/1/entrance", "/room/1", "/TEST/x"]],
        [0, False, "/rooms/+/entrance", ["/rooms/1/entrance", "/rooms/entrance", "/rooms/1/2/entrance"]],
        [0, True, "", ["/anything", "", "/a/b/c"]],
        [0, False, "", ["/anything", "", "/"]],
        [0, True, " ", ["/anything", "", "/"]],
        [0, False, "/a /b", ["/a /b", "/a/b", "/a/c"]],
        [0, False, "/a/ +/c; /x/ *", ["/a/b/c", "/x", "/x/y/z", "/a/c"]],
        [1, " /a/ ", [" /a/ ", "/a", "//a//"]],
        # the user as currently saved: demote / promote with an empty right, narrow, withdraw (same name saved again)
        [2, [[True, "admin", "", "", True], [False, "", "", "", False]], ["/live/a", "/a", "/", "/a/b/c"]],
        [2, [[False, "p", "", "/a", True], [True, "", "", "", False]], ["/live/a", "/a", "/", "/a/b/c"]],
        [2, [[False, "p", "/a/*", "/a/*", True], [False, "p", "/a/b", "", True]], ["/a", "/a/b", "/a/c", "/a/b/c"]],
        [2, [[True, "p", "", "/x", True], [False, "p", "", "/x", True], [False, "p", "/y", "", False]], ["/x", "/y", "/z"]],
    ]
    go("documented_examples", doc)

    if ck.thorough:
        # exhaustive small scope: rights <= 5, paths <= 6 over reduced alphabets (every pair, no sampling)
        total = 0
        # wildcards and lists | case and blanks | '+' with blanks and lists, literal '+' in paths | literal '*' in paths
        for ra, rp in (("a+*/;", "ab/"), ("aA /*", "aA /"), ("a +;/", "a+/"), ("ab*/;", "a*/")):
            cases, nr, np_ = exhaustive_cases(ra, 5, rp, 6, rng)
            go("exhaustive[%s|%s]" % (ra, rp), cases, classify=False)
            total += nr * np_
        ck.extra["exhaustive_pairs"] = total
        go("structured", structured_cases(rng, 6000, 60))
        go("random_strings", random_cases(rng, 6000, 60))
        go("resave_histories", history_cases(rng, 4000, 60), classify="history")
    else:
        go("structured", structured_cases(rng, 2500, 40))
        go("random_strings", random_cases(rng, 2500, 40))
        go("resave_histories", history_cases(rng, 900, 40), classify="history")
        cases, nr, np_ = exhaustive_cases("a+*/;", 3, "aA/ ", 4, rng)
        go("exhaustive_small", cases)
    ck.extra["pairs"] = pairs
    return ck.finish(
        rule="one case = one right string (via auth.Save/Get/ValidatePermission, as push and as pull right) or one bare "
             "pattern (NewPathMatcher.Match) asked about 40-1200 paths; structured stream: ';'-lists of patterns with "
             "literals, '+', trailing/misplaced '*', blank-edged segments, leading/trailing/doubled slashes, paths derived "
             "from the patterns (wildcards instantiated, case flipped, then a segment dropped/added/changed); malformed "
             "stream: random strings over {letters both cases,+,*,/,;,space} (+ a little other ASCII); exhaustive small "
             "scope (thorough: all rights <=5 x all paths <=6 over four reduced alphabets). Non-trivial = the documented "
             "language permits some and refuses some of the case's paths (exhaustive sweeps: the right has a non-empty item). Evaluations count cases; coverage.pairs counts "
             "(right,path) pairs. Re-save stream: one user name saved two or three times through auth.Save (demote / promote "
             "with an empty right, narrow, widen, withdraw, '*' <-> list, free mixes; admin flag, empty / non-empty / '*' "
             "rights and password presence vary), then 40+ paths derived from the rights of ALL saves are asked for push "
             "and pull; the oracle is the documented language on the LAST save alone; non-trivial there = the last save "
             "differs from an earlier one in (admin, push, pull).",
        trusted=["strings.ToLower/Trim/TrimSpace/Split/IndexRune and unicode.IsSpace are modelled on ASCII bytes only"],
        assumptions=["ASCII right strings and paths (Go lower-cases and trims by rune; the byte model does not cover non-ASCII)",
                     "kinds 0/1 use freshly saved users; kind 2 re-saves one name in an otherwise empty table (other names, "
                     "Del and the provider's Flush are not part of this property)"],
        exhaustive=ck.thorough)
