"""C12 — RTSP session automaton.  Request sequences over the property's method
alphabet are driven through real sessions (rtsp.CreateAcceptHandler on a
loopback socket, plain TCP and ws-rtsp) and through the extracted Coq model;
the specification monitor c12_ok (the function of theorem C12_model_passes) is
applied to what the implementation did."""
import itertools
from vlib import vs, vparse, Broken

HOST = "rtsp://127.0.0.1:554"
OPTIONS, DESCRIBE, ANNOUNCE, SETUP, PLAY, RECORD, TEARDOWN = range(7)
PAUSE, GET_PARAMETER, SET_PARAMETER, REDIRECT, FOOBAR = 7, 8, 9, 10, 11

LIVE_A, LIVE_B, LIVE_N, REC_X = "/live/a", "/live/b", "/live/nomc", "/rec/x"
WATCH = [LIVE_A, LIVE_B, LIVE_N, REC_X, "/"]

# Transport headers: (text, weight).  50000/50001 are replaced by the harness's UDP port.
T_TCP = "RTP/AVP/TCP;unicast;interleaved=0-1"
T_TCP2 = "RTP/AVP/TCP;unicast;interleaved=2-3"
T_TCP_REC = "RTP/AVP/TCP;unicast;interleaved=0-1;mode=record"
T_TCP_REC2 = "RTP/AVP/TCP;unicast;interleaved=2-3;mode=record"
T_UDP = "RTP/AVP;unicast;client_port=50000-50001"
T_UDP_REC = "RTP/AVP/UDP;unicast;client_port=50000-50001;mode=record"
T_MC = "RTP/AVP;multicast"
T_MC2 = "RTP/AVP/UDP;multicast;ttl=4"
GOOD_T = [T_TCP, T_TCP, T_TCP2, T_TCP_REC, T_TCP_REC, T_TCP_REC2, T_UDP, T_UDP, T_UDP_REC, T_MC, T_MC2,
          "RTP/AVP/TCP;interleaved=0-1;mode=play", "RTP/AVP/TCP ; unicast ; interleaved = 4-5 ; mode = \"record\"",
          "RTP/AVP/TCP;unicast;interleaved=0;append", "RTP/AVP;unicast;client_port=50000",
          "RTP/AVP/TCP;unicast;interleaved=0-1;mode=receive", "RTP/AVP/TCP;interleaved=+0-1"]
BAD_T = ["", "RTP/AVP/TCP", "RTP/AVP", "RTP/AVP/TCPX;unicast;interleaved=0-1", "rtp/avp/tcp;unicast;interleaved=0-1",
         "RTP/AVP/TCP;multicast", "RTP/AVP/TCP;unicast;interleaved=a-b", "RTP/AVP/TCP;unicast;interleaved=-1",
         "RTP/AVP/TCP;unicast;interleaved=", "RTP/AVP;unicast;client_port=x", "RTP/AVP;unicast;client_port=-5",
         "RTP/AVP;unicast;client_port=50000-50001;server_port=zz", "RTP/AVP;multicast;port=q",
         "RTP/AVP/TCP;interleaved=99999999999999999999-1", "RTP/AVP/TCP;interleaved=9223372036854775807",
         "RTP/AVP/TCP;interleaved=9223372036854775808", ";RTP/AVP/TCP;interleaved=0-1", "RAW/RAW/UDP;unicast",
         "RTP/AVP/UDP;unicast;client_port=50000-50001;interleaved=x", "RTP/AVP/TCP;unicast;interleaved=0-1;port=",
         "RTP/AVP/TCP;unicast;interleaved=0 1"]

# well-formed parameters that may follow a malformed one: the fault must survive them (order independence)
VALID_TAIL = [";ttl=16", ";destination=1.2.3.4", ";mode=play", ";mode=record", ";source=10.0.0.1", ";ssrc=1234", ";append",
              ";ttl=16;destination=1.2.3.4;mode=play", ";client_port=50000-50001", ";interleaved=0-1", ";port=5000-5001",
              ";server_port=6000-6001", ";unicast", ";ttl=127;source=h", ";ttl=1", ";mode=play;ttl=64", ";destination=h;ttl=2"]
FAULTY = [t for t in BAD_T if ";" in t and t.split(";")[0].strip() in ("RTP/AVP/TCP", "RTP/AVP", "RTP/AVP/UDP")]


def bad_with_tail(rng):
    return rng.choice(FAULTY) + rng.choice(VALID_TAIL) + (rng.choice(VALID_TAIL) if rng.random() < 0.3 else "")


CTLS = ["streamid=0", "streamid=1", "streamid=0", "streamid=1", "trk", "streamid=9", "", "x/streamid=0"]


def url_of(path, ctl=None):
    p = path if ctl is None else (path.rstrip("/") + "/" + ctl)
    return HOST + p, p


def req(meth, cseq, path, ctl=None, transport="", ctype=True, sdp=0):
    u, p = url_of(path, ctl)
    return [meth, str(cseq), u, p, transport, ctype, sdp]


class Gen:
    """structured generator: follows the legal flows most of the time, deviates everywhere"""
    def __init__(self, rng):
        self.rng = rng

    def env(self):
        r = self.rng
        e = []
        if r.random() < 0.85:
            e.append([LIVE_A, r.choice([1, 1, 1, 2, 3, 5, 8, 6]), True])
        if r.random() < 0.4:
            e.append([LIVE_N, r.choice([1, 1, 2, 7, 4, 0]), False])
        if r.random() < 0.25:
            e.append([LIVE_B, r.choice([1, 3, 5, 2]), r.random() < 0.5])
        if r.random() < 0.1:
            e.append([REC_X, 1, r.random() < 0.5])
        return e

    def cseq(self, i):
        r = self.rng
        k = r.random()
        if k < 0.85:
            return str(i + 1)
        if k < 0.9:
            return ""
        return r.choice(["0", "7", "abc", "4294967296", "1 2", "-3"])

    def path(self, play):
        r = self.rng
        if play:
            return r.choice([LIVE_A] * 6 + [LIVE_N, LIVE_N, LIVE_B, "/live/none", "/LIVE/A", "/live/../live/a", "/"])
        return r.choice([REC_X] * 5 + [LIVE_A, "/rec/y/", "/Rec/X", LIVE_N])

    def transport(self, want_record):
        r = self.rng
        k = r.random()
        if k < 0.55:
            return r.choice([T_TCP_REC, T_TCP_REC, T_TCP_REC2] if want_record else [T_TCP, T_TCP2, T_UDP, T_MC, T_TCP, T_UDP])
        if k < 0.8:
            return r.choice(GOOD_T)
        if k < 0.9:
            return r.choice(BAD_T)
        return bad_with_tail(r)

    def good_ctl(self, sdp):
        return self.rng.choice({1: ["streamid=0", "streamid=1"], 2: ["streamid=0"], 3: ["streamid=1"],
                                5: ["streamid=0", "streamid=1"], 6: ["streamid=1"], 8: ["trk"]}.get(sdp, ["streamid=0"]))

    def one(self, i, meth, flow_path, want_record, sdp, p_ok, contrary=False):
        """one request; with probability p_ok every parameter is the one the flow needs"""
        r = self.rng
        cs = self.cseq(i)
        ok = lambda: r.random() < p_ok
        if meth == DESCRIBE:
            return req(DESCRIBE, cs, flow_path if ok() else self.path(True))
        if meth == ANNOUNCE:
            return req(ANNOUNCE, cs, flow_path if ok() else self.path(False),
                       ctype=ok() or r.random() < 0.5, sdp=sdp if ok() else r.choice([1, 2, 3, 5, 6, 8, 7, 4, 0]))
        if meth == SETUP:
            if contrary:
                # a SETUP that is refused (or changes the transport) after the session is ready
                t = r.choice([T_UDP_REC, T_MC + ";mode=record", T_TCP, T_MC, "RTP/AVP;unicast;client_port=x;mode=record",
                              "RTP/AVP/UDP;unicast;client_port=50000-50001;mode=record", T_TCP_REC, T_MC2,
                              "RTP/AVP;unicast;client_port=q", bad_with_tail(r), bad_with_tail(r)])
                return req(SETUP, cs, flow_path, ctl=self.good_ctl(sdp), transport=t)
            if r.random() < 0.1:
                # everything right but the Transport header: a malformed parameter followed by well-formed ones
                return req(SETUP, cs, flow_path, ctl=self.good_ctl(sdp), transport=bad_with_tail(r))
            if ok():
                t = r.choice([T_TCP_REC, T_TCP_REC, T_TCP_REC2] if want_record else [T_TCP, T_TCP2, T_UDP, T_MC, T_TCP, T_UDP])
            else:
                t = self.transport(want_record)
            return req(SETUP, cs, flow_path if ok() else self.path(not want_record),
                       ctl=self.good_ctl(sdp) if ok() else r.choice(CTLS), transport=t)
        return req(meth, cs, flow_path if ok() else self.path(True))

    def case(self, maxlen):
        r = self.rng
        env = self.env()
        ws = r.random() < 0.25
        n = r.randint(1, maxlen)
        style = r.random()
        want_record = r.random() < 0.4
        p_ok = r.choice([1.0, 0.9, 0.9, 0.7])
        if want_record or not env:
            flow_path = self.path(not want_record)
            sdp = r.choice([1, 1, 2, 3, 5, 6, 8])
        else:
            flow_path, sdp, _ = r.choice(env)
        for e in env:
            if e[0] == flow_path and not want_record:
                sdp = e[1]
        wspath = (flow_path if r.random() < 0.7 else r.choice([LIVE_A, LIVE_N, "/live/none", "/LIVE/a"])) if ws else ""
        flow = ([ANNOUNCE, SETUP, SETUP, RECORD, RECORD] if want_record else [DESCRIBE, SETUP, SETUP, PLAY, PLAY])
        contrary_at = 2 if r.random() < 0.3 else -1
        if contrary_at < 0 and r.random() < 0.5:
            del flow[2]
        if r.random() < 0.6:
            del flow[-1]
        reqs = []
        fi = 0
        for i in range(n):
            k = r.random()
            contrary = False
            if style < 0.8 and k < 0.75 and fi < len(flow):
                m = flow[fi]
                contrary = fi == contrary_at
                fi += 1
            elif k < 0.94:
                m = r.choice([OPTIONS, DESCRIBE, ANNOUNCE, SETUP, SETUP, PLAY, PLAY, RECORD, RECORD, PAUSE,
                              GET_PARAMETER, FOOBAR, SET_PARAMETER, REDIRECT])
            else:
                m = TEARDOWN
            if 0.8 <= style < 0.9 and r.random() < 0.3:
                want_record = not want_record   # mixed flows: describe then announce etc.
            reqs.append(self.one(i, m, flow_path, want_record, sdp, p_ok, contrary))
        for q in reqs:      # request lines just below the 16 KiB line limit (a long query token)
            if r.random() < 0.04:
                q[2] += "?t=" + "a" * r.choice([4090, 4096, 8200, 12000, 15000])
        return [ws, wspath, env, WATCH, reqs]


def exhaustive(depth, core=False, mcast=False):
    """every sequence of length <= depth over a reduced alphabet, tcp"""
    alpha = [
        req(OPTIONS, 1, LIVE_A),
        req(DESCRIBE, 1, LIVE_A),
        req(ANNOUNCE, 1, REC_X, sdp=1),
        req(SETUP, 1, LIVE_A, ctl="streamid=0", transport=T_TCP),
        req(SETUP, 1, LIVE_A, ctl="streamid=1", transport=T_MC),
        req(SETUP, 1, REC_X, ctl="streamid=0", transport=T_TCP_REC),
        req(SETUP, 1, REC_X, ctl="streamid=0", transport=T_UDP_REC),
        req(SETUP, 1, LIVE_A, ctl="streamid=0", transport="RTP/AVP/TCP;unicast;interleaved=x;ttl=16"),
        req(PLAY, 1, LIVE_A),
        req(RECORD, 1, REC_X),
        req(PAUSE, 1, LIVE_A),
        req(TEARDOWN, 1, LIVE_A),
    ]
    if core:   # the 8 letters that move the automaton
        alpha = [a for a in alpha if a[0] in (DESCRIBE, ANNOUNCE, PLAY, RECORD, TEARDOWN)
                 or (a[0] == SETUP and a[4] in (T_TCP, T_MC, T_TCP_REC))]
    envs = [[[LIVE_A, 1, mcast]]]
    out = []
    for e in envs:
        for L in range(1, depth + 1):
            for t in itertools.product(range(len(alpha)), repeat=L):
                # nothing is answered after TEARDOWN: keep only sequences where it comes last
                if any(alpha[i][0] == TEARDOWN for i in t[:-1]):
                    continue
                reqs = []
                for n, i in enumerate(t):
                    q = list(alpha[i])
                    q[1] = str(n + 1)
                    reqs.append(q)
                out.append([False, "", e, [LIVE_A, REC_X], reqs])
    return out


def nontrivial(c):
    ms = [q[0] for q in c[4]]
    return len(ms) >= 3 and SETUP in ms and (PLAY in ms or RECORD in ms)


def sig(c, e, o):
    """signature of a failing case: the first step at which the monitor's demand fails, coarsely"""
    try:
        obs = vparse(o)
        if obs and isinstance(obs[0], bytes):
            return "harness-" + obs[0].decode()
        for q, st in zip(c[4], obs[0]):
            resps = st[0]
            name = {OPTIONS: "OPTIONS", DESCRIBE: "DESCRIBE", ANNOUNCE: "ANNOUNCE", SETUP: "SETUP", PLAY: "PLAY",
                    RECORD: "RECORD", TEARDOWN: "TEARDOWN"}.get(q[0], "OTHER")
            if len(resps) != 1 and not st[1]:
                return "%s-got-%d-responses" % (name, len(resps))
    except Exception:
        pass
    return "session-automaton"


def project(s):
    v = vparse(s)
    return vs(v[:2]) if isinstance(v, list) and len(v) >= 2 and isinstance(v[0], list) else s


def run(ck):
    if not ck.prepare():
        return ck.finish(rule="build failed")
    rng = ck.rng
    g = Gen(rng)

    # 1. the SDP table and the transport parser of the model against the real functions
    ck.stream("sdp_table", list(range(0, 10)), "C12_sdp", "sdp", None, sig=lambda c, e, o: "sdp-table", sample=1)
    tcases = []
    for t in GOOD_T + BAD_T:
        for m0 in (0, 1, 2):
            for ty in (0, 1, 3):
                tcases.append([m0, ty, t, rng.choice([0, 2])])
    toks = ["unicast", "multicast", "append", "mode=record", "mode=play", "mode=", "interleaved=0-1", "interleaved=1",
            "interleaved=-", "interleaved=a", "client_port=5-6", "client_port=", "server_port=7", "server_port=q-1",
            "port=1-2", "port=x", "ttl=3", "destination=1.2.3.4", "source=h", " unicast ", "mode = record",
            "mode=\"record\"", "", "x=y=z", "interleaved=\"3-4\"", "interleaved= 5 - 6", "Mode=record"]
    for t in FAULTY + GOOD_T:
        for tail in VALID_TAIL:
            tcases.append([rng.choice([0, 1, 2]), rng.choice([0, 1, 3]), t + tail, rng.choice([0, 2])])
    for _ in range(4000 if ck.thorough else 600):
        spec = rng.choice(["RTP/AVP/TCP", "RTP/AVP", "RTP/AVP/UDP", " RTP/AVP/TCP ", "RTP/AVP/tcp", "RTP", ""])
        t = spec + "".join(";" + rng.choice(toks) for _ in range(rng.randint(0, 5)))
        tcases.append([rng.choice([0, 1, 2]), rng.choice([0, 1, 2, 3]), t, rng.choice([0, 2])])
    ck.stream("parse_transport", tcases, "C12_transport", "transport", "C12_transport_ok",
              nontrivial=lambda c: ";" in c[2], sig=lambda c, e, o: "parse-transport-verdict", sample=2)

    # 2. request sequences through real sessions
    n = 15000 if ck.thorough else 400
    cases = [g.case(16 if ck.thorough else 12) for _ in range(n)]
    obs = ck.stream("sessions", cases, "C12_run", "C12", "C12_ok", nontrivial=nontrivial, sig=sig, project=project,
                    timeout=1500)
    # non-vacuity of the observations: sessions do reach playing / recording, and media does reach playing clients
    playing = recording = media = 0
    for o in obs:
        try:
            v = vparse(o)
            steps = v[0]
            if not isinstance(steps, list):
                continue
            playing += any(any(r[1] > 0 for r in st[2]) for st in steps)
            recording += any(any(r[0] == 2 for r in st[2]) for st in steps)
            media += any(v[2])
        except Exception:
            pass
    ck.extra.update({"sessions_playing": playing, "sessions_recording": recording, "sessions_with_media": media})
    if obs and (playing < 10 or recording < 10 or media < 5):
        ck.broken.append(Broken("C12 observations are vacuous (playing=%d recording=%d media=%d): the harness no "
                                "longer exercises PLAY/RECORD or no longer sees media" % (playing, recording, media)))

    # 3. exhaustive over a reduced alphabet
    ex = exhaustive(4 if ck.thorough else 3)
    if ck.thorough:
        ex += exhaustive(4, mcast=True) + exhaustive(5, core=True)
    ck.stream("exhaustive", ex, "C12_run", "C12", "C12_ok", nontrivial=nontrivial, sig=sig, project=project,
              timeout=2400, sample=1)

    # 4. WSP: the same property on wrapped requests (defined at the end of this file)
    wsp_streams(ck)
    multi_sessions(ck)
    effects_stream(ck)
    timeout_stream(ck)
    wsp_long_message_witness(ck)

    return ck.finish(
        rule="(a) random request sequences of length 1..12 (thorough 1..16) biased along the DESCRIBE/SETUP/PLAY and ANNOUNCE/SETUP/RECORD "
             "flows with deviations at every position (all methods of the alphabet incl. PAUSE/GET_PARAMETER/unknown, valid and "
             "malformed Transport headers: tcp/udp/multicast x play/record, existing/missing/non-multicastable paths, 9 SDP "
             "bodies incl. unparsable ones), 25% as ws-rtsp, against 0-4 pre-published streams (published by real RECORD "
             "sessions or media.Regist); (b) every sequence of length <= 3 (thorough: 4) over a 12-letter alphabet; "
             "(c) the model's ParseTransport and SDP table against the real functions; (d) WSP (stream wsp-sessions): random WSP message "
             "sequences of length 1..12 (thorough 1..16) on a websocket control channel of the production HTTP handler — INIT (sometimes missing, "
             "doubled or preceded by GET_INFO), WRAP carrying the DESCRIBE/SETUP/PLAY/PAUSE/PLAY flow with deviations at every position (all methods "
             "incl. RECORD/ANNOUNCE/GET_PARAMETER/unknown, valid and malformed transports, tcp/udp/multicast/record, wrong controls and paths), "
             "SWITCH, JOIN on the control channel, data-channel JOIN with the own or a foreign channel id at a random position or never, TEARDOWN; "
             "plus every sequence of length <= 3 (thorough: 4) over 9 letters after INIT and over 7 letters after INIT, JOIN, DESCRIBE, SETUP. "
             "non-trivial = >=3 requests with a SETUP and a PLAY or RECORD (WSP: >=4 messages with a wrapped SETUP and PLAY)",
        trusted=["the SDP parser and url.Parse are oracles: the model's SDP table (9 texts) is compared with parseSdp+getControlPath every run",
                 "net/url round trip of generated request URIs (checked by the harness per request)",
                 "a sentinel OPTIONS after every request delimits that request's responses; OPTIONS is state-free in the model (theorem) and in onPreprocess",
                 "WSP: gorilla websocket client, net/http upgrade and httptest server; before INIT (no state-free request exists) and on data channels "
                 "(one request only) a missing answer is seen by a bounded wait; 'no media' while a consumer is attached is a 15 ms silence after "
                 "publishing a packet (everything else is delimited by answers)"],
        assumptions=["authentication off (config default)", "ASCII Transport headers without leading/trailing blanks",
                     "requests are syntactically well-formed RTSP (malformed framing is outside this property)",
                     "net.ListenUDP succeeds when a UDP PLAY starts"])


# ---------------------------------------------------------------------------------------------
# WSP (service/wsp): RTSP requests wrapped in WSP messages on a websocket control channel,
# media on a joined data channel.  Model: coq/Model/C12Wsp.v, oracle c12w_ok
# (theorem C12_wsp_model_passes), harness package harness/c12wsp (command C12_wsp).
W_INIT, W_GETINFO, W_SWITCH, W_WRAP, W_CTLJOIN, W_JOIN, W_JOINX = range(7)
W_WATCH = [LIVE_A, LIVE_B, LIVE_N, "/"]


def wmsg(cmd, seq):
    return [cmd, str(seq), 0, "", "", ""]


def wwrap(seq, meth, cseq, path, ctl=None, transport=""):
    u, _ = url_of(path, ctl)
    return [W_WRAP, str(seq), meth, str(cseq), u, transport]


class WGen:
    """WSP sessions: INIT, a data channel JOIN somewhere, the DESCRIBE/SETUP/PLAY/PAUSE flow with
    deviations at every position, protocol violations now and then"""
    def __init__(self, rng):
        self.rng = rng
        self.g = Gen(rng)

    def env(self):
        r = self.rng
        e = []
        if r.random() < 0.9:
            e.append([LIVE_A, r.choice([1, 1, 1, 1, 2, 5, 8, 3, 6, 7, 4, 0]), False])
        if r.random() < 0.3:
            e.append([LIVE_N, r.choice([1, 2, 8, 7, 4]), False])
        if r.random() < 0.2:
            e.append([LIVE_B, r.choice([1, 3, 5, 2]), False])
        return e

    def seq(self, i):
        r = self.rng
        k = r.random()
        if k < 0.85:
            return str(i + 1)
        if k < 0.9:
            return ""
        return r.choice(["0", "7", "abc", "4294967296", "1 2", "-3", "s-1"])

    def setup(self, i, path, sdp, p_ok):
        r = self.rng
        g = self.g
        ok = lambda: r.random() < p_ok
        if ok():
            t = r.choice([T_TCP, T_TCP, T_TCP2, "RTP/AVP/TCP;unicast;interleaved=0-1;mode=play"])
        else:
            t = r.choice([T_UDP, T_MC, T_TCP_REC, T_UDP_REC, "RTP/AVP/TCP;unicast", "RTP/AVP/TCP;unicast;interleaved=300-301",
                          "RTP/AVP/TCP;unicast;interleaved=255", "RTP/AVP/TCP;unicast;interleaved=x"] + GOOD_T + BAD_T +
                         [bad_with_tail(r) for _ in range(12)])
        if r.random() < 0.15:
            return wwrap(self.seq(i), SETUP, g.cseq(i), path, ctl=g.good_ctl(sdp), transport=bad_with_tail(r))
        return wwrap(self.seq(i), SETUP, g.cseq(i), path if ok() else g.path(True),
                     ctl=g.good_ctl(sdp) if ok() else r.choice(CTLS), transport=t)

    def case(self, maxlen):
        r = self.rng
        g = self.g
        env = self.env()
        if env and r.random() < 0.85:
            wspath, sdp, _ = r.choice(env)
        else:
            wspath, sdp = r.choice([LIVE_A, LIVE_N, "/live/none", "/LIVE/A"]), 1
        upath = wspath.lower()
        n = r.randint(1, maxlen)
        p_ok = r.choice([1.0, 0.9, 0.9, 0.7])
        flow = [DESCRIBE, SETUP, SETUP, PLAY, PAUSE, PLAY, PAUSE, PLAY]
        if r.random() < 0.5:
            del flow[2]
        cut = r.choice([4, 5, 6, 8, 8])
        flow = flow[:cut]
        style = r.random()
        join_at = r.choice([1, 1, 1, 2, 3, 4, 5, 6, -1])      # position of the data channel JOIN
        reqs = []
        k0 = r.random()
        if k0 < 0.08:
            reqs.append(wmsg(W_GETINFO, self.seq(0)))
        if k0 < 0.93:
            reqs.append(wmsg(W_INIT, self.seq(len(reqs))))
        fi = 0
        while len(reqs) < n + 1:
            i = len(reqs)
            k = r.random()
            if i == join_at or k < 0.04:
                reqs.append(wmsg(W_JOIN if r.random() < 0.85 else W_JOINX, self.seq(i)))
                continue
            if k < 0.07:
                reqs.append(wmsg(r.choice([W_INIT, W_GETINFO, W_CTLJOIN, W_SWITCH, W_SWITCH, W_SWITCH]), self.seq(i)))
                continue
            if style < 0.8 and k < 0.8 and fi < len(flow):
                m = flow[fi]
                fi += 1
            elif k < 0.96:
                m = r.choice([OPTIONS, DESCRIBE, SETUP, SETUP, PLAY, PLAY, PAUSE, PAUSE, PAUSE, RECORD, ANNOUNCE,
                              GET_PARAMETER, FOOBAR, SET_PARAMETER])
            else:
                m = TEARDOWN
            if m == SETUP:
                reqs.append(self.setup(i, upath, sdp, p_ok))
            else:
                reqs.append(wwrap(self.seq(i), m, g.cseq(i), upath if r.random() < p_ok else g.path(True)))
        for q in reqs:      # long wrapped request lines, below and above gorilla's 4096-byte read buffer and the
            if q[0] == W_WRAP and r.random() < 0.1:     # 8 KiB pooled buffer of DecodeRequest (see design/C12.md, C12-r8)
                q[4] += "?t=" + "a" * r.choice([1000, 2500, 3500, 3800, 3990, 4100, 5000, 8100, 8300, 12000])
        return [wspath, env, W_WATCH, reqs]


def wsp_exhaustive(depth, prefix_ready):
    """every sequence of length <= depth over a reduced alphabet, after INIT (+ JOIN, DESCRIBE, SETUP)"""
    alpha = [
        wwrap(1, OPTIONS, 1, LIVE_A),
        wwrap(1, DESCRIBE, 1, LIVE_A),
        wwrap(1, SETUP, 1, LIVE_A, ctl="streamid=0", transport=T_TCP),
        wwrap(1, SETUP, 1, LIVE_A, ctl="streamid=1", transport=T_UDP),
        wwrap(1, PLAY, 1, LIVE_A),
        wwrap(1, PAUSE, 1, LIVE_A),
        wwrap(1, GET_PARAMETER, 1, LIVE_A),
        wwrap(1, TEARDOWN, 1, LIVE_A),
        wmsg(W_JOIN, 1),
    ]
    prefix = [wmsg(W_INIT, 1)]
    if prefix_ready:
        prefix += [wmsg(W_JOIN, 1), alpha[1], alpha[2]]
        alpha = [a for a in alpha if a[0] == W_WRAP and a[2] != GET_PARAMETER]
    out = []
    for L in range(1, depth + 1):
        for t in itertools.product(range(len(alpha)), repeat=L):
            # nothing is answered after TEARDOWN: keep only sequences where it comes last
            if any(alpha[i][0] == W_WRAP and alpha[i][2] == TEARDOWN for i in t[:-1]):
                continue
            reqs = []
            for n, a in enumerate(prefix + [alpha[i] for i in t]):
                q = list(a)
                q[1] = str(n + 1)
                if q[0] == W_WRAP:
                    q[3] = str(n + 1)
                reqs.append(q)
            out.append([LIVE_A, [[LIVE_A, 1, False]], [LIVE_A], reqs])
    return out


def wsp_nontrivial(c):
    ms = [q[2] for q in c[3] if q[0] == W_WRAP]
    return len(c[3]) >= 4 and SETUP in ms and PLAY in ms


def wsp_sig(c, e, o):
    try:
        obs = vparse(o)
        if obs and isinstance(obs[0], bytes):
            return "wsp-harness-" + obs[0].decode()
        est = False
        for q, st in zip(c[3], obs[0]):
            resps = st[0]
            if q[0] == W_WRAP and est and not st[1] and len(resps) != 1:
                name = {OPTIONS: "OPTIONS", DESCRIBE: "DESCRIBE", SETUP: "SETUP", PLAY: "PLAY", PAUSE: "PAUSE",
                        TEARDOWN: "TEARDOWN"}.get(q[2], "OTHER")
                return "wsp-%s-got-%d-responses" % (name, len(resps))
            if q[0] == W_INIT and len(resps) == 1 and resps[0][0] == 200:
                est = True
    except Exception:
        pass
    return "wsp-session-automaton"


def wsp_streams(ck):
    g = WGen(ck.rng)
    # the interleaved channel ParseTransport leaves for a track: model parse_channel against the real function
    rng = ck.rng
    ctoks = ["unicast", "multicast", "append", "mode=play", "interleaved=0-1", "interleaved=2-3", "interleaved=1", "interleaved=-",
             "interleaved=a", "interleaved=7-x", "interleaved=255-256", "interleaved=256-257", "interleaved= 5 - 6", "interleaved=\"3-4\"",
             "interleaved=+4-5", "interleaved=-1-2", "interleaved=", "interleaved=99999999999999999999-1", "Interleaved=9-10",
             "client_port=5-6", "ttl=3", "", "x=y=z", "interleaved=0-1=2"]
    ccases = [[c0, t, a] for t in GOOD_T + BAD_T + ["RTP/AVP/TCP;unicast"] for c0 in (-1, 4) for a in (0, 1)]
    for _ in range(2000 if ck.thorough else 400):
        spec = rng.choice(["RTP/AVP/TCP", "RTP/AVP/TCP", "RTP/AVP", "RTP/AVP/UDP", " RTP/AVP/TCP ", "RTP/AVP/tcp", "RTP", ""])
        t = spec + "".join(";" + rng.choice(ctoks) for _ in range(rng.randint(0, 4)))
        ccases.append([rng.choice([-1, -1, 0, 6]), t, rng.choice([0, 1])])
    ck.stream("wsp-channels", ccases, "C12_wsp_channel", "C12_wsp_channel", None,
              nontrivial=lambda c: "interleaved" in c[1], sig=lambda c, e, o: "wsp-parse-channel", sample=2)
    n = 6000 if ck.thorough else 300
    cases = [g.case(16 if ck.thorough else 12) for _ in range(n)]
    ex = wsp_exhaustive(4 if ck.thorough else 3, False) + wsp_exhaustive(4 if ck.thorough else 3, True)
    obs = ck.stream("wsp-sessions", cases + ex, "C12_wsp_run", "C12_wsp", "C12_wsp_ok", nontrivial=wsp_nontrivial,
                    sig=wsp_sig, timeout=2400)
    playing = media = paused = 0
    for c, o in zip(cases + ex, obs):
        try:
            v = vparse(o)
            steps = v[0]
            if not isinstance(steps, list):
                continue
            playing += any(any(r[1] > 0 for r in st[2]) for st in steps)
            media += any(st[3] for st in steps)
            # a step in which the session consumes, a data channel is joined, and nothing arrives: paused
            paused += any(any(r[1] > 0 for r in st[2]) and not st[3] for st in steps) and any(st[3] for st in steps)
        except Exception:
            pass
    ck.extra.update({"wsp_sessions_playing": playing, "wsp_sessions_with_media": media,
                     "wsp_sessions_media_and_silence": paused})
    if obs and (playing < 10 or media < 10 or paused < 5):
        ck.broken.append(Broken("C12 WSP observations are vacuous (playing=%d media=%d paused=%d): the harness no "
                                "longer exercises PLAY/PAUSE or no longer sees media" % (playing, media, paused)))


# ---------------------------------------------------------------- several sessions at once
def gen_multi(rng):
    k = rng.choice([2, 2, 3])
    sess = [[False, ""]] + [[True, LIVE_A] if rng.random() < 0.3 else [False, ""] for _ in range(k - 1)]
    env = [[LIVE_A, 1, False]]
    lists = []
    for i in range(k):
        n = rng.randint(2, 6)
        flow = [OPTIONS, DESCRIBE, SETUP, PLAY, OPTIONS, PLAY, GET_PARAMETER, DESCRIBE, OPTIONS]
        if rng.random() < 0.5:
            flow = flow[1:]
        qs = []
        for j in range(n):
            m = flow[j] if rng.random() < 0.75 and j < len(flow) else rng.choice([OPTIONS, DESCRIBE, SETUP, PLAY, PAUSE, OPTIONS])
            cs = str(1000 * (i + 1) + j)
            if m == SETUP:
                t = rng.choice([T_TCP, T_TCP2, T_UDP, "RTP/AVP/TCP;unicast;interleaved=x", T_MC])
                qs.append(req(SETUP, cs, LIVE_A, ctl=rng.choice(["streamid=0", "streamid=1"]), transport=t))
            else:
                qs.append(req(m, cs, LIVE_A if rng.random() < 0.9 else "/live/none"))
        lists.append(qs)
    # a random interleaving that keeps every session's own order
    pos = [0] * k
    hist, nth = [], []
    while any(pos[i] < len(lists[i]) for i in range(k)):
        i = rng.choice([i for i in range(k) if pos[i] < len(lists[i])])
        hist.append([i, lists[i][pos[i]]])
        nth.append(pos[i])
        pos[i] += 1
    # stop some responses of plain-TCP sessions after a few pieces; early requests of a connection still
    # have flush tokens, so every header piece is a socket write of its own
    cand = [j for j, (h, n) in enumerate(zip(hist, nth)) if not sess[h[0]][0] and n <= 1 and j < len(hist) - 1]
    rng.shuffle(cand)
    parks = [[j, rng.randint(1, 14)] for j in sorted(cand[:rng.randint(1, 3)])]
    return [env, sess, hist, parks]


def multi_sessions(ck):
    rng = ck.rng
    n = 1500 if ck.thorough else 70
    cases = [gen_multi(rng) for _ in range(n)]
    obs = ck.stream("multi-sessions", cases, None, "C12_multi", "C12_multi_ok", compare=False,
                    nontrivial=lambda c: len(c[1]) >= 2 and len(c[3]) >= 1, sig=lambda c, e, o: "sessions-interfere",
                    timeout=1500)
    stopped = 0
    for o in obs:
        try:
            v = vparse(o)
            stopped += isinstance(v[0], list) and v[1] == b""
        except Exception:
            pass
    ck.extra["multi_sessions_stopped_midway"] = stopped
    if obs and stopped < len(cases) // 2:
        ck.broken.append(Broken("C12 multi-sessions: a response was stopped mid-way in only %d of %d cases" % (stopped, len(cases))))


# ---------------------------------------------------------------- the session's effects on the registry
def gen_effects(rng):
    """publishing (and playing) flows with every request repeated at every state, consumers attached to the
    published stream as soon as it appears (recording consumers and a real RTSP player), then TEARDOWN or
    a plain disconnect"""
    ws = rng.random() < 0.25
    publish = rng.random() < 0.8
    path = REC_X if publish else LIVE_A
    wspath = path if ws else ""
    if publish:
        base = [("A", ANNOUNCE), ("S", SETUP), ("R", RECORD)]
    else:
        base = [("D", DESCRIBE), ("S", SETUP), ("P", PLAY)]
    def mk(m, i):
        cs = str(i + 1)
        if m == ANNOUNCE:
            return req(ANNOUNCE, cs, path, sdp=1)
        if m == SETUP:
            return req(SETUP, cs, path, ctl="streamid=0", transport=T_TCP_REC if publish else T_TCP)
        return req(m, cs, path)
    reqs = []
    extras = [RECORD, RECORD, PLAY, ANNOUNCE, SETUP, DESCRIBE, OPTIONS, GET_PARAMETER]
    for _, m in base:
        for _ in range(rng.choice([0, 0, 1, 2])):
            reqs.append(mk(rng.choice(extras), len(reqs)))
        reqs.append(mk(m, len(reqs)))
    for _ in range(rng.choice([1, 2, 3, 4])):      # repeated requests in the final state
        reqs.append(mk(rng.choice(extras), len(reqs)))
    if rng.random() < 0.4:
        reqs.append(mk(TEARDOWN, len(reqs)))
    env = [[LIVE_A, 1, False]] if (not publish or rng.random() < 0.5) else []
    if rng.random() < 0.15:
        env.append([REC_X, 1, False])       # the path is already published by somebody else: RECORD replaces it
    return [ws, wspath, env, WATCH, reqs, [rng.choice([0, 1, 1, 2]), rng.random() < 0.5]]


def effects_stream(ck):
    rng = ck.rng
    n = 1200 if ck.thorough else 70
    cases = [gen_effects(rng) for _ in range(n)]
    obs = ck.stream("publisher-effects", cases, None, "C12", "C12_effects_ok", compare=False,
                    nontrivial=lambda c: sum(1 for q in c[4] if q[0] == RECORD) >= 2, sig=lambda c, e, o: "session-effects",
                    timeout=1500)
    created = 0
    for o in obs:
        try:
            v = vparse(o)
            created += v[3][1][2] > 0
        except Exception:
            pass
    ck.extra["publisher_effects_with_consumers"] = created
    if obs and created < len(cases) // 4:
        ck.broken.append(Broken("C12 publisher-effects: consumers were attached to a published stream in only %d of %d cases" % (created, len(cases))))


# ---------------------------------------------------------------- the read deadline
TMO = 400   # ms: config.NetTimeout for this stream

def gen_timeout(rng):
    """requests and waits of 2-3 time-outs.  While the flow has not reached a successful PLAY the session is
    idle and a wait must end it (the harness keeps listening for the close with a generous patience); after
    the PLAY the session must survive every wait and still answer"""
    env = [[LIVE_A, 1, False]]
    evs = []
    n = 0
    def rq(m, **kw):
        nonlocal n
        n += 1
        return [0, req(m, n, LIVE_A, **kw)]
    big = lambda: rng.choice([2, 2.5, 3]) * TMO
    kind = rng.random()
    if kind < 0.55:      # a playing session survives
        flow = [rq(DESCRIBE), rq(SETUP, ctl="streamid=0", transport=rng.choice([T_TCP, T_UDP])), rq(PLAY)]
        if rng.random() < 0.3:
            flow.insert(0, rq(OPTIONS))
        evs += flow
        for _ in range(rng.randint(1, 2)):
            evs.append([1, int(big()), 0])
            evs.append(rq(rng.choice([OPTIONS, PLAY, GET_PARAMETER])))
        if rng.random() < 0.5:
            evs.append(rq(TEARDOWN))
    else:                # an idle session (init / ready / recording) is dropped
        flow = rng.choice([[], [rq(OPTIONS)], [rq(DESCRIBE)], [rq(DESCRIBE), rq(SETUP, ctl="streamid=0", transport=T_TCP)],
                           [rq(DESCRIBE), rq(SETUP, ctl="streamid=0", transport=T_TCP), rq(PLAY), rq(TEARDOWN)]])
        evs += flow
        evs.append([1, int(big()), 4000])
        evs.append(rq(OPTIONS))
    return [env, TMO, evs]


def timeout_stream(ck):
    rng = ck.rng
    n = 200 if ck.thorough else 10
    cases = [gen_timeout(rng) for _ in range(n)]
    obs = ck.stream("read-deadline", cases, None, "C12_timeout", "C12_timeout_ok", compare=False,
                    nontrivial=lambda c: any(e[0] == 1 for e in c[2]), sig=lambda c, e, o: "read-deadline", timeout=1500)
    cut = 0
    for o in obs:
        try:
            cut += vparse(o)[1] != b""
        except Exception:
            pass
    ck.extra["read_deadline_unevaluated"] = cut



# ---------------------------------------------------------------- regression: a WSP message above ~4 KiB
def wsp_long_message_witness(ck):
    """wsp.DecodeRequest used to do ONE Read of a message and the WebSocket transport returns at most gorilla's
    4096-byte read buffer: a wrapped request of ~5000 bytes was truncated, not answered, and the channel closed
    (finding wsp-message-over-4k-truncated, fixed in /repo by reading the whole message).  The model answers every
    well-formed request of any length; these fixed cases (above the 4 KiB read buffer, above the 8 KiB pooled buffer,
    and a long message after a long message; all below the 16 KiB line limit of the RTSP reader, above which a request is deliberately refused) are compared with the model on every run."""
    def long_url(seq, m, n):
        q = wwrap(seq, m, seq, LIVE_A)
        return q[:4] + [q[4] + "?t=" + "a" * n, ""]
    env = [[LIVE_A, 1, False]]
    cases = [[LIVE_A, env, W_WATCH, [wmsg(W_INIT, 1), long_url(2, DESCRIBE, 5000), wwrap(3, OPTIONS, 3, LIVE_A)]],
             [LIVE_A, env, W_WATCH, [wmsg(W_INIT, 1), long_url(2, OPTIONS, 5000), wwrap(3, DESCRIBE, 3, LIVE_A)]],
             [LIVE_A, env, W_WATCH, [wmsg(W_INIT, 1), long_url(2, OPTIONS, 9000), long_url(3, DESCRIBE, 12000),
                                     wwrap(4, OPTIONS, 4, LIVE_A), long_url(5, OPTIONS, 4090)]]]
    ck.stream("wsp-long-message", cases, "C12_wsp_run", "C12_wsp", "C12_wsp_ok",
              sig=lambda c, e, o: "wsp-message-over-4k-truncated", timeout=300, sample=1)
