"""C14 — RTSP wire codec.  Streams of written requests / responses / interleaved frames read
back through the `receive` dispatcher over a reader that delivers the case's chunk sizes;
mutated and garbage streams; boundary and hostile (unbounded line / Content-Length) inputs."""
import resource

MAX_LINE = 16384          # must equal max_line / max_body of Model/C14RtspCodec.v (checked by the boundary cases)
MAX_BODY = 1048576

FIELDS = ["Accept", "Accept-Encoding", "Accept-Language", "Allow", "Authorization", "Bandwidth", "Blocksize",
          "Cache-Control", "Conference", "Connection", "Content-Base", "Content-Encoding", "Content-Language",
          "Content-Location", "Content-Type", "CSeq", "Date", "Expires", "From", "If-Modified-Since",
          "Last-Modified", "Proxy-Authenticate", "Proxy-Require", "Public", "Range", "Referer", "Require",
          "Retry-After", "RTP-Info", "Scale", "Session", "Server", "Speed", "Transport", "Unsupported",
          "User-Agent", "Via", "WWW-Authenticate"]
METHODS = ["OPTIONS", "DESCRIBE", "ANNOUNCE", "SETUP", "PLAY", "PAUSE", "TEARDOWN", "GET_PARAMETER",
           "SET_PARAMETER", "RECORD", "REDIRECT"]
CODES = [100, 200, 201, 250, 300, 301, 302, 303, 304, 305, 400, 401, 402, 403, 404, 405, 406, 407, 408, 410, 411,
         412, 413, 414, 415, 451, 452, 453, 454, 455, 456, 457, 458, 459, 460, 461, 462, 500, 501, 502, 503, 504,
         505, 551]
VALUES = ["1", "42", "npt=0.000-", "RTP/AVP/TCP;unicast;interleaved=0-1", "application/sdp", "12345678;timeout=60",
          "ipchub/1.0", "url=rtsp://h/a/trackID=0;seq=1;rtptime=0", "a b  c", "x:y", "", "gzip, deflate",
          'Digest realm="r", nonce="n"', "Tue, 15 Nov 1994 08:12:31 GMT", "\xe9t\xe9"]
NAMES = ["cam1", "server.example.com", "10.0.0.2", "H-9.local", "a_b~c", "x"]
V6 = ["::1", "fe80::1ff:fe23:4567:890a", "2001:db8::7", "::ffff:10.0.0.1", "::", "1.2.3.4", "FE80::A"]
ZONES = ["eth0", "1", "en-0.1", "wlan_0~x"]
PORTS = ["", "", "554", "8554", "1", "65535", "0", "00554"]
PATHS = ["", "/", "/live/a", "/a/trackID=1", "/Cam_01.sdp", "/x~y-z/", "/a:b", "/a@b/c", "/streamid=0", "/a/b.c"]
QUERIES = ["", "a=1", "token=abc&x=2", "t"]


def gen_surl(rng, kind=None):
    """a structured Request-URI: (0) "*" | (1 path query?) | (2 scheme user? host port? path query?) with
    host = (0 reg-name-or-IPv4) | (1 v6addr [zone]); every host class with a port, an EMPTY port and no port"""
    if kind is None:
        kind = rng.choice([2] * 12 + [1])
    q = [rng.choice(QUERIES)] if rng.random() < 0.25 else []
    if kind == 1:
        return [1, rng.choice([p for p in PATHS if p.startswith("/")]), q]
    user = []
    r = rng.random()
    if r < 0.1:
        user = [rng.choice(["admin", "u", "a.b-c_d~e"])]
    elif r < 0.25:
        user = [rng.choice(["admin", "u"]), rng.choice(["pw123", "", "p-w.d"])]
    if rng.random() < 0.5:
        host = [0, rng.choice(NAMES)]
    else:
        host = [1, rng.choice(V6)]
        if rng.random() < 0.3:
            host.append(rng.choice(ZONES))
    port = [rng.choice(PORTS)] if rng.random() < 0.6 else []
    return [2, rng.choice(["rtsp", "rtsp", "rtsp", "rtsps", "rtspu", "http"]), user, host, port, rng.choice(PATHS), q]


def print_surl(u):
    """the generator's own printer (for lengths and for seeding the mutation stream)"""
    if u[0] == 0:
        return "*"
    opt = lambda o, pre: (pre + o[0]) if o else ""
    if u[0] == 1:
        return u[1] + opt(u[2], "?")
    s = u[1] + "://"
    if len(u[2]) == 1:
        s += u[2][0] + "@"
    elif len(u[2]) == 2:
        s += u[2][0] + ":" + u[2][1] + "@"
    h = u[3]
    s += h[1] if h[0] == 0 else "[" + h[1] + ("%25" + h[2] if len(h) > 2 else "") + "]"
    return s + opt(u[4], ":") + u[5] + opt(u[6], "?")


def odd_case(rng, k):
    r = rng.random()
    if r < 0.55:
        return k
    if r < 0.7:
        return k.lower()
    if r < 0.85:
        return k.upper()
    return "".join(c.upper() if rng.random() < 0.5 else c.lower() for c in k)


def gen_header(rng, dirty):
    h = {}
    for _ in range(rng.choice([0, 1, 2, 3, 3, 4, 6, 9])):
        r = rng.random()
        if r < 0.75:
            k = odd_case(rng, rng.choice(FIELDS))
        elif r < 0.9:
            k = rng.choice(["X-Foo", "x-foo", "X-FOO", "x", "Keep_Alive", "a.b"])
        else:
            k = "Content-Length"             # Write owns this key: overwritten or deleted
        nv = rng.choice([1, 1, 1, 1, 2, 3])
        vs = [rng.choice(VALUES) for _ in range(nv)]
        if dirty and rng.random() < 0.25:
            d = rng.random()
            if d < 0.2:
                vs[0] = " " + vs[0] + " "
            elif d < 0.35:
                vs[-1] = vs[-1] + "\r\nInjected: 1"
            elif d < 0.45:
                vs[0] = "a\nb"
            elif d < 0.55:
                k = k + ":"
            elif d < 0.65:
                k = ""
            elif d < 0.8:
                k = rng.choice(["content-length", "CONTENT-LENGTH"])
                vs = [rng.choice(["3", "0", "x", "70000"])]
            elif d < 0.9:
                k = " " + k
            else:
                vs = []
        h[k] = vs
    return [[k, vs] for k, vs in h.items()]


def gen_body(rng, big):
    r = rng.random()
    if r < 0.45:
        return b""
    if r < 0.7:
        return ("v=0\r\no=- 0 0 IN IP4 127.0.0.1\r\ns=x\r\nm=video 0 RTP/AVP 96\r\na=control:trackID=%d\r\n" % rng.randint(0, 9)).encode()
    n = rng.choice([1, 2, 10, 100, 1500])
    if big and rng.random() < 0.3:
        n = rng.choice([4096, 16384, 16385, 40000, 65536])
    if rng.random() < 0.5:
        return bytes(rng.choice(b"$RTSP/1.0 \r\n:aZ\x00\xff") for _ in range(n))
    return bytes(rng.randrange(256) for _ in range(n))


def gen_request(rng, dirty, big):
    m = rng.choice(METHODS) if rng.random() < 0.85 else rng.choice(["X-CUSTOM", "play", "R", "RTS", "Options"])
    if dirty and rng.random() < 0.1:
        m = rng.choice(["RTSPX", "RTSP", "$A", "A B", ""])
    u = [0] if (m == "OPTIONS" and rng.random() < 0.3) else gen_surl(rng)
    if dirty and rng.random() < 0.05:
        u = [0]
    if big and rng.random() < 0.05:
        u = [2, "rtsp", [], [0, "h"], [], "/" + "a" * rng.choice([MAX_LINE - 20 - len(m), MAX_LINE - 19 - len(m), MAX_LINE - 18 - len(m)]), []]
    return [0, m, u, gen_header(rng, dirty), gen_body(rng, big)]


def gen_response(rng, dirty, big):
    code = rng.choice(CODES) if rng.random() < 0.8 else rng.choice([299, 999, 600, 101])
    st = ""
    r = rng.random()
    if r < 0.2:
        st = "%d OK" % code
    elif r < 0.3:
        st = rng.choice(["OK", "Custom reason", "404 Not Found", " lead", "trail ", "200"])
    if dirty and rng.random() < 0.15:
        d = rng.random()
        if d < 0.4:
            code = rng.choice([0, 7, 99, 1000, 20000])
        elif d < 0.7:
            st = "a\nb"
        else:
            st = "a\rb\r"
    return [1, code, st, gen_header(rng, dirty), gen_body(rng, big)]


def rtp_header(rng, kind):
    """kind 0: well-formed; 1: possibly malformed"""
    cc = rng.choice([0, 0, 0, 1, 3, 15])
    ext = rng.random() < 0.4
    b0 = 0x80 | (0x10 if ext else 0) | cc | (0x20 if rng.random() < 0.1 else 0)
    d = bytes([b0, rng.randrange(256)]) + bytes(rng.randrange(256) for _ in range(10 + 4 * cc))
    if ext:
        prof = rng.choice([0xBEDE, 0x1000, 0xABAC, 0x1001])
        body = b""
        for _ in range(rng.choice([0, 1, 2, 3])):
            if prof == 0xBEDE:
                l = rng.randint(1, 16)
                body += bytes([(rng.randint(1, 14) << 4) | (l - 1)]) + bytes(rng.randrange(256) for _ in range(l))
            elif prof == 0x1000:
                l = rng.randint(0, 20)
                body += bytes([rng.randint(1, 255), l]) + bytes(rng.randrange(256) for _ in range(l))
            else:
                body += bytes(rng.randrange(256) for _ in range(4))
            if rng.random() < 0.3:
                body += b"\x00"
        body += b"\x00" * (-len(body) % 4)
        if prof == 0xBEDE and rng.random() < 0.1:
            body += b"\xf0\x00\x00\x00"
        d += prof.to_bytes(2, "big") + (len(body) // 4).to_bytes(2, "big") + body
    d += bytes(rng.randrange(256) for _ in range(rng.choice([0, 1, 20, 200, 1400])))
    if kind == 1:
        r = rng.random()
        if r < 0.3:
            d = d[:rng.randint(0, min(len(d), 24))]
        elif r < 0.6 and ext:
            # an element that runs past the end of the packet
            d = d[:12 + 4 * cc] + rng.choice([b"\xbe\xde", b"\x10\x00"]) + b"\x00\x01" + rng.choice([b"\x1f\x00\x00\x00", b"\x00\x00\x00\x07", b"\x05\xff\x00\x00", b"\x00\x00\x05\x09"])
        elif r < 0.8:
            d = bytes(rng.randrange(256) for _ in range(rng.randint(0, 40)))
    return d


def gen_pack(rng, dirty, big):
    ch = rng.randrange(4)
    if ch in (0, 2):
        data = rtp_header(rng, 1 if (dirty and rng.random() < 0.3) else 0)
    else:
        data = bytes(rng.randrange(256) for _ in range(rng.choice([0, 1, 4, 28, 100, 1400])))
    if big and rng.random() < 0.15:
        n = rng.choice([65535, 65534, 65536, 65540, 30000])
        if dirty or n <= 65535:
            data = (data + bytes(rng.randrange(256) for _ in range(256)) * 260)[:n]
    return [2, ch, data]


CFGS = [[0, 1, 2, 3]] * 6 + [[2, 3, 0, 1], [10, 11, 200, 255], [0, 1, -1, -1], [0, 0, 2, 3], [4, 5, 6, 7], [1, 0, 3, 2], [0, 1, 2, 300]]


def gen_cfg(rng, n=4):
    """channel tables with repeated, unsubscribed (-1) and out-of-byte entries"""
    if rng.random() < 0.6:
        return rng.choice(CFGS)
    return [rng.choice([0, 1, 2, 3, 3, 5, 255, -1, 300]) for _ in range(n)]


def gen_chunks(rng):
    r = rng.random()
    if r < 0.15:
        return [1]
    if r < 0.3:
        return [rng.randint(1, 7)]
    return [rng.randint(1, 4096) for _ in range(rng.randint(1, 8))]


def gen_bufsize(rng):
    return rng.choice([16, 64, 512, 4096, 65536, 65536])


def gen_items_case(rng, dirty, big):
    n = rng.choice([1, 2, 3, 4, 6, 10])
    items = []
    for _ in range(n):
        r = rng.random()
        if r < 0.35:
            items.append(gen_request(rng, dirty, big))
        elif r < 0.65:
            items.append(gen_response(rng, dirty, big))
        else:
            items.append(gen_pack(rng, dirty, big))
    tail = b""
    if rng.random() < 0.2:
        tail = rng.choice([b"\r\n", b"$", b"RTSP", b"OPTIONS * RTSP/1.0\r\n", b"$\x00\x00\x05abc", bytes(rng.randrange(256) for _ in range(9))])
    cfg = gen_cfg(rng) if dirty else rng.choice(CFGS[:9])
    return [cfg, gen_bufsize(rng), gen_chunks(rng), items, tail]


# ---- a plain python writer for clean items, used only to seed the mutation stream ----
def py_encode(cfg, it):
    def hdr(h, body):
        d = {k: vs for k, vs in h if k != "Content-Length"}
        if body:
            d["Content-Length"] = [str(len(body))]
        out = b""
        for k in sorted(d):
            out += k.encode("latin-1") + b": " + ", ".join(d[k]).encode("latin-1") + b"\r\n"
        return out + b"\r\n" + body
    if it[0] == 0:
        return it[1].encode() + b" " + print_surl(it[2]).encode() + b" RTSP/1.0\r\n" + hdr(it[3], it[4])
    if it[0] == 1:
        return b"RTSP/1.0 %d %s\r\n" % (it[1], (it[2] or "OK").encode()) + hdr(it[3], it[4])
    w = cfg[it[1]]
    if w < 0 or w > 255:
        return b""
    return bytes([0x24, w]) + (len(it[2]) & 0xffff).to_bytes(2, "big") + it[2]


def mutate(rng, s):
    s = bytearray(s)
    for _ in range(rng.choice([1, 1, 1, 2, 3])):
        if not s:
            break
        r = rng.random()
        i = rng.randrange(len(s))
        if r < 0.25:
            s[i] = rng.randrange(256)
        elif r < 0.4:
            del s[i]
        elif r < 0.55:
            s.insert(i, rng.choice(b"$ :\r\n0R\x00"))
        elif r < 0.7:
            del s[i:]
        elif r < 0.8:
            j = s.find(b"\r\n", i)
            if j >= 0:
                del s[j]
        elif r < 0.9:
            j = s.find(b"Content-Length: ", 0)
            if j >= 0:
                s[j + 16:j + 17] = rng.choice([b"9", b"+", b"-", b"", b"00", b"x"])
        else:
            j = rng.randrange(len(s))
            s[i:i] = s[min(i, j):max(i, j)][:300]
    return bytes(s)


def gen_garbage(rng):
    n = rng.choice([0, 1, 3, 4, 5, 12, 40, 200, 1000])
    r = rng.random()
    if r < 0.4:
        return bytes(rng.randrange(256) for _ in range(n))
    if r < 0.8:
        return bytes(rng.choice(b"$RTSP/1.0 200 OK\r\n\r\n: Content-Length: 3\r\nabc OPTIONS * ") for _ in range(n))
    return bytes([0x24, rng.randrange(4)]) + bytes(rng.randrange(256) for _ in range(n))


REQ = b"OPTIONS * RTSP/1.0\r\nCSeq: 1\r\n\r\n"
SPECIALS = [
    b"", b"\r\n", b"\n", b"\r", b"ABC", b"ABCD", b"$", b"$\x00\x00", b"RTSP", b"RTS", b"RTSP/1.0 200 OK",
    REQ, REQ + REQ, b"\r\n" + REQ, b" X Y\r\n\r\n", b"A  B\r\n\r\n", b"A B\r\n\r\n", b"A B \r\n\r\n", b"A\r\n\r\n",
    b"$X rtsp://h/ RTSP/1.0\r\n\r\n", b"DESCRIBE * RTSP/1.0\r\n\r\n", b"OPTIONS  *  RTSP/1.0 \r\n\r\n",
    b"\tPLAY\t rtsp://h/a RTSP/1.0\r\n\r\n", b"PLAY rtsp://h/a RTSP/1.0 extra words\r\n\r\n",
    b"PLAY rtsp://h:/a RTSP/1.0\r\n\r\n", b"PLAY rtsp://[::1]:/a RTSP/1.0\r\n\r\n", b"PLAY /rel RTSP/1.0\r\n\r\n",
    b"PLAY rel RTSP/1.0\r\n\r\n", b"PLAY rtsp://h/%zz RTSP/1.0\r\n\r\n", b"PLAY rtsp://h/a\x7f RTSP/1.0\r\n\r\n",
    b"OPTIONS * RTSP/1.0\nCSeq: 1\n\n", b"OPTIONS * RTSP/1.0\r\r\nCSeq: 1\r\n\r\n", b"OPTIONS * RTSP/1.0\r\nCSeq: 1\r\r\n\r\n",
    b"OPTIONS * RTSP/1.0\r\nCSeq: 1\r\n\r\r\n", b"OPTIONS * RTSP/1.0\r\nCSeq: 1\r\n", b"OPTIONS * RTSP/1.0\r\nCSeq: 1",
    b"OPTIONS * RTSP/1.0", b"OPTIONS * RTSP/1.0\r\n: v\r\n :v\r\nk\r\n\r\n", b"OPTIONS * RTSP/1.0\r\n: v\r\n : v\r\n\r\n",
    b"OPTIONS * RTSP/1.0\r\nk:v\r\nK :  v  \r\nk\t:\tv2\r\nk:\r\n\r\n", b"OPTIONS * RTSP/1.0\r\ncseq: 1\r\nCSEQ: 2\r\nCSeq:3\r\n\r\n",
    b"OPTIONS * RTSP/1.0\r\na:b:c\r\n::\r\n\r\n", b"OPTIONS * RTSP/1.0\r\nx\ry: 1\r\nv: a\rb\r\n\r\n",
    b"RTSP/1.0 200 OK\r\n\r\n", b"RTSP/1.0 200\r\n\r\n", b"RTSP/1.0  200  OK \r\n\r\n", b"RTSP/1.0 20 OK\r\n\r\n",
    b"RTSP/1.0 2000 OK\r\n\r\n", b"RTSP/1.0 +20 OK\r\n\r\n", b"RTSP/1.0 -20 OK\r\n\r\n", b"RTSP/1.0 -00 OK\r\n\r\n",
    b"RTSP/1.0 2x0 OK\r\n\r\n", b"RTSP/1.0\r\n\r\n", b"RTSP/1.0 \r\n\r\n", b"RTSPX 200 OK\r\n\r\n", b"RTSP 404 Not Found\r\nA: b\r\n\r\n",
    b"RTSP/1.0 200 OK\r\nContent-Length: 3\r\n\r\nabc", b"RTSP/1.0 200 OK\r\nContent-Length: 3\r\n\r\nab",
    b"RTSP/1.0 200 OK\r\nContent-Length: 3\r\n\r\n", b"RTSP/1.0 200 OK\r\nContent-Length: 3\r\n\r\nabcd",
    b"RTSP/1.0 200 OK\r\nContent-Length: +3\r\n\r\nabc", b"RTSP/1.0 200 OK\r\nContent-Length: -3\r\n\r\nabc",
    b"RTSP/1.0 200 OK\r\nContent-Length: 03\r\n\r\nabc", b"RTSP/1.0 200 OK\r\nContent-Length:  3 \r\n\r\nabc",
    b"RTSP/1.0 200 OK\r\nContent-Length: 3x\r\n\r\nabc", b"RTSP/1.0 200 OK\r\nContent-Length: 0\r\n\r\nabc",
    b"RTSP/1.0 200 OK\r\nContent-Length: \r\n\r\nabc", b"RTSP/1.0 200 OK\r\nContent-Length: 3\r\nContent-Length: 5\r\n\r\nabcde",
    b"RTSP/1.0 200 OK\r\ncontent-length: 3\r\n\r\nabc" + REQ, b"RTSP/1.0 200 OK\r\nContent-Length: 1_0\r\n\r\n0123456789",
    b"RTSP/1.0 200 OK\r\nContent-Length: 99999999999\r\n\r\nabc", b"RTSP/1.0 200 OK\r\nContent-Length: 2147483647\r\n\r\nabc",
    b"RTSP/1.0 200 OK\r\nContent-Length: 2147483648\r\n\r\n", b"RTSP/1.0 200 OK\r\nContent-Length: 1048577\r\n\r\nabc",
    b"RTSP/1.0 200 OK\r\nContent-Length: 1048576\r\n\r\nabc", b"ANNOUNCE rtsp://h/a RTSP/1.0\r\nContent-Length: 10\r\n\r\nabc",
    b"$\x00\x00\x00", b"$\x01\x00\x03abc", b"$\x01\x00\x03ab", b"$\x09\x00\x01a", b"$\x01\x00\x00" + REQ,
    b"$\x00\x00\x0c" + b"\x80" + b"\x00" * 11, b"$\x00\x00\x0b" + b"\x80" + b"\x00" * 10, b"$\x00\x00\x03\x80\x00\x00",
    b"$\x00\x00\x0c" + b"\x8f" + b"\x00" * 11, b"$\x02\x00\x10" + b"\x81" + b"\x00" * 15,
    b"$\x00\x00\x10" + b"\x90" + b"\x00" * 11 + b"\xab\xac\x00\x01", b"$\x00\x00\x10" + b"\x90" + b"\x00" * 11 + b"\xab\xac\x00\x00",
    b"$\x00\x00\x14" + b"\x90" + b"\x00" * 11 + b"\xbe\xde\x00\x01\x1f\x00\x00\x00",     # D26c: pion slices past the end
    b"$\x00\x00\x14" + b"\x90" + b"\x00" * 11 + b"\xbe\xde\x00\x01\x12\x01\x02\x03",
    b"$\x00\x00\x14" + b"\x90" + b"\x00" * 11 + b"\xbe\xde\x00\x01\xf0\x01\x02\x03",
    b"$\x00\x00\x14" + b"\x90" + b"\x00" * 11 + b"\x10\x00\x00\x01\x00\x00\x00\x07",     # two-byte: length byte past the end
    b"$\x00\x00\x14" + b"\x90" + b"\x00" * 11 + b"\x10\x00\x00\x01\x05\x02\x01\x02",
    b"$\x00\x00\x14" + b"\x90" + b"\x00" * 11 + b"\x10\x00\x00\x01\x05\x09\x01\x02" + REQ,
    b"$\x02\x00\x14" + b"\x90" + b"\x00" * 11 + b"\xbe\xde\x00\x02\x1f\x00\x00\x00",
]


def raw(kind, cfg, rng, s, extra=None, bufsize=None, chunks=None):
    return [kind, cfg, bufsize or gen_bufsize(rng), chunks or gen_chunks(rng), s, extra or []]


def boundary_cases(rng, thorough):
    out = []
    std = [0, 1, 2, 3]
    for n in (MAX_LINE - 1, MAX_LINE, MAX_LINE + 1, MAX_LINE + 2):
        # request line, header line, status line of exactly n bytes (without the line end)
        rl = b"PLAY rtsp://h/" + b"a" * (n - 23) + b" RTSP/1.0"
        hl = b"X: " + b"v" * (n - 3)
        sl = b"RTSP/1.0 200 " + b"k" * (n - 13)
        for bs in ([16, 4096, 65536] if thorough else [rng.choice([16, 64, 4096]), 65536]):
            for eol in (b"\r\n", b"\n"):
                out.append(raw(0, std, rng, rl + eol + b"CSeq: 1" + eol + eol + REQ, bufsize=bs))
                out.append(raw(0, std, rng, b"OPTIONS * RTSP/1.0" + eol + hl + eol + eol + REQ, bufsize=bs))
                out.append(raw(0, std, rng, sl + eol + eol + REQ, bufsize=bs))
            out.append(raw(0, std, rng, b"OPTIONS * RTSP/1.0\r\n" + hl, bufsize=bs))       # ended by EOF
            out.append(raw(0, std, rng, b"OPTIONS * RTSP/1.0\r\n" + hl + b"\r", bufsize=bs))
            out.append(raw(1, std, rng, rl + b"\r\n\r\n", bufsize=bs))
            out.append(raw(2, std, rng, sl + b"\r\n\r\n", bufsize=bs))
    # a line that never ends: the reader must give up after max_line bytes, not buffer the rest
    for bs in (16, 4096, 65536):
        for pre in (b"", b"OPTIONS * RTSP/1.0\r\n", b"OPTIONS * RTSP/1.0\r\nX: ", b"RTSP/1.0 200 OK\r\nCSeq: 1\r\nY"):
            # '$' at the very start of the stream would be frames on an unknown channel, which are skipped one
            # by one, not a line
            fill = rng.choice(b"Aa :$" if pre else b"Aa :")
            out.append(raw(0, std, rng, pre + bytes([fill]) * (MAX_LINE + 2), extra=[fill, 48 << 20], bufsize=bs,
                           chunks=[4096]))
    # absurd Content-Length: refused before anything is allocated or read
    for cl in (MAX_BODY + 1, 2000000000, 2147483647, 16 << 20):
        for head in (b"ANNOUNCE rtsp://h/a RTSP/1.0\r\n", b"RTSP/1.0 200 OK\r\n"):
            out.append(raw(0, std, rng, head + b"Content-Length: %d\r\n\r\n" % cl, extra=[120, 24 << 20],
                           chunks=[4096]))
    # the largest body that is accepted, and one more
    body = bytes(rng.randrange(256) for _ in range(4096)) * (MAX_BODY // 4096)
    out.append(raw(0, std, rng, b"RTSP/1.0 200 OK\r\nContent-Length: %d\r\n\r\n" % MAX_BODY + body + REQ, bufsize=65536, chunks=[4096]))
    out.append(raw(0, std, rng, b"ANNOUNCE rtsp://h/a RTSP/1.0\r\nContent-Length: %d\r\n\r\n" % (MAX_BODY + 1) + body + b"x" + REQ,
                   bufsize=4096, chunks=[4096]))
    out.append(raw(0, std, rng, b"ANNOUNCE rtsp://h/a RTSP/1.0\r\nContent-Length: %d\r\n\r\n" % MAX_BODY + body[:-1], bufsize=4096, chunks=[4096]))
    return out


def drop_last(s):
    """observations end with the number of bytes pulled from the connection (the model prints -1 there)"""
    if s.startswith("(x21"):      # a !panic / !crash / !hang / !badcase marker
        return s
    return s[:s.rfind(" ")] + ")"


def run(ck):
    # the extracted model recurses once per byte on some paths
    try:
        soft, hard = resource.getrlimit(resource.RLIMIT_STACK)
        want = 1 << 30
        if hard != resource.RLIM_INFINITY:
            want = min(want, hard)
        if soft == resource.RLIM_INFINITY or soft < want:
            resource.setrlimit(resource.RLIMIT_STACK, (want, hard))
    except (ValueError, OSError):
        pass
    if not ck.prepare():
        return ck.finish(rule="build failed")
    rng = ck.rng
    T = ck.thorough

    def items_nontrivial(c):
        return len(c[3]) >= 2 and len({it[0] for it in c[3]}) >= 2

    # 1. streams written by the implementation from clean items (the emit grammar of the theorems)
    clean = [gen_items_case(rng, False, False) for _ in range(8000 if T else 350)]
    clean += [gen_items_case(rng, False, True) for _ in range(800 if T else 25)]
    ck.stream("written_streams", clean, "C14_items", "C14_items", "C14_items_ok", nontrivial=items_nontrivial,
              sig=lambda c, e, o: "written-stream", project=drop_last)
    # 2. items outside the grammar (dirty keys/values, odd status codes, truncated frame lengths, odd channel tables)
    dirty = [gen_items_case(rng, True, False) for _ in range(8000 if T else 300)]
    dirty += [gen_items_case(rng, True, True) for _ in range(500 if T else 15)]
    ck.stream("dirty_streams", dirty, "C14_items", "C14_items", "C14_items_ok", nontrivial=items_nontrivial,
              sig=lambda c, e, o: "dirty-stream", compare=False)
    # 3. mutated streams, garbage, hand-written specials: through the dispatcher and through each reader
    raws = []
    for s in SPECIALS:
        for kind in (0, 1, 2, 3):
            raws.append(raw(kind, [0, 1, 2, 3], rng, s))
        raws.append(raw(0, gen_cfg(rng), rng, s))
    for _ in range(20000 if T else 600):
        c = gen_items_case(rng, False, False)
        s = b"".join(py_encode(c[0], it) for it in c[3]) + c[4]
        raws.append(raw(rng.choice([0, 0, 0, 0, 1, 2, 3]), c[0], rng, mutate(rng, s)))
    for _ in range(12000 if T else 400):
        cfg = gen_cfg(rng, rng.choice([4, 4, 4, 0, 1, 6]))
        raws.append(raw(rng.choice([0, 0, 1, 2, 3]), cfg, rng, gen_garbage(rng)))
    ck.stream("raw_streams", raws, "C14_raw", "C14_raw", "C14_raw_ok", nontrivial=lambda c: len(c[4]) >= 8,
              compare=False, sig=lambda c, e, o: "raw-stream")
    # 4. limits: boundary line lengths, lines that never end, absurd Content-Length (lazy tails, small timeout)
    bnd = boundary_cases(rng, T)
    ck.stream("limits", bnd, "C14_raw", "C14_raw", "C14_raw_ok", nontrivial=lambda c: True, compare=False,
              timeout=240, sig=lambda c, e, o: "limits", sample=2)
    # 5. helper functions against the real ones
    strs = []
    alpha = b" \t\r\n\x0b\x0cab:Z"
    for _ in range(3000 if T else 500):
        strs.append(bytes(rng.choice(alpha) for _ in range(rng.randint(0, 8))))
    ck.stream("canonical_kv", [s for s in strs if s.strip(b" \t\r\n\x0b\x0c")], "C14_canonkv", "C14_canonkv", None,
              sig=lambda c, e, o: "canonical-kv", sample=1)
    keys = [odd_case(rng, k).encode() for k in FIELDS + ["Content-Length"] for _ in range(3)] + \
           [b"x-foo", b"Cseq", b"CSEQ", b"cseq", b"RTP-info", b"www-authenticate", b"Content-Lengt", b"Content-Lengthh", b"a_b"]
    ck.stream("canonical_key", keys, "C14_canonkey", "C14_canonkey", None, sig=lambda c, e, o: "canonical-key", sample=1)
    # 6. the Request-URI as a structured value: every host class x {no port, empty port, port} x userinfo x
    #    path x query (exhaustive over small component sets) plus random ones; printed by the harness, parsed by
    #    net/url, emitted by Request.Write the way the pull client does and read back by ReadRequest
    urls = [[0]] + [[1, p_, q_] for p_ in ("/", "/live/a") for q_ in ([], ["x=1"], [""])]
    hosts = [[0, n] for n in NAMES] + [[1, a] for a in V6] + [[1, a, ZONES[i % len(ZONES)]] for i, a in enumerate(V6)]
    for h in hosts:
        for port in ([], [""], ["554"]):
            for user in ([], ["u"], ["u", "pw"]):
                for path in ("", "/live/a"):
                    for q_ in ([], ["x=1"]):
                        urls.append([2, "rtsp", user, h, port, path, q_])
    urls += [gen_surl(rng) for _ in range(3000 if T else 300)]
    ck.stream("url_law", urls, "C14_urllaw", "C14_urllaw", "C14_urllaw_ok",
              nontrivial=lambda u: u[0] == 2, sig=lambda c, e, o: "request-url", sample=2)
    # 7. the pull client: the URL it keeps (default port, userinfo removed) and the URL of the request it emits
    pulls = [u for u in urls if u[0] == 2 and u[1] == "rtsp" and not (u[3][0] == 1 and ":" not in u[3][1])]
    ck.stream("pull_client_url", pulls, "C14_pullurl", "C14_pullurl", "C14_pullurl_ok",
              nontrivial=lambda u: True, sig=lambda c, e, o: "pull-client-url", sample=2)
    hdrs = [rtp_header(rng, rng.choice([0, 1])) for _ in range(4000 if T else 600)]
    ck.stream("rtp_header", hdrs, "C14_rtphdr", "C14_rtphdr", None, nontrivial=lambda d: len(d) >= 12,
              sig=lambda c, e, o: "rtp-header-model", sample=1)
    return ck.finish(
        rule="streams of 1..10 generated requests/responses/interleaved frames (odd-case and multi-valued header "
             "names, structured Request-URIs (reg-name/IPv4/IPv6 literal with zone x no/empty/numeric port x userinfo x "
             "path x query, '*', path-only), empty..64 KiB bodies, 0..65535-byte frames, several channel tables) written "
             "by Request/Response/Packet.Write, concatenated (+ optional garbage tail) and read back by the "
             "`receive` dispatcher over a bufio.Reader (16 B..64 KiB) fed in case-chosen chunk sizes 1..4096; the "
             "written bytes, every parsed structure, the byte offset after every event and the way the loop ends are "
             "compared with the extracted model; 'dirty' items leave the grammar on purpose; raw streams = byte-level "
             "mutations of valid streams, biased garbage and hand-written specials through receive and through each "
             "reader directly (oracle ok_raw: the model run with the URL left open); limits = lines of "
             "max_line-1..max_line+2 bytes, lines that never end and absurd Content-Length with a lazily produced "
             "24..48 MiB tail (bytes pulled from the connection must stay within the materialised input + 2 bufio "
             "buffers + one chunk). non-trivial = at least two items of two kinds / at least 8 bytes",
        trusted=["net/url's parser is an oracle (Section variable url_parse); its law on the URL grammar (parse of the printed "
                 "structured URL = the structure's fields; String/Hostname/Port as modelled) is tested by the streams "
                 "url_law (exhaustive over host class x port x userinfo x path x query) and written_streams, not proved; "
                 "ReadRequest's own host fix is modelled and proved (C14_host_fix_exact); on raw streams the URL is not "
                 "compared and a net/url error is accepted exactly where the model is at the URL check",
                 "chunking independence is bufio.Reader's and is tested (random chunk sizes and buffer sizes), not proved",
                 "pion/rtp v1.6.2 Header.Unmarshal is modelled as far as ok/error/panic goes (stream rtp_header)",
                 "strings.TrimSpace / ToUpper on ASCII; header bytes >= 0x80 are generated only where no Unicode space or "
                 "case mapping can arise"],
        assumptions=["ASCII header names and values (Go trims Unicode spaces and upper-cases by rune)",
                     "Packet.Write is called with a 4-entry channel table and a channel index < 4, as the server does",
                     "frames longer than 65535 bytes are outside the grammar (uint16 length field truncates)"])
