"""Schedule generators for the stream LTS (coq/Model/StreamLts.v), shared by C01–C04."""

PUB, CLOSE, ATT, STOP, CONS = 0, 1, 2, 3, 4

def gen_pkts(rng, n, start=1, flv=False, h265=False):
    out = []
    for i in range(n):
        if flv:   # FLV tags: media, key frame, video/audio sequence header, metadata (every tag is cached media or a header)
            k = rng.choices([1, 2, 3, 4, 5], weights=[6, 2, 1, 1, 1])[0]
        elif h265:  # HEVC adds the VPS slot
            k = rng.choices([0, 1, 2, 3, 4, 5], weights=[2, 6, 2, 1, 1, 1])[0]
        else:
            k = rng.choices([0, 1, 2, 3, 4], weights=[2, 6, 2, 1, 1])[0]
        out.append([start + i, k])
    return out

def rand_case(rng, variant, max_cons=3, max_pkts=12, max_len=70, with_close=True, maxq=1000, panic_p=0.15, flv_p=0.3):
    n = rng.randint(1, max_cons)
    flv = rng.random() < flv_p
    h265 = (not flv) and rng.random() < 0.3
    pkts = gen_pkts(rng, rng.randint(0, max_pkts), flv=flv, h265=h265)
    stop = [rng.random() < 0.4 for _ in range(n)]
    gop = rng.random() < 0.6
    w = {PUB: 6, CLOSE: 1.2 if with_close else 0, ATT: 2.5, STOP: 1.0, CONS: 5}
    sched = []
    L = rng.randint(5, max_len)
    closed_after = rng.randint(0, L) if with_close and rng.random() < 0.7 else L + 1
    for i in range(L):
        kinds = [PUB, ATT, STOP, CONS] + ([CLOSE] if i >= closed_after else [])
        k = rng.choices(kinds, weights=[w[x] for x in kinds])[0]
        c = rng.randrange(n)
        if rng.random() < 0.5 and sched:        # bursts of the same thread make progress through multi-step ops
            k, c = sched[-1]
        sched.append([k, c])
    panic = [rng.randint(1, 4) if rng.random() < panic_p else 0 for _ in range(n)]
    fua = (not flv) and (not h265) and rng.random() < 0.4   # H.264 video as FU-A fragments (the demuxer reassembles from the queued packet objects)
    return [variant, n, maxq, gop, pkts, stop, sched, panic, flv, rng.choice([1, 1, 2, 3]), h265, fua]

def drain(n, rounds=6):
    """suffix that lets every thread run to completion (fair round robin)"""
    s = []
    for _ in range(rounds):
        s += [[CLOSE, 0], [PUB, 0]]
        for c in range(n):
            s += [[ATT, c], [STOP, c], [CONS, c], [CONS, c]]
    return s

FIXED = [1, 1, 1, 1]
ORIGINAL = [0, 0, 0, 0]
