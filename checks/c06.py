"""C06 — RTP depacketisation reproduces the sender's access units exactly.

Plans (unit lists + how each unit travels: single / aggregated / fragmented,
sequence start, timestamps, sender reports, loss mask or rearrangement) are
turned into RTSP-interleaved RTP/RTCP bytes by the *Gallina* packetisers
(x_C06_gen, the functions of the theorems); the Go side feeds those bytes
through rtp.ReadPacket into rtp.NewDemuxer with a recording FrameWriter; the
proved oracle (x_C06_ok = ok_case of C06_model_passes) judges the frames."""
import os, sys
sys.path.insert(0, os.path.join(os.path.dirname(os.path.abspath(__file__)), "..", "bin"))
import vlib

H264, H265, AAC = 0, 1, 2
MAXPL = 65000           # RTP payload that still fits one interleaved frame (16-bit length)

# ------------------------------------------------------------------ units
def rbytes(rng, n):
    return rng.getrandbits(8 * n).to_bytes(n, "big") if n else b""

def gen_unit(rng, cd, size, for_single=True):
    if cd == AAC:
        return rbytes(rng, size)
    if cd == H264:
        t = rng.choice([1, 1, 1, 5, 5, 6, 7, 8, 9, 12, rng.randint(1, 23), rng.randint(0, 23)])
        nri = rng.randint(0, 3)
        return bytes([nri << 5 | t]) + rbytes(rng, size - 1)
    # H.265: two header bytes
    size = max(size, 2)
    t = rng.choice([1, 1, 19, 20, 32, 33, 34, 35, 39, rng.randint(0, 47), rng.randint(0, 63)])
    if t in (48, 49):
        t = 50
    layer = rng.choice([0, 0, 0, rng.randint(0, 63)])
    tid = rng.randint(1, 7)
    return bytes([(t << 1) | (layer >> 5), ((layer & 31) << 3) | tid]) + rbytes(rng, size - 2)

def gen_size(rng, big_ok):
    k = rng.random()
    if k < 0.15:
        return rng.randint(1, 4)
    if k < 0.70:
        return rng.randint(1, 200)
    if k < 0.93 or not big_ok:
        return rng.randint(200, 4096)
    if k < 0.98:
        return rng.randint(4096, 30000)
    return rng.randint(60000, 70000)

def frag_sizes(rng, body_len, maxfrag):
    """chunk sizes for all fragments but the last; at least one entry; every fragment
    (the last one, which takes the rest, included) fits one interleaved frame"""
    for _ in range(20):
        sizes = _frag_sizes(rng, body_len, maxfrag)
        if max(sizes) <= 1460 and body_len - sum(sizes) <= 40000:
            return sizes
    f = 1400
    return [f] * max(1, -(-body_len // f) - 1)

def _frag_sizes(rng, body_len, maxfrag):
    style = rng.random()
    if body_len <= 1 or style < 0.05:
        return [rng.choice([0, 1, 1, 2])] * rng.randint(1, 2)
    lo = max(1, -(-body_len // maxfrag))          # keep the packet count bounded
    if style < 0.55:
        f = rng.randint(max(lo, 1), max(lo, min(1460, body_len)))
        f = max(f, -(-body_len // maxfrag))
        n = -(-body_len // f)
        return [f] * max(1, n - 1)
    if style < 0.65:                              # exact multiple: the last fragment is empty
        f = max(lo, rng.randint(1, min(1460, body_len)))
        return [f] * max(1, -(-body_len // f))
    out, left = [], body_len
    while left > 0 and len(out) < maxfrag - 1:
        f = rng.randint(max(1, lo), max(lo, 1460))
        if rng.random() < 0.05:
            f = 0
        out.append(f)
        left -= f
    if left > 0 and not out:
        out = [1]
    return out or [1]

# ------------------------------------------------------------------ plans
def gen_plan(rng, cd, thorough, ts_wrap=False, nitems=None, big_ok=True, sr_first=True):
    plan, npk = _gen_plan(rng, cd, thorough, ts_wrap, nitems, big_ok)
    if sr_first:      # inside the guard: every sender report precedes the media (one clock base per stream)
        pairs = list(zip(plan[4], npk))
        pairs.sort(key=lambda p: 0 if p[0][0] == 3 else 1)
        plan[4] = [p[0] for p in pairs]
        npk = [p[1] for p in pairs]
    return plan, npk

def _gen_plan(rng, cd, thorough, ts_wrap=False, nitems=None, big_ok=True):
    clock = rng.choice([90000] * 6 + [rng.choice([1, 1000, 8000, 44100, 48000, 27000000, 2**31 - 1]), rng.randint(1, 2**31 - 1)])
    if cd == AAC:
        clock = rng.choice([8000, 11025, 16000, 22050, 32000, 44100, 44100, 48000, 48000, 96000, rng.randint(1, 400000)])
    cc = rng.choice([0, 0, 0, 0, 1, 2, 15])
    seq0 = rng.choice([rng.randint(0, 65535), 65535 - rng.randint(0, 30), 0])
    if ts_wrap:
        ts = 2**32 - rng.randint(1, 20000)
    else:
        ts = rng.choice([0, rng.randint(0, 2**31), rng.randint(0, 2**32 - 2**27)])
    n = nitems or rng.randint(1, 24 if thorough else 12)
    maxfrag = 300 if thorough else 60
    items, npk, bigs = [], [], 0
    step = rng.choice([3000, 3600, 1, rng.randint(1, 200000)])
    for i in range(n):
        if rng.random() < 0.08:
            rt = rng.choice([0, ts, rng.randint(0, 2**32 - 1), max(0, ts - rng.randint(0, 10**6))])
            items.append([3, rt, rng.randint(0, 2**32 - 1), rng.randint(0, 2**32 - 1)])
            npk.append(1)
            continue
        mk = rng.random() < 0.5
        k = rng.random()
        if cd == AAC:
            cnt = 1 if k < 0.4 else rng.randint(2, 8 if k < 0.95 else 40)
            aus = [rbytes(rng, rng.choice([0, 1, 7, rng.randint(1, 700), rng.randint(1, 8191)]) if rng.random() < 0.2 else rng.randint(1, 600)) for _ in range(cnt)]
            while sum(map(len, aus)) > MAXPL - 2 - 2 * cnt:
                aus.pop()
            items.append([0, ts, mk, aus[0]] if len(aus) == 1 and rng.random() < 0.7 else [1, ts, mk, aus])
            npk.append(1)
            nxt = ts + 1024 * len(aus) + rng.choice([0, 0, 0, 1024, rng.randint(0, 100000)])
        else:
            size = gen_size(rng, big_ok and bigs < 1)
            if size > 30000:
                bigs += 1
            if k < 0.35 and size <= MAXPL:
                u = gen_unit(rng, cd, size)
                if cd == H265 and (u[0] >> 1) & 63 in (48, 49):
                    u = bytes([u[0] & 0x81 | (1 << 1)]) + u[1:]
                items.append([0, ts, mk, u]); npk.append(1)
            elif k < 0.60:
                cnt = rng.randint(1, 8)
                us, tot = [], 0
                for _ in range(cnt):
                    s = min(gen_size(rng, False), 8000)
                    if tot + s + 2 > MAXPL - 2:
                        break
                    us.append(gen_unit(rng, cd, s)); tot += s + 2
                items.append([1, ts, mk, us]); npk.append(1)
            else:
                u = gen_unit(rng, cd, size)
                if cd == H264:
                    u = bytes([u[0] & 0x7f]) + u[1:]
                body = len(u) - (1 if cd == H264 else 2)
                sizes = frag_sizes(rng, body, maxfrag)
                items.append([2, ts, mk, u, sizes]); npk.append(len(sizes) + 1)
            nxt = ts + rng.choice([0, step, step, step, -step if ts >= step else step, rng.randint(0, 10**6)])
        if not ts_wrap:
            nxt = min(max(nxt, 0), 2**32 - 1 - 1024 * 64)
        ts = nxt
    return [cd, clock, cc, seq0, items], npk

def gen_mask(rng, items, npk):
    total = sum(npk)
    k = rng.random()
    if k < 0.40:
        return [1] * total
    if k < 0.70:
        p = rng.choice([0.03, 0.1, 0.3, 0.6])
        return [0 if rng.random() < p else 1 for _ in range(total)]
    m = [1] * total
    # aim at fragmented units: lose the start, a middle, the end, or several
    pos = 0
    for it, n in zip(items, npk):
        if n > 1 and rng.random() < 0.7:
            for j in rng.sample(range(n), rng.choice([1, 1, 1, 2, 3]) if n > 3 else 1):
                j = rng.choice([0, n - 1, j])
                m[pos + j] = 0
        elif rng.random() < 0.1:
            m[pos] = 0
        pos += n
    if k > 0.92 and total > 3:                      # a burst
        a = rng.randrange(total); b = min(total, a + rng.randint(2, 12))
        for i in range(a, b):
            m[i] = 0
    return m

def gen_pick(rng, npk):
    total = sum(npk)
    ix = list(range(total))
    for _ in range(rng.randint(1, 4)):
        k = rng.random()
        if not ix:
            break
        i = rng.randrange(len(ix))
        if k < 0.35 and i + 1 < len(ix):
            ix[i], ix[i + 1] = ix[i + 1], ix[i]
        elif k < 0.6:
            ix.insert(i, ix[i])                       # duplicate
        elif k < 0.8:
            j = rng.randrange(len(ix)); ix.insert(j, ix.pop(i))   # late packet
        else:
            del ix[i]
    return ix

def nontrivial(case):
    plan = case[0]
    items = plan[4]
    return len(items) >= 2 and any(it[0] in (1, 2) for it in items)

# ------------------------------------------------------------------ run
UNEVAL = ("(x21756e6576616c", "(x217365747570")      # ("!uneval" ...  /  ("!setup" ...

def eval_stream(ck, name, cases, run_fn, vh_cmd, ok_fn, timeout=1500, **kw):
    """ck.stream for harness commands that have to wait for goroutines / sockets: the implementation is run
    first; a case the harness could not evaluate (its generous bound was hit without any positive evidence of
    damage: an unschedulable machine) is run once more and, if still unevaluated, left out and counted.
    More than 10 % unevaluated cases fail the run."""
    lines = [vlib.vs(c) for c in cases]
    obs = vlib.run_vh(ck.prop, vh_cmd, lines, timeout=timeout)
    if len(obs) != len(lines):
        raise vlib.Broken("harness returned %d answers for %d cases on %s" % (len(obs), len(lines), name))
    bad = [i for i, o in enumerate(obs) if o.startswith(UNEVAL)]
    if bad:
        again = vlib.run_vh(ck.prop, vh_cmd, [lines[i] for i in bad], timeout=timeout)
        for i, o in zip(bad, again):
            obs[i] = o
    keep = [i for i, o in enumerate(obs) if not o.startswith(UNEVAL)]
    un = ck.extra.setdefault("unevaluated_cases", {})
    un[name] = "%d of %d" % (len(cases) - len(keep), len(cases))
    if len(cases) - len(keep) > 0.1 * len(cases):
        raise vlib.Broken("%s: %d of %d cases could not be evaluated" % (name, len(cases) - len(keep), len(cases)))
    cache = os.path.join(vlib.BUILD, "cached_%s_%d_%s" % (ck.prop, os.getpid(), name))
    with open(cache + ".out", "w") as f:
        f.write("".join(obs[i] + "\n" for i in keep))
    with open(cache + ".sh", "w") as f:
        f.write("#!/bin/sh\ncat > /dev/null\ncat %s.out\n" % cache)
    os.chmod(cache + ".sh", 0o755)
    try:
        return ck.stream(name, [cases[i] for i in keep], run_fn, vh_cmd, ok_fn, exe=cache + ".sh", timeout=timeout, **kw)
    finally:
        for ext in (".out", ".sh"):
            try:
                os.remove(cache + ext)
            except OSError:
                pass

def with_wire(ck, plans):
    """attach x_C06_gen's bytes to every plan"""
    lines = [vlib.vs(p) for p in plans]
    outs = vlib.run_driver(ck.prop, "C06_gen", lines)
    cases = [[p, vlib.vparse(o)] for p, o in zip(plans, outs)]
    for p, w in cases:
        if any(len(f) > 65535 + 4 for f in w):
            raise vlib.Broken("generator produced an RTP packet that does not fit an interleaved frame")
    return cases

def run(ck):
    if not ck.prepare():
        return ck.finish(rule="build failed")
    rng = ck.rng
    T = ck.thorough
    n_loss = 6000 if T else 330
    n_pick = 1500 if T else 90
    shapes = {"single": 0, "aggregated": 0, "fragmented": 0, "sender_report": 0, "full": 0, "lossy": 0, "big_unit": 0}
    try:
        plans = []
        for i in range(n_loss):
            cd = (H264, H265, AAC)[i % 3]
            plan, npk = gen_plan(rng, cd, T, big_ok=(i % 10 == 0))
            mask = gen_mask(rng, plan[4], npk)
            plans.append(plan + [[0, mask]])
            for it in plan[4]:
                shapes[("single", "aggregated", "fragmented", "sender_report")[it[0]]] += 1
                if it[0] != 3 and isinstance(it[3], (bytes, bytearray)) and len(it[3]) > 30000:
                    shapes["big_unit"] += 1
            shapes["full" if all(mask) else "lossy"] += 1
        # a few big units (up to 70000 bytes: must be fragmented, > 16-bit interleaved length otherwise)
        for cd in (H264, H265):
            for size in ([rng.randint(60000, 70000), rng.randint(5000, 30000)] if not T else
                         [70000, 65536, rng.randint(60000, 70000), rng.randint(5000, 30000), rng.randint(30000, 60000)]):
                u = gen_unit(rng, cd, size)
                if cd == H264:
                    u = bytes([u[0] & 0x7f]) + u[1:]
                f = rng.randint(900, 1460)
                sizes = [f] * (-(-size // f) - 1)
                small = gen_unit(rng, cd, 20)
                if cd == H264:
                    small = bytes([small[0] & 0x1f | 0x41 & 0x60]) + small[1:]
                    small = bytes([0x41]) + small[1:]
                else:
                    small = bytes([0x02, 0x01]) + small[2:]
                items = [[0, 500, 0, small], [2, 3500, 1, u, sizes], [0, 6500, 1, small]]
                tot = len(sizes) + 3
                m = [1] * tot
                if rng.random() < 0.5:
                    m[rng.randrange(1, tot - 1)] = 0
                plans.append([cd, 90000, 0, 65000, items, [0, m]])
                shapes["big_unit"] += 1
                shapes["full" if all(m) else "lossy"] += 1
        # every loss position of one fragmented unit between two others (both video codecs)
        for cd in (H264, H265):
            u0, u1, u2 = gen_unit(rng, cd, 40), gen_unit(rng, cd, 900), gen_unit(rng, cd, 30)
            if cd == H264:
                u0, u1, u2 = [bytes([u[0] & 0x7f]) + u[1:] for u in (u0, u1, u2)]
            items = [[2, 1000, 0, u0, [20]], [2, 4000, 1, u1, [100] * 8], [2, 7000, 1, u2, [10]]]
            tot = 2 + 9 + 2
            for lost in range(tot):
                m = [1] * tot; m[lost] = 0
                plans.append([cd, 90000, 0, 65530, items, [0, m]])
            for a in range(2, 11):
                for b in range(a + 1, 11):
                    m = [1] * tot; m[a] = 0; m[b] = 0
                    plans.append([cd, 90000, 0, 65530, items, [0, m]])
        wf = vlib.run_driver(ck.prop, "C06_wf", [vlib.vs(p) for p in plans])
        ck.extra["loss_cases_inside_theorem_guard"] = "%d of %d" % (sum(1 for x in wf if x == "1"), len(wf))
        cases = with_wire(ck, plans)
        eval_stream(ck, "loss", cases, "C06_run", "C06", "C06_ok", nontrivial=nontrivial,
                  sig=lambda c, e, o: "depack-loss-" + ("h264", "h265", "aac")[c[0][0]], sample=4)
        # rearrangements: reordering, duplication, late packets
        plans = []
        for i in range(n_pick):
            cd = (H264, H265, AAC)[i % 3]
            plan, npk = gen_plan(rng, cd, T, big_ok=False)
            plans.append(plan + [[1, gen_pick(rng, npk)]])
        wf = vlib.run_driver(ck.prop, "C06_wf", [vlib.vs(p) for p in plans])
        ck.extra["rearranged_cases_inside_theorem_guard"] = "%d of %d" % (sum(1 for x in wf if x == "1"), len(wf))
        cases = with_wire(ck, plans)
        eval_stream(ck, "rearranged", cases, "C06_run", "C06", "C06_ok", nontrivial=nontrivial,
                  sig=lambda c, e, o: "depack-rearranged-" + ("h264", "h265", "aac")[c[0][0]], sample=2)
        # known finding, replayed every run: a sender report after media has started rebases the clock
        plans = []
        for i in range(40 if T else 8):
            cd = (H264, H265, AAC)[i % 3]
            plan, npk = gen_plan(rng, cd, T, nitems=5, big_ok=False, sr_first=False)
            data = [(it, n) for it, n in zip(plan[4], npk) if it[0] != 3] or [([0, 1000, 1, gen_unit(rng, cd, 9) if cd != AAC else b"\x01\x02"], 1)]
            cut = rng.randint(1, len(data))
            sr = ([3, rng.randint(1, 2**32 - 1), 1, 2], 1)
            pairs = data[:cut] + [sr] + data[cut:]
            plan[4] = [p[0] for p in pairs]
            plans.append(plan + [[0, [1] * sum(p[1] for p in pairs)]])
        plans.append([H264, 90000, 0, 1, [[0, 93600, 1, bytes([0x41, 1, 2])], [3, 2**31, 0, 0], [0, 97200, 1, bytes([0x41, 3, 4])]], [0, [1, 1, 1]]])
        cases = with_wire(ck, plans)
        eval_stream(ck, "sr_late", cases, "C06_run", "C06", "C06_ok", nontrivial=nontrivial,
                  sig=lambda c, e, o: "pts-rebase-at-first-sr" if e == o else "sr-late-stream-other", sample=1)
        # D10 witness, replayed on the implementation every run: the RTP timestamp wraps inside the stream
        plans = []
        for i in range(30 if T else 6):
            cd = (H264, H265, AAC)[i % 3]
            plan, npk = gen_plan(rng, cd, T, ts_wrap=True, nitems=6, big_ok=False)
            plan[4] = [it for it in plan[4] if it[0] != 3] or plan[4]
            npk = [1 if it[0] != 2 else len(it[4]) + 1 for it in plan[4]]
            # make sure the stream really crosses 2^32
            last = plan[4][-1]
            last[1] = 2**32 + 5000 + i
            plans.append(plan + [[0, [1] * sum(npk)]])
        # the fixed witness of pts_wrap_refuted
        plans.append([H264, 90000, 0, 7, [[0, 4294967040, 1, bytes([0x41, 1, 2])], [0, 4294967552, 1, bytes([0x41, 3, 4])]], [0, [1, 1]]])
        cases = with_wire(ck, plans)
        eval_stream(ck, "ts_wrap", cases, "C06_run", "C06", "C06_ok", nontrivial=nontrivial,
                  sig=lambda c, e, o: "pts-ts-wrap" if e == o else "ts-wrap-stream-other", sample=1)
    except vlib.Broken as b:
        ck.broken.append(b)
    ck.extra["plan_shapes"] = shapes
    return ck.finish(
        rule="random plans for H.264 / H.265 / AAC-hbr: 1..24 items, each a unit sent single, aggregated (1..8 units) or "
             "fragmented (fragment sizes 0..1460, random or fixed, sometimes an empty last fragment), unit sizes 1..70000, "
             "sequence start often within 30 of 65535, CSRC count 0..15, clock rates incl. extremes, sender reports at random "
             "positions, timestamps with zero / negative / large steps; the packet bytes come from the Gallina packetisers; "
             "selection = no loss (40%), random loss, losses aimed at start/middle/end of fragmented units, bursts, plus every "
             "single and double loss position of a 9-fragment unit; a second stream rearranges packets (swap, duplicate, late, "
             "drop); a third stream puts a sender report behind media (known finding pts-rebase-at-first-sr), a fourth crosses the "
             "32-bit timestamp wrap (known finding D10). non-trivial = at least two items, "
             "one of them aggregated or fragmented",
        trusted=["pion/rtp Header.Unmarshal and rtp.ReadPacket framing are exercised by the correspondence, not modelled",
                 "binary64 arithmetic of syncclock.go is modelled exactly in integers (C06SyncClock.v); the Go compiler's "
                 "float64 semantics (no fused multiply-add on this expression) is trusted",
                 "video metadata Width/Height known (MetadataIsReady does not need to parse an SPS)"],
        assumptions=["FrameWriter never returns an error", "one medium per modelled stream (video or audio) with its control channel",
                     "DTS is not constrained by the property and not compared",
                     "H.264 filler-data NAL units (type 12) are discarded by writeFrame on purpose; the specification filters them",
                     "guards: RTP timestamps do not wrap within the stream (no_ts_wrap, known finding D10); every sender report precedes the "
                     "media (sr_before_data, known finding pts-rebase-at-first-sr); at most 65536 packets "
                     "per stream for the loss theorem (sequence numbers distinct)"])
