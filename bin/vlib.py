"""Shared machinery for /verif/bin/check: wire values, builds, the
model/implementation/oracle pipeline, known findings, evidence, exit codes."""
import fcntl, hashlib, json, os, random, re, subprocess, sys, time

ROOT = os.path.dirname(os.path.dirname(os.path.abspath(__file__)))
BUILD = os.path.join(ROOT, "build")
# the tree under test.  Always /repo for registered checks; VERIF_REPO=<scratch worktree> lets a developer
# run a check against a mutated copy without touching /repo.
REPO = os.environ.get("VERIF_REPO", "/repo")
COQ = os.path.join(ROOT, "coq")
GOENV = dict(os.environ, GOFLAGS="-mod=mod", GOPROXY="off", GOSUMDB="off", GOTOOLCHAIN="local",
             CGO_ENABLED="0")

# ---------------------------------------------------------------- wire values
def vs(v):
    """python value -> wire text. int, bool, bytes/str, list/tuple."""
    if isinstance(v, bool):
        return "1" if v else "0"
    if isinstance(v, int):
        return str(v)
    if isinstance(v, str):
        v = v.encode("latin-1")
    if isinstance(v, (bytes, bytearray)):
        return "x" + bytes(v).hex()
    return "(" + " ".join(vs(x) for x in v) + ")"

def vparse(s):
    pos = 0
    n = len(s)
    def val():
        nonlocal pos
        while pos < n and s[pos] == " ":
            pos += 1
        c = s[pos]
        if c == "(":
            pos += 1
            out = []
            while True:
                while pos < n and s[pos] == " ":
                    pos += 1
                if s[pos] == ")":
                    pos += 1
                    return out
                out.append(val())
        st = pos
        while pos < n and s[pos] not in " ()":
            pos += 1
        tok = s[st:pos]
        if tok.startswith("x"):
            return bytes.fromhex(tok[1:])
        return int(tok)
    return val()

PANIC_PREFIX = "(x2170616e6963"   # ("!panic" ...

# ---------------------------------------------------------------- errors
class Broken(Exception):
    """a proof obligation or the correspondence can no longer be established"""
    def __init__(self, what, detail=""):
        super().__init__(what)
        self.what, self.detail = what, detail

# ---------------------------------------------------------------- builds
def _run(cmd, cwd=None, timeout=1800, env=None, inp=None):
    p = subprocess.run(cmd, cwd=cwd, env=env, input=inp, stdout=subprocess.PIPE,
                       stderr=subprocess.PIPE, timeout=timeout)
    return p.returncode, p.stdout.decode("utf-8", "replace"), p.stderr.decode("utf-8", "replace")

class Lock:
    def __init__(self, name):
        os.makedirs(BUILD, exist_ok=True)
        self.f = open(os.path.join(BUILD, name + ".lock"), "w")
    def __enter__(self):
        fcntl.flock(self.f, fcntl.LOCK_EX)
    def __exit__(self, *a):
        fcntl.flock(self.f, fcntl.LOCK_UN)

FORBIDDEN = re.compile(r"\b(Admitted|admit|Axiom|Parameter|Parameters|Conjecture|Admit Obligations|"
                       r"Unset Guard Checking|Unset Positivity Checking|Unset Universe Checking|"
                       r"bypass_check|type-in-type|impredicative-set)\b")

def coq_sources(prop=None):
    """the .v files of the development; with prop: only those Properties/<prop>.v and Run/Run<prop>*.v depend on"""
    allf = {}
    for d in ("Base", "Model", "Proofs", "Properties", "Run"):
        p = os.path.join(COQ, d)
        if os.path.isdir(p):
            for f in sorted(os.listdir(p)):
                if f.endswith(".v"):
                    allf[f[:-2]] = os.path.join(p, f)
    if prop is None:
        return sorted(allf.values())
    roots = [m for m in allf if m == prop or m.startswith("Run" + prop)]
    seen, todo = set(), list(roots)
    while todo:
        m = todo.pop()
        if m in seen or m not in allf:
            continue
        seen.add(m)
        src = strip_comments(open(allf[m]).read())
        for line in re.findall(r"(?:Require\s+(?:Import|Export)?|From\s+V\s+Require\s+(?:Import|Export)?)\s+([^.]*(?:\.[A-Za-z_][^.]*)*)\.", src):
            for name in line.split():
                todo.append(name.split(".")[-1])
    return sorted(allf[m] for m in seen)

def strip_comments(src):
    out, depth, i = [], 0, 0
    while i < len(src):
        if src.startswith("(*", i):
            depth += 1; i += 2
        elif src.startswith("*)", i) and depth > 0:
            depth -= 1; i += 2
        else:
            if depth == 0:
                out.append(src[i])
            i += 1
    return "".join(out)

def coq_targets(prop):
    t = ["Properties/%s.vo" % prop]
    run = os.path.join(COQ, "Run")
    t += ["Run/" + f[:-2] + ".vo" for f in sorted(os.listdir(run)) if f.startswith("Run" + prop) and f.endswith(".v")]
    return t

def build_coq(prop):
    """full .vo build (never -vos) of the property's theorem file and wire wrappers; no-op when up to date"""
    for f in coq_sources(prop):
        m = FORBIDDEN.search(strip_comments(open(f).read()))
        if m:
            raise Broken("forbidden construct %r in %s" % (m.group(0), os.path.relpath(f, ROOT)))
    rc, o, e = _run([os.path.join(ROOT, "bin", "coqmake")] + coq_targets(prop), timeout=3200)
    if rc != 0:
        m = re.search(r'File "\./([^"]+)", line (\d+)', o + e)
        where = "%s:%s" % (m.group(1), m.group(2)) if m else "coq build"
        raise Broken("Coq proof no longer checks at " + where, (o + e)[-3000:])

def build_driver(prop):
    with Lock("ocaml-" + prop):
        rc, o, e = _run(["sh", os.path.join(ROOT, "ocaml", "build.sh"), prop], timeout=1800)
        if rc != 0:
            raise Broken("extraction / OCaml driver build failed", (o + e)[-3000:])

def build_harness(prop, race=False):
    """rebuild the property's Go harness against /repo's current working tree, hooks on (-tags verif)"""
    with Lock("go"):
        h = os.path.join(ROOT, "harness")
        alt = REPO != "/repo"
        tag = hashlib.md5(REPO.encode()).hexdigest()[:8] if alt else ""
        modfile = os.path.join(BUILD, "go-%s.mod" % tag) if alt else os.path.join(h, "go.mod")
        try:
            if alt:
                open(modfile, "w").write(open(os.path.join(h, "go.mod")).read().replace("=> /repo", "=> " + REPO))
            with open(os.path.join(REPO, "go.sum"), "rb") as a, open(modfile[:-4] + ".sum", "wb") as b:
                b.write(a.read())
        except OSError:
            pass
        out = os.path.join(BUILD, ("vh-race-" if race else "vh-") + prop + (("-" + tag) if alt else ""))
        cmd = ["go", "build", "-tags", "verif"] + (["-race"] if race else []) + (["-modfile", modfile] if alt else []) + \
              ["-o", out, "./cmd/" + prop.lower()]
        env = dict(GOENV)
        if race:
            env["CGO_ENABLED"] = "1"
        rc, o, e = _run(cmd, cwd=h, env=env, timeout=1800)
        if rc != 0:
            raise Broken("harness no longer builds against /repo (correspondence cannot be established)",
                         (o + e)[-3000:])
        return out

def theorems_of(prop):
    p = os.path.join(COQ, "Properties", prop + ".v")
    if not os.path.exists(p):
        return []
    src = strip_comments(open(p).read())
    return re.findall(r"^\s*(?:Theorem|Lemma|Example|Corollary)\s+([A-Za-z0-9_']+)", src, re.M)

def proof_status(prop):
    """re-check the assumptions of every theorem in Properties/<prop>.v"""
    names = theorems_of(prop)
    if not names:
        raise Broken("no theorems found in Properties/%s.v" % prop)
    os.makedirs(BUILD, exist_ok=True)
    f = os.path.join(BUILD, "assum_%s.v" % prop)
    with open(f, "w") as fh:
        fh.write("From V Require Import %s.\n" % prop)
        for n in names:
            fh.write('Print Assumptions %s.\n' % n)
    rc, o, e = _run(["timeout", "2400", "coqc", "-Q", COQ, "V", f], cwd=BUILD, timeout=2500)
    for ext in (".vo", ".vok", ".vos", ".glob"):
        try:
            os.remove(f[:-2] + ext)
        except OSError:
            pass
    if rc != 0:
        raise Broken("Print Assumptions failed for %s" % prop, (o + e)[-2000:])
    blocks = re.split(r"(?=Closed under the global context|Axioms:)", o)
    blocks = [b.strip() for b in blocks if b.strip()]
    res = []
    for n, b in zip(names, blocks):
        closed = b.startswith("Closed under the global context")
        axioms = [] if closed else [l.split(":")[0].strip() for l in b.splitlines()[1:] if l and not l.startswith(" ")]
        res.append({"theorem": n, "closed": closed, "axioms": axioms})
    if len(res) != len(names):
        raise Broken("could not read assumptions of %s" % prop, o[-2000:])
    return res

def coqchk_status(prop):
    """thorough tier: re-check the compiled theorems and everything they depend on with the independent
    checker and report the axioms they rely on (result cached by the content of the .vo closure)"""
    vos = [f[:-2] + ".vo" for f in coq_sources(prop)]
    h = hashlib.md5()
    for v in vos:
        try:
            h.update(open(v, "rb").read())
        except OSError:
            pass
    cache = os.path.join(BUILD, "coqchk_%s_%s.json" % (prop, h.hexdigest()[:12]))
    if os.path.exists(cache):
        return json.load(open(cache))
    t0 = time.time()
    rc, o, e = _run(["timeout", "3000", "coqchk", "-silent", "-o", "-Q", COQ, "V", "V.Properties." + prop], timeout=3100)
    out = o + e
    m = re.search(r"\* Axioms:(.*?)\n\s*\n\* Constants/Inductives relying on type-in-type:(.*?)\n\s*\n"
                  r"\* Constants/Inductives relying on unsafe \(co\)fixpoints:(.*?)\n\s*\n\* Inductives whose positivity is assumed:(.*?)\n",
                  out, re.S)
    res = {"exit": rc, "wall_s": round(time.time() - t0, 1), "axioms": None}
    if m:
        res.update({"axioms": m.group(1).strip(), "type_in_type": m.group(2).strip(),
                    "unsafe_fixpoints": m.group(3).strip(), "assumed_positivity": m.group(4).strip()})
    else:
        res["tail"] = out[-1500:]
    if rc == 0 and m:
        json.dump(res, open(cache, "w"))
    return res

# ---------------------------------------------------------------- running
def run_driver(prop, fn, lines, timeout=3600):
    if not lines:
        return []
    data = ("\n".join(lines) + "\n").encode()
    p = subprocess.run([os.path.join(BUILD, "ocaml-" + prop, "driver"), fn], input=data, stdout=subprocess.PIPE,
                       stderr=subprocess.PIPE, timeout=timeout)
    if p.returncode != 0:
        raise Broken("model driver failed on %s" % fn, p.stderr.decode("utf-8", "replace")[-2000:])
    out = p.stdout.decode().split("\n")
    if out and out[-1] == "":
        out.pop()
    if len(out) != len(lines):
        raise Broken("model driver returned %d lines for %d cases (%s)" % (len(out), len(lines), fn),
                     p.stderr.decode("utf-8", "replace")[-2000:])
    return out

def vh_exe(prop, race=False):
    alt = REPO != "/repo"
    tag = hashlib.md5(REPO.encode()).hexdigest()[:8] if alt else ""
    return os.path.join(BUILD, ("vh-race-" if race else "vh-") + prop + (("-" + tag) if alt else ""))

def run_vh(prop, cmd, lines, timeout=600, mem_kb=4 * 1024 * 1024, exe=None):
    """run the implementation on the cases; a dead/hung process is an observation:
    the journalled case gets the marker (!crash) / (!hang) and the rest run in a fresh process"""
    exe = exe or vh_exe(prop)
    results = []
    start = 0
    jpath = os.path.join(BUILD, "journal_%d_%s" % (os.getpid(), cmd))
    while start < len(lines):
        chunk = lines[start:]
        data = ("\n".join(chunk) + "\n").encode()
        env = dict(os.environ, VH_JOURNAL=jpath)
        shell = "ulimit -v %d; exec %s %s" % (mem_kb, exe, cmd)
        status = "ok"
        try:
            p = subprocess.run(["sh", "-c", shell], input=data, stdout=subprocess.PIPE, stderr=subprocess.PIPE,
                               timeout=timeout, env=env)
            out = p.stdout.decode().split("\n")
            err = p.stderr.decode("utf-8", "replace")
            if p.returncode != 0:
                status = "crash"
        except subprocess.TimeoutExpired as ex:
            out = (ex.stdout or b"").decode().split("\n")
            err = "timeout"
            status = "hang"
        if out and out[-1] == "":
            out.pop()
        results += out
        if status == "ok" and len(out) == len(chunk):
            break
        if len(out) >= len(chunk):
            break
        # the case after the last answered one killed or hung the process
        tail = err.strip().splitlines()[-6:] if err else []
        first = next((l for l in err.splitlines() if l.startswith(("panic:", "fatal error:"))), "")
        marker = vs([("!hang" if status == "hang" else "!crash"), (first or " ".join(tail))[:300]])
        results.append(marker)
        start = len(results)
    try:
        os.remove(jpath)
    except OSError:
        pass
    return results[:len(lines)]

# ---------------------------------------------------------------- findings
def load_findings(prop):
    """known_findings/<prop>.json: list of {property, status: known|fixed, sig, what, commit?}.
    Never written at run time.  Only status=known entries print KNOWN-FINDING and are excused."""
    p = os.path.join(ROOT, "known_findings", prop + ".json")
    if not os.path.exists(p):
        return []
    return [f for f in json.load(open(p)) if f.get("property") == prop]

# ---------------------------------------------------------------- a check run
class Check:
    def __init__(self, prop, tier, seed):
        self.prop, self.tier, self.seed = prop, tier, seed
        self.rng = random.Random(seed * 1000003 + int(hashlib.md5(prop.encode()).hexdigest()[:6], 16))
        self.t0 = time.time()
        self.streams = []          # per stream statistics
        self.failures = []         # dict(stream, sig, case, expected, observed, note)
        self.divergences = []      # correspondence mismatches with passing oracle
        self.broken = []           # Broken exceptions (obligations that no longer check)
        self.proofs = []
        self.known_printed = []
        self.samples = []
        self.evaluations = 0
        self.nontrivial = set()
        self.extra = {}
        self.findings = load_findings(prop)
        self.thorough = tier == "thorough"

    # -- builds
    def prepare(self, harness=True, race=False):
        try:
            build_coq(self.prop)
            self.proofs = proof_status(self.prop)
            build_driver(self.prop)
            if self.thorough and os.environ.get("VERIF_NO_COQCHK") != "1":
                r = coqchk_status(self.prop)
                self.extra["coqchk"] = r
                if r["exit"] != 0 or r.get("axioms") is None:
                    raise Broken("coqchk does not accept Properties/%s.vo" % self.prop, str(r)[-1500:])
                bad = [k for k in ("type_in_type", "unsafe_fixpoints", "assumed_positivity") if r.get(k) != "<none>"]
                if bad:
                    raise Broken("coqchk reports %s for %s" % (bad, self.prop), str(r))
        except Broken as b:
            self.broken.append(b)
        if harness:
            try:
                build_harness(self.prop)
                if race:
                    build_harness(self.prop, race=True)
            except Broken as b:
                self.broken.append(b)
                return False
        return not self.broken

    # -- the pipeline on one stream of cases
    def stream(self, name, cases, run_fn=None, vh_cmd=None, ok_fn=None, nontrivial=None, sig=None,
               compare=True, timeout=900, sample=3, project=None, mem_kb=4 * 1024 * 1024, exe=None):
        """cases: list of python values. run_fn: model prediction (driver fn). vh_cmd: harness
        command. ok_fn: oracle driver fn taking (case observed). sig(case, exp, obs) -> finding
        signature for a failing case. project(str)->str canonicalises before comparison."""
        lines = [vs(c) for c in cases]
        st = {"stream": name, "cases": len(lines), "oracle_failures": 0, "divergences": 0, "panics": 0}
        self.streams.append(st)
        if not lines:
            return []
        try:
            exp = run_driver(self.prop, run_fn, lines) if run_fn else [None] * len(lines)
            obs = run_vh(self.prop, vh_cmd, lines, timeout=timeout, mem_kb=mem_kb, exe=exe)
            if len(obs) != len(lines):
                raise Broken("harness returned %d answers for %d cases on %s" % (len(obs), len(lines), name))
            oks = run_driver(self.prop, ok_fn, ["(%s %s)" % (l, o) for l, o in zip(lines, obs)]) if ok_fn else ["1"] * len(lines)
        except Broken as b:
            self.broken.append(b)
            return []
        # A failing or diverging case must reproduce: when a stream shows any, the whole stream (same
        # cases, same order, fresh harness process) is run a second time and a case is kept as failing /
        # diverging only if it fails / diverges in both runs.  Harnesses that drive real goroutines,
        # sockets and time-outs can be disturbed by machine load; a replay that does not reproduce is
        # not a replay.  Unreproduced cases are counted in the evidence ("unreproduced").
        def _bad(e, o, k):
            pe, po = (project(e), project(o)) if project and e is not None else (e, o)
            return k != "1" or (compare and e is not None and pe != po)
        bad = [i for i, (e, o, k) in enumerate(zip(exp, obs, oks)) if _bad(e, o, k)]
        if bad and os.environ.get("VERIF_NO_CONFIRM") != "1":
            try:
                obs2 = run_vh(self.prop, vh_cmd, lines, timeout=timeout, mem_kb=mem_kb, exe=exe)
                if len(obs2) == len(lines):
                    oks2 = run_driver(self.prop, ok_fn, ["(%s %s)" % (l, o) for l, o in zip(lines, obs2)]) if ok_fn else ["1"] * len(lines)
                    obs, oks = list(obs), list(oks)
                    for i in bad:
                        if not _bad(exp[i], obs2[i], oks2[i]):
                            st["unreproduced"] = st.get("unreproduced", 0) + 1
                            obs[i], oks[i] = obs2[i], oks2[i]
            except Broken:
                pass  # the confirmation run itself broke: keep what the first run showed
        seen = set()
        for i, (c, l, e, o, k) in enumerate(zip(cases, lines, exp, obs, oks)):
            self.evaluations += 1
            h = hashlib.md5(l.encode()).hexdigest()
            if nontrivial is None or nontrivial(c):
                self.nontrivial.add(name + h)
            if o.startswith(PANIC_PREFIX) or o.startswith("(x2163726173") or o.startswith("(x2168616e67"):
                st["panics"] += 1
            pe, po = (project(e), project(o)) if project and e is not None else (e, o)
            if k != "1":
                st["oracle_failures"] += 1
                s = sig(c, e, o) if sig else name
                self.failures.append({"stream": name, "sig": s, "case": l, "expected": e, "observed": o,
                                      "run_fn": run_fn, "vh_cmd": vh_cmd, "ok_fn": ok_fn})
            elif compare and e is not None and pe != po:
                st["divergences"] += 1
                self.divergences.append({"stream": name, "case": l, "expected": e, "observed": o,
                                         "run_fn": run_fn, "vh_cmd": vh_cmd, "ok_fn": ok_fn})
            if len([s for s in self.samples if s["stream"] == name]) < sample and h not in seen:
                seen.add(h)
                self.samples.append({"stream": name, "case": l[:400], "observed": o[:400]})
        return obs

    def fail(self, stream, sig, case, expected=None, observed=None, note=""):
        self.failures.append({"stream": stream, "sig": sig, "case": case, "expected": expected,
                              "observed": observed, "note": note})

    def count(self, n=1, nontrivial_key=None):
        self.evaluations += n
        if nontrivial_key is not None:
            self.nontrivial.add(nontrivial_key)

    # -- wrap up: findings, evidence, exit code
    def finish(self, rule, trusted=None, assumptions=None, exhaustive=False):
        prop = self.prop
        viol = 0
        os.makedirs(os.path.join(ROOT, "replays", prop), exist_ok=True)
        known = {f["sig"]: f for f in self.findings if f.get("status", "known") == "known"}
        reported = set()
        unmatched = []
        for f in self.failures:
            if f["sig"] in known:
                if f["sig"] not in reported:
                    reported.add(f["sig"])
                    print("KNOWN-FINDING: property=%s %s" % (prop, known[f["sig"]]["what"]))
            else:
                unmatched.append(f)
        # one VIOLATION line per distinct signature
        bysig = {}
        for f in unmatched:
            bysig.setdefault(f["sig"], []).append(f)
        n = 0
        for s, fs in bysig.items():
            fs.sort(key=lambda f: len(f["case"] or ""))
            path = os.path.join(ROOT, "replays", prop, "%d-%d.json" % (self.seed, n))
            n += 1
            json.dump({"property": prop, "kind": "failing-input", "signature": s, "count": len(fs),
                       "tier": self.tier, "seed": self.seed, **fs[0]}, open(path, "w"), indent=1)
            print("VIOLATION property=%s replay=%s" % (prop, path))
            viol += 1
        if (self.divergences or self.broken) and not unmatched:
            path = os.path.join(ROOT, "replays", prop, "%d-broken.json" % self.seed)
            json.dump({"property": prop, "kind": "no-failing-input-found",
                       "no_longer_checks": [b.what for b in self.broken] +
                                           (["correspondence model=implementation on streams: " +
                                             ", ".join(sorted({d["stream"] for d in self.divergences}))]
                                            if self.divergences else []),
                       "detail": [b.detail for b in self.broken],
                       "diverging_cases": sorted(self.divergences, key=lambda d: len(d["case"]))[:5],
                       "tier": self.tier, "seed": self.seed}, open(path, "w"), indent=1)
            print("VIOLATION property=%s replay=%s no-failing-input-found" % (prop, path))
            viol += 1
        elif self.divergences:
            # a failing input was found; the divergences are attached to its replay directory
            path = os.path.join(ROOT, "replays", prop, "%d-divergences.json" % self.seed)
            json.dump(sorted(self.divergences, key=lambda d: len(d["case"]))[:10], open(path, "w"), indent=1)
        obligations = len(self.proofs)
        discharged = len(self.proofs) if not any(isinstance(b, Broken) and "Coq" in b.what for b in self.broken) else 0
        axioms = sorted({a for p in self.proofs for a in p["axioms"]})
        tb = ["Coq 8.16.1 kernel incl. vm_compute (no native_compute)",
              "axioms under the property theorems: " + (", ".join(axioms) if axioms else "none (Closed under the global context)"),
              "extraction: ExtrOcamlBasic only, no Extract Constant/Inductive of our own; Z/N/positive kept inductive",
              "OCaml driver (value parser/printer), Go harness, bin/check orchestration: trusted for the correspondence only",
              "Go semantics, standard library and third-party modules are modelled, not verified"] + (trusted or [])
        ev = {"property_id": prop, "tier": self.tier, "seed": self.seed, "level": "proof",
              "coverage": {"obligations": max(obligations, 0), "discharged": discharged,
                           "checker_cmd": "make -C coq -f Makefile.coq (coqc, full .vo build) + coqc Print Assumptions per theorem",
                           "trusted_base": tb,
                           "theorems": self.proofs,
                           "evaluations": self.evaluations,
                           "distinct_nontrivial": len(self.nontrivial),
                           "rule": rule, "samples": self.samples[:12],
                           "streams": self.streams,
                           "disagreements_checked": len(self.divergences) + len(self.failures),
                           "known_findings_reproduced": sorted(reported),
                           "exhaustive": exhaustive, **self.extra},
              "assumptions": assumptions or [],
              "wall_s": round(time.time() - self.t0, 2), "violations": viol}
        os.makedirs(os.path.join(ROOT, "evidence"), exist_ok=True)
        json.dump(ev, open(os.path.join(ROOT, "evidence", prop + ".json"), "w"), indent=1)
        print("%s %s: %d evaluations, %d distinct non-trivial, %d theorems, %d known findings, %d violations, %.1fs"
              % (prop, self.tier, self.evaluations, len(self.nontrivial), obligations, len(reported), viol,
                 time.time() - self.t0))
        return 1 if viol else 0
