#!/usr/bin/env python3
"""Regenerate seeded/README.md from seeded/*/meta.json."""
import json, os
ROOT = os.path.dirname(os.path.dirname(os.path.abspath(__file__)))
rows = []
for d in sorted(os.listdir(os.path.join(ROOT, "seeded"))):
    p = os.path.join(ROOT, "seeded", d, "meta.json")
    if not os.path.exists(p):
        continue
    m = json.load(open(p))
    patch = open(os.path.join(ROOT, "seeded", d, "patch.diff")).read()
    files = sorted({l[6:] for l in patch.splitlines() if l.startswith("+++ b/")})
    caught = []
    for c, r in m.get("checks", {}).items():
        how = "not reported"
        if r["exit"] == 1:
            how = "VIOLATION with a failing input" if any("no-failing-input-found" not in l for l in r["lines"] if l.startswith("VIOLATION")) \
                else "VIOLATION no-failing-input-found (model/implementation divergence)"
        caught.append("%s: %s" % (c, how))
    rows.append((d, m.get("property"), ", ".join(files), "yes" if m.get("kept") else "no", "; ".join(caught),
                 (m.get("what_it_needs") or "").replace("\n", " ")[:300]))
with open(os.path.join(ROOT, "seeded", "README.md"), "w") as f:
    f.write("# Independently seeded breaking changes\n\nEach directory holds `patch.diff` (the change), the demonstration written by the "
            "seeding agent, its `README.txt`, and `meta.json` written by `bin/seedverify.py` (confirmed in a fresh scratch worktree: applies, "
            "builds, existing tests keep their verdicts, demonstration fails with / passes without the change; then the registered quick "
            "check was run against the changed tree with `VERIF_REPO`).\n\n")
    f.write("| seed | property | files changed | confirmed | what the check reported | needs |\n|---|---|---|---|---|---|\n")
    for r in rows:
        f.write("| %s |\n" % " | ".join(r))
print(len(rows), "seeds")
