#!/bin/sh
# build the framework offline from files on disk: Coq proofs (full .vo), extracted driver, Go harness
set -e
cd "$(dirname "$0")/.."
export GOFLAGS=-mod=mod GOPROXY=off GOSUMDB=off GOTOOLCHAIN=local CGO_ENABLED=0
mkdir -p build evidence replays
bin/coqmake
cp /repo/go.sum harness/go.sum
for f in coq/Properties/C*.v; do
  p=$(basename "$f" .v)
  sh ocaml/build.sh "$p"
  lc=$(echo "$p" | tr A-Z a-z)
  if [ -d "harness/cmd/$lc" ]; then (cd harness && go build -tags verif -o "../build/vh-$p" "./cmd/$lc"); fi
done
echo setup ok
