#!/bin/sh
# build the framework offline from files on disk: Coq proofs (full .vo), extracted driver, Go harness
set -e
cd "$(dirname "$0")/.."
export GOFLAGS=-mod=mod GOPROXY=off GOSUMDB=off GOTOOLCHAIN=local CGO_ENABLED=0
mkdir -p build evidence replays
sh coq/mkproject.sh
timeout 3000 make -C coq -f Makefile.coq -j16
sh ocaml/build.sh
cp /repo/go.sum harness/go.sum
(cd harness && go build -tags verif -o ../build/vh .)
echo setup ok
