#!/bin/sh
# build the framework offline from files on disk: Coq proofs (full .vo), extracted drivers, Go harnesses.
# Every property is built independently: a property that fails to build does not stop the others
# (its own check will report it).
cd "$(dirname "$0")/.."
export GOFLAGS=-mod=mod GOPROXY=off GOSUMDB=off GOTOOLCHAIN=local CGO_ENABLED=0
mkdir -p build evidence replays
bin/coqmake -k > build/setup-coq.log 2>&1 || echo "setup: some Coq files did not build (see build/setup-coq.log); the affected checks will say so"
cp /repo/go.sum harness/go.sum
for f in coq/Properties/C*.v; do
  p=$(basename "$f" .v)
  [ -f "coq/Properties/$p.vo" ] || { echo "setup: $p theorems not built"; continue; }
  sh ocaml/build.sh "$p" > "build/setup-ocaml-$p.log" 2>&1 || echo "setup: driver for $p not built"
  lc=$(echo "$p" | tr A-Z a-z)
  if [ -d "harness/cmd/$lc" ]; then
    (cd harness && go build -tags verif -o "../build/vh-$p" "./cmd/$lc") > "build/setup-go-$p.log" 2>&1 || echo "setup: harness for $p not built"
  fi
done
echo setup ok
