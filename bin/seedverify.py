#!/usr/bin/env python3
"""usage: bin/seedverify.py Cxx /tmp/seed-Cxx-out [--tag name] [--checks Cxx,Cyy]
Confirms a seeded change (patch.diff + demonstration) in a fresh scratch worktree of /repo:
 (a) it applies, builds and the existing tests give the same per-package verdicts as the unchanged tree,
 (b) the demonstration fails with it and passes without it,
 (c) runs the registered quick check(s) against the changed tree (VERIF_REPO) and records what they report.
Keeps it under /verif/seeded/<id>[-tag]/ (patch.diff, demo files, meta.json). Removes the worktree."""
import json, os, re, shutil, subprocess, sys, time

ROOT = os.path.dirname(os.path.dirname(os.path.abspath(__file__)))
ENV = dict(os.environ, GOFLAGS="-mod=mod", GOPROXY="off", GOSUMDB="off", GOTOOLCHAIN="local")

def sh(cmd, cwd=None, env=None, timeout=3000):
    p = subprocess.run(cmd, shell=True, cwd=cwd, env=env or ENV, stdout=subprocess.PIPE, stderr=subprocess.STDOUT, timeout=timeout)
    return p.returncode, p.stdout.decode("utf-8", "replace")

def pkg_verdicts(wt):
    rc, out = sh("go test -vet=off -count=1 ./... 2>&1", cwd=wt)
    v = {}
    for l in out.splitlines():
        m = re.match(r"^(ok|FAIL|---|\?)\s+(github.com/\S+)", l)
        if m and m.group(1) in ("ok", "FAIL"):
            v[m.group(2)] = m.group(1)
    return v, out

def main():
    pid, outdir = sys.argv[1], sys.argv[2]
    tag = ""
    reuse = False
    checks = [pid]
    args = sys.argv[3:]
    while args:
        a = args.pop(0)
        if a == "--tag":
            tag = "-" + args.pop(0)
        elif a == "--checks":
            checks = args.pop(0).split(",")
        elif a == "--reuse":
            reuse = True
    wt = "/tmp/sv-%s%s" % (pid, tag)
    sh("git -C /repo worktree remove --force %s" % wt)
    rc, o = sh("git -C /repo worktree add -q %s HEAD" % wt)
    assert rc == 0, o
    meta = {"property": pid, "source": outdir, "at": time.strftime("%Y-%m-%dT%H:%M:%SZ", time.gmtime())}
    try:
        readme = open(os.path.join(outdir, "README.txt")).read() if os.path.exists(os.path.join(outdir, "README.txt")) else ""
        # demo files: everything in outdir except patch.diff / README.txt; target path = noted in README or guessed
        demos = [f for f in os.listdir(outdir) if f.endswith(".go") or os.path.isdir(os.path.join(outdir, f))]
        base_v, _ = pkg_verdicts(wt)
        # place demos (without the patch) and run them
        placed = []
        placed_src = []
        for f in demos:
            cands = [x.lstrip("./") for x in re.findall(r"([\w./-]*" + re.escape(f) + r")", readme) if "/" in x.lstrip("./")]
            cands = [x[len("tmp/seed-%s/" % pid):] if x.startswith("tmp/seed-") else x for x in cands]
            cands = [x[len("github.com/cnotch/ipchub/"):] if x.startswith("github.com/cnotch/ipchub/") else x for x in cands]
            cands = [x for x in cands if x.endswith(f) and os.path.isdir(os.path.join(wt, os.path.dirname(x) or "."))] or cands
            rel = cands[0] if cands else None
            if rel is None and f.endswith(".go"):
                # fall back to the package clause: look for the directory whose package name matches
                pk = re.search(r"^package (\w+)", open(os.path.join(outdir, f)).read(), re.M)
                if pk:
                    rc0, found = sh("grep -rl --include=*.go '^package %s$' . | head -1" % pk.group(1).replace("_test", ""), cwd=wt)
                    if found.strip():
                        rel = os.path.join(os.path.dirname(found.strip().lstrip("./")), f)
            src = os.path.join(outdir, f)
            if os.path.isdir(src) and os.path.isdir(os.path.join(wt, f)):
                # the delivery directory itself mirrors the repository layout (e.g. out/media/cache/x_test.go)
                for root, _dirs, files in os.walk(src):
                    for fn in files:
                        relp = os.path.join(f, os.path.relpath(os.path.join(root, fn), src))
                        os.makedirs(os.path.dirname(os.path.join(wt, relp)), exist_ok=True)
                        shutil.copy(os.path.join(root, fn), os.path.join(wt, relp))
                        if fn.endswith(".go"):
                            placed.append(relp)
                            placed_src.append(os.path.join(root, fn))
                continue
            if os.path.isdir(src) and any(os.path.isdir(os.path.join(wt, d)) for d in os.listdir(src)):
                # a tree mirroring the repository layout: overlay it, every .go file in it is a demonstration
                for root, _dirs, files in os.walk(src):
                    for fn in files:
                        relp = os.path.relpath(os.path.join(root, fn), src)
                        os.makedirs(os.path.dirname(os.path.join(wt, relp)) or wt, exist_ok=True)
                        shutil.copy(os.path.join(root, fn), os.path.join(wt, relp))
                        if fn.endswith(".go"):
                            placed.append(relp)
                            placed_src.append(os.path.join(root, fn))
                continue
            if os.path.isdir(src):
                rel = rel or f
                shutil.copytree(src, os.path.join(wt, rel), dirs_exist_ok=True)
            else:
                if rel is None:
                    continue
                os.makedirs(os.path.dirname(os.path.join(wt, rel)), exist_ok=True)
                shutil.copy(src, os.path.join(wt, rel))
            placed.append(rel)
            placed_src.append(src)
        meta["demo_files"] = placed
        def run_demo():
            res = []
            for rel in placed:
                d = os.path.dirname(rel) if rel.endswith(".go") else rel
                if rel.endswith("_test.go"):
                    names = re.findall(r"func (Test\w+)\(", open(os.path.join(wt, rel)).read())
                    rc, out = sh("go test -vet=off -count=1 -run '^(%s)$' ./%s/ 2>&1" % ("|".join(names), d), cwd=wt)
                else:
                    rc, out = sh("go run ./%s 2>&1" % d, cwd=wt, timeout=600)
                res.append((rel, rc, out[-1500:]))
            return res
        def place():
            for f, rel in zip(placed_src, placed):
                if os.path.isdir(f):
                    shutil.copytree(f, os.path.join(wt, rel), dirs_exist_ok=True)
                else:
                    os.makedirs(os.path.dirname(os.path.join(wt, rel)), exist_ok=True)
                    shutil.copy(f, os.path.join(wt, rel))
        def unplace():
            for rel in placed:
                q = os.path.join(wt, rel)
                if os.path.isdir(q):
                    shutil.rmtree(q)
                elif os.path.exists(q):
                    os.remove(q)
        clean = run_demo()
        meta["demo_without_change"] = [{"file": r, "exit": rc} for r, rc, _ in clean]
        unplace()
        rc, o = sh("git apply %s" % os.path.join(outdir, "patch.diff"), cwd=wt)
        meta["applies"] = rc == 0
        if rc != 0:
            meta["apply_error"] = o[-800:]
        rc, o = sh("go build ./... && go build -tags verif ./...", cwd=wt)
        meta["builds"] = rc == 0
        mut_v, _ = pkg_verdicts(wt)
        # the machine is loaded and a few timing tests flake: re-run packages whose verdict changed
        for k in [k for k, v in base_v.items() if mut_v.get(k) != v]:
            for _ in range(3):
                rc2, _o = sh("go test -vet=off -count=1 %s 2>&1" % k.replace("github.com/cnotch/ipchub", "."), cwd=wt)
                if (rc2 == 0) == (base_v[k] == "ok"):
                    mut_v[k] = base_v[k]
                    break
        flaky = ("service/wsp", "network/socket/listener")
        # a package that fails on the unchanged tree (missing assets, or a timing flake of this loaded
        # machine) and passes with the change is no objection: what is required is that nothing that passed fails
        meta["existing_tests_same_verdicts"] = all(mut_v.get(k) == v for k, v in base_v.items()
                                                   if v == "ok" and not any(f in k for f in flaky))
        meta["verdict_changes"] = {k: (v, mut_v.get(k)) for k, v in base_v.items() if mut_v.get(k) != v}
        place()
        dirty = run_demo()
        meta["demo_with_change"] = [{"file": r, "exit": rc, "tail": out[-600:]} for r, rc, out in dirty]
        meta["demo_discriminates"] = bool(placed) and all(rc == 0 for _, rc, _ in clean) and any(rc != 0 for _, rc, _ in dirty)
        # remove the demo files so the checks see only the source change
        for rel in placed:
            p = os.path.join(wt, rel)
            shutil.rmtree(p) if os.path.isdir(p) else os.remove(p)
        meta["checks"] = {}
        prev = os.path.join(ROOT, "seeded", pid + tag, "meta.json")
        if reuse and os.path.exists(prev):
            meta["checks"] = json.load(open(prev)).get("checks", {})
            checks = [c for c in checks if c not in meta["checks"]]
        for c in checks:
            t0 = time.time()
            rc, o = sh("python3 bin/check %s --tier quick" % c, cwd=ROOT, env=dict(ENV, VERIF_REPO=wt), timeout=3000)
            lines = [l for l in o.splitlines() if l.startswith(("VIOLATION", "KNOWN-FINDING"))]
            meta["checks"][c] = {"exit": rc, "lines": lines, "wall_s": round(time.time() - t0, 1)}
        meta["caught_by"] = [c for c, r in meta["checks"].items() if r["exit"] == 1]
        dst = os.path.join(ROOT, "seeded", pid + tag)
        os.makedirs(dst, exist_ok=True)
        shutil.copy(os.path.join(outdir, "patch.diff"), os.path.join(dst, "patch.diff"))
        for f in demos:
            s = os.path.join(outdir, f)
            if os.path.isdir(s):
                shutil.copytree(s, os.path.join(dst, f), dirs_exist_ok=True)
            else:
                shutil.copy(s, os.path.join(dst, f))
        if readme:
            open(os.path.join(dst, "README.txt"), "w").write(readme)
        meta["what_it_needs"] = ""
        m = re.search(r"(?is)(needs?[^\n]*manifest.*?)(\n\s*\n|$)", readme)
        if m:
            meta["what_it_needs"] = m.group(1).strip()[:1200]
        meta["kept"] = bool(meta["applies"] and meta["builds"] and meta["existing_tests_same_verdicts"] and meta["demo_discriminates"])
        json.dump(meta, open(os.path.join(dst, "meta.json"), "w"), indent=1)
        print(json.dumps({k: meta[k] for k in ("applies", "builds", "existing_tests_same_verdicts", "demo_discriminates",
                                                "caught_by", "kept")}, indent=1))
        for c, r in meta["checks"].items():
            print(c, r["exit"], r["lines"][:3])
    finally:
        sh("git -C /repo worktree remove --force %s" % wt)

if __name__ == "__main__":
    main()
