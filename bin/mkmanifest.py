#!/usr/bin/env python3
"""Regenerate MANIFEST.json from checks/*.meta.json (one per claimed property) and properties.jsonl."""
import json, os, subprocess
ROOT = os.path.dirname(os.path.dirname(os.path.abspath(__file__)))
props = [json.loads(l) for l in open(os.path.join(ROOT, "properties.jsonl"))]
metas = {}
for f in sorted(os.listdir(os.path.join(ROOT, "checks"))):
    if f.endswith(".meta.json"):
        m = json.load(open(os.path.join(ROOT, "checks", f)))
        m.setdefault("property_id", f.split(".")[0].upper())
        metas[m["property_id"]] = m
approved = set(open(os.path.join(ROOT, "checks", "CLAIMED")).read().split())
checks, na = [], []
for p in props:
    i = p["id"]
    m = metas.get(i)
    if m and m.get("claimed", True) and i in approved:
        checks.append({
            "property_id": i,
            "quick_cmd": "python3 bin/check %s --tier quick" % i,
            "thorough_cmd": "python3 bin/check %s --tier thorough" % i,
            "evidence_file": "/verif/evidence/%s.json" % i,
            "replay_cmd_template": "python3 bin/check %s --replay {path}" % i,
            "engine": "coq-model+correspondence",
            "level_claimed": {"category": "proof", "text": m["text"], "design_ref": "DESIGN.md §6 " + i},
            "level_note": m["note"], "technique": m["technique"]})
    else:
        na.append({"property_id": i, "reason": (m or {}).get("reason") or
                   "not yet claimed: model/theorems/correspondence under construction (DESIGN.md §6 %s); no technique switch intended" % i})
hooks_commits = []
hp = os.path.join(ROOT, "hooks_commits.txt")
if os.path.exists(hp):
    hooks_commits = [l.split()[0] for l in open(hp) if l.strip() and not l.startswith("#")]
man = {"version": 1, "setup_cmd": "sh bin/setup.sh",
       "hooks": {"guard": "verif",
                 "enable": "go build -tags verif (harness module /verif/harness, replace github.com/cnotch/ipchub => /repo)",
                 "baseline_off_cmd": "cd /repo && GOFLAGS=-mod=mod GOPROXY=off GOSUMDB=off go test -json -vet=off -count=1 -timeout 25m ./...",
                 "source_commits": hooks_commits, "add_only": True},
       "engines": [{"name": "coq-model+correspondence", "path": "/verif/coq",
                    "serves_properties": [c["property_id"] for c in checks],
                    "kind_free_text": "Executable Gallina models with theorems (coq/), extracted with ExtrOcamlBasic to a generic OCaml driver (ocaml/), run against the implementation through a Go harness built from /repo's working tree with -tags verif (harness/), orchestrated by bin/check"}],
       "checks": checks,
       "notes": "Every check: full Coq build of the property's theorems + Print Assumptions, then the extracted model and the implementation are run on the same generated cases and the proved oracle is applied to the implementation's output. See DESIGN.md.",
       "not_applicable": na}
json.dump(man, open(os.path.join(ROOT, "MANIFEST.json"), "w"), indent=1)
print("claimed:", [c["property_id"] for c in checks])
