#!/bin/sh
# extract the Gallina model (ExtrOcamlBasic only) and build the generic driver
set -e
cd "$(dirname "$0")"
names=$(grep -ho '^Definition x_[A-Za-z0-9_]*' ../coq/Run/*.v | awk '{print $2}' | sort)
mods=$(ls ../coq/Run/*.v | xargs -n1 basename | sed 's/\.v$//' | sort)
{
  echo "From Coq Require Import ExtrOcamlBasic."
  echo "From V Require Import Val."
  for m in $mods; do echo "From V Require Import $m."; done
  echo "Extraction Language OCaml."
  printf 'Extraction "model.ml"'
  for n in $names; do printf ' %s' "$n"; done
  echo "."
} > extract.v
{
  echo "open Model"
  echo "let table : (string * (val0 -> val0)) list = ["
  for n in $names; do short=$(echo "$n" | sed 's/^x_//'); echo "  (\"$short\", $n);"; done
  echo "]"
} > registry.ml
new=$(cat extract.v registry.ml driver.ml ../coq/Run/*.vo 2>/dev/null | md5sum)
if [ -x driver ] && [ "$(cat .stamp 2>/dev/null)" = "$new" ]; then exit 0; fi
coqc -Q ../coq V extract.v > extract.log 2>&1 || { cat extract.log; exit 1; }
ocamlfind ocamlopt -O3 -w -a -package str model.mli model.ml registry.ml driver.ml -o driver 2>/dev/null || \
ocamlfind ocamlopt -w -a model.mli model.ml registry.ml driver.ml -o driver
echo "$new" > .stamp
