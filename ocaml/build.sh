#!/bin/sh
# usage: ocaml/build.sh Cxx
# extract the x_* functions of coq/Run/RunCxx*.v (ExtrOcamlBasic only) and build build/ocaml-Cxx/driver
set -e
prop="$1"
here="$(cd "$(dirname "$0")" && pwd)"
out="$here/../build/ocaml-$prop"
mkdir -p "$out"
cd "$out"
files=$(ls "$here"/../coq/Run/Run"$prop"*.v)
names=$(grep -ho '^Definition x_[A-Za-z0-9_]*' $files | awk '{print $2}' | sort)
mods=$(for f in $files; do basename "$f" .v; done | sort)
{
  echo "From Coq Require Import ExtrOcamlBasic."
  echo "From V Require Import Val."
  for m in $mods; do echo "From V Require Import $m."; done
  echo "Extraction Language OCaml."
  printf 'Extraction "model.ml"'
  for n in $names; do printf ' %s' "$n"; done
  echo "."
} > extract.v.new
{
  echo "open Model"
  echo "let table : (string * (val0 -> val0)) list = ["
  for n in $names; do short=$(echo "$n" | sed 's/^x_//'); echo "  (\"$short\", $n);"; done
  echo "]"
} > registry.ml
cp "$here/driver.ml" driver.ml
vos=$(for f in $files; do echo "${f%.v}.vo"; done)
new=$(cat extract.v.new registry.ml driver.ml $vos 2>/dev/null | md5sum)
if [ -x driver ] && [ "$(cat .stamp 2>/dev/null)" = "$new" ]; then rm -f extract.v.new; exit 0; fi
mv extract.v.new extract.v
coqc -Q "$here/../coq" V extract.v > extract.log 2>&1 || { cat extract.log; exit 1; }
ocamlfind ocamlopt -O3 -w -a model.mli model.ml registry.ml driver.ml -o driver 2>/dev/null || \
ocamlfind ocamlopt -w -a model.mli model.ml registry.ml driver.ml -o driver
echo "$new" > .stamp
