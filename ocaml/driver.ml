(* Generic driver around the extracted Gallina model.
   usage: driver <function-name>   reads one value per line on stdin, applies the
   registered [val -> val] function, prints one value per line on stdout.
   Text syntax: integers, x<hex> byte strings, ( ... ) lists. *)
open Model

let rec pos_of_int n = if n = 1 then XH else if n land 1 = 1 then XI (pos_of_int (n lsr 1)) else XO (pos_of_int (n lsr 1))
let z_of_int n = if n = 0 then Z0 else if n > 0 then Zpos (pos_of_int n) else Zneg (pos_of_int (-n))
let rec int_of_pos = function XH -> 1 | XO p -> 2 * int_of_pos p | XI p -> 2 * int_of_pos p + 1

(* decimal printing of arbitrary positives: little-endian digit arrays *)
let rec pos_bits acc = function XH -> true :: acc | XO p -> pos_bits (false :: acc) p | XI p -> pos_bits (true :: acc) p
let dec_of_pos p =
  (* most-significant-first bits -> decimal string by repeated doubling *)
  let bits = pos_bits [] p in
  let digits = ref [0] in (* little endian *)
  List.iter (fun b ->
    let carry = ref (if b then 1 else 0) in
    digits := List.map (fun d -> let v = d * 2 + !carry in carry := v / 10; v mod 10) !digits;
    if !carry > 0 then digits := !digits @ [!carry]) bits;
  String.concat "" (List.rev_map string_of_int !digits)
let rec pos_small n = function XH -> n < 62 | XO p | XI p -> n < 62 && pos_small (n + 1) p
let string_of_z = function
  | Z0 -> "0"
  | Zpos p -> if pos_small 0 p then string_of_int (int_of_pos p) else dec_of_pos p
  | Zneg p -> "-" ^ (if pos_small 0 p then string_of_int (int_of_pos p) else dec_of_pos p)

let z_of_string s =
  let neg = String.length s > 0 && s.[0] = '-' in
  let body = if neg then String.sub s 1 (String.length s - 1) else s in
  if String.length body <= 18 then z_of_int (int_of_string s)
  else begin
    (* big: decimal -> bits by repeated halving *)
    let d = Array.init (String.length body) (fun i -> Char.code body.[i] - 48) in
    let n = Array.length d in
    let is_zero () = Array.for_all (fun x -> x = 0) d in
    let bits = ref [] in
    while not (is_zero ()) do
      let rem = ref 0 in
      for i = 0 to n - 1 do
        let v = !rem * 10 + d.(i) in d.(i) <- v / 2; rem := v mod 2
      done;
      bits := (!rem = 1) :: !bits
    done;
    (* bits: most significant first *)
    let p = match !bits with
      | [] -> None
      | _ :: rest -> Some (List.fold_left (fun acc b -> if b then XI acc else XO acc) XH rest) in
    match p with None -> Z0 | Some p -> if neg then Zneg p else Zpos p
  end

let hexv c = match c with
  | '0'..'9' -> Char.code c - 48 | 'a'..'f' -> Char.code c - 87 | 'A'..'F' -> Char.code c - 55
  | _ -> failwith "hex"
let bytetab = Array.init 256 z_of_int

let parse_line (s : string) : val0 =
  let n = String.length s in
  let pos = ref 0 in
  let skip () = while !pos < n && (s.[!pos] = ' ' || s.[!pos] = '\t' || s.[!pos] = '\r') do incr pos done in
  let rec value () : val0 =
    skip ();
    if !pos >= n then failwith "eof";
    match s.[!pos] with
    | '(' -> incr pos; let items = ref [] in
        let rec loop () = skip ();
          if !pos >= n then failwith "unclosed";
          if s.[!pos] = ')' then incr pos else begin items := value () :: !items; loop () end in
        loop (); VL (List.rev !items)
    | 'x' -> incr pos; let st = !pos in
        while !pos < n && s.[!pos] <> ' ' && s.[!pos] <> ')' && s.[!pos] <> '(' do incr pos done;
        let len = (!pos - st) / 2 in
        let l = ref [] in
        for i = len - 1 downto 0 do
          l := bytetab.(hexv s.[st + 2*i] * 16 + hexv s.[st + 2*i + 1]) :: !l done;
        VB !l
    | _ -> let st = !pos in
        while !pos < n && s.[!pos] <> ' ' && s.[!pos] <> ')' && s.[!pos] <> '(' do incr pos done;
        VI (z_of_string (String.sub s st (!pos - st)))
  in value ()

let hexd = "0123456789abcdef"
let rec print_val (b : Buffer.t) (v : val0) : unit =
  match v with
  | VI z -> Buffer.add_string b (string_of_z z)
  | VB l -> Buffer.add_char b 'x';
      List.iter (fun z -> let c = (match z with Z0 -> 0 | Zpos p -> int_of_pos p land 255 | Zneg _ -> 0) in
                  Buffer.add_char b hexd.[c lsr 4]; Buffer.add_char b hexd.[c land 15]) l
  | VL l -> Buffer.add_char b '(';
      List.iteri (fun i x -> if i > 0 then Buffer.add_char b ' '; print_val b x) l;
      Buffer.add_char b ')'

let () =
  let name = Sys.argv.(1) in
  let f = try List.assoc name Registry.table with Not_found ->
    prerr_endline ("driver: unknown function " ^ name); exit 2 in
  let buf = Buffer.create 65536 in
  (try while true do
    let line = input_line stdin in
    if String.length line > 0 then begin
      Buffer.clear buf;
      (try print_val buf (f (parse_line line))
       with Stack_overflow -> Buffer.add_string buf "(x21737461636b)"
          | Failure m -> Buffer.clear buf; Buffer.add_string buf ("(x216572726f72)"); prerr_endline ("driver: " ^ m));
      Buffer.add_char buf '\n';
      print_string (Buffer.contents buf)
    end
  done with End_of_file -> ());
  flush stdout
