(* C16 — permission patterns mean what the configuration guide says.
   A right string is a ';'-separated list of path patterns, matched
   case-insensitively, segment by segment; literal / '+' / trailing '*';
   permitted iff some pattern matches; empty right permits nothing, except an
   administrator's empty right, which is '*'.
   [validate_go] / [match_go (compile _)] mirror provider/auth (user.go,
   path_matcher.go as repaired for D31, utils/scan); [spec_permit] /
   [spec_pattern] / [seg_match] are the documented language over segment
   lists.  Statements only; proofs are in Proofs/C16PathMatchProofs.v.
   No guard: the theorems hold for all byte strings (ASCII is an assumption of
   the correspondence with Go only). *)
From Coq Require Import ZArith List Bool.
From V Require Import Bytes StrGo C16PathMatch C16PathMatchProofs.
Import ListNotations.

(* User.init + ValidatePermission = the documented language: every right string, admin flag, path *)
Theorem C16_matcher_refines_spec : forall admin access path,
  validate_go admin access path = spec_permit admin access path.
Proof. exact matcher_refines_spec. Qed.
Print Assumptions C16_matcher_refines_spec.

(* NewPathMatcher(mask).Match(path) on its own *)
Theorem C16_pattern_refines_spec : forall mask path,
  match_go (compile mask) path = spec_pattern mask path.
Proof. exact matcher_is_spec. Qed.
Print Assumptions C16_pattern_refines_spec.

(* what the segment-list matcher means: the four clauses of the statement *)
Theorem C16_spec_meaning : forall pat path, seg_match pat path = true <-> Matches pat path.
Proof. exact seg_match_meaning. Qed.
Print Assumptions C16_spec_meaning.

(* a trailing '*' matches zero or more remaining segments *)
Theorem C16_open_pattern_meaning : forall (pre path : list bytes),
  seg_match (pre ++ [([STAR] : bytes)]) path = true <->
  exists front rest, path = front ++ rest /\ Forall2 seg_ok pre front.
Proof. exact open_pattern_meaning. Qed.
Print Assumptions C16_open_pattern_meaning.

(* without trailing '*': segment-wise agreement over the whole path ... *)
Theorem C16_closed_pattern_meaning : forall (pat path : list bytes),
  is_star (last pat []) = false ->
  (seg_match pat path = true <-> Forall2 seg_ok pat path).
Proof. exact closed_pattern_meaning. Qed.
Print Assumptions C16_closed_pattern_meaning.

(* ... hence only paths with the same number of segments *)
Theorem C16_closed_pattern_same_length : forall (pat path : list bytes),
  is_star (last pat []) = false -> seg_match pat path = true -> length pat = length path.
Proof. exact closed_pattern_same_length. Qed.
Print Assumptions C16_closed_pattern_same_length.

(* '*' alone matches everything *)
Theorem C16_star_alone_matches_all : forall path, seg_match [[STAR]] path = true.
Proof. exact star_alone_matches_all. Qed.
Print Assumptions C16_star_alone_matches_all.

(* permitted exactly when at least one pattern of the relevant right matches *)
Theorem C16_permit_iff_some_item : forall admin rt path,
  spec_permit admin rt path = true <->
  exists item, In item (spec_items (spec_right admin rt)) /\
               Matches (segments item) (segments (trim_space path)).
Proof. exact permit_iff_some_item. Qed.
Print Assumptions C16_permit_iff_some_item.

(* an empty right permits nothing, except that an administrator's empty right is '*' *)
Theorem C16_empty_right_permits_nothing : forall path, validate_go false [] path = false.
Proof. intros path. rewrite matcher_refines_spec. exact (empty_right_permits_nothing path). Qed.
Print Assumptions C16_empty_right_permits_nothing.

Theorem C16_admin_empty_right_is_star : forall path, validate_go true [] path = true.
Proof. intros path. rewrite matcher_refines_spec. exact (admin_empty_right_is_star path). Qed.
Print Assumptions C16_admin_empty_right_is_star.

(* the user as currently saved: after saving one name twice (auth.Save -> CopyFrom: admin flag,
   password rule, access strings, then init), validation equals the documented language on the
   SECOND save's (admin, push, pull) alone - nothing of the first save survives *)
Theorem C16_resave_is_fresh : forall s1 s2,
  exists u, save_go (save_go None s1) s2 = Some u /\
            forall r path, validate_user u r path = spec_save s2 r path.
Proof. exact resave_is_fresh. Qed.
Print Assumptions C16_resave_is_fresh.

(* stronger: one Save on top of any stored state whatsoever (old flag, old strings, old matcher lists) *)
Theorem C16_save_is_fresh : forall st s,
  exists u, save_go st s = Some u /\
            forall r path, validate_user u r path = spec_save s r path.
Proof. exact save_is_fresh. Qed.
Print Assumptions C16_save_is_fresh.

(* histories of any length: only the last save counts *)
Theorem C16_history_is_last : forall saves s,
  last_save saves = Some s ->
  exists u, fold_left save_go saves None = Some u /\
            forall r path, validate_user u r path = spec_save s r path.
Proof. exact history_is_last. Qed.
Print Assumptions C16_history_is_last.

(* the oracle applied to the implementation's answers accepts the model on every case
   (fresh right, bare pattern, history of saves of one name - of any length) ... *)
Theorem C16_model_passes : forall c, ok_case c (enc_answers (run_case c)) = true.
Proof. exact model_passes_oracle. Qed.
Print Assumptions C16_model_passes.

(* ... and accepts only the documented answer for every path of the case *)
Theorem C16_oracle_sound : forall c obs, ok_case c obs = true -> obs = enc_answers (spec_case c).
Proof. exact oracle_sound. Qed.
Print Assumptions C16_oracle_sound.

(* D31: NewPathMatcher before the repair refused the path "/a /b" under the right "/a /b" *)
Theorem C16_prefix_matcher_refuted :
  exists access path,
    right_blank_edges access = true /\
    spec_permit false access path = true /\
    validate_go_prefix false access path = false.
Proof. exact prefix_matcher_refuted. Qed.
Print Assumptions C16_prefix_matcher_refuted.

(* and was right for every right without a blank-edged pattern segment *)
Theorem C16_prefix_matcher_right_elsewhere : forall admin access path,
  right_blank_edges (spec_right admin access) = false ->
  validate_go_prefix admin access path = spec_permit admin access path.
Proof. exact prefix_matcher_right_elsewhere. Qed.
Print Assumptions C16_prefix_matcher_right_elsewhere.

(* non-vacuity: right "/a/+/c/*" permits "/A/b/C/d", refuses "/a/c"; "/x; /a /B" permits " /a /b/ " *)
Example C16_nonvacuous :
  validate_go false [47;97;47;43;47;99;47;42] [47;65;47;98;47;67;47;100] = true /\
  validate_go false [47;97;47;43;47;99;47;42] [47;97;47;99] = false /\
  validate_go false [47;120;59;32;47;97;32;47;66] [32;47;97;32;47;98;47;32] = true /\
  right_blank_edges [47;97;47;43;47;99;47;42] = false /\
  (* administrator with empty rights, then saved again as an ordinary user with empty rights *)
  run_case (CHist [mkSave true [112] [] [] true; mkSave false [] [] [] false] [[47;97]]) = [false; false] /\
  run_case (CHist [mkSave true [112] [] [] true] [[47;97]]) = [true; true].
Proof. vm_compute. auto 10. Qed.
