(* C16 — permission patterns mean what the configuration guide says. (statements; proofs in Proofs/C16PathMatchProofs.v) *)
From Coq Require Import ZArith List Bool.
From V Require Import Bytes StrGo C16PathMatch.
Import ListNotations.

Example C16_nonvacuous :
  validate_go false [47;97;47;43;47;99;47;42] [47;65;47;98;47;67;47;100] = true /\
  spec_permit false [47;97;47;43;47;99;47;42] [47;97;47;99] = false.
Proof. vm_compute. auto. Qed.
