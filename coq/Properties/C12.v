(* C12 — RTSP sessions answer every request once and follow the legal method order.
   Statements only; proofs are in Proofs/C12RtspProofs.v and Proofs/C12RtspInv.v.
   [step] is the model of Session.onRequest (repaired behaviour), [env] the environment
   (live streams, SDP parser results) over which everything is quantified; sessions are
   TCP or ws-rtsp ([init_sess ws path]); request sequences are unbounded lists. *)
From Coq Require Import ZArith List Bool.
From V Require Import Bytes StrGo C12RtspSession C12RtspProofs C12RtspInv.
Import ListNotations.
Open Scope Z_scope.

(* exactly one response per request, CSeq echoed, session id present — in every state of an open session *)
Theorem C12_one_response_per_request : forall e s q s' rs fs,
  s_closed s = false -> step e s q = (s', rs, fs) ->
  exists r, rs = [r] /\ rs_cseq r = q_cseq q /\ rs_sess r = true.
Proof. exact one_response_per_request. Qed.
Print Assumptions C12_one_response_per_request.

(* ... which the code before the fix violated: PLAY while playing got no response (D25) *)
Theorem C12_one_response_refuted : exists e s q,
  s_closed s = false /\ snd (fst (step_orig e s q)) = [].
Proof. exact one_response_refuted. Qed.
Print Assumptions C12_one_response_refuted.

(* a method that is not legal in the current state is refused with 455 and changes nothing *)
Theorem C12_illegal_is_455_noop : forall e s q,
  s_closed s = false -> legal (s_status s) (q_meth q) = false ->
  step e s q = (s, [resp 455 q], []).
Proof. exact illegal_is_455_noop. Qed.
Print Assumptions C12_illegal_is_455_noop.

(* playing is reached only through DESCRIBE, SETUP, PLAY (each answered 2xx, in this order),
   recording only through ANNOUNCE, SETUP, RECORD — for every request sequence *)
Theorem C12_playing_only_via_describe_setup_play : forall e watch ext ws wspath qs os ext' s',
  forallb req_wf qs = true ->
  run_gen true e watch ext (init_sess ws wspath) qs = (os, (ext', s')) ->
  s_status s' = SPlaying -> subseq [MDescribe; MSetup; MPlay] (events qs os).
Proof. exact playing_only_via_describe_setup_play. Qed.
Print Assumptions C12_playing_only_via_describe_setup_play.

Theorem C12_recording_only_via_announce_setup_record : forall e watch ext ws wspath qs os ext' s',
  forallb req_wf qs = true ->
  run_gen true e watch ext (init_sess ws wspath) qs = (os, (ext', s')) ->
  s_status s' = SRecording -> subseq [MAnnounce; MSetup; MRecord] (events qs os).
Proof. exact recording_only_via_announce_setup_record. Qed.
Print Assumptions C12_recording_only_via_announce_setup_record.

(* no media before a successful PLAY, no publication before a successful RECORD: the attach /
   register effects occur only in the ready->playing / ready->recording transitions answered 200;
   release and close only in TEARDOWN *)
Theorem C12_no_media_before_play_no_publish_before_record : forall e s q s' rs fs f,
  s_closed s = false -> step e s q = (s', rs, fs) -> In f fs ->
  match f with
  | EAttach p => q_meth q = MPlay /\ rs = [resp 200 q] /\ s_status s = SReady /\
                 s_status s' = SPlaying /\ s_held s' = HCons p
  | ERegister p => q_meth q = MRecord /\ rs = [resp 200 q] /\ s_status s = SReady /\
                   s_status s' = SRecording /\ s_held s' = HPub p
  | ERelease h => q_meth q = MTeardown /\ h = s_held s
  | EClose => q_meth q = MTeardown
  end.
Proof. exact effects_only_on_success. Qed.
Print Assumptions C12_no_media_before_play_no_publish_before_record.

(* TEARDOWN and disconnect release whatever the session held *)
Theorem C12_teardown_or_disconnect_releases : forall e s q,
  s_closed s = false ->
  (q_meth q = MTeardown ->
     step e s q = (closed_of s, [resp 200 q], [ERelease (s_held s); EClose])) /\
  disconnect s = (closed_of s, [ERelease (s_held s); EClose]) /\
  (forall ext w, s_closed (closed_of s) = true /\ s_held (closed_of s) = HNone /\
                 reg_no_self (registry ext (s_held (closed_of s)) w) = true).
Proof. exact teardown_or_disconnect_releases. Qed.
Print Assumptions C12_teardown_or_disconnect_releases.

(* after any refused request the connection is usable: still open, same status, same holdings,
   no effect, and the next request is answered exactly once *)
Theorem C12_usable_after_refusal : forall e s q s' c fs,
  s_closed s = false -> step e s q = (s', [resp c q], fs) -> is_2xx c = false ->
  s_closed s' = false /\ s_status s' = s_status s /\ s_held s' = s_held s /\ fs = [] /\
  forall q2, exists r, snd (fst (step e s' q2)) = [r] /\ rs_cseq r = q_cseq q2 /\ rs_sess r = true.
Proof. exact usable_after_refusal. Qed.
Print Assumptions C12_usable_after_refusal.

(* ... which the code before the fix violated: a PLAY refused with 461 switched to playing (D25b) *)
Theorem C12_refused_play_changed_state_refuted : exists e s q,
  s_closed s = false /\ s_status s = SReady /\
  snd (fst (step_orig e s q)) = [resp 461 q] /\ s_status (fst (fst (step_orig e s q))) = SPlaying.
Proof. exact refused_play_changed_state_refuted. Qed.
Print Assumptions C12_refused_play_changed_state_refuted.

(* the sentinel OPTIONS the harness interleaves is state-free *)
Theorem C12_options_is_noop : forall fx e s q,
  s_closed s = false -> q_meth q = MOptions -> step_gen fx e s q = (s, [resp 200 q], []).
Proof. exact options_is_noop. Qed.
Print Assumptions C12_options_is_noop.

(* the decidable oracle (specification monitor) that is applied to the implementation accepts
   the model on every well-formed request sequence (request URI non-empty), in every
   environment, on TCP and ws-rtsp, followed by the disconnect *)
Theorem C12_model_passes : forall e watch ext ws wspath qs,
  forallb req_wf qs = true ->
  c12_ok (registry ext HNone watch) qs (run_case true e watch ext (init_sess ws wspath) qs) = true.
Proof. exact model_passes. Qed.
Print Assumptions C12_model_passes.

(* the behaviour before the fixes does not pass the oracle *)
Theorem C12_orig_fails_oracle :
  c12_ok [(1, 0)] ex_reqs (run_case false ex_env [C12Ex.p_a] [C12Ex.p_a] (init_sess false []) ex_reqs) = false.
Proof. exact orig_fails_oracle. Qed.
Print Assumptions C12_orig_fails_oracle.

(* ---- Transport header validity -------------------------------------------------------------------
   [transport_invalid] is the specification: no transport spec, an unknown spec, "multicast" on
   RTP/AVP/TCP, or ANY parameter interleaved / client_port / server_port / port whose first number is
   missing, not a number or negative.  It does not depend on the order of the parameters. *)
From V Require C12TransportProofs C12Wsp C12WspProofs.

(* the model of RTPTransport.ParseTransport fails exactly on the invalid headers, from every transport state *)
Theorem C12_transport_error_is_spec : forall t0 ts,
  snd (parse_transport t0 ts) = transport_invalid ts.
Proof. exact C12TransportProofs.parse_transport_err_is_spec. Qed.
Print Assumptions C12_transport_error_is_spec.

(* order independence: any rearrangement of the parameters gives the same verdict; a fault is never
   cleared by what follows it *)
Theorem C12_transport_error_order_independent : forall toks toks' t e,
  Permutation.Permutation toks toks' ->
  snd (fold_left tok_step toks (t, e)) = snd (fold_left tok_step toks' (t, e)).
Proof. exact C12TransportProofs.transport_error_order_independent. Qed.
Print Assumptions C12_transport_error_order_independent.

Theorem C12_transport_error_is_sticky : forall toks1 bad toks2 t e,
  tok_bad (ttype_eqb (t_type t) TTcp) bad = true ->
  snd (fold_left tok_step (toks1 ++ bad :: toks2) (t, e)) = true.
Proof. exact C12TransportProofs.transport_error_is_sticky. Qed.
Print Assumptions C12_transport_error_is_sticky.

(* a SETUP is answered 2xx only if its Transport header is valid: a session never becomes ready (and
   hence never plays or records) through a SETUP with a malformed transport; the monitor [c12_ok]
   demands the same of the implementation *)
Theorem C12_setup_2xx_only_if_transport_valid : forall e s q s' c fs,
  s_closed s = false -> step e s q = (s', [resp c q], fs) ->
  q_meth q = MSetup -> is_2xx c = true -> transport_invalid (q_transport q) = false.
Proof. exact step_setup_valid. Qed.
Print Assumptions C12_setup_2xx_only_if_transport_valid.

(* the same for a WSP channel (service/wsp uses the same ParseTransport) *)
Theorem C12_wsp_setup_2xx_only_if_transport_valid : forall e s q s' c fs,
  C12Wsp.wrtsp_step true e s q = (s', c, fs) -> C12Wsp.wq_meth q = C12Wsp.WmSetup -> is_2xx c = true ->
  transport_invalid (C12Wsp.wq_transport q) = false.
Proof. exact C12WspProofs.wrtsp_setup_valid. Qed.
Print Assumptions C12_wsp_setup_2xx_only_if_transport_valid.

Example C12_transport_nonvacuous :
  transport_invalid C12TransportProofs.C12TrEx.bad_then_ttl = true /\
  transport_invalid C12TransportProofs.C12TrEx.ttl_then_bad = true /\
  transport_invalid C12TransportProofs.C12TrEx.mc_on_tcp = true /\
  transport_invalid C12TransportProofs.C12TrEx.bad_port = true /\
  transport_invalid C12TransportProofs.C12TrEx.good = false /\
  parse_transport {| t_mode := MdPlay; t_type := TUnknown |} C12TransportProofs.C12TrEx.good
    = ({| t_mode := MdPlay; t_type := TTcp |}, false).
Proof. exact C12TransportProofs.transport_examples. Qed.

(* non-vacuity: a well-formed sequence that reaches playing, attaches a consumer, and releases it *)
Example C12_nonvacuous :
  forallb req_wf ex_reqs = true /\
  map (fun o => map rs_code (o_resps o))
      (fst (run_case true ex_env [C12Ex.p_a] [C12Ex.p_a] (init_sess false []) ex_reqs))
    = [[200]; [200]; [200]; [200]; [200]] /\
  map o_reg (fst (run_case true ex_env [C12Ex.p_a] [C12Ex.p_a] (init_sess false []) ex_reqs))
    = [[(1, 0)]; [(1, 0)]; [(1, 1)]; [(1, 1)]; [(1, 0)]] /\
  c12_ok [(1, 0)] ex_reqs (run_case true ex_env [C12Ex.p_a] [C12Ex.p_a] (init_sess false []) ex_reqs) = true.
Proof. exact example_run. Qed.

(* ================================================================ WSP (service/wsp)
   The same property for RTSP requests wrapped in the WSP proxy protocol: a websocket control
   channel (INIT, then one WRAP message per RTSP request) and a data channel that JOINs it.
   [wstep] is the model of Server.handshakeControlChannel / Session.process / Session.onRequest /
   Server.handshakeDataChannel (Model/C12Wsp.v, repaired behaviour); proofs in Proofs/C12WspProofs.v.
   WSP's method table: PAUSE is legal while playing, there is no record side. *)
From V Require Import C12Wsp C12WspProofs.

(* exactly one response per request: every message the protocol answers (INIT on a fresh channel,
   WRAP / SWITCH on an established one, JOIN on a data channel) gets exactly one WSP response with
   the seq echoed; for a WRAP it is WSP 200 carrying one RTSP response with the CSeq echoed and
   the session id *)
Theorem C12_wsp_one_response_per_request : forall e s rq s' rs fs,
  w_closed s = false -> wanswerable s (rq_cmd rq) = true ->
  wstep e s rq = (s', rs, fs) ->
  exists r, rs = [r] /\ wp_seq r = rq_seq rq /\
    match rq_cmd rq with
    | CWrap q => wp_code r = 200 /\
                 exists rr, wp_rtsp r = Some rr /\ rs_cseq rr = wq_cseq q /\ rs_sess rr = true
    | _ => wp_rtsp r = None
    end.
Proof. exact wone_response_per_request. Qed.
Print Assumptions C12_wsp_one_response_per_request.

(* a method that is not legal in the current state is refused — WSP uses 455 as well — and changes nothing *)
Theorem C12_wsp_illegal_is_refused_noop : forall e s rq q,
  w_closed s = false -> w_inited s = true -> rq_cmd rq = CWrap q ->
  wlegal (w_status s) (wq_meth q) = false ->
  wstep e s rq = (s, [wanswer 200 rq (Some (wresp 455 q))], []).
Proof. exact willegal_is_refused_noop. Qed.
Print Assumptions C12_wsp_illegal_is_refused_noop.

(* ... which the status table before the fix violated: PAUSE before SETUP was answered 200 *)
Theorem C12_wsp_pause_in_init_refuted : exists e s rq q,
  w_closed s = false /\ w_inited s = true /\ rq_cmd rq = CWrap q /\
  wlegal (w_status s) (wq_meth q) = false /\
  snd (fst (wstep_orig e s rq)) = [wanswer 200 rq (Some (wresp 200 q))].
Proof. exact wpause_in_init_refuted. Qed.
Print Assumptions C12_wsp_pause_in_init_refuted.

(* playing is reached only through DESCRIBE, SETUP, PLAY (each answered 2xx, in this order) —
   for every message sequence on a fresh channel, in every environment *)
Theorem C12_wsp_playing_only_via_describe_setup_play : forall e watch ext path rqs os s',
  wrun_gen true e watch ext (winit_sess path) rqs = (os, s') ->
  w_status s' = WPlaying -> wsubseq [WmDescribe; WmSetup; WmPlay] (wevents rqs os).
Proof. exact wplaying_only_via_describe_setup_play. Qed.
Print Assumptions C12_wsp_playing_only_via_describe_setup_play.

(* no media before a successful PLAY: a consumer is attached only by a PLAY answered 200 in state
   ready, nothing is ever published, release / close happen only when the channel ends; and after
   any message sequence media flows to the client ([wflows]: playing, not paused, data channel
   joined) only if DESCRIBE, SETUP, PLAY were answered 2xx in this order *)
Theorem C12_wsp_no_media_before_play :
  (forall e s rq s' rs fs f,
     w_closed s = false -> wstep e s rq = (s', rs, fs) -> In f fs ->
     match f with
     | EAttach p => exists q, rq_cmd rq = CWrap q /\ wq_meth q = WmPlay /\
                    rs = [wanswer 200 rq (Some (wresp 200 q))] /\ w_inited s = true /\
                    w_status s = WReady /\ w_status s' = WPlaying /\ w_held s' = HCons p
     | ERegister _ => False
     | ERelease h => h = w_held s /\ w_inited s = true /\ wends s (rq_cmd rq) = true /\ w_closed s' = true
     | EClose => wends s (rq_cmd rq) = true /\ w_closed s' = true
     end) /\
  (forall e watch ext path rqs os s',
     wrun_gen true e watch ext (winit_sess path) rqs = (os, s') ->
     wflows s' = true -> wsubseq [WmDescribe; WmSetup; WmPlay] (wevents rqs os)).
Proof. exact (conj weffects_only_on_success wmedia_only_after_play). Qed.
Print Assumptions C12_wsp_no_media_before_play.

(* "media" is an RTP frame of a track this session has set up: a frame is predicted only while media
   flows and a track has an interleaved channel 0..255 (rtp.Packet.Write sends nothing otherwise), and
   a track's channel is changed only by a SETUP that the status table lets through — before PLAY *)
Theorem C12_wsp_media_only_on_setup_tracks :
  (forall ext s, wmedia_of ext s = true ->
     wflows s = true /\ (chan_ok (w_vch s) = true \/ chan_ok (w_ach s) = true)) /\
  (forall e s rq s' rs fs,
     wstep e s rq = (s', rs, fs) -> w_vch s' <> w_vch s \/ w_ach s' <> w_ach s ->
     exists q, rq_cmd rq = CWrap q /\ wq_meth q = WmSetup /\ w_status s <> WPlaying /\
               w_inited s = true /\ w_closed s = false).
Proof. exact (conj wmedia_needs_track wchannels_only_by_setup). Qed.
Print Assumptions C12_wsp_media_only_on_setup_tracks.

(* TEARDOWN and disconnect release whatever the session held; in every reachable state a consumer
   is held only by an established, open, playing session *)
Theorem C12_wsp_teardown_or_disconnect_releases : forall e s rq q,
  w_closed s = false -> w_inited s = true ->
  (rq_cmd rq = CWrap q -> wq_meth q = WmTeardown ->
     wstep e s rq = (wclosed_of s, [wanswer 200 rq (Some (wresp 200 q))], [ERelease (w_held s); EClose])) /\
  wdisconnect s = (wclosed_of s, [ERelease (w_held s); EClose]) /\
  (forall ext w, w_closed (wclosed_of s) = true /\ w_held (wclosed_of s) = HNone /\
                 wflows (wclosed_of s) = false /\
                 reg_no_self (registry ext (w_held (wclosed_of s)) w) = true).
Proof. exact wteardown_or_disconnect_releases. Qed.
Print Assumptions C12_wsp_teardown_or_disconnect_releases.

Theorem C12_wsp_holds_only_while_playing : forall e watch ext path rqs os s',
  wrun_gen true e watch ext (winit_sess path) rqs = (os, s') ->
  (forall p, w_held s' = HCons p -> w_closed s' = false /\ w_inited s' = true /\ w_status s' = WPlaying) /\
  (forall p, w_held s' <> HPub p) /\
  (w_inited s' = false -> w_held s' = HNone /\ w_status s' = WInit) /\
  (w_closed s' = true -> w_held s' = HNone /\ w_status s' = WInit).
Proof. exact wholds_only_while_playing. Qed.
Print Assumptions C12_wsp_holds_only_while_playing.

(* after any refused request the channel is usable: still open, same status, holdings, pause state
   and data channel, no effect, and the next message is answered exactly once *)
Theorem C12_wsp_usable_after_refusal : forall e s rq q s' c fs,
  w_closed s = false -> w_inited s = true -> rq_cmd rq = CWrap q ->
  wstep e s rq = (s', [wanswer 200 rq (Some (wresp c q))], fs) -> is_2xx c = false ->
  w_closed s' = false /\ w_inited s' = true /\ w_status s' = w_status s /\ w_held s' = w_held s /\
  w_paused s' = w_paused s /\ w_joined s' = w_joined s /\ fs = [] /\
  forall rq2, wanswerable s' (rq_cmd rq2) = true ->
    exists r, snd (fst (wstep e s' rq2)) = [r] /\ wp_seq r = rq_seq rq2 /\
      match rq_cmd rq2 with
      | CWrap q2 => wp_code r = 200 /\
                    exists rr, wp_rtsp r = Some rr /\ rs_cseq rr = wq_cseq q2 /\ rs_sess rr = true
      | _ => wp_rtsp r = None
      end.
Proof. exact wusable_after_refusal. Qed.
Print Assumptions C12_wsp_usable_after_refusal.

(* the decidable oracle (specification monitor c12w_ok: client-visible observations only) that is
   applied to the implementation accepts the model on every message sequence — any mix of INIT,
   GET_INFO, SWITCH, WRAP, JOIN on the control or a data channel — in every environment,
   followed by the disconnect *)
Theorem C12_wsp_model_passes : forall e watch ext path rqs,
  c12w_ok (registry ext HNone watch) rqs (wrun_case true e watch ext (winit_sess path) rqs) = true.
Proof. exact wmodel_passes. Qed.
Print Assumptions C12_wsp_model_passes.

(* the status table before the fix does not pass the oracle; the repaired one does *)
Theorem C12_wsp_orig_fails_oracle :
  c12w_ok [(1, 0)] wex_reqs_bad
    (wrun_case false wex_env [C12WEx.p_a] [C12WEx.p_a] (winit_sess C12WEx.p_a) wex_reqs_bad) = false /\
  c12w_ok [(1, 0)] wex_reqs_bad
    (wrun_case true wex_env [C12WEx.p_a] [C12WEx.p_a] (winit_sess C12WEx.p_a) wex_reqs_bad) = true.
Proof. exact worig_fails_oracle. Qed.
Print Assumptions C12_wsp_orig_fails_oracle.

(* non-vacuity: INIT, JOIN, DESCRIBE, SETUP, PLAY, PAUSE, PLAY, TEARDOWN — every message answered
   200, a consumer attached from PLAY to TEARDOWN, media flowing except while paused *)
Example C12_wsp_nonvacuous :
  map wcodes (fst (wrun_case true wex_env [C12WEx.p_a] [C12WEx.p_a] (winit_sess C12WEx.p_a) wex_reqs))
    = [[(200, 0)]; [(200, 0)]; [(200, 200)]; [(200, 200)]; [(200, 200)]; [(200, 200)]; [(200, 200)]; [(200, 200)]] /\
  map wo_reg (fst (wrun_case true wex_env [C12WEx.p_a] [C12WEx.p_a] (winit_sess C12WEx.p_a) wex_reqs))
    = [[(1, 0)]; [(1, 0)]; [(1, 0)]; [(1, 0)]; [(1, 1)]; [(1, 1)]; [(1, 1)]; [(1, 0)]] /\
  map wo_media (fst (wrun_case true wex_env [C12WEx.p_a] [C12WEx.p_a] (winit_sess C12WEx.p_a) wex_reqs))
    = [false; false; false; false; true; false; true; false] /\
  c12w_ok [(1, 0)] wex_reqs (wrun_case true wex_env [C12WEx.p_a] [C12WEx.p_a] (winit_sess C12WEx.p_a) wex_reqs) = true.
Proof. exact wexample_run. Qed.

(* ---- Several sessions at once -------------------------------------------------------------------
   The sessions of one server share nothing but the environment.  [mrun e ss h] runs an interleaved
   history h (which session sends which request, in the order the server handles them) over the session
   states ss; [srun e s qs] is one session alone; [own i h] the requests of session i. *)
From V Require C12Multi C12MultiProofs.

(* for EVERY interleaving, the responses of session i are the single-session run of its own requests:
   what the other sessions ask, and when, has no influence *)
Theorem C12_sessions_independent : forall e h ss i,
  (i < length ss)%nat ->
  C12MultiProofs.resp_of i (C12Multi.mrun e ss h) =
  C12Multi.srun e (nth i ss C12Multi.sess_dflt) (C12Multi.own i h).
Proof. exact C12MultiProofs.sessions_independent. Qed.
Print Assumptions C12_sessions_independent.

(* what the shared part may influence: only DESCRIBE, SETUP (multicast) and PLAY consult the stream
   registry ([e_live]); every other request is answered identically under any registry.  In the theorem
   above the registry is fixed during the history: a stream published or ended by ANOTHER session in
   between (RECORD, TEARDOWN of a publisher) legitimately changes the answers to those three methods
   — attach / publish conflicts are not interference in the sense of this property *)
Theorem C12_step_ignores_registry : forall e e' s q,
  (forall i, e_sdp e i = e_sdp e' i) ->
  q_meth q <> MDescribe -> q_meth q <> MSetup -> q_meth q <> MPlay ->
  step e s q = step e' s q.
Proof. exact C12MultiProofs.step_ignores_registry. Qed.
Print Assumptions C12_step_ignores_registry.

(* the oracle applied to real concurrent sessions (each session's responses = the run of its own requests:
   status class, CSeq, its own session id on every response, an SDP body exactly on DESCRIBE 2xx; ids
   non-empty and pairwise different) accepts the model's multi-session observation for every
   interleaving *)
Theorem C12_multi_model_passes : forall e ss sids h,
  length sids = length ss -> C12Multi.distinct sids = true ->
  forallb (fun x => negb (bytes_eqb x [])) sids = true ->
  C12Multi.ok_multi e ss sids h (C12Multi.mobserve e ss sids h) = true.
Proof. exact C12MultiProofs.multi_model_passes. Qed.
Print Assumptions C12_multi_model_passes.

(* ---- The session's effects on the stream registry ------------------------------------------------
   [eff_run e n s 0 0 qs] gives, after every request, the number of streams the session has created so
   far ([ERegister] effects), how many of them are still live (minus [ERelease (HPub _)]) and the
   consumers on them; the harness reports the same from media's registry. *)
From V Require C12Effects C12EffectsProofs.

(* a repeated RECORD in the recording state is answered 200 and is a no-op on the session and the registry;
   so is everything else but TEARDOWN (repeated PLAY, ANNOUNCE, SETUP after RECORD, ...) *)
Theorem C12_repeated_record_is_noop : forall e s q,
  s_closed s = false -> s_status s = SRecording -> q_meth q = MRecord ->
  step e s q = (s, [resp 200 q], []).
Proof. exact C12EffectsProofs.repeated_record_is_noop. Qed.
Print Assumptions C12_repeated_record_is_noop.

Theorem C12_recording_is_stable : forall e s q,
  s_closed s = false -> s_status s = SRecording -> q_meth q <> MTeardown ->
  exists c, step e s q = (s, [resp c q], []).
Proof. exact C12EffectsProofs.recording_is_stable. Qed.
Print Assumptions C12_recording_is_stable.

(* at every point of every history a session has created at most one stream, and what is live is among
   what it created *)
Theorem C12_session_owns_at_most_one_stream : forall e n ws wp qs o,
  In o (fst (C12Effects.eff_run e n (init_sess ws wp) 0 0 qs)) ->
  fst (fst o) <= 1 /\ 0 <= snd (fst o) <= fst (fst o).
Proof. exact C12EffectsProofs.session_owns_at_most_one_stream. Qed.
Print Assumptions C12_session_owns_at_most_one_stream.

(* TEARDOWN or disconnect releases ALL streams the session's history created (the oracle [ok_effects]
   demands: live streams 0 after the disconnect, no consumer left on them, every attached consumer
   released), and the oracle accepts the model on every history *)
Theorem C12_effects_model_passes : forall e n ws wp qs,
  let r := C12Effects.eff_run e n (init_sess ws wp) 0 0 qs in
  let created := snd (fst (snd r)) in
  C12Effects.ok_effects e n (init_sess ws wp) qs (fst r)
    {| C12Effects.ef_live := 0; C12Effects.ef_cons := 0;
       C12Effects.ef_attached := (if 0 <? created then n else 0);
       C12Effects.ef_released := (if 0 <? created then n else 0) |} = true.
Proof. exact C12EffectsProofs.effects_model_passes. Qed.
Print Assumptions C12_effects_model_passes.

(* ---- The read deadline ---------------------------------------------------------------------------
   Session.process arms now + timeout before every read when timeout > 0 and clears the deadline when
   timeout = 0; timeout is config.NetTimeout() and becomes 0 with a successful PLAY.  [trun true T e
   (tinit T ws wp) evs] runs requests and waits ([TTick d]) on a logical clock. *)
From V Require C12Timeout C12TimeoutProofs.

(* a session in the playing state has no pending deadline, hence survives any wait *)
Theorem C12_playing_session_never_times_out : forall T e ws wp evs d,
  let t := fst (C12Timeout.trun true T e (C12Timeout.tinit T ws wp) evs) in
  s_closed (C12Timeout.ts_s t) = false -> C12Timeout.is_playing (C12Timeout.ts_s t) = true ->
  C12Timeout.ts_deadline t = None /\
  C12Timeout.tstep true T e t (C12Timeout.TTick d) =
    ({| C12Timeout.ts_s := C12Timeout.ts_s t; C12Timeout.ts_now := C12Timeout.ts_now t + d;
        C12Timeout.ts_deadline := None |}, C12Timeout.ObsTick false).
Proof. exact C12TimeoutProofs.playing_session_never_times_out. Qed.
Print Assumptions C12_playing_session_never_times_out.

(* a session that is not playing (init, ready, recording) is dropped by exactly the waits that reach its
   deadline, and every request it answers re-arms the deadline to now + T *)
Theorem C12_idle_session_times_out : forall T e ws wp evs,
  let t := fst (C12Timeout.trun true T e (C12Timeout.tinit T ws wp) evs) in
  s_closed (C12Timeout.ts_s t) = false -> C12Timeout.is_playing (C12Timeout.ts_s t) = false ->
  exists dl, C12Timeout.ts_deadline t = Some dl /\
    forall d, snd (C12Timeout.tstep true T e t (C12Timeout.TTick d)) =
              C12Timeout.ObsTick (dl <=? C12Timeout.ts_now t + d).
Proof. exact C12TimeoutProofs.idle_session_times_out. Qed.
Print Assumptions C12_idle_session_times_out.

Theorem C12_request_rearms_deadline : forall T e t q,
  let t' := fst (C12Timeout.tstep true T e t (C12Timeout.TReq q)) in
  s_closed (C12Timeout.ts_s t') = false -> C12Timeout.is_playing (C12Timeout.ts_s t') = false ->
  C12Timeout.ts_deadline t' = Some (C12Timeout.ts_now t + T).
Proof. exact C12TimeoutProofs.request_rearms_deadline. Qed.
Print Assumptions C12_request_rearms_deadline.

Theorem C12_timeout_model_passes : forall os,
  C12Timeout.ok_timeout os (C12TimeoutProofs.seen_of os) = true.
Proof. exact C12TimeoutProofs.timeout_model_passes. Qed.
Print Assumptions C12_timeout_model_passes.

(* the variant that only ever arms the deadline drops a legally playing session *)
Theorem C12_never_clearing_deadline_refuted :
  let evs := map C12Timeout.TReq (firstn 3 ex_reqs) ++ [C12Timeout.TTick 2000] in
  snd (C12Timeout.trun false 1000 ex_env (C12Timeout.tinit 1000 false []) evs) =
    [C12Timeout.ObsResp [resp 200 (nth 0 ex_reqs (ex_req MOptions 0 [] []))];
     C12Timeout.ObsResp [resp 200 (nth 1 ex_reqs (ex_req MOptions 0 [] []))];
     C12Timeout.ObsResp [resp 200 (nth 2 ex_reqs (ex_req MOptions 0 [] []))]; C12Timeout.ObsTick true] /\
  snd (C12Timeout.trun true 1000 ex_env (C12Timeout.tinit 1000 false []) evs) =
    [C12Timeout.ObsResp [resp 200 (nth 0 ex_reqs (ex_req MOptions 0 [] []))];
     C12Timeout.ObsResp [resp 200 (nth 1 ex_reqs (ex_req MOptions 0 [] []))];
     C12Timeout.ObsResp [resp 200 (nth 2 ex_reqs (ex_req MOptions 0 [] []))]; C12Timeout.ObsTick false].
Proof. exact C12TimeoutProofs.never_clearing_refuted. Qed.
Print Assumptions C12_never_clearing_deadline_refuted.
