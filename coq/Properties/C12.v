(* C12 — RTSP sessions answer every request once and follow the legal method order.
   Statements only; proofs are in Proofs/C12RtspProofs.v. *)
From Coq Require Import ZArith List Bool.
From V Require Import Bytes StrGo C12RtspSession C12RtspProofs.
Import ListNotations.

Theorem C12_options_is_noop : forall fx e s q,
  s_closed s = false -> q_meth q = MOptions -> step_gen fx e s q = (s, [resp 200 q], []).
Proof. exact options_is_noop. Qed.
Print Assumptions C12_options_is_noop.
