(* C04 — stalled or failing consumers are isolated; the backlog is bounded; drops align to GOPs.
   Statements only; the proofs are in Proofs/LtsBacklogProofs.v.

   Everything is about the stream LTS of Model/StreamLts.v with the variant [fixed] (the code as
   it is now), for EVERY schedule [sched], every packet list [pkts], every set of stoppers, any
   number of consumers [ncons], any queue limit [maxq] (1000 in the code), any [panic_at] and an
   abstract pack cache.  "Reachable state" = [run fixed ... sched (init ... pkts stoppers)]. *)
From Coq Require Import ZArith List Bool Arith.
From V Require Import StreamLts Cache LtsWire LtsBacklogProofs.
Import ListNotations.
Local Open Scope nat_scope.

(* ---- 1. backlog bound ------------------------------------------------------------------ *)

(* [gap_ok G pkts] is exactly "0 < G and every window of G consecutive published packets
   contains a key-start packet" *)
Theorem C04_gap_ok_meaning : forall G pkts,
  gap_ok G pkts = true <->
  0 < G /\ forall a w b, pkts = a ++ w ++ b -> length w = G -> existsb p_key w = true.
Proof. exact gap_ok_iff. Qed.
Print Assumptions C04_gap_ok_meaning.

(* limit + one GOP + join replay (+1: the nil element pushed by Close) *)
Theorem C04_backlog_bound :
  forall maxq cache_t cache_empty cache_add cache_snap ncons panic_at
         G pkts stoppers sched c,
  gap_ok G pkts = true ->
  let k := s_cs _ (run fixed maxq cache_t cache_empty cache_add cache_snap ncons panic_at sched
                       (init cache_t cache_empty pkts stoppers)) c in
  length (c_q k) <= Nat.max maxq (length (c_prefill k)) + G + 1.
Proof. exact backlog_bound. Qed.
Print Assumptions C04_backlog_bound.

(* the sharp constant: the nil element only while not yet closed; a join replay longer than the
   limit is not charged the limit's +1 *)
Theorem C04_backlog_bound_tight :
  forall maxq cache_t cache_empty cache_add cache_snap ncons panic_at
         G pkts stoppers sched c,
  gap_ok G pkts = true ->
  let k := s_cs _ (run fixed maxq cache_t cache_empty cache_add cache_snap ncons panic_at sched
                       (init cache_t cache_empty pkts stoppers)) c in
  length (c_q k) + (if c_closed k then 0 else 1)
    <= Nat.max (S maxq) (length (c_prefill k)) + G.
Proof. exact backlog_bound_tight. Qed.
Print Assumptions C04_backlog_bound_tight.

(* ---- 2. drops begin and end only at a key-frame start ----------------------------------- *)

Theorem C04_discarding_changes_only_at_key : forall maxq k p,
  c_disc (send maxq k p) <> c_disc k -> p_key p = true.
Proof. exact send_disc_changes_only_at_key. Qed.
Print Assumptions C04_discarding_changes_only_at_key.

(* [c_keep] has one entry per packet broadcast while the consumer was registered ([window]);
   what was queued is the join replay followed by the kept packets of the window; and the keep
   flag changes between consecutive packets only at a key-start packet (a drop at the very first
   packet of the window is a key-start packet too) *)
Theorem C04_drops_gop_aligned :
  forall maxq cache_t cache_empty cache_add cache_snap ncons panic_at pkts stoppers sched c,
  let s := run fixed maxq cache_t cache_empty cache_add cache_snap ncons panic_at sched
               (init cache_t cache_empty pkts stoppers) in
  let k := s_cs _ s c in
  let w := window (s_sent _ s) (c_regat k) (c_unregat k) in
  length (c_keep k) = length w /\
  c_pushed k = c_prefill k ++ select (c_keep k) w /\
  (forall i d, S i < length (c_keep k) ->
     nth i (c_keep k) true = false -> nth (S i) (c_keep k) true = true ->
     p_key (nth (S i) w d) = true) /\
  (forall i d, S i < length (c_keep k) ->
     nth i (c_keep k) true = true -> nth (S i) (c_keep k) true = false ->
     p_key (nth (S i) w d) = true) /\
  (forall d, 0 < length (c_keep k) -> nth 0 (c_keep k) true = false -> p_key (nth 0 w d) = true).
Proof. exact drops_gop_aligned. Qed.
Print Assumptions C04_drops_gop_aligned.

(* after any drop the next packet the consumer is given starts a key frame *)
Theorem C04_first_kept_after_drop_is_key :
  forall maxq cache_t cache_empty cache_add cache_snap ncons panic_at pkts stoppers sched c,
  let s := run fixed maxq cache_t cache_empty cache_add cache_snap ncons panic_at sched
               (init cache_t cache_empty pkts stoppers) in
  let k := s_cs _ s c in
  let w := window (s_sent _ s) (c_regat k) (c_unregat k) in
  forall i j d, i < j -> j < length (c_keep k) ->
    nth i (c_keep k) true = false -> nth j (c_keep k) true = true ->
    exists m, i < m /\ m <= j /\ nth m (c_keep k) true = true /\
              (forall x, i <= x -> x < m -> nth x (c_keep k) true = false) /\
              p_key (nth m w d) = true.
Proof. exact first_kept_after_drop_is_key. Qed.
Print Assumptions C04_first_kept_after_drop_is_key.

(* ---- 3. the publisher never waits on a consumer ------------------------------------------ *)

(* The publisher's next step is enabled unless it has nothing to write or is queued behind the
   join mutex; in that case the holder is an attacher inside the section whose next step is
   enabled.  No consumer field (queue length, goroutine position, stalled or not) occurs. *)
Theorem C04_publisher_never_waits_on_consumer :
  forall maxq cache_t cache_empty cache_add cache_snap ncons panic_at pkts stoppers sched,
  let s := run fixed maxq cache_t cache_empty cache_add cache_snap ncons panic_at sched
               (init cache_t cache_empty pkts stoppers) in
  (step_pub fixed maxq cache_t cache_add cache_snap ncons s = None ->
   s_todo _ s = [] \/ s_pp _ s = P1W) /\
  (s_pp _ s = P1W ->
   exists c, c < ncons /\ s_lock _ s = Some (HAtt c) /\ s_att _ s c = A1 /\
             step_att fixed cache_t cache_add cache_snap s c <> None /\
             step fixed maxq cache_t cache_empty cache_add cache_snap ncons panic_at s (TAtt c)
               <> None).
Proof. exact publisher_never_waits_on_consumer. Qed.
Print Assumptions C04_publisher_never_waits_on_consumer.

(* ... and that one step hands the mutex to the first waiter (FIFO): a queued publisher waits
   for at most the attachers queued before it, one step each *)
Theorem C04_join_mutex_fifo :
  forall maxq cache_t cache_empty cache_add cache_snap ncons panic_at pkts stoppers sched c s',
  let s := run fixed maxq cache_t cache_empty cache_add cache_snap ncons panic_at sched
               (init cache_t cache_empty pkts stoppers) in
  s_lock _ s = Some (HAtt c) ->
  step fixed maxq cache_t cache_empty cache_add cache_snap ncons panic_at s (TAtt c) = Some s' ->
  match s_lockq _ s with
  | [] => s_lock _ s' = None /\ s_lockq _ s' = []
  | HPub :: r => s_lock _ s' = Some HPub /\ s_lockq _ s' = r /\ s_pp _ s' = P2
  | HAtt c' :: r => s_lock _ s' = Some (HAtt c') /\ s_lockq _ s' = r /\ s_pp _ s' = s_pp _ s
  end.
Proof. exact join_mutex_fifo. Qed.
Print Assumptions C04_join_mutex_fifo.

(* ---- 4. a stalled consumer does not affect the others ------------------------------------ *)

(* steps of another consumer's goroutine / stopper / attacher leave this consumer unchanged, and
   the broadcast and the closer's sweep act on each consumer separately.
   The attacher clause carries [s_att s c <> A0W]: see [C04_att_frame_unguarded_refuted]. *)
Theorem C04_stalled_consumer_does_not_affect_others :
  forall maxq cache_t cache_empty cache_add cache_snap ncons panic_at pkts stoppers sched c c',
  c' <> c ->
  let stepF := step fixed maxq cache_t cache_empty cache_add cache_snap ncons panic_at in
  let s := run fixed maxq cache_t cache_empty cache_add cache_snap ncons panic_at sched
               (init cache_t cache_empty pkts stoppers) in
  (forall s', stepF s (TCons c') = Some s' -> s_cs _ s' c = s_cs _ s c) /\
  (forall s', stepF s (TStop c') = Some s' -> s_cs _ s' c = s_cs _ s c) /\
  (forall s', s_att _ s c <> A0W -> stepF s (TAtt c') = Some s' -> s_cs _ s' c = s_cs _ s c) /\
  (forall p, send_all maxq ncons (s_cs _ s) p c =
             if (c <? ncons) && c_reg (s_cs _ s c) then send maxq (s_cs _ s c) p else s_cs _ s c) /\
  (forall sent, fst (sweep fixed ncons (s_cs _ s) sent) c =
             if (c <? ncons) && c_reg (s_cs _ s c)
             then close_cons fixed (set_reg (s_cs _ s c) false sent) else s_cs _ s c).
Proof. exact stalled_consumer_does_not_affect_others. Qed.
Print Assumptions C04_stalled_consumer_does_not_affect_others.

(* the unguarded attacher clause is false in the model: releasing the join mutex performs the
   first waiter's own entry into the section (its cache snapshot) in the same atomic step *)
Theorem C04_att_frame_unguarded_refuted :
  let s := lrun c04_att_case in
  exists s', step fixed 3 rcache (rc_empty true) rc_add rc_snap 2 (fun _ => 0) s (TAtt 0) = Some s' /\
             s_att _ s 1 = A0W /\ c_q (s_cs _ s 1) = [] /\ c_q (s_cs _ s' 1) = [Some (mkp 1 3)].
Proof. exact att_step_frame_unguarded_refuted. Qed.
Print Assumptions C04_att_frame_unguarded_refuted.

(* Non-interference for whole runs: delete every step of consumer c' 's delivery goroutine from
   the schedule (c' never reads).  The publisher, the join mutex, the closer, every attacher and
   every other consumer end in exactly the same state. *)
Theorem C04_stalled_consumer_invisible :
  forall maxq cache_t cache_empty cache_add cache_snap ncons panic_at pkts stoppers sched c',
  let s := run fixed maxq cache_t cache_empty cache_add cache_snap ncons panic_at sched
               (init cache_t cache_empty pkts stoppers) in
  let s0 := run fixed maxq cache_t cache_empty cache_add cache_snap ncons panic_at
                (filter (fun t => negb (is_cons_of c' t)) sched)
                (init cache_t cache_empty pkts stoppers) in
  (forall c, c <> c' -> s_cs _ s c = s_cs _ s0 c) /\
  s_sent _ s = s_sent _ s0 /\ s_todo _ s = s_todo _ s0 /\ s_pp _ s = s_pp _ s0 /\
  s_lock _ s = s_lock _ s0 /\ s_lockq _ s = s_lockq _ s0 /\
  (forall c, s_att _ s c = s_att _ s0 c) /\
  s_ok _ s = s_ok _ s0 /\ s_kp _ s = s_kp _ s0.
Proof. exact stalled_consumer_invisible. Qed.
Print Assumptions C04_stalled_consumer_invisible.

(* ---- 5. a panicking consumer is detached and closed -------------------------------------- *)

(* Consume of consumer c panics in its [panic_at c]-th call.  That call is the last one; from then
   on the goroutine is on its exit path and the consumer is out of the map; its one remaining
   step is enabled and ends with Consumer.Close called exactly once; in a quiescent state it has
   been taken. *)
Theorem C04_panic_detaches :
  forall maxq cache_t cache_empty cache_add cache_snap ncons panic_at pkts stoppers sched c,
  0 < panic_at c ->
  let stepF := step fixed maxq cache_t cache_empty cache_add cache_snap ncons panic_at in
  let s := run fixed maxq cache_t cache_empty cache_add cache_snap ncons panic_at sched
               (init cache_t cache_empty pkts stoppers) in
  let k := s_cs _ s c in
  length (c_out k) <= panic_at c /\
  (c_closes k = 1 <-> c_pc k = CDone) /\ c_closes k <= 1 /\
  (panic_at c <= length (c_out k) ->
     (c_pc k = CExitLoaded \/ c_pc k = CDone) /\ c_reg k = false /\
     (c_pc k = CExitLoaded ->
        exists s', stepF s (TCons c) = Some s' /\
                   c_pc (s_cs _ s' c) = CDone /\ c_closes (s_cs _ s' c) = 1) /\
     ((forall t, stepF s t = None) -> c_pc k = CDone /\ c_closes k = 1)).
Proof. exact panic_detaches. Qed.
Print Assumptions C04_panic_detaches.

(* ---- non-vacuity -------------------------------------------------------------------------- *)

(* maxq = 3, a key-frame start every 3 packets (so [gap_ok 3] holds), two consumers.
   Consumer 0 is stalled while nine packets are published: it enters discarding at packet 7 with
   six queued packets (bound: max 3 0 + 3 + 1 = 7); it then reads four packets and leaves
   discarding at the key-start packet 10.  Consumer 1 reads everything and is not affected. *)
Example C04_nonvacuous :
  gap_ok 3 c04_pkts = true /\
  (let s := lrun (c04_case c04_sched_stalled) in
   c_disc (s_cs _ s 0) = true /\ length (c_q (s_cs _ s 0)) = 6 /\
   c_keep (s_cs _ s 0) = [true; true; true; true; true; true; false; false; false]) /\
  (* the bound is attained once the stream is closed: 7 = max 3 0 + 3 + 1 *)
  (let s := lrun (c04_case (c04_sched_stalled ++ [TClose; TClose])) in
   c_closed (s_cs _ s 0) = true /\ length (c_q (s_cs _ s 0)) = 7) /\
  (let s := lrun (c04_case c04_sched) in
   c_disc (s_cs _ s 0) = false /\ length (c_q (s_cs _ s 0)) = 5 /\
   c_keep (s_cs _ s 0) =
     [true; true; true; true; true; true; false; false; false; true; true; true] /\
   map p_id (c_pushed (s_cs _ s 0)) = [1; 2; 3; 4; 5; 6; 10; 11; 12]%Z /\
   map p_id (c_out (s_cs _ s 0)) = [1; 2; 3; 4]%Z /\
   map p_id (c_out (s_cs _ s 1)) = [1; 2; 3; 4; 5; 6; 7; 8; 9; 10; 11; 12]%Z).
Proof. vm_compute. repeat split. Qed.

(* a consumer that panics in its second Consume call: two packets delivered, detached, closed
   once, the counter back to 0, and the publisher goes on *)
Example C04_nonvacuous_panic :
  let s := lrun c04_panic_case in
  map p_id (c_out (s_cs _ s 0)) = [1; 2]%Z /\ c_pc (s_cs _ s 0) = CDone /\
  c_reg (s_cs _ s 0) = false /\ c_closes (s_cs _ s 0) = 1 /\ s_count _ s = 0%Z /\
  map p_id (s_sent _ s) = [1; 2; 3]%Z.
Proof. vm_compute. repeat split. Qed.

(* ---- the oracle of the check ----------------------------------------------------------------
   [ok_C04] (Model/LtsOracle.v) is the boolean function that bin/check applies to
   (case, observation of the real media.Stream after the case's schedule).  With
   G = [gap_least pkts], the least G such that every G consecutive published packets contain a
   key-frame start, it demands of every registered consumer
       queue length <= max maxq (3 + G) + G + 1
   (C04_backlog_bound; the join replay of the RTP pack cache holds at most VPS, SPS, PPS and one
   GOP, C04_join_replay_bounded), and of a consumer scripted to panic in its n-th Consume call
   that it is never handed more than n packets and that after the n-th its goroutine is on its
   exit path or finished and it is out of the map (C04_panic_detaches).  When the published ids
   are pairwise distinct it also demands that what a consumer was handed splits, as for the C01
   oracle, into a join replay and a live part such that any two consecutive ids of the live part
   whose published positions are not adjacent - something broadcast in between was dropped for
   backlog - have the second one start a key frame (C04_drops_gop_aligned,
   C04_first_kept_after_drop_is_key).  Nothing is demanded of the first live id: where the
   registration happened is not observable, so packets missing before it need not be drops. *)
From V Require Import LtsOracle LtsOracleProofs.

Theorem C04_gap_least_is_least : forall pkts,
  gap_ok (gap_least pkts) pkts = true /\ forall G, gap_ok G pkts = true -> gap_least pkts <= G.
Proof. exact (fun pkts => conj (gap_least_ok pkts) (fun G => gap_least_least G pkts)). Qed.
Print Assumptions C04_gap_least_is_least.

Theorem C04_join_replay_bounded : forall c : lcase, l_var c = fixed -> forall i G,
  gap_ok G (l_pkts c) = true -> length (c_prefill (s_cs _ (lrun c) i)) <= 3 + G.
Proof. exact (fun c H i => proj1 (proj2 (proj2 (prefill_facts c H i)))). Qed.
Print Assumptions C04_join_replay_bounded.

Theorem C04_model_passes : forall c : lcase,
  l_var c = fixed -> ok_C04 c (obs_of_state (l_n c) (lrun c)) = true.
Proof. exact LtsOracleProofs.C04_model_passes. Qed.
Print Assumptions C04_model_passes.

Theorem C04_oracle_decodes_the_wire : forall n (s : lstate),
  dec_obs (enc_state n s) = obs_of_state n s.
Proof. exact dec_enc_obs. Qed.
Print Assumptions C04_oracle_decodes_the_wire.

Theorem C04_model_passes_on_the_wire : forall v,
  l_var (dec_lcase v) = fixed -> ok_C04 (dec_lcase v) (dec_obs (lts_run v)) = true.
Proof. exact (fun v H => proj2 (proj2 (wire_model_passes v H))). Qed.
Print Assumptions C04_model_passes_on_the_wire.

(* ---- packets that are not video -------------------------------------------------------------
   The LTS sees a packet as (id, kind); kind 2 is the key flag CachePack returns and the only thing
   that lets consumption.send begin or end dropping.  For a packet given by its channel and its RTP
   payload bytes the kind is the classification of Model/C02Classify.v ([raw_pkt], Model/C04RawPkt.v).
   Whatever the bytes look like (G.711 samples, RTCP reports, another codec: one first byte in 32
   looks like an IDR NAL header), a packet that is not on the video channel is never a key-frame
   start and never changes the discarding flag; so every statement above about key-frame starts is
   about video key-frame starts.  The check publishes such look-alike packets on the audio and RTCP
   channels in its stall/resume scripts. *)
From V Require Import Val C02Classify C04RawPkt C04RawPktProofs C04Oracle C04OracleProofs.

Theorem C04_nonvideo_never_key : forall c i ch payload,
  ch <> 0%Z -> p_key (raw_pkt c i ch payload) = false.
Proof. exact raw_nonvideo_not_key. Qed.
Print Assumptions C04_nonvideo_never_key.

Theorem C04_key_is_video_key : forall c i ch payload,
  p_key (raw_pkt c i ch payload) = true ->
  ch = 0%Z /\ exists f, codec_flags c payload = FOk f /\ kind_of_flags c f = 2%Z.
Proof. exact raw_key_is_video_key. Qed.
Print Assumptions C04_key_is_video_key.

Theorem C04_nonvideo_never_toggles_discarding : forall maxq k c i ch payload,
  ch <> 0%Z -> c_disc (send maxq k (raw_pkt c i ch payload)) = c_disc k.
Proof. exact nonvideo_never_toggles_discarding. Qed.
Print Assumptions C04_nonvideo_never_toggles_discarding.

(* the wire: an entry (id _ channel payload) of a case is decoded to [raw_pkt] *)
Theorem C04_wire_raw_packet : forall c i x ch payload rest,
  dec_pkt (norm_pkt c (VL (VI i :: x :: VI ch :: VB payload :: rest))) = raw_pkt c i ch payload.
Proof. exact norm_pkt_raw. Qed.
Print Assumptions C04_wire_raw_packet.

(* The oracle the check applies, [ok_C04x] (Model/C04Oracle.v) = [ok_C04] and the clause that a drop
   also BEGINS only at a key-frame start: of two consecutive delivered ids of the live part whose
   published positions are not adjacent, the packet published right after the first one starts a
   key frame (the second one does by [ok_C04]).  The model passes it on every case, packets given
   by kind or by bytes. *)
Theorem C04_model_passes_drop_begin_and_end : forall c : lcase,
  l_var c = fixed -> ok_C04x c (obs_of_state (l_n c) (lrun c)) = true.
Proof. exact C04x_model_passes. Qed.
Print Assumptions C04_model_passes_drop_begin_and_end.

Theorem C04_model_passes_on_the_wire_raw : forall v,
  l_var (dec_lcase v) = fixed ->
  ok_C04x (dec_lcase (norm_case v)) (dec_obs (lts_run (norm_case v))) = true.
Proof. exact C04x_model_passes_on_the_wire. Qed.
Print Assumptions C04_model_passes_on_the_wire_raw.

(* non-vacuity: an audio packet (channel 2) whose payload starts like an IDR slice (0x65) and one
   that starts like an HEVC IDR_W_RADL (19 << 1) are kind 0; the same bytes on the video channel
   are key-frame starts *)
Example C04_nonvacuous_lookalike :
  raw_kind H264 2 [101; 0; 0; 0; 7; 1; 2; 3]%Z = 0%Z /\ raw_kind H264 0 [101; 0; 0; 0; 7; 1; 2; 3]%Z = 2%Z /\
  raw_kind H265 3 [38; 1; 0; 0; 7; 1; 2; 3]%Z = 0%Z /\ raw_kind H265 0 [38; 1; 0; 0; 7; 1; 2; 3]%Z = 2%Z.
Proof. vm_compute. repeat split. Qed.

(* ---- FLV consumers of a converted stream ------------------------------------------------------
   RTP is published; the FLV consumers are served by the chain  rtp demuxer -> FLV muxer/packetizer ->
   WriteFlvTag -> FlvCache -> consumption.send, an instance of the LTS of its own (own join mutex, own
   cache, own consumer map) whose packets are the muxer's tags ([chain_tags], Model/C04Chain.v).  For
   them the key flag is the frame type the FLV packetizer writes (model of C08) as the FLV cache reads
   it (model of C02).  For every single-NAL video packet ([cpkt_wf]: on the video channel, a NAL unit
   the depacketizer hands on as a frame) that flag agrees with the RTP side's key-frame start: H.264
   IDR, HEVC BLA / IDR / CRA (types 16..21).  Hence the backlog bound (three configuration tags
   more) and the alignment of drops hold for the FLV consumers against the key-frame starts of the
   published video. *)
From V Require Import C08Flv C02FlvProducer C04Chain C04ChainProofs.
Local Open Scope nat_scope.

Theorem C04_flv_chain_key_agrees : forall hevc aac p, cpkt_wf hevc p = true ->
  exists t, packetize (prod_cfg hevc aac) (chain_frame p) = Some [t] /\
            tag_kind t = p_kind (tag_pkt hevc p) /\
            p_key (tag_pkt hevc p) = p_key (rtp_pkt hevc p).
Proof. exact flv_chain_key_agrees. Qed.
Print Assumptions C04_flv_chain_key_agrees.

(* the kinds of the whole tag list are what the C08 muxer writes, as the FLV cache classifies it *)
Theorem C04_flv_chain_tags_are_mux_kinds : forall hevc pkts, forallb (cpkt_wf hevc) pkts = true ->
  map p_kind (chain_tags hevc pkts) = prod_kinds hevc true (map chain_frame pkts).
Proof. exact chain_tags_are_mux_kinds. Qed.
Print Assumptions C04_flv_chain_tags_are_mux_kinds.

Theorem C04_flv_chain_key_tags_are_video_keys : forall hevc pkts t,
  forallb (cpkt_wf hevc) pkts = true -> In t (chain_tags hevc pkts) -> p_key t = true ->
  exists p, In p pkts /\ p_id t = cp_id p /\ p_key (rtp_pkt hevc p) = true.
Proof. exact flv_chain_key_tags. Qed.
Print Assumptions C04_flv_chain_key_tags_are_video_keys.

Theorem C04_flv_chain_backlog_bound :
  forall maxq cache_t cache_empty cache_add cache_snap ncons panic_at hevc pkts G stoppers sched c,
  forallb (cpkt_wf hevc) pkts = true -> gap_ok G (map (rtp_pkt hevc) pkts) = true ->
  let k := s_cs cache_t (run fixed maxq cache_t cache_empty cache_add cache_snap ncons panic_at sched
                             (init cache_t cache_empty (chain_tags hevc pkts) stoppers)) c in
  length (c_q k) <= Nat.max maxq (length (c_prefill k)) + (G + 3) + 1.
Proof. exact flv_chain_backlog_bound. Qed.
Print Assumptions C04_flv_chain_backlog_bound.

(* the oracle of the chain cases ([chain_ok]: both sides pass [ok_C04x]) accepts the model's prediction
   ([chain_run]: the two LTS runs) *)
Theorem C04_chain_model_passes : forall v,
  l_var (dec_lcase v) = fixed -> chain_ok v (chain_run v) = true.
Proof. exact chain_model_passes. Qed.
Print Assumptions C04_chain_model_passes.

(* non-vacuity: an HEVC CRA picture (type 21) is a key-frame start on both sides, a TRAIL_R (type 1) on
   neither; an H.264 IDR slice on both *)
Example C04_nonvacuous_chain :
  let cra := {| cp_id := 7; cp_ch := 0; cp_data := [42; 1; 0; 0; 7; 9; 9]%Z |} in
  let trail := {| cp_id := 8; cp_ch := 0; cp_data := [2; 1; 0; 0; 8; 9; 9]%Z |} in
  let idr := {| cp_id := 9; cp_ch := 0; cp_data := [101; 0; 0; 0; 9; 9; 9]%Z |} in
  cpkt_wf true cra = true /\ p_key (tag_pkt true cra) = true /\ p_key (rtp_pkt true cra) = true /\
  cpkt_wf true trail = true /\ p_key (tag_pkt true trail) = false /\ p_key (rtp_pkt true trail) = false /\
  cpkt_wf false idr = true /\ p_key (tag_pkt false idr) = true /\ p_key (rtp_pkt false idr) = true /\
  map p_id (chain_tags true [cra; trail]) = [-1; -2; -3; 7; 8]%Z.
Proof. vm_compute. repeat split. Qed.

(* ---- faults in BOTH callbacks -------------------------------------------------------------------
   Consumer.Consume panics in its [panic_at c]-th call; Consumer.Close returns, panics or never
   returns ([close_of c]).  Model/C04Faults.v re-states the goroutine's clean-up as its real sequence
   under the silent inner recover(): StopConsume (unregister, [remove.loaded], count--,
   consumption.Close), then Consumer.Close (a panic is swallowed and skips the rest; a Close that
   blocks parks the goroutine for ever), then the queue reset.  [fstep true] is the code as it is,
   [fstep false] the order Close, StopConsume. *)
From V Require Import C04Faults C04FaultsProofs.
Local Open Scope nat_scope.

(* Whatever Close does: a consumer whose Consume panicked is handed nothing more, is out of the map at
   once, its one remaining step (always enabled) counts it out and ends with Consumer.Close entered
   exactly once - and the counter is that of the fault-free run (C03_count_is_registered applies). *)
Theorem C04_panic_detaches_whatever_close_does :
  forall maxq cache_t cache_empty cache_add cache_snap ncons panic_at
         (close_of : nat -> close_mode) pkts stoppers sched c,
  0 < panic_at c ->
  let fstepT := fstep true maxq cache_t cache_empty cache_add cache_snap ncons panic_at close_of in
  let sb := frun true maxq cache_t cache_empty cache_add cache_snap ncons panic_at close_of sched
                 (finit cache_t cache_empty pkts stoppers) in
  let s0 := run fixed maxq cache_t cache_empty cache_add cache_snap ncons panic_at sched
                (init cache_t cache_empty pkts stoppers) in
  let k := s_cs _ (fst sb) c in
  s_count _ (fst sb) = s_count _ s0 /\
  length (c_out k) <= panic_at c /\
  (c_closes k = 1 <-> c_pc k = CDone) /\
  (panic_at c <= length (c_out k) ->
     c_reg k = false /\ (c_pc k = CExitLoaded \/ c_pc k = CDone) /\
     (c_pc k = CExitLoaded ->
        exists sb', fstepT sb (TCons c) = Some sb' /\
                    c_pc (s_cs _ (fst sb') c) = CDone /\ c_closes (s_cs _ (fst sb') c) = 1 /\
                    c_reg (s_cs _ (fst sb') c) = false /\
                    s_count _ (fst sb') = (s_count _ (fst sb) - 1)%Z)).
Proof. exact panic_detaches_whatever_close_does. Qed.
Print Assumptions C04_panic_detaches_whatever_close_does.

(* ... and nobody else is affected: two runs that differ only in what the consumers' Close does agree on
   the publisher, the mutex, the counter, the closer, every attacher and stopper, and on every consumer
   up to the queue of a finished one (which nobody references any more) *)
Theorem C04_close_behaviour_does_not_affect_anybody :
  forall maxq cache_t cache_empty cache_add cache_snap ncons panic_at
         (close_of close_of' : nat -> close_mode) pkts stoppers sched,
  let s := fst (frun true maxq cache_t cache_empty cache_add cache_snap ncons panic_at close_of sched
                     (finit cache_t cache_empty pkts stoppers)) in
  let s' := fst (frun true maxq cache_t cache_empty cache_add cache_snap ncons panic_at close_of' sched
                      (finit cache_t cache_empty pkts stoppers)) in
  s_count _ s = s_count _ s' /\ s_sent _ s = s_sent _ s' /\ s_todo _ s = s_todo _ s' /\ s_pp _ s = s_pp _ s' /\
  s_lock _ s = s_lock _ s' /\ s_lockq _ s = s_lockq _ s' /\ s_ok _ s = s_ok _ s' /\ s_kp _ s = s_kp _ s' /\
  (forall x, s_att _ s x = s_att _ s' x) /\ (forall x, s_stp _ s x = s_stp _ s' x) /\
  (forall x, noq (s_cs _ s x) = noq (s_cs _ s' x) /\
             (c_pc (s_cs _ s x) <> CDone -> s_cs _ s x = s_cs _ s' x)).
Proof. exact close_behaviour_does_not_affect_anybody. Qed.
Print Assumptions C04_close_behaviour_does_not_affect_anybody.

(* the order Close, StopConsume: a Close that panics or blocks leaves the consumer in the map for ever *)
Theorem C04_close_before_stop_refuted :
  (let s := fst (lfrun false faults_refute_case (fun _ => ClosePanics)) in
   c_reg (s_cs _ s 0) = true /\ c_pc (s_cs _ s 0) = CDone /\ s_count _ s = 1%Z /\
   length (c_q (s_cs _ s 0)) = 2 /\ map p_id (c_out (s_cs _ s 0)) = [1%Z]) /\
  (let s := fst (lfrun false faults_refute_case (fun _ => CloseBlocks)) in
   c_reg (s_cs _ s 0) = true /\ s_count _ s = 1%Z /\ length (c_q (s_cs _ s 0)) = 2) /\
  (let s := fst (lfrun true faults_refute_case (fun _ => ClosePanics)) in
   c_reg (s_cs _ s 0) = false /\ c_pc (s_cs _ s 0) = CDone /\ s_count _ s = 0%Z /\ c_closes (s_cs _ s 0) = 1).
Proof. exact close_before_stop_refuted. Qed.
Print Assumptions C04_close_before_stop_refuted.

(* the oracle of the fault cases: [ok_C04x], Consumer.Close entered exactly once by a finished goroutine
   and never before, and the counter equal to the number of registered consumers when no removal is in
   flight *)
Theorem C04_faults_model_passes_on_the_wire : forall v,
  l_var (dec_lcase v) = fixed -> ok_faults (dec_lcase v) (dec_obs (faults_run v)) = true.
Proof. exact faults_model_passes_on_the_wire. Qed.
Print Assumptions C04_faults_model_passes_on_the_wire.

