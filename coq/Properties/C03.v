(* C03 — every consumer is released when its stream ends or it is stopped.
   Statements only; the proofs are in Proofs/LtsReleaseProofs.v.  They are about the labelled
   transition system Model/StreamLts.v in its [fixed] variant (the code as repaired: D2, D3, D4),
   for every schedule, every packet list, every set of stoppers, any number of consumers, any queue
   bound, any panic script and an abstract pack cache.  [quiescent]: no thread of the system can
   move.  [cweight k sp] = [c_reg k] + [sp = S1] + [c_pc k = CExitLoaded]. *)
From Coq Require Import ZArith List Bool Arith Lia.
From V Require Import StreamLts Cache LtsWire LtsReleaseProofs.
Import ListNotations.
Local Open Scope nat_scope.

(* 1. In a quiescent state after the close every consumer that started attaching (also one that was
   attaching at the very moment of the close) has had Consumer.Close called exactly once, its
   goroutine has terminated and it is not registered; the join mutex is free. *)
Theorem C03_released_when_quiescent :
  forall maxq cache_t cache_empty cache_add cache_snap ncons panic_at stoppers sched pkts,
  let s := run fixed maxq cache_t cache_empty cache_add cache_snap ncons panic_at sched
               (init cache_t cache_empty pkts stoppers) in
  quiescent fixed maxq cache_t cache_empty cache_add cache_snap ncons panic_at s ->
  s_kp _ s = KDone ->
  (forall c, c < ncons -> s_att _ s c <> A0 ->
     c_pc (s_cs _ s c) = CDone /\ c_closes (s_cs _ s c) = 1 /\ c_reg (s_cs _ s c) = false) /\
  s_lock _ s = None /\ s_lockq _ s = [].
Proof. exact released_when_quiescent. Qed.
Print Assumptions C03_released_when_quiescent.

(* 1, local form: only the consumer's own goroutine and stopper need to have come to rest *)
Theorem C03_released_after_close_local :
  forall maxq cache_t cache_empty cache_add cache_snap ncons panic_at stoppers sched pkts c,
  let s := run fixed maxq cache_t cache_empty cache_add cache_snap ncons panic_at sched
               (init cache_t cache_empty pkts stoppers) in
  s_kp _ s = KDone -> s_att _ s c = ADone ->
  step fixed maxq cache_t cache_empty cache_add cache_snap ncons panic_at s (TCons c) = None ->
  step fixed maxq cache_t cache_empty cache_add cache_snap ncons panic_at s (TStop c) = None ->
  c_pc (s_cs _ s c) = CDone /\ c_closes (s_cs _ s c) = 1 /\ c_reg (s_cs _ s c) = false.
Proof. exact released_after_close_local. Qed.
Print Assumptions C03_released_after_close_local.

(* global quiescence exists only after the close: the closer is enabled until then *)
Theorem C03_quiescent_only_after_close :
  forall maxq cache_t cache_empty cache_add cache_snap ncons panic_at (s : st cache_t),
  quiescent fixed maxq cache_t cache_empty cache_add cache_snap ncons panic_at s -> s_kp _ s = KDone.
Proof. exact quiescent_closed. Qed.
Print Assumptions C03_quiescent_only_after_close.

(* 2. The counter is, in every reachable state, the number of consumers in the map plus the
   removals whose decrement is still owed; so it is never negative, equals the number of registered
   consumers whenever no removal is in flight, and is zero in a quiescent state after the close. *)
Theorem C03_count_is_registered :
  forall maxq cache_t cache_empty cache_add cache_snap ncons panic_at stoppers sched pkts,
  let s := run fixed maxq cache_t cache_empty cache_add cache_snap ncons panic_at sched
               (init cache_t cache_empty pkts stoppers) in
  s_count _ s = sumn ncons (fun c => cweight (s_cs _ s c) (s_stp _ s c)).
Proof. exact count_is_registered. Qed.
Print Assumptions C03_count_is_registered.

Theorem C03_count_nonneg :
  forall maxq cache_t cache_empty cache_add cache_snap ncons panic_at stoppers sched pkts,
  let s := run fixed maxq cache_t cache_empty cache_add cache_snap ncons panic_at sched
               (init cache_t cache_empty pkts stoppers) in
  (0 <= s_count _ s)%Z.
Proof. exact count_nonneg. Qed.
Print Assumptions C03_count_nonneg.

Theorem C03_count_registered_when_settled :
  forall maxq cache_t cache_empty cache_add cache_snap ncons panic_at stoppers sched pkts,
  let s := run fixed maxq cache_t cache_empty cache_add cache_snap ncons panic_at sched
               (init cache_t cache_empty pkts stoppers) in
  (forall c, c < ncons -> s_stp _ s c <> S1 /\ c_pc (s_cs _ s c) <> CExitLoaded) ->
  s_count _ s = sumn ncons (fun c => b2z (c_reg (s_cs _ s c))).
Proof. exact count_registered_settled. Qed.
Print Assumptions C03_count_registered_when_settled.

Theorem C03_count_registered_when_quiescent :
  forall maxq cache_t cache_empty cache_add cache_snap ncons panic_at stoppers sched pkts,
  let s := run fixed maxq cache_t cache_empty cache_add cache_snap ncons panic_at sched
               (init cache_t cache_empty pkts stoppers) in
  quiescent fixed maxq cache_t cache_empty cache_add cache_snap ncons panic_at s ->
  s_count _ s = sumn ncons (fun c => b2z (c_reg (s_cs _ s c))).
Proof. exact count_registered_quiescent. Qed.
Print Assumptions C03_count_registered_when_quiescent.

Theorem C03_count_zero_when_quiescent :
  forall maxq cache_t cache_empty cache_add cache_snap ncons panic_at stoppers sched pkts,
  let s := run fixed maxq cache_t cache_empty cache_add cache_snap ncons panic_at sched
               (init cache_t cache_empty pkts stoppers) in
  quiescent fixed maxq cache_t cache_empty cache_add cache_snap ncons panic_at s ->
  s_kp _ s = KDone -> s_count _ s = 0%Z.
Proof. exact count_zero_quiescent. Qed.
Print Assumptions C03_count_zero_when_quiescent.

(* 3. A step of StopConsume(c), and a step of c's goroutine, leave every other consumer (record,
   attacher and stopper position) exactly as it was — in every state and every variant. *)
Theorem C03_stop_releases_only_that_consumer :
  forall maxq cache_t cache_empty cache_add cache_snap ncons panic_at V (s s' : st cache_t) c,
  step V maxq cache_t cache_empty cache_add cache_snap ncons panic_at s (TStop c) = Some s' ->
  forall c', c' <> c ->
    s_cs _ s' c' = s_cs _ s c' /\ s_att _ s' c' = s_att _ s c' /\ s_stp _ s' c' = s_stp _ s c'.
Proof. exact stop_touches_only_that. Qed.
Print Assumptions C03_stop_releases_only_that_consumer.

Theorem C03_cons_touches_only_that_consumer :
  forall maxq cache_t cache_empty cache_add cache_snap ncons panic_at V (s s' : st cache_t) c,
  step V maxq cache_t cache_empty cache_add cache_snap ncons panic_at s (TCons c) = Some s' ->
  forall c', c' <> c ->
    s_cs _ s' c' = s_cs _ s c' /\ s_att _ s' c' = s_att _ s c' /\ s_stp _ s' c' = s_stp _ s c'.
Proof. exact cons_touches_only_that. Qed.
Print Assumptions C03_cons_touches_only_that_consumer.

(* Full statement "a TAtt c step leaves s_cs s c' unchanged for every c' <> c" is FALSE in the model
   ([att_touches_only_that_refuted] below): the Unlock in c's attach hands the join mutex to an
   attacher c' blocked in Lock(), and the model lets c' take its cache snapshot (c_q, c_pushed,
   c_prefill) inside the same atomic step.  Proved: unchanged unless c' was blocked in Lock(), and
   in any case nothing that releasing is about (registered, closed, goroutine position, Close
   calls, delivered packets) changes. *)
Theorem C03_att_touches_only_that_consumer_partial :
  forall maxq cache_t cache_empty cache_add cache_snap ncons panic_at stoppers sched pkts c s',
  let s := run fixed maxq cache_t cache_empty cache_add cache_snap ncons panic_at sched
               (init cache_t cache_empty pkts stoppers) in
  step fixed maxq cache_t cache_empty cache_add cache_snap ncons panic_at s (TAtt c) = Some s' ->
  forall c', c' <> c ->
    (s_att _ s c' <> A0W -> s_cs _ s' c' = s_cs _ s c') /\
    same_release_fields (s_cs _ s c') (s_cs _ s' c') /\ s_stp _ s' c' = s_stp _ s c'.
Proof. exact att_touches_only_that_partial. Qed.
Print Assumptions C03_att_touches_only_that_consumer_partial.

Theorem C03_att_touches_only_that_consumer_refuted :
  let pre := lcase_of fixed 2 [{| p_id := 1; p_kind := 3 |}] [] [TPub; TPub; TPub; TAtt 0; TAtt 1] in
  let s := lrun pre in
  s_att _ s 1 = A0W /\
  match lstep pre s (TAtt 0) with
  | Some s' => c_prefill (s_cs _ s' 1) <> c_prefill (s_cs _ s 1)
  | None => False
  end.
Proof. exact att_touches_only_that_refuted. Qed.
Print Assumptions C03_att_touches_only_that_consumer_refuted.

(* A stopped consumer is released whether or not the stream is closed: once the stopper of c has
   run to completion and c's goroutine cannot move, Consumer.Close has been called exactly once,
   the goroutine has terminated and c is out of the map. *)
Theorem C03_stopped_is_released_local :
  forall maxq cache_t cache_empty cache_add cache_snap ncons panic_at stoppers sched pkts c,
  let s := run fixed maxq cache_t cache_empty cache_add cache_snap ncons panic_at sched
               (init cache_t cache_empty pkts stoppers) in
  step fixed maxq cache_t cache_empty cache_add cache_snap ncons panic_at s (TCons c) = None ->
  step fixed maxq cache_t cache_empty cache_add cache_snap ncons panic_at s (TStop c) = None ->
  step fixed maxq cache_t cache_empty cache_add cache_snap ncons panic_at s (TAtt c) = None ->
  s_att _ s c = ADone -> stoppers c = true ->
  c_pc (s_cs _ s c) = CDone /\ c_closes (s_cs _ s c) = 1 /\ c_reg (s_cs _ s c) = false.
Proof. exact stopped_is_released_local. Qed.
Print Assumptions C03_stopped_is_released_local.

(* the global corollary *)
Theorem C03_stopped_is_released_quiescent :
  forall maxq cache_t cache_empty cache_add cache_snap ncons panic_at stoppers sched pkts c,
  let s := run fixed maxq cache_t cache_empty cache_add cache_snap ncons panic_at sched
               (init cache_t cache_empty pkts stoppers) in
  quiescent fixed maxq cache_t cache_empty cache_add cache_snap ncons panic_at s ->
  s_stp _ s c = SDone -> s_att _ s c = ADone -> stoppers c = true ->
  c_pc (s_cs _ s c) = CDone /\ c_closes (s_cs _ s c) = 1.
Proof. exact stopped_is_released_quiescent. Qed.
Print Assumptions C03_stopped_is_released_quiescent.

(* 4. No lost wake-up: a goroutine blocked in cond.Wait is never closed. *)
Theorem C03_no_lost_wakeup :
  forall maxq cache_t cache_empty cache_add cache_snap ncons panic_at stoppers sched pkts c,
  let s := run fixed maxq cache_t cache_empty cache_add cache_snap ncons panic_at sched
               (init cache_t cache_empty pkts stoppers) in
  c_pc (s_cs _ s c) = CWait -> c_closed (s_cs _ s c) = false.
Proof. exact no_lost_wakeup. Qed.
Print Assumptions C03_no_lost_wakeup.

(* 5. Consumer.Close is called at most once. *)
Theorem C03_closed_at_most_once :
  forall maxq cache_t cache_empty cache_add cache_snap ncons panic_at stoppers sched pkts c,
  let s := run fixed maxq cache_t cache_empty cache_add cache_snap ncons panic_at sched
               (init cache_t cache_empty pkts stoppers) in
  c_closes (s_cs _ s c) <= 1.
Proof. exact closed_at_most_once. Qed.
Print Assumptions C03_closed_at_most_once.

(* 6. The code before the repairs violates 1, 2 and 4 (variant [original], rcache instance) *)
Theorem C03_lost_wakeup_refuted :
  let cs := lcase_of original 1 [] [] [TAtt 0; TAtt 0; TAtt 0; TClose; TClose; TClose; TCons 0] in
  let s := lrun cs in
  lquiet cs s /\ s_kp _ s = KDone /\ s_att _ s 0 = ADone /\
  c_pc (s_cs _ s 0) = CWait /\ c_closed (s_cs _ s 0) = true /\ c_closes (s_cs _ s 0) = 0.
Proof. exact D3_lost_wakeup_refuted. Qed.
Print Assumptions C03_lost_wakeup_refuted.

Theorem C03_attach_after_close_refuted :
  let cs := lcase_of original 1 [] [] [TClose; TClose; TClose; TAtt 0; TAtt 0; TAtt 0; TCons 0] in
  let s := lrun cs in
  lquiet cs s /\ s_kp _ s = KDone /\ s_att _ s 0 = ADone /\
  c_reg (s_cs _ s 0) = true /\ c_pc (s_cs _ s 0) = CWait /\ c_closed (s_cs _ s 0) = false /\
  c_closes (s_cs _ s 0) = 0 /\ s_count _ s = 1%Z.
Proof. exact D2_attach_after_close_refuted. Qed.
Print Assumptions C03_attach_after_close_refuted.

Theorem C03_count_negative_refuted :
  let cs := lcase_of original 1 [] [true]
              [TAtt 0; TAtt 0; TAtt 0; TStop 0; TClose; TClose; TClose; TStop 0] in
  (s_count _ (lrun cs) < 0)%Z.
Proof. exact D4_negative_count_refuted. Qed.
Print Assumptions C03_count_negative_refuted.

(* 7. non-vacuity: a concrete schedule of the fixed model (one packet, consumer 1 stopped from
   outside, consumer 0 swept by the close while blocked in Wait) reaches a quiescent state after the
   close; both consumers got the packet, are released, the counter is 0 *)
Example C03_nonvacuous :
  let s := lrun nonvac_case in
  lquiet nonvac_case s /\ s_kp _ s = KDone /\
  s_att _ s 0 = ADone /\ s_att _ s 1 = ADone /\
  c_pc (s_cs _ s 0) = CDone /\ c_closes (s_cs _ s 0) = 1 /\ map p_id (c_out (s_cs _ s 0)) = [1%Z] /\
  c_pc (s_cs _ s 1) = CDone /\ c_closes (s_cs _ s 1) = 1 /\ map p_id (c_out (s_cs _ s 1)) = [1%Z] /\
  s_count _ s = 0%Z.
Proof. intro s. split; [exact nonvac_quiescent|]. vm_compute. repeat split. Qed.

(* ---- 8. the oracle of the check -------------------------------------------------------------
   [ok_C03] (Model/LtsOracle.v) is the boolean function that bin/check applies to
   (case, observation of the real media.Stream after the case's schedule).  It reads the wire
   observation [( (cons_0 … cons_{n-1}) count ok pp todo kp )] and demands: the counter is not
   negative (C03_count_nonneg); Consumer.Close at most once (C03_closed_at_most_once); a consumer
   whose attach has returned and whose goroutine and stopper are at rest is released once the
   stream is closed (C03_released_after_close_local) or once its stopper has run
   (C03_stopped_is_released_local); the counter equals the number of registered consumers when no
   removal is in flight (C03_count_registered_when_settled).  The model passes it on every case: *)
From V Require Import LtsOracle LtsOracleProofs.

Theorem C03_model_passes : forall c : lcase,
  l_var c = fixed -> ok_C03 c (obs_of_state (l_n c) (lrun c)) = true.
Proof. exact LtsOracleProofs.C03_model_passes. Qed.
Print Assumptions C03_model_passes.

(* [obs_of_state] is what the decoder [dec_obs] of the oracle reads off the wire encoding … *)
Theorem C03_oracle_decodes_the_wire : forall n (s : lstate),
  dec_obs (enc_state n s) = obs_of_state n s.
Proof. exact dec_enc_obs. Qed.
Print Assumptions C03_oracle_decodes_the_wire.

(* … so the extracted oracle answers 1 on (case, the extracted model's output for the case) *)
Theorem C03_model_passes_on_the_wire : forall v,
  l_var (dec_lcase v) = fixed -> ok_C03 (dec_lcase v) (dec_obs (lts_run v)) = true.
Proof. exact (fun v H => proj1 (wire_model_passes v H)). Qed.
Print Assumptions C03_model_passes_on_the_wire.

(* ---- 9. transport adapters ---------------------------------------------------------------------
   What a client and the process-wide counters show when consumers are released, stated as a
   specification over the script of a run (attach i / stop i / stream end) in Model/C01Wire.v
   ([snap_step]): a snapshot = consumers on the stream, active RTSP / FLV / WSP connections relative
   to their values before the first attach, and per client whether its connection has ended.
   Proved here: the specification has the two properties the statement asks for (a stop ends that
   client's connection only and takes exactly its share of the counters; the end of the stream ends
   every connection and returns every counter), the oracle [ok_release] accepts the specification's
   own run, and — for the RTSP adapters — the session side of the chain: a session that is torn
   down or disconnected releases what it held (C12's theorem, restated).
   Only checked (stream "transport-release" of checks/c03.py, real handlers on sockets): that the
   real adapters meet the specification, i.e. the link Consumer.Close -> Session.Close -> connection
   closed -> process() exits -> counter released (RTSP/ws-rtsp/WSP), closeCh -> handler returns
   (HTTP-FLV), conn.Close -> read loop ends (ws-FLV), and StopConsume on the client's own goodbye. *)
From V Require C01Wire C01WireProofs C12RtspSession C12RtspInv.

Theorem C03_wire_stop_is_local : forall refs kinds s i,
  nth i (C01Wire.sn_closed s) true = false ->
  let s' := C01Wire.snap_step refs kinds s (C01Wire.TStop i) in
  let g := nth i (C01Wire.sn_of s) O in
  (forall j, j <> i -> nth j (C01Wire.sn_closed s') true = nth j (C01Wire.sn_closed s) true) /\
  C01Wire.sn_cc s' = (C01Wire.sn_cc s - C01Wire.cons_weight refs (nth i kinds 0))%Z /\
  (forall h, h <> g -> nth h (C01Wire.sn_gens s') 0%Z = nth h (C01Wire.sn_gens s) 0%Z) /\
  ((g < length (C01Wire.sn_gens s))%nat ->
     nth g (C01Wire.sn_gens s') 0%Z = (nth g (C01Wire.sn_gens s) 0 - C01Wire.cons_weight refs (nth i kinds 0))%Z) /\
  (C01Wire.sn_rtsp s' + C01Wire.sn_flv s' + C01Wire.sn_wsp s' =
    C01Wire.sn_rtsp s + C01Wire.sn_flv s + C01Wire.sn_wsp s
    - C01Wire.b2z (C01Wire.is_rtsp_kind (nth i kinds 0)) - C01Wire.b2z (C01Wire.is_flv_kind (nth i kinds 0))
    - C01Wire.b2z (C01Wire.is_wsp_kind (nth i kinds 0)))%Z.
Proof. exact C01WireProofs.release_stop_is_local. Qed.
Print Assumptions C03_wire_stop_is_local.

(* a new publisher registering the path (the previous stream is retired but lives on while it has
   consumers) touches nobody who is attached; [sn_gens] keeps one consumer count per stream *)
Theorem C03_wire_replace_touches_nobody : forall refs kinds s,
  let s' := C01Wire.snap_step refs kinds s C01Wire.TReplace in
  C01Wire.sn_cc s' = C01Wire.sn_cc s /\ C01Wire.sn_closed s' = C01Wire.sn_closed s /\
  C01Wire.sn_rtsp s' = C01Wire.sn_rtsp s /\ C01Wire.sn_flv s' = C01Wire.sn_flv s /\
  C01Wire.sn_wsp s' = C01Wire.sn_wsp s /\ C01Wire.sn_gens s' = C01Wire.sn_gens s ++ [0%Z].
Proof. exact C01WireProofs.release_replace_touches_nobody. Qed.
Print Assumptions C03_wire_replace_touches_nobody.

Theorem C03_wire_end_is_total : forall refs kinds s,
  let s' := C01Wire.snap_step refs kinds s C01Wire.TEnd in
  C01Wire.sn_cc s' = 0%Z /\ C01Wire.sn_rtsp s' = 0%Z /\ C01Wire.sn_flv s' = 0%Z /\ C01Wire.sn_wsp s' = 0%Z /\
  (forall g, nth g (C01Wire.sn_gens s') 0%Z = 0%Z) /\
  forall j, (j < length (C01Wire.sn_closed s))%nat -> nth j (C01Wire.sn_closed s') false = true.
Proof. exact C01WireProofs.release_end_is_total. Qed.
Print Assumptions C03_wire_end_is_total.

Theorem C03_wire_model_passes : forall refs kinds es,
  C01Wire.ok_release refs kinds es (C01Wire.snap_run refs kinds (C01Wire.snap0 kinds) es) = true.
Proof. exact C01WireProofs.release_model_passes. Qed.
Print Assumptions C03_wire_model_passes.

(* the RTSP session side (C12): TEARDOWN and disconnect give back whatever the session held *)
Theorem C03_wire_rtsp_session_releases : forall e s q,
  C12RtspSession.s_closed s = false ->
  (C12RtspSession.q_meth q = C12RtspSession.MTeardown ->
     C12RtspSession.step e s q =
       (C12RtspSession.closed_of s, [C12RtspSession.resp 200 q],
        [C12RtspSession.ERelease (C12RtspSession.s_held s); C12RtspSession.EClose])) /\
  C12RtspSession.disconnect s =
    (C12RtspSession.closed_of s, [C12RtspSession.ERelease (C12RtspSession.s_held s); C12RtspSession.EClose]) /\
  (forall ext w, C12RtspSession.s_closed (C12RtspSession.closed_of s) = true /\
                 C12RtspSession.s_held (C12RtspSession.closed_of s) = C12RtspSession.HNone /\
                 C12RtspSession.reg_no_self
                   (C12RtspSession.registry ext (C12RtspSession.s_held (C12RtspSession.closed_of s)) w) = true).
Proof. exact C12RtspInv.teardown_or_disconnect_releases. Qed.
Print Assumptions C03_wire_rtsp_session_releases.

(* ---- 10. conversion goroutines ------------------------------------------------------------------
   "... and no delivery or conversion goroutine of that stream remains": the three conversion
   goroutines of a stream — rtp.Demuxer.process, flv.Muxer.process, mpegts.Muxer.process — are one
   program over a cnotch/queue.SyncQueue: [for !closed { x := Pop(); if x == nil {continue}; work x }],
   [Close: closed = true; Push(nil)], producers [Push(x)].  Model/C03Worker.v is its LTS (worker,
   closer, producer; the wake-up of a waiting worker is a step of its own); [wrun true] is the code
   as repaired (commit 951ebeb: Push(nil) instead of a bare Signal), [wrun false] the code before.
   The statements hold for every schedule and every list of items.  Tied to /repo by the stream
   "converter-goroutines" of checks/c03.py: schedules replayed through the points worker.pop /
   worker.got on real rtp.Demuxer, flv.Muxer, mpegts.Muxer values with a recording sink. *)
From V Require C03Worker C03WorkerProofs RunC03Worker.

(* (a) after Close has returned the worker is never waiting inside Pop *)
Theorem C03_worker_no_lost_wakeup : forall items sched,
  let s := C03Worker.wrun true sched (C03Worker.winit items) in
  C03Worker.w_kpc s = C03Worker.WKDone -> C03Worker.w_pc s <> C03Worker.WWait.
Proof. exact C03WorkerProofs.worker_no_lost_wakeup. Qed.
Print Assumptions C03_worker_no_lost_wakeup.

(* (b) in every state where Close has returned and the worker cannot move, its goroutine has ended *)
Theorem C03_worker_terminates : forall items sched,
  let s := C03Worker.wrun true sched (C03Worker.winit items) in
  C03Worker.w_kpc s = C03Worker.WKDone -> C03Worker.worker_can_move s = false ->
  C03Worker.w_pc s = C03Worker.WDone.
Proof. exact C03WorkerProofs.worker_terminates. Qed.
Print Assumptions C03_worker_terminates.

(* (b), promptly: once Close has returned, two steps of the worker itself end it, whatever the
   producer does in between and however many items are queued *)
Theorem C03_worker_ends_within_two_steps : forall items sched sched',
  let s := C03Worker.wrun true sched (C03Worker.winit items) in
  C03Worker.w_kpc s = C03Worker.WKDone -> 2 <= C03Worker.count_tw sched' ->
  C03Worker.w_pc (C03Worker.wrun true sched' s) = C03Worker.WDone.
Proof. exact C03WorkerProofs.worker_ends_within_two_steps. Qed.
Print Assumptions C03_worker_ends_within_two_steps.

(* the worker meets a nil element only after Close has returned *)
Theorem C03_worker_nil_only_after_close : forall items sched,
  let s := C03Worker.wrun true sched (C03Worker.winit items) in
  (C03Worker.w_pc s = C03Worker.WGot None \/ In None (C03Worker.w_q s)) ->
  C03Worker.w_kpc s = C03Worker.WKDone.
Proof. exact C03WorkerProofs.worker_nil_only_after_close. Qed.
Print Assumptions C03_worker_nil_only_after_close.

(* (c) for both variants of Close: what was pushed is a prefix of the item list; what was processed
   is a prefix of what was pushed (nothing invented, duplicated or reordered); until the goroutine
   ends nothing is lost — pushed = processed ++ the item in hand ++ the items in the queue; a waiting
   worker has processed everything pushed; the goroutine ends only after the flag was set.
   NOT promised (and false, [C03_worker_close_may_drop]): that an item pushed before Close began is
   processed — the worker leaves at its next loop test once the flag is set and the deferred Reset
   drops the rest of the queue, the items behind the nil included. *)
Theorem C03_worker_processes_in_order : forall push items sched,
  let s := C03Worker.wrun push sched (C03Worker.winit items) in
  C03Worker.w_pushed s ++ C03Worker.w_todo s = items /\
  (exists rest, C03Worker.w_pushed s = C03Worker.w_out s ++ rest) /\
  (C03Worker.w_pc s <> C03Worker.WDone ->
     C03Worker.w_pushed s =
       C03Worker.w_out s ++ C03Worker.winflight (C03Worker.w_pc s) ++ C03Worker.wsomes (C03Worker.w_q s)) /\
  (C03Worker.w_pc s = C03Worker.WWait -> C03Worker.w_out s = C03Worker.w_pushed s) /\
  (C03Worker.w_pc s = C03Worker.WDone -> C03Worker.w_closed s = true).
Proof. exact C03WorkerProofs.worker_processes_in_order. Qed.
Print Assumptions C03_worker_processes_in_order.

Theorem C03_worker_idle_has_processed_all : forall push items sched,
  let s := C03Worker.wrun push sched (C03Worker.winit items) in
  C03Worker.worker_can_move s = false -> C03Worker.w_closed s = false ->
  C03Worker.w_q s = [] /\ C03Worker.w_out s = C03Worker.w_pushed s.
Proof. exact C03WorkerProofs.worker_idle_has_processed_all. Qed.
Print Assumptions C03_worker_idle_has_processed_all.

Theorem C03_worker_close_may_drop :
  exists items sched,
    let s := C03Worker.wrun true sched (C03Worker.winit items) in
    C03Worker.w_pc s = C03Worker.WDone /\ C03Worker.w_kpc s = C03Worker.WKDone /\
    C03Worker.w_pushed s = items /\ C03Worker.w_out s <> C03Worker.w_pushed s.
Proof. exact C03WorkerProofs.worker_close_may_drop. Qed.
Print Assumptions C03_worker_close_may_drop.

(* (d) the code before the repair: a computed schedule (worker parked between its closed test and
   Pop while Close runs) leaves the worker waiting for ever after Close has returned *)
Theorem C03_worker_lost_wakeup_refuted :
  exists items sched,
    let s := C03Worker.wrun false sched (C03Worker.winit items) in
    C03Worker.w_kpc s = C03Worker.WKDone /\ C03Worker.w_closed s = true /\ C03Worker.w_todo s = [] /\
    C03Worker.w_out s = items /\ C03Worker.w_pc s = C03Worker.WWait /\
    forall sched', C03Worker.w_pc (C03Worker.wrun false sched' s) = C03Worker.WWait /\
                   C03Worker.worker_can_move (C03Worker.wrun false sched' s) = false.
Proof. exact C03WorkerProofs.worker_lost_wakeup_refuted. Qed.
Print Assumptions C03_worker_lost_wakeup_refuted.

(* the replay harness runs the LTS (coarser steps: Close in one piece, a woken worker runs on) *)
Theorem C03_worker_harness_runs_are_runs : forall push hs items,
  exists sched, C03Worker.hrun push hs items = C03Worker.wrun push sched (C03Worker.winit items).
Proof. exact C03WorkerProofs.hrun_is_wrun. Qed.
Print Assumptions C03_worker_harness_runs_are_runs.

(* the oracle applied to the implementation accepts the model, and what it accepts *)
Theorem C03_worker_model_passes : forall items hs,
  C03Worker.ok_worker items (C03Worker.wobserve (C03Worker.hrun true hs items)) = true.
Proof. exact C03WorkerProofs.worker_model_passes. Qed.
Print Assumptions C03_worker_model_passes.

Theorem C03_worker_model_passes_on_the_wire : forall c,
  Val.as_bool (Val.nthv 1 c) = true ->
  RunC03Worker.x_C03_worker_ok (Val.VL [c; RunC03Worker.x_C03_worker_run c]) = Val.VI 1%Z.
Proof. exact C03WorkerProofs.worker_model_passes_on_the_wire. Qed.
Print Assumptions C03_worker_model_passes_on_the_wire.

Theorem C03_worker_oracle_sound : forall items o,
  C03Worker.ok_worker items o = true ->
  (C03Worker.o_kpc o = 5%Z -> C03Worker.o_pc o <> 3%Z) /\
  (C03Worker.o_kpc o = 5%Z -> C03Worker.o_pc o = 3%Z \/ C03Worker.o_pc o = 5%Z -> C03Worker.o_pc o = 5%Z) /\
  (exists rest, firstn (length items - C03Worker.o_todo o) items = C03Worker.o_out o ++ rest) /\
  (C03Worker.o_kpc o = 0%Z -> C03Worker.o_pc o = 3%Z ->
     C03Worker.o_out o = firstn (length items - C03Worker.o_todo o) items).
Proof. exact C03WorkerProofs.ok_worker_sound. Qed.
Print Assumptions C03_worker_oracle_sound.

(* (e) non-vacuity: item 1 processed; the worker parked before Pop with closed = false tested while
   Close runs to completion; item 2 pushed behind the nil; the worker pops the nil and ends *)
Example C03_worker_nonvacuous :
  let s := C03Worker.wrun true C03WorkerProofs.wnonvac_sched (C03Worker.winit C03WorkerProofs.wnonvac_items) in
  C03Worker.w_pc (C03Worker.wrun true
      [C03Worker.TW; C03Worker.TP; C03Worker.TW; C03Worker.TW; C03Worker.TK; C03Worker.TK; C03Worker.TP; C03Worker.TW]
      (C03Worker.winit C03WorkerProofs.wnonvac_items)) = C03Worker.WGot None /\
  C03Worker.w_kpc s = C03Worker.WKDone /\ C03Worker.worker_can_move s = false /\
  C03Worker.w_pc s = C03Worker.WDone /\
  C03Worker.w_out s = [1]%Z /\ C03Worker.w_pushed s = [1; 2]%Z /\ C03Worker.w_todo s = [].
Proof. exact C03WorkerProofs.worker_nonvacuous. Qed.

(* ---- 11. stream ends that go through the registry ----------------------------------------------
   "When a stream ends for any reason (publisher disconnect, replacement by a new publisher,
   administrative delete, idle close, server shutdown) every consumer attached to it … is closed …
   the consumer count is zero": the stream-ending events reach a stream only through media's
   registry (Regist retires the stream it replaces, Unregist / admin delete / UnregistAll find the
   stream there).  Model/Registry.v (C05) is the registry with histories of new / regist / unregist /
   close / get / attach / detach / idle / unregist-all; each stream carries the ghost counters
   [st_att_total] (successful attaches) and [st_det_total] (successful detaches), and
   [released s] = the number of its consumers whose Close must have been called (all once it has
   ended, the detached ones while it is live).  [sexec sinit ops] is the specification's state after
   the history.  Tied to /repo by the stream "registry-ends" of checks/c03.py: histories on the real
   media package with recording consumers; the oracle [ok_reg_end_C03] compares the recorded
   Consumer.Close calls per stream with [released] in the specification's end state. *)
From V Require Registry RegistryProofs RunC05 RunC03Reg RegistryWireProofs.

(* every consumer ever attached is attached or released; an ended stream has nobody attached and all
   its consumers released; the shutdown ends every stream that resolves and releases its consumers *)
Theorem C03_registry_end_releases : forall ops,
  let sp := Registry.sexec Registry.sinit ops in
  (forall i, (Registry.released (Registry.sp_get sp i) + Registry.consumers (Registry.sp_get sp i) =
              Registry.st_att_total (Registry.sp_get sp i))%Z) /\
  (forall i, Registry.st_live (Registry.sp_get sp i) = false ->
     Registry.st_rtp (Registry.sp_get sp i) = 0%Z /\ Registry.st_flv (Registry.sp_get sp i) = 0%Z /\
     Registry.released (Registry.sp_get sp i) = Registry.st_att_total (Registry.sp_get sp i)) /\
  (let sp' := fst (Registry.sstep sp Registry.GUnregistAll) in
   forall k i, Registry.sp_resolve sp k = Some i ->
     Registry.st_live (Registry.sp_get sp' i) = false /\
     Registry.st_rtp (Registry.sp_get sp' i) = 0%Z /\ Registry.st_flv (Registry.sp_get sp' i) = 0%Z /\
     Registry.released (Registry.sp_get sp' i) = Registry.st_att_total (Registry.sp_get sp i)).
Proof. exact RegistryProofs.registry_end_releases. Qed.
Print Assumptions C03_registry_end_releases.

(* a stream ended by replacement (no consumers), unregistration, close or the idle task never comes
   back: it stays ended — and hence fully released — whatever happens next *)
Theorem C03_registry_ended_stays_ended : forall ops sp j,
  (j < length (Registry.sp_streams sp)) -> Registry.st_live (Registry.sp_get sp j) = false ->
  Registry.st_live (Registry.sp_get (Registry.sexec sp ops) j) = false.
Proof. exact (fun ops sp j => RegistryProofs.dead_forever ops sp j). Qed.
Print Assumptions C03_registry_ended_stays_ended.

(* the implementation model of the registry (the code's map operations) passes the oracle on every
   well-formed history (only live streams are registered), also in its extracted on-the-wire form *)
Theorem C03_reg_model_passes : forall ops,
  Registry.hist_wf Registry.sinit ops = true ->
  Registry.ok_reg_end_C03 ops
    (Registry.end_vec (Registry.g_streams (fst (Registry.grun Registry.rfixed Registry.rinit ops)))) = true.
Proof. exact RegistryProofs.reg_model_passes. Qed.
Print Assumptions C03_reg_model_passes.

Theorem C03_reg_model_passes_on_the_wire : forall c,
  RunC05.c05_variant (Val.nthv 0 c) = Registry.rfixed ->
  Registry.hist_wf Registry.sinit (RunC05.c05_ops c) = true ->
  RunC03Reg.x_C03_reg_ok (Val.VL [c; RunC03Reg.x_C03_reg_run c]) = Val.VI 1%Z.
Proof. exact RegistryWireProofs.reg_model_passes_on_the_wire. Qed.
Print Assumptions C03_reg_model_passes_on_the_wire.

(* non-vacuity: stream 0 with an RTP consumer is replaced by stream 1 with an FLV consumer, the old
   publisher leaves (Unregist 0), the successor is still found, the shutdown ends it: both streams
   ended, one consumer each, one Close each *)
Example C03_registry_nonvacuous :
  Registry.hist_wf Registry.sinit RegistryProofs.example_shutdown = true /\
  Registry.end_vec (Registry.sp_streams (Registry.sexec Registry.sinit RegistryProofs.example_shutdown)) =
    [(false, 1%Z, 1%Z); (false, 1%Z, 1%Z)] /\
  Registry.ok_reg_end_C03 RegistryProofs.example_shutdown [(false, 1%Z, 1%Z); (false, 1%Z, 1%Z)] = true /\
  Registry.ok_reg_end_C03 RegistryProofs.example_shutdown [(false, 1%Z, 1%Z); (true, 1%Z, 0%Z)] = false.
Proof. vm_compute. auto. Qed.

(* ---- 12. a reusable per-stream object through repeated use cycles: the multicast proxy ----------
   "… stopping a single consumer does the same for that consumer only.  Afterwards the stream's
   consumer count is zero … no delivery goroutine of that stream remains", for a consumer that is
   STARTED AND STOPPED MANY TIMES on the same live stream.  The multicast proxy of a RECORD stream is
   the stream's one RTP consumer on behalf of all multicast players: the first member starts it,
   the last member leaving or the stream's end stops it, and the next member starts it again.
   Model/C03Mcast.v: histories of [MJoin i | MLeave i | MPub | MEnd | MExit] ([MExit]: the delivery
   goroutine of a cycle that was stopped by its last member runs its deferred Consumer.Close, at any
   later time); [spec_step] is the release specification as a function of the history alone,
   [mstep mfixed] the implementation as a state machine (closed flag, member list, current
   consumption, socket, pending goroutines), [spec_obs]/[mobserve] what is seen from outside after an
   event (ConsumerCount, socket held, members on record, per session: connection ended, packets
   received).  Tied to /repo by the stream "multicast-cycles" of checks/c03.py: the histories are
   replayed with real RTSP sessions on the multicast proxy of a real RECORD stream, the delivery
   goroutines stepped through the consume.pop / consume.got points; and by the cycle histories of
   "transport-release" (join / leave / join for every transport). *)
From V Require C03Mcast C03McastProofs RunC03Mcast C03McastWireProofs.

(* for every well-formed history — any number of sessions and of start/stop cycles, members
   overlapping or one after the other, stale goroutine exits anywhere — the implementation shows
   after every event exactly what the specification prescribes *)
Theorem C03_mcast_impl_meets_spec : forall n h, C03Mcast.hist_wf h = true ->
  C03Mcast.mtrace C03Mcast.mfixed n C03Mcast.minit h = C03Mcast.spec_trace n C03Mcast.spec0 h.
Proof. exact C03McastProofs.mcast_impl_meets_spec. Qed.
Print Assumptions C03_mcast_impl_meets_spec.

(* after every history: the proxy is idle — no consumer on the stream, no socket — exactly when no
   member is attached (in particular after each "last member leaves", in every cycle), and running
   with exactly one consumer while somebody is *)
Theorem C03_mcast_idle_iff_no_member : forall h, C03Mcast.hist_wf h = true ->
  let s := C03Mcast.mrun C03Mcast.mfixed h in let p := C03Mcast.spec_run h in
  C03Mcast.m_members s = C03Mcast.sp_members p /\
  (C03Mcast.sp_members p = [] -> C03Mcast.m_consumers s = [] /\ C03Mcast.m_sock s = false) /\
  (C03Mcast.sp_members p <> [] ->
     C03Mcast.m_consumers s = [C03Mcast.m_gen s] /\ C03Mcast.m_sock s = true /\ C03Mcast.m_closed s = false).
Proof. exact C03McastProofs.mcast_idle_iff_no_member. Qed.
Print Assumptions C03_mcast_idle_iff_no_member.

(* after the stream's end every session that ever joined — whichever cycle it belonged to — has had
   its connection ended, and the proxy is idle *)
Theorem C03_mcast_end_closes_every_member : forall h1 h2 i,
  C03Mcast.hist_wf (h1 ++ C03Mcast.MEnd :: h2) = true -> In (C03Mcast.MJoin i) h1 ->
  let s := C03Mcast.mrun C03Mcast.mfixed (h1 ++ C03Mcast.MEnd :: h2) in
  In i (C03Mcast.m_ended s) /\ C03Mcast.m_members s = [] /\ C03Mcast.m_consumers s = [] /\
  C03Mcast.m_sock s = false.
Proof. exact C03McastProofs.mcast_end_closes_every_member. Qed.
Print Assumptions C03_mcast_end_closes_every_member.

(* nobody is disconnected without cause: only the session's own leave or the stream's end ends its connection
   (not another member leaving, not the late Close of an earlier cycle) *)
Theorem C03_mcast_stop_is_local : forall h i, C03Mcast.hist_wf h = true ->
  In i (C03Mcast.m_ended (C03Mcast.mrun C03Mcast.mfixed h)) -> In (C03Mcast.MLeave i) h \/ In C03Mcast.MEnd h.
Proof. exact C03McastProofs.mcast_stop_is_local. Qed.
Print Assumptions C03_mcast_stop_is_local.

(* the oracle applied to the real proxy accepts the implementation model, also in its extracted wire form *)
Theorem C03_mcast_model_passes : forall n h, C03Mcast.hist_wf h = true ->
  C03Mcast.ok_mcast n h (C03Mcast.mtrace C03Mcast.mfixed n C03Mcast.minit h) = true.
Proof. exact C03McastProofs.mcast_model_passes. Qed.
Print Assumptions C03_mcast_model_passes.

Theorem C03_mcast_model_passes_on_the_wire : forall c,
  C03Mcast.hist_wf (RunC03Mcast.dec_mhist c) = true ->
  RunC03Mcast.x_C03_mcast_ok (Val.VL [c; RunC03Mcast.x_C03_mcast_run c]) = Val.VI 1%Z.
Proof. exact C03McastWireProofs.mcast_model_passes_on_the_wire. Qed.
Print Assumptions C03_mcast_model_passes_on_the_wire.

(* without one of the three things that make a restart sound the specification is violated:
   (a) the closed flag not re-armed by AddMember (the seeded change): from the second cycle on the last
       leave does not stop the consumer, and the stream's end does not close the attached member *)
Theorem C03_mcast_no_rearm_leave_refuted :
  let h := [C03Mcast.MJoin 0; C03Mcast.MLeave 0; C03Mcast.MExit; C03Mcast.MJoin 1; C03Mcast.MLeave 1] in
  C03Mcast.hist_wf h = true /\ C03Mcast.sp_members (C03Mcast.spec_run h) = [] /\
  C03Mcast.m_consumers (C03Mcast.mrun C03McastProofs.mseed h) = [2] /\
  C03Mcast.m_sock (C03Mcast.mrun C03McastProofs.mseed h) = true.
Proof. exact C03McastProofs.mcast_no_rearm_leave_refuted. Qed.
Print Assumptions C03_mcast_no_rearm_leave_refuted.

Theorem C03_mcast_no_rearm_end_refuted :
  let h := [C03Mcast.MJoin 0; C03Mcast.MLeave 0; C03Mcast.MExit; C03Mcast.MJoin 1; C03Mcast.MEnd] in
  C03Mcast.hist_wf h = true /\ C03Mcast.memn 1 (C03Mcast.sp_ended (C03Mcast.spec_run h)) = true /\
  C03Mcast.memn 1 (C03Mcast.m_ended (C03Mcast.mrun C03McastProofs.mseed h)) = false /\
  C03Mcast.m_sock (C03Mcast.mrun C03McastProofs.mseed h) = true.
Proof. exact C03McastProofs.mcast_no_rearm_end_refuted. Qed.
Print Assumptions C03_mcast_no_rearm_end_refuted.

(* (b) only the member that starts the proxy is recorded (the code before repair f25ada3, reproduced on it) *)
Theorem C03_mcast_one_member_refuted :
  C03Mcast.hist_wf [C03Mcast.MJoin 0; C03Mcast.MJoin 1; C03Mcast.MLeave 0] = true /\
  C03Mcast.sp_members (C03Mcast.spec_run [C03Mcast.MJoin 0; C03Mcast.MJoin 1; C03Mcast.MLeave 0]) = [1] /\
  C03Mcast.m_consumers (C03Mcast.mrun C03McastProofs.mone [C03Mcast.MJoin 0; C03Mcast.MJoin 1; C03Mcast.MLeave 0]) = [] /\
  C03Mcast.memn 1 (C03Mcast.sp_ended (C03Mcast.spec_run [C03Mcast.MJoin 0; C03Mcast.MJoin 1; C03Mcast.MEnd])) = true /\
  C03Mcast.memn 1 (C03Mcast.m_ended (C03Mcast.mrun C03McastProofs.mone [C03Mcast.MJoin 0; C03Mcast.MJoin 1; C03Mcast.MEnd])) = false.
Proof. exact C03McastProofs.mcast_one_member_refuted. Qed.
Print Assumptions C03_mcast_one_member_refuted.

(* (c) the deferred Close of the previous cycle's delivery goroutine acts on the current cycle (the code before
       repair f25ada3 / a3830f6, reproduced on it by holding the goroutine at consume.got) *)
Theorem C03_mcast_stale_close_refuted :
  let h := [C03Mcast.MJoin 0; C03Mcast.MLeave 0; C03Mcast.MJoin 1; C03Mcast.MExit] in
  C03Mcast.hist_wf h = true /\ C03Mcast.sp_members (C03Mcast.spec_run h) = [1] /\
  C03Mcast.memn 1 (C03Mcast.sp_ended (C03Mcast.spec_run h)) = false /\
  C03Mcast.m_consumers (C03Mcast.mrun C03McastProofs.mstale h) = [] /\
  C03Mcast.memn 1 (C03Mcast.m_ended (C03Mcast.mrun C03McastProofs.mstale h)) = true.
Proof. exact C03McastProofs.mcast_stale_close_refuted. Qed.
Print Assumptions C03_mcast_stale_close_refuted.

(* non-vacuity: three cycles with overlapping members, delayed goroutine exits, packets in every cycle, then
   the end: everybody ended, everybody got the packets of his own time, the proxy idle; the oracle accepts the
   implementation's observations and rejects those of each of the three variants *)
Example C03_mcast_nonvacuous :
  C03Mcast.hist_wf C03McastProofs.mcast_example = true /\
  C03Mcast.m_gen (C03Mcast.mrun C03Mcast.mfixed C03McastProofs.mcast_example) = 3 /\
  map (fun i => C03Mcast.memn i (C03Mcast.m_ended (C03Mcast.mrun C03Mcast.mfixed C03McastProofs.mcast_example))) (seq 0 5)
    = [true; true; true; true; true] /\
  map (fun i => C03Mcast.countn i (C03Mcast.m_got (C03Mcast.mrun C03Mcast.mfixed C03McastProofs.mcast_example))) (seq 0 5)
    = [2; 2; 1; 1; 1]%Z /\
  C03Mcast.m_consumers (C03Mcast.mrun C03Mcast.mfixed C03McastProofs.mcast_example) = [] /\
  C03Mcast.m_sock (C03Mcast.mrun C03Mcast.mfixed C03McastProofs.mcast_example) = false /\
  C03Mcast.ok_mcast 5 C03McastProofs.mcast_example
    (C03Mcast.mtrace C03Mcast.mfixed 5 C03Mcast.minit C03McastProofs.mcast_example) = true /\
  C03Mcast.ok_mcast 5 C03McastProofs.mcast_example
    (C03Mcast.mtrace C03McastProofs.mseed 5 C03Mcast.minit C03McastProofs.mcast_example) = false /\
  C03Mcast.ok_mcast 5 C03McastProofs.mcast_example
    (C03Mcast.mtrace C03McastProofs.mone 5 C03Mcast.minit C03McastProofs.mcast_example) = false /\
  C03Mcast.ok_mcast 5 [C03Mcast.MJoin 0; C03Mcast.MLeave 0; C03Mcast.MJoin 1; C03Mcast.MExit]
    (C03Mcast.mtrace C03McastProofs.mstale 5 C03Mcast.minit
       [C03Mcast.MJoin 0; C03Mcast.MLeave 0; C03Mcast.MJoin 1; C03Mcast.MExit]) = false.
Proof. exact C03McastProofs.mcast_nonvacuous. Qed.

(* ---- 13. early exits and error paths of the transport adapters ----------------------------------
   "… exactly the resources it held are released … the per-protocol active-connection counters are
   back to their prior values", and never negative, ALSO for a viewer whose attach fails half-way.
   Model/C03Adapter.v: an adapter (rtsp.Session.process, wsp.Session.process, flv.ConsumeByHTTP,
   flv.ConsumeByWebsocket) is a list of instructions — counter Add / Release, StartConsume /
   StopConsume, [IFallible] steps (stream lookup, FLV flags, every handshake request, the FLV header
   write, serving) and [IDefer d] — executed with a fault at the f-th fallible step: the function
   returns there and runs the cleanup deferred so far.  [adapter_prog a d b] is the shape all of them
   have: a fallible steps that return without cleanup, the deferred cleanup, Add, b fallible steps,
   StartConsume, serving.  Tied to /repo by the stream "adapter-faults" of checks/c03.py: fault
   injection on the real adapters (clients dropping the connection after k answered requests; the
   production FLV handlers on in-memory connections whose writes fail). *)
From V Require C03Adapter C03AdapterProofs RunC03Faults C03FaultsWireProofs.

(* the symbolic check [safe] of a program covers every fault point (induction over the program) *)
Theorem C03_adapter_safe_covers_every_fault : forall c0 n0 p D s,
  C03Adapter.safe c0 n0 p D s = true -> forall f, C03Adapter.settled c0 n0 (C03Adapter.exec f p D s) = true.
Proof. exact C03AdapterProofs.safe_exec. Qed.
Print Assumptions C03_adapter_safe_covers_every_fault.

(* the discipline "nothing fallible between the deferred cleanup and the Add it pairs with" makes an adapter
   balanced for every fault point, whatever the number of steps before, between and after: entered with counter
   c0 and n0 consumers it leaves with exactly c0 and n0, the counter was never below c0, no consumer id is held *)
Theorem C03_adapter_balanced_at_every_fault : forall a d b c0 n0 f,
  d = [C03Adapter.OStop; C03Adapter.ORelease] \/ d = [C03Adapter.ORelease; C03Adapter.OStop] ->
  let r := C03Adapter.exec f (C03Adapter.adapter_prog a d b) [] (C03Adapter.enter c0 n0) in
  C03Adapter.a_conns r = c0 /\ C03Adapter.a_cons r = n0 /\ (c0 <= C03Adapter.a_low r)%Z /\
  C03Adapter.a_cid r = false.
Proof. exact C03AdapterProofs.adapter_balanced. Qed.
Print Assumptions C03_adapter_balanced_at_every_fault.

(* Add moved behind a fallible step whose cleanup is already deferred (the seeded change, for any adapter of the
   shape): a fault at that step releases what was never added — the counter ends one below its prior value *)
Theorem C03_adapter_late_add_refuted : forall a d b c0 n0,
  d = [C03Adapter.OStop; C03Adapter.ORelease] \/ d = [C03Adapter.ORelease; C03Adapter.OStop] ->
  let r := C03Adapter.exec a (C03Adapter.late_add_prog a d (S b)) [] (C03Adapter.enter c0 n0) in
  C03Adapter.a_conns r = (c0 - 1)%Z /\ C03Adapter.a_low r = (c0 - 1)%Z.
Proof. exact C03AdapterProofs.late_add_refuted. Qed.
Print Assumptions C03_adapter_late_add_refuted.

(* any sequence of attempts (any transport, any fault point) while other viewers are attached: after every
   attempt the three counters and the consumer count are exactly what they were, and no counter was ever below
   its value at the start; the oracle applied to the real adapters accepts the model, also on the wire *)
Theorem C03_faults_meet_spec : forall bg l,
  C03Adapter.faults_run C03Adapter.prog_of bg l = C03Adapter.faults_spec bg l.
Proof. exact C03AdapterProofs.faults_meet_spec. Qed.
Print Assumptions C03_faults_meet_spec.

Theorem C03_faults_never_below_start : forall bg l,
  C03Adapter.f_low (fold_left (C03Adapter.attempt C03Adapter.prog_of) l (C03Adapter.with_bg bg)) = 0%Z.
Proof. exact C03AdapterProofs.faults_never_below. Qed.
Print Assumptions C03_faults_never_below_start.

Theorem C03_faults_model_passes : forall bg l,
  C03Adapter.ok_faults bg l (C03Adapter.faults_run C03Adapter.prog_of bg l) = true.
Proof. exact C03AdapterProofs.faults_model_passes. Qed.
Print Assumptions C03_faults_model_passes.

Theorem C03_faults_model_passes_on_the_wire : forall c,
  RunC03Faults.x_C03_faults_ok (Val.VL [c; RunC03Faults.x_C03_faults_run c]) = Val.VI 1%Z.
Proof. exact C03FaultsWireProofs.faults_model_passes_on_the_wire. Qed.
Print Assumptions C03_faults_model_passes_on_the_wire.

(* the seeded shape on ws-FLV: three failed header writes with a ws-rtsp viewer attached drive the FLV counter to
   -1, -2, -3; every other fault point and the ordinary viewer behave as before *)
Theorem C03_faults_late_add_wsflv_refuted :
  C03Adapter.faults_run C03AdapterProofs.prog_late_flv [2%Z] [(5%Z, O, 2); (5%Z, O, 2); (5%Z, O, 2)] =
    [(1, -1, 0, 1); (1, -2, 0, 1); (1, -3, 0, 1); (0, 0, 0, 0)]%Z /\
  C03Adapter.ok_faults [2%Z] [(5%Z, O, 2); (5%Z, O, 2); (5%Z, O, 2)]
    (C03Adapter.faults_run C03AdapterProofs.prog_late_flv [2%Z] [(5%Z, O, 2); (5%Z, O, 2); (5%Z, O, 2)]) = false /\
  C03Adapter.faults_run C03AdapterProofs.prog_late_flv [] [(5%Z, O, 0); (5%Z, O, 1); (5%Z, O, 3); (5%Z, O, 9)] =
    C03Adapter.faults_spec [] [(5%Z, O, 0); (5%Z, O, 1); (5%Z, O, 3); (5%Z, O, 9)].
Proof. exact C03AdapterProofs.late_add_wsflv_refuted. Qed.
Print Assumptions C03_faults_late_add_wsflv_refuted.

(* non-vacuity: every transport at the fault points of its handshake, an RTSP/TCP and a ws-FLV viewer attached
   throughout: counters (1, 1, 0) and two consumers after every attempt, zero at the end *)
Example C03_faults_nonvacuous :
  C03Adapter.faults_run C03Adapter.prog_of [0; 5]%Z C03AdapterProofs.faults_example =
    map (fun _ => (1, 1, 0, 2)%Z) C03AdapterProofs.faults_example ++ [(0, 0, 0, 0)%Z] /\
  C03Adapter.ok_faults [0; 5]%Z C03AdapterProofs.faults_example
    (C03Adapter.faults_run C03Adapter.prog_of [0; 5]%Z C03AdapterProofs.faults_example) = true /\
  C03Adapter.a_conns (C03Adapter.exec 2 (C03Adapter.prog_of 5 0) [] (C03Adapter.enter 1 2)) = 1%Z /\
  C03Adapter.a_low (C03Adapter.exec 2 (C03Adapter.prog_of 5 0) [] (C03Adapter.enter 1 2)) = 1%Z.
Proof. exact C03AdapterProofs.faults_nonvacuous. Qed.

(* ---- 14. the stream's SOURCE as a transport --------------------------------------------------------
   "When a stream ends for any reason (publisher disconnect, replacement by a new publisher, …) every
   consumer attached to it … has its connection closed … the counters are back … no delivery or
   conversion goroutine of that stream remains" — with the publisher being a real RTSP RECORD session
   whose own protocol history decides which stream it will end.  Model/C03Source.v: the session's state
   machine (status Init / Ready / Recording, record mode, the one reference [s_cur] = Session.stream
   through which a published stream is unregistered and closed), the registry entry of the path (a newly
   registered stream closes the previous one at once when it has no consumers, else retires it alive),
   players attaching to whatever is registered; events: publisher requests OPTIONS / ANNOUNCE / SETUP /
   RECORD at any time, attach / leave, another publisher taking the path, the source's end (TEARDOWN,
   dropped connection; for a pulled source: its camera ending).  [guard] = RECORD while recording is a
   keep-alive.  Tied to /repo by the stream "source-release" of checks/c03.py (a real RECORD session,
   real players of six transports, consumer counts per stream generation, connection counters, ended
   connections, conversion goroutines after every event). *)
From V Require C03Source C03SourceProofs RunC03Source C03SourceWireProofs.

(* once the source has ended — whatever requests it sent before (RECORD, ANNOUNCE, SETUP, OPTIONS repeated at any
   time), whoever else took the path, whatever happens afterwards — every stream it ever published is ended with
   nobody attached, and every player that ever attached to one of them has had Close called exactly once *)
Theorem C03_source_end_releases_all : forall np h,
  let s := C03Source.srun true np h in
  C03Source.s_over s = true ->
  (forall j, C03Source.s_mine s j = true ->
     C03Source.s_live s j = false /\ forall c, C03Source.s_where s c <> Some j) /\
  (forall c j, C03Source.s_ever s c = Some j -> C03Source.s_mine s j = true ->
     C03Source.s_where s c = None /\ C03Source.s_closes s c = 1).
Proof. exact C03SourceProofs.source_end_releases_all. Qed.
Print Assumptions C03_source_end_releases_all.

(* why: a session has at most one live stream of its own, and it is the one it will close *)
Theorem C03_source_one_live_stream : forall np h j,
  let s := C03Source.srun true np h in
  C03Source.s_mine s j = true -> C03Source.s_live s j = true -> C03Source.s_cur s = Some j.
Proof. exact C03SourceProofs.source_one_live_stream. Qed.
Print Assumptions C03_source_one_live_stream.

Theorem C03_source_close_at_most_once : forall np h c,
  C03Source.s_closes (C03Source.srun true np h) c <= 1.
Proof. exact C03SourceProofs.source_close_at_most_once. Qed.
Print Assumptions C03_source_close_at_most_once.

(* the oracle applied to the real session and players accepts the model, also on the wire *)
Theorem C03_source_model_passes : forall np kinds h,
  C03Source.ok_source np kinds h (C03Source.strace true np kinds C03Source.sinit h) = true.
Proof. exact C03SourceProofs.source_model_passes. Qed.
Print Assumptions C03_source_model_passes.

Theorem C03_source_model_passes_on_the_wire : forall c,
  RunC03Source.x_C03_source_ok (Val.VL [c; RunC03Source.x_C03_source_run c]) = Val.VI 1%Z.
Proof. exact C03SourceWireProofs.source_model_passes_on_the_wire. Qed.
Print Assumptions C03_source_model_passes_on_the_wire.

(* without the keep-alive guard (the seeded change): ANNOUNCE, SETUP, RECORD, a player attaches, RECORD again, the
   publisher disconnects — the first stream is alive for ever with its player attached and never closed *)
Theorem C03_source_republish_refuted :
  let s := C03Source.srun false 1 C03SourceProofs.source_witness in
  C03Source.swf false 1 C03Source.sinit C03SourceProofs.source_witness = true /\ C03Source.s_over s = true /\
  C03Source.s_mine s 0 = true /\ C03Source.s_live s 0 = true /\ C03Source.s_where s 0 = Some 0 /\
  C03Source.s_closes s 0 = 0 /\
  C03Source.s_live (C03Source.srun true 1 C03SourceProofs.source_witness) 0 = false /\
  C03Source.s_closes (C03Source.srun true 1 C03SourceProofs.source_witness) 0 = 1 /\
  C03Source.ok_source 1 [0%Z] C03SourceProofs.source_witness
    (C03Source.strace false 1 [0%Z] C03Source.sinit C03SourceProofs.source_witness) = false.
Proof. exact C03SourceProofs.source_republish_refuted. Qed.
Print Assumptions C03_source_republish_refuted.

(* non-vacuity: repeated requests of every kind, three players of three transports, one leaves, a second publisher
   takes the path, a late player joins the new stream, the first source is torn down: its stream ends, its players
   are closed once each, the newcomer on the other publisher's stream is untouched *)
Example C03_source_nonvacuous :
  let s := C03Source.srun true 4 C03SourceProofs.source_example in
  C03Source.swf true 4 C03Source.sinit C03SourceProofs.source_example = true /\ C03Source.s_n s = 2 /\
  C03Source.s_mine s 0 = true /\ C03Source.s_mine s 1 = false /\
  C03Source.s_live s 0 = false /\ C03Source.s_live s 1 = true /\
  map (C03Source.s_closes s) [0; 1; 2; 3] = [1; 1; 1; 0] /\ C03Source.s_where s 3 = Some 1 /\
  last (C03Source.strace true 4 [0; 5; 3; 2]%Z C03Source.sinit C03SourceProofs.source_example)
       (C03Source.sobserve 4 [] C03Source.sinit) =
    {| C03Source.so_gens := [0; 1]%Z; C03Source.so_rtsp := 2%Z; C03Source.so_flv := 0%Z; C03Source.so_wsp := 0%Z;
       C03Source.so_ended := [true; true; true; false]; C03Source.so_conv := 1%Z |}.
Proof. exact C03SourceProofs.source_nonvacuous. Qed.
