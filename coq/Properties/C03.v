From V Require Import StreamLts.
Example C03_placeholder : True. Proof. exact I. Qed.
