(* C20 — on-demand pull creates, serves and cleans up streams under any camera behaviour.
   Statements only; proofs are in Proofs/C20PullProofs.v, C20ConcProofs.v, C20Refuted.v.

   Model (Model/C20Pull.v): a camera answers from a script of reply kinds
   {ok, 401 Basic, 401 Digest, 401 unknown scheme, 4xx, 5xx, malformed, silence until the time-out,
   reset, EOF}: item 0 answers the connect, item n+1 the n-th request, the items after an accepted
   PLAY are play events, an exhausted script = the camera closes — so every prefix of a script is a
   script and the theorems, which quantify over all scripts, cover a disconnect at every point.
   [request c w s] = media.GetOrCreate of the routed path in world [w] (registered?, stats counter,
   open connections, pull goroutines); [round] adds the play phase and the end of the pull client;
   [rounds] chains requests, each starting from what the previous one left. *)
From Coq Require Import ZArith List Bool.
From V Require Import Bytes Registry RegistryProofs.
From V Require Import Val C20Pull C20PullProofs C20ConcProofs RunC20 C20Refuted.
Import ListNotations.
Open Scope Z_scope.

(* 1. pull_outcomes.  For every configuration, every camera script and every world in which the
   path is not registered, the request ends in one of two ways:
   - Playing: the path was routed, the stream is registered ([started w]: registered, counter +1,
     one connection, one reader goroutine), the requests are in protocol order starting with OPTIONS,
     every planned request (DESCRIBE, SETUP per track, PLAY) was performed, the last request is a
     PLAY that the camera answered 200 and it carries the camera's session iff there was a SETUP;
   - Failed: the world is unchanged (nothing registered, connection closed, counter restored, no
     goroutine) and the camera did not accept a PLAY;
   in both cases the credentials were used as challenged ([creds_ok]: no Authorization before the
   first challenge, the scheme of the challenge on the repeated request, the MD5 variant of the
   password only after two challenges) and never when the route URL has none. *)
Theorem C20_pull_outcomes : forall c w s, w_reg w = false ->
  let '(out, q, w1, s1, runs) := request c w s in
  creds_ok (tl s) q = true /\
  (c_user c = false -> Forall (fun x => auth_none (q_auth x) = true) q) /\
  (q = [] \/ order_ok (map q_meth q) = true) /\
  match out with
  | Playing =>
      c_routed c = true /\ c_sdp_bad c = false /\ w1 = started w /\ runs = true /\
      order_ok (map q_meth q) = true /\
      last_req_accepted (tl s) q = true /\
      (forall m, (count_meth m (plan c) <= count_meth m (map q_meth q))%nat) /\
      (exists x, last_pair (replies (tl s) q) = Some (x, ROk) /\ q_meth x = MPlay /\
                 q_sess x = (c_video c || c_audio c)) /\
      s1 = skipn (length q) (tl s)
  | Failed =>
      w1 = w /\ runs = false /\ last_req_accepted (tl s) q = false
  end.
Proof. exact request_spec. Qed.
Print Assumptions C20_pull_outcomes.

(* 2. pull_no_leak.  Whatever the script (hence after every prefix of it: refusal, garbage, stall or
   disconnect at any handshake step or at any point of the play phase), after the round the world is
   what it was: nothing registered, counter restored, no connection, no goroutine, and the consumer
   attached while playing has been closed; a failed request leaves nothing even in between; while
   playing, a second request gets the registered stream without a second pull and the packets sent
   before the end are delivered. *)
Theorem C20_pull_no_leak : forall c w s, w_reg w = false ->
  let o := fst (round c w s) in
  snd (round c w s) = w /\ o_final o = w /\ o_closed o = true /\
  (o_out o = Failed -> o_mid o = w /\ o_delivered o = 0) /\
  (o_out o = Playing -> o_mid o = started w /\ w_reg (o_mid o) = true /\ o_again o = true /\
                        o_delivered o = play (skipn (length (o_reqs o)) (tl s))).
Proof. exact round_no_leak. Qed.
Print Assumptions C20_pull_no_leak.

Theorem C20_pull_no_leak_every_prefix : forall c s n, snd (round c w0 (firstn n s)) = w0.
Proof. exact prefix_no_leak. Qed.
Print Assumptions C20_pull_no_leak_every_prefix.

(* ... and therefore a later request pulls afresh: in any sequence of requests each one behaves as a
   first request (connects, starts with an unauthenticated OPTIONS, ...) *)
Theorem C20_later_request_pulls_afresh : forall c ss,
  rounds c w0 ss = map (fun s => fst (round c w0 s)) ss.
Proof. exact (fun c ss => proj2 (rounds_spec c ss)). Qed.
Print Assumptions C20_later_request_pulls_afresh.

(* 3. pull_concurrent_one_registered.  Two simultaneous first requests whose handshakes both succeed
   register their streams (1 and 2) concurrently; for every interleaving of the two registrations
   (atomic swap, then retire of the replaced stream; C05) after which both are done, exactly one of
   the two is registered and live, the other is closed, and the end of the losing pull client
   (Unregist of its closed stream) leaves the winner registered. *)
Theorem C20_pull_concurrent_one_registered :
  forall (c : C20Pull.cfg) (sA sB : script) (p : bytes) (h1 h2 : bool) (sched : list bool),
  pull_ok c sA = true -> pull_ok c sB = true ->
  let r := race_run (race_init p false h1 h2 false) sched in
  c_a r = PDone -> c_b r = PDone ->
  exists w l, ((w = 1 /\ l = 2) \/ (w = 2 /\ l = 1))%nat /\
    g_map (c_g r) = [(p, w)] /\
    st_live (sget (c_g r) w) = true /\ st_live (sget (c_g r) l) = false /\
    fst (gstep rfixed (c_g r) (GUnregist l)) = c_g r.
Proof. exact concurrent_one_registered. Qed.
Print Assumptions C20_pull_concurrent_one_registered.

(* ... and what the check demands of n >= 1 simultaneous requesters on the real code ([ok_conc]: every
   requester answered, exactly one returned stream live and registered, one connection / counter /
   goroutine while it plays, nothing at the end) is met by the model for every n *)
Theorem C20_conc_model_passes : forall n, (1 <= n)%nat -> ok_conc (conc_model n) = true.
Proof. exact conc_model_ok. Qed.
Print Assumptions C20_conc_model_passes.

(* 3b. replaced_pull_releases_consumers.  Two overlapping first requests where consumers attach to the
   stream they were handed BEFORE the other registration happens (so the replaced stream is not
   closed at the replacement — it has a consumer — and only gets the retire task), and the cameras
   end later.  Over the registry specification (Model/Registry.v, C05/C03): streams 0 and 1 are the
   two pull streams; [ops] is ANY history — the two registrations, any number of attaches/detaches on
   either stream, lookups, idle tasks, in any order — in which both cameras end (a camera's end =
   playStream's deferred media.Unregist = GUnregist).  Then both streams have ended, no consumer is
   attached to either, every consumer ever attached has been released (Close called; [released] =
   [st_att_total], cf. C03_registry_end_releases) and no key resolves to either stream. *)
Theorem C20_replaced_pull_releases_consumers : forall (p : bytes) (h0 h1 : bool) (ops : list gop),
  In (GUnregist 0) ops -> In (GUnregist 1) ops ->
  let h := GNew p h0 :: GNew p h1 :: ops in
  let sp := sexec sinit h in
  (forall i, (i < 2)%nat ->
     st_live (sp_get sp i) = false /\ consumers (sp_get sp i) = 0 /\
     released (sp_get sp i) = st_att_total (sp_get sp i) /\
     C20Replaced.closed_total i h = C20Replaced.attached_total i h) /\
  (forall k, sp_resolve sp k <> Some 0%nat /\ sp_resolve sp k <> Some 1%nat).
Proof. exact replaced_pull_releases_consumers. Qed.
Print Assumptions C20_replaced_pull_releases_consumers.

(* attaches AFTER a stream has ended (e.g. the first requester joins the stream it was handed when the
   second registration has already closed it as replaced): the registry specification ignores them;
   the code releases such a consumer at once (Stream.startConsume re-checks the status).
   [attached_total] / [closed_total] (Model/C20Replaced.v) add them to the consumers that joined and to
   those whose Close was called — the theorem above states their equality at the end — and each such
   attach moves both by one and leaves nobody attached: *)
Theorem C20_late_attach_released_at_once : forall h i flv,
  let sp := sexec sinit h in
  (i < length (sp_streams sp))%nat -> st_live (sp_get sp i) = false ->
  C20Replaced.closed_total i (h ++ [GAttach i flv]) = C20Replaced.closed_total i h + 1 /\
  C20Replaced.attached_total i (h ++ [GAttach i flv]) = C20Replaced.attached_total i h + 1 /\
  consumers (sp_get (sexec sinit (h ++ [GAttach i flv])) i) = consumers (sp_get sp i).
Proof. exact late_attach_released_at_once. Qed.
Print Assumptions C20_late_attach_released_at_once.

(* the replayed scenarios (Model/C20Replaced.v: consumer on stream 0 before / after the replacement or
   none, consumer on stream 1 or not, either camera ending first) are such histories, well-formed in
   the sense of C05 (so the implementation model of the registry answers like the specification on
   them), and the observations the model predicts at the three points meet the demand [ok_repl]
   that the check applies to the real code *)
Theorem C20_replaced_model_passes : forall a1 a2 e,
  C20Replaced.ok_repl (C20Replaced.attached a1) a2 e (C20Replaced.repl_model a1 a2 e) = true /\
  hist_wf sinit (C20Replaced.repl_phase3 a1 a2 e) = true /\
  In (GUnregist 0) (C20Replaced.repl_phase3 a1 a2 e) /\ In (GUnregist 1) (C20Replaced.repl_phase3 a1 a2 e).
Proof. exact repl_model_ok. Qed.
Print Assumptions C20_replaced_model_passes.

(* 4. the boolean specification [ok_rounds] — written from the property text, independent of the
   request function — is the oracle the check applies to the implementation's observations
   (Run/RunC20.v x_C20_ok); the model satisfies it for every configuration and all scripts *)
Theorem C20_model_passes : forall c ss, ok_rounds c ss (rounds c w0 ss) = true.
Proof. exact (fun c ss => proj1 (rounds_spec c ss)). Qed.
Print Assumptions C20_model_passes.

(* 5. the code before the repairs, as observed by the harness, is rejected by that oracle, and the
   model predicts the repaired behaviour:
   D33 no read deadline during the handshake; D34 panic in requestSDP leaks the connection;
   index out of range for a camera URL without path; session id not trimmed after an auth retry *)
Theorem C20_pull_silent_camera_hangs_refuted :
  x_C20_ok (VL [wcase [0;3;0;0;1;1] [0;6];
                wobs 3 [[0;0;0]] [1;0;0;1] 1 0 [0;0;0;0;1]]) = VI 0 /\
  x_C20_run (wcase [0;3;0;0;1;1] [0;6]) = wobs 0 [[0;0;0]] [0;0;0;0] 1 0 [0;0;0;0;1].
Proof. exact silent_camera_hangs_refuted. Qed.
Print Assumptions C20_pull_silent_camera_hangs_refuted.

Theorem C20_pull_sdp_without_format_leaks_refuted :
  x_C20_ok (VL [wcase [0;3;2;0;1;1] [0;0;0;0;0;0];
                wobs 2 [[0;0;0];[1;0;0]] [1;0;0;0] 1 0 [0;0;0;0;1]]) = VI 0 /\
  x_C20_run (wcase [0;3;2;0;1;1] [0;0;0;0;0;0]) = wobs 0 [[0;0;0];[1;0;0]] [0;0;0;0] 1 0 [0;0;0;0;1].
Proof. exact sdp_without_format_leaks_refuted. Qed.
Print Assumptions C20_pull_sdp_without_format_leaks_refuted.

Theorem C20_pull_empty_url_path_panics_refuted :
  x_C20_ok (VL [wcase [0;3;0;1;1;1] [0;0;0;0;0;0];
                wobs 2 [[0;0;0];[1;0;0]] [1;0;0;0] 1 0 [0;0;0;0;1]]) = VI 0 /\
  x_C20_run (wcase [0;3;0;1;1;1] [0;0;0;0;0;0]) =
    wobs 1 [[0;0;0];[1;0;0];[2;0;0];[2;0;1];[3;0;1]] [1;1;1;1] 1 0 [0;0;0;0;1].
Proof. exact empty_url_path_panics_refuted. Qed.
Print Assumptions C20_pull_empty_url_path_panics_refuted.

Theorem C20_pull_session_after_retry_refuted :
  x_C20_ok (VL [wcase [1;1;0;0;1;1] [0;0;0;2;0;0];
                wobs 1 [[0;0;0];[1;0;0];[2;0;0];[2;3;0];[3;3;0]] [1;1;1;1] 1 0 [0;0;0;0;1]]) = VI 0 /\
  x_C20_run (wcase [1;1;0;0;1;1] [0;0;0;2;0;0]) =
    wobs 1 [[0;0;0];[1;0;0];[2;0;0];[2;3;0];[3;3;1]] [1;1;1;1] 1 0 [0;0;0;0;1].
Proof. exact session_after_retry_refuted. Qed.
Print Assumptions C20_pull_session_after_retry_refuted.

(* 6. non-vacuity: a Digest challenge at OPTIONS, a second challenge answered with the MD5 variant,
   two tracks, three packets, then the camera resets: playing, 8 requests, 3 packets delivered,
   everything released; and the concurrency scenario has members *)
Example C20_nonvacuous :
  let c := {| c_user := true; c_video := true; c_audio := true; c_sdp_bad := false; c_routed := true |} in
  let s := [ROk; RDigest; RDigest; ROk; ROk; ROk; ROk; ROk; ROk; ROk; ROk; RReset; ROk] in
  let o := fst (round c w0 s) in
  o_out o = Playing /\
  map q_meth (o_reqs o) = [MOptions; MOptions; MOptions; MDescribe; MSetup; MSetup; MPlay] /\
  map q_auth (o_reqs o) = [ANone; ADigest false; ADigest true; ADigest true; ADigest true; ADigest true; ADigest true] /\
  o_mid o = started w0 /\ o_delivered o = 3 /\ o_final o = w0 /\
  ok_round c w0 s o = true.
Proof. vm_compute. repeat split; reflexivity. Qed.

Example C20_concurrent_nonvacuous :
  let c := {| c_user := true; c_video := true; c_audio := true; c_sdp_bad := false; c_routed := true |} in
  let s := repeat ROk 6 in
  pull_ok c s = true /\
  forall p h1 h2, let r := race_run (race_init p false h1 h2 false) [true; true; false; false] in
                  c_a r = PDone /\ c_b r = PDone.
Proof. exact concurrent_nonvacuous. Qed.
