(* C20 — on-demand pull (work in progress: statements are added as they are proved) *)
From Coq Require Import ZArith List Bool.
From V Require Import C20Pull C20PullProofs.
Import ListNotations.
Open Scope Z_scope.

Theorem C20_play_nonneg : forall s, 0 <= play s.
Proof. exact play_nonneg. Qed.
Print Assumptions C20_play_nonneg.
