(* C09 — MPEG-TS output is structurally valid and carries the source frames faithfully.
   Statements only; proofs are in Proofs/C09*.v.

   Writer  = Model/C09TsWriter.v  (mpegtsHeader, WriteMpegtsFrame, writePts, writePcr, fillStuff)
   Frames  = Model/C09TsFrame.v   (prepareAvcHeader, the two packetizers), Model/C09Adts.v
   Oracle  = Model/C09TsDemux.v   (independent TS / PES / PSI demultiplexer, CRC-32/MPEG),
             adts_parse (C09Adts.v), spec_video_es (C09TsFrame.v).
   Guards: frames carry PID 256 or 257 (wf_frames); source level: plain two-byte
   AudioSpecificConfig, 0 <= ns, ns*90000 < 2^63, AAC frame + 7 < 8192, non-empty NAL (wf_mux). *)
From Coq Require Import ZArith List Bool.
From V Require Import Bytes C13Pool C13PoolProofs C09Adts C09Asc C09TsFrame C09TsWriter C09TsDemux C09TsHls C09TsPool
  C09StreamProofs C09FrameProofs C09MuxProofs C09AscProofs C09HlsProofs C09PoolProofs C09Proofs.
Import ListNotations.
Open Scope Z_scope.

(* whole 188-byte packets, each starting with 0x47, adaptation-field lengths
   consistent with the packet (pkt_wf: no field and 184 payload bytes, or a field of
   0..182 bytes followed by 183-length >= 1 payload bytes) *)
Theorem C09_ts_packets_wellformed : forall fs, wf_frames fs = true ->
  zlen (ts_write_all fs) mod 188 = 0 /\
  exists ks, ts_parse (ts_write_all fs) = Some ks /\ Forall2 pkt_wf (ts_stream_packets fs) ks.
Proof. exact ts_packets_wellformed. Qed.
Print Assumptions C09_ts_packets_wellformed.

(* the stream begins with PAT and PMT (CRC-32/MPEG correct) announcing 0x1b on PID 256 and 0x0f on PID 257 *)
Theorem C09_ts_psi :
  match ts_units mpegts_header with
  | Some [pat; pmt] => psi_ok pat pmt = true
  | _ => False
  end.
Proof. exact ts_psi_holds. Qed.
Print Assumptions C09_ts_psi.

(* per PID, consecutive packets count (previous + 1) mod 16 — over the whole stream *)
Theorem C09_ts_cc : forall fs, wf_frames fs = true ->
  exists ks, ts_parse (ts_write_all fs) = Some ks /\
    forall pre k1 mid k2 post,
      ks = pre ++ k1 :: mid ++ k2 :: post ->
      k_pid k2 = k_pid k1 -> (forall k, In k mid -> k_pid k <> k_pid k1) ->
      k_cc k2 = (k_cc k1 + 1) mod 16.
Proof. exact ts_cc. Qed.
Print Assumptions C09_ts_cc.

(* the same as a general fact about the independent demultiplexer: whatever it accepts is continuous *)
Theorem C09_demux_checks_cc : forall ks acc r, demux_go ks acc = Some r -> cc_continuous ks.
Proof. exact demux_cc_continuous. Qed.
Print Assumptions C09_demux_checks_cc.

(* one frame of ANY header/payload length (payload >= 1 byte), key or not, PTS
   only or PTS+DTS, PES above or below 65535, any counter value: the packets
   parse; the first carries payload_unit_start, on key frames random access and
   PCR = DTS mod 2^33; the reassembled PES has the stream id, PTS and DTS mod
   2^33 (DTS only when it differs) and payload = Header ++ Payload *)
Theorem C09_ts_pes_roundtrip : forall cc f, 0 <= f_pid f < 8192 -> f_pay f <> [] ->
  exists k0 ks,
    parse_packets (fst (ts_frame_packets cc f)) = Some (k0 :: ks) /\
    k_pusi k0 = true /\ k_pid k0 = f_pid f /\
    Forall (fun k => k_pusi k = false /\ k_pid k = f_pid f) ks /\
    k_rai k0 = f_key f /\
    k_pcr k0 = (if f_key f then Some (f_dts f mod M33) else None) /\
    parse_pes (concat (map k_payload (k0 :: ks))) =
      Some {| p_sid := f_sid f mod 256; p_pts := f_pts f mod M33;
              p_dts := if f_dts f =? f_pts f then None else Some (f_dts f mod M33);
              p_payload := f_hdr f ++ f_pay f |}.
Proof. exact ts_pes_roundtrip. Qed.
Print Assumptions C09_ts_pes_roundtrip.

(* every frame list: the demultiplexed stream is PAT, PMT and one payload unit per written frame, in order *)
Theorem C09_ts_stream_roundtrip : forall fs, wf_frames fs = true ->
  exists pat pmt us,
    ts_units (ts_write_all fs) = Some (pat :: pmt :: us) /\ psi_ok pat pmt = true /\
    units_ok unit_ok (filter has_payload fs) us = true.
Proof. exact ts_stream_roundtrip. Qed.
Print Assumptions C09_ts_stream_roundtrip.

Theorem C09_unit_ok_meaning : forall f u, unit_ok f u = true ->
  u_pid u = f_pid f /\ u_rai u = f_key f /\
  (f_key f = true -> u_pcr u = Some (f_dts f mod M33)) /\
  exists p, parse_pes (u_data u) = Some p /\
    p_sid p = f_sid f mod 256 /\ p_pts p = f_pts f mod M33 /\
    p_dts p = (if f_dts f =? f_pts f then None else Some (f_dts f mod M33)) /\
    p_payload p = f_hdr f ++ f_pay f.
Proof. exact unit_ok_meaning. Qed.
Print Assumptions C09_unit_ok_meaning.

(* video PES payload = AUD (types 1,5,6), SPS and PPS on key frames, start code, the source NAL unit *)
Theorem C09_annexb_layout : forall sps pps nal t, is_paramset_type t = false ->
  prepare_avc_header sps pps t ++ nal = spec_video_es sps pps nal t.
Proof. exact annexb_layout. Qed.
Print Assumptions C09_annexb_layout.

(* D18, before the repair: an in-band SPS went out with no start code in front of it *)
Theorem C09_annexb_paramset_refuted :
  exists sps pps c f,
    packetize_h264_prefix sps pps c = PkFrame f /\
    f_hdr f ++ f_pay f = c_pay c /\ is_prefix SC3 (f_hdr f ++ f_pay f) = false /\
    is_prefix SC4 (f_hdr f ++ f_pay f) = false.
Proof. exact annexb_paramset_refuted. Qed.
Print Assumptions C09_annexb_paramset_refuted.

(* audio: any number of consecutive ADTS frames parses back to profile / rate index / channel
   configuration of the AudioSpecificConfig and the source AAC frames; lengths chain to the end *)
Theorem C09_adts_chain : forall a pays, asc_plain a = true ->
  Forall (fun p => zlen p + 7 < 8192) pays ->
  adts_parse (concat (map (adts_enc a) pays)) = Some (map (adts_dec a) pays).
Proof. exact adts_chain. Qed.
Print Assumptions C09_adts_chain.

(* the ADTS header is a function of the AudioSpecificConfig.  [asc_env] describes a configuration
   by its syntax elements (core object type 1..4, sampling index 0..12, channel configuration 0..7
   incl. 7.1, signalling: plain / hierarchical SBR / hierarchical PS / backward-compatible sync
   extension with sbrPresentFlag 0 / 1 / 1 + PS); [asc_encode] writes it (ISO/IEC 14496-3).  The
   model of AudioSpecificConfig.Decode + ToAdtsHeader, run on those bytes, yields exactly the fields
   [asc_of_env] announces: profile = core object type - 1, channel configuration, sampling index =
   the core index unless an extension sampling frequency is explicitly signalled — in particular
   sbrPresentFlag = 0 gives the core index.  (Finite domain: exhaustive computation, lifted.) *)
Theorem C09_asc_adts_fields : forall e, wf_env e = true ->
  asc_of_config (asc_encode e) = Some (asc_of_env e) /\ asc_plain (asc_of_env e) = true.
Proof. exact asc_adts_fields. Qed.
Print Assumptions C09_asc_adts_fields.

(* ... hence every ADTS header in the audio elementary stream describes the configuration *)
Theorem C09_adts_describes_config : forall e pays, wf_env e = true ->
  Forall (fun p => zlen p + 7 < 8192) pays ->
  exists a, asc_of_config (asc_encode e) = Some a /\
    adts_parse (concat (map (adts_enc a) pays)) =
    Some (map (fun p => {| ad_profile := e_aot e - 1; ad_sidx := env_adts_sfi e;
                           ad_chan := e_chan e; ad_payload := p |}) pays).
Proof. exact adts_describes_config. Qed.
Print Assumptions C09_adts_describes_config.

(* ... and the muxer given the configuration BYTES passes the oracle that expects [asc_of_env] *)
Theorem C09_model_passes_config : forall e sps0 pps0 evs a, wf_env e = true ->
  asc_of_config (asc_encode e) = Some a ->
  forallb (fun af => wf_cframe (a_c af)) (annotate sps0 pps0 evs) = true ->
  exists out, mux_events sps0 pps0 a evs = MuxBytes out /\
              ok_muxa (asc_of_env e) (annotate sps0 pps0 evs) out = true.
Proof. exact mux_config_passes. Qed.
Print Assumptions C09_model_passes_config.

(* the oracles applied to the implementation's bytes accept the model on every well-formed input *)
Theorem C09_model_passes : forall fs, wf_frames fs = true -> ok_writer fs (ts_write_all fs) = true.
Proof. exact writer_passes. Qed.
Print Assumptions C09_model_passes.

(* the video meta is shared state: parameter sets learned in-band are stored into it while the
   muxer runs.  Over any sequence of (set-parameter-sets | frame) events, starting from the meta
   the muxer was created with, every frame is carried with the SPS/PPS CURRENT when it was pushed
   ([annotate]): in particular a key frame pushed after a late EvSet carries the new sets *)
Theorem C09_model_passes_events : forall sps0 pps0 a evs, wf_mux_ev sps0 pps0 a evs = true ->
  exists out, mux_events sps0 pps0 a evs = MuxBytes out /\
              ok_muxa a (annotate sps0 pps0 evs) out = true.
Proof. exact mux_events_passes. Qed.
Print Assumptions C09_model_passes_events.

Theorem C09_model_passes_mux : forall sps pps a cs, wf_mux a cs = true ->
  exists out, mux_all sps pps a cs = MuxBytes out /\ ok_mux sps pps a cs out = true.
Proof. exact mux_passes. Qed.
Print Assumptions C09_model_passes_mux.

(* the HLS path (packetizers -> hls.SegmentGenerator -> one Writer per segment): the segment
   generator flushes consecutive AAC frames as ONE frame (Header = first ADTS header, Payload =
   first AU ++ following ADTS frames).  Such a frame is a chain of ADTS frames that parses back
   to the source AAC frames in order ... *)
Theorem C09_audio_group_chain : forall a pts g, asc_plain a = true -> forallb wf_haudio g = true ->
  adts_parse (f_hdr (group_frame a pts g) ++ f_pay (group_frame a pts g)) =
  Some (map (fun c => adts_expect a (c_pay c)) g).
Proof. exact audio_group_chain. Qed.
Print Assumptions C09_audio_group_chain.

(* ... and for EVERY segmentation and audio grouping (hplan: any cut into segments, any
   non-empty groups, group PTS within 100 ms of its first frame) the oracle applied to the
   implementation's segments accepts the model's: per segment PAT/PMT and continuity, video
   units = the carried NAL units in order (AUD/SPS/PPS layout, stamps), audio units = ADTS
   chains covering the source AAC frames in order, nothing else *)
Theorem C09_model_passes_hls : forall a plan, wf_hplan a plan = true ->
  ok_hls a (plan_videos plan) (plan_audios plan) (hls_model a plan) = true.
Proof. exact hls_passes. Qed.
Print Assumptions C09_model_passes_hls.

(* the structure-only oracle used for the end-to-end stream (no time stamps) is implied *)
Theorem C09_model_passes_hls_es : forall a plan, wf_hplan a plan = true -> plan_audios plan = [] ->
  ok_hls_es (plan_videos plan) (hls_model a plan) = true.
Proof. exact hls_es_passes. Qed.
Print Assumptions C09_model_passes_hls_es.

(* several mpegts.Writers share the process-wide pool of scratch buffers (one Writer per HLS segment
   file, several streams at once).  Instance of C13's pool model (Model/C13Pool.v): writer t runs
   [writer_prog t fs] — per frame Get+Reset, Write Header, Write Payload, one buffer READ per TS
   packet, Put after the last.  For EVERY interleaving of any number of writers and every choice the
   pool makes when asked (sched), once all are done the output of every writer, assembled from what it
   actually read while cutting each packet, is byte for byte the single-writer output of its own frames *)
Theorem C09_writers_independent : forall fss sched,
  let s := prun sched (pinit (writers_progs fss)) in
  pfinished (length fss) s = true ->
  forall t, (t < length fss)%nat -> writer_output s t (nth t fss []) = ts_write_all (nth t fss []).
Proof. exact writers_independent. Qed.
Print Assumptions C09_writers_independent.

(* at every point of every such execution no buffer is in the pool twice, in the pool while held, or held twice *)
Theorem C09_writers_pool_ownership : forall fss sched,
  let s := prun sched (pinit (writers_progs fss)) in
  NoDup (ps_pool s) /\
  (forall t v b, holds s t v b -> ~ In b (ps_pool s)) /\
  (forall t1 v1 t2 v2 b, holds s t1 v1 b -> holds s t2 v2 b -> t1 = t2 /\ v1 = v2).
Proof. exact writers_pool_ownership. Qed.
Print Assumptions C09_writers_pool_ownership.

(* the buffer returned to the pool before the packets are cut (Get / defer Put inside a helper that
   returns buf.Bytes()): not disciplined, and a schedule exists in which a writer's second packet
   carries the other writer's bytes — framing still parses, the oracle rejects *)
Theorem C09_early_put_refuted :
  let progs := [frame_prog_early_put 0%nat ex_fa; frame_prog_early_put 1%nat ex_fb] in
  let sched := [(0,0);(0,0);(0,0);(0,0);(0,0); (1,0);(1,0);(1,0);(1,0);(1,0);(1,0); (0,0)]%nat in
  let s := prun sched (pinit progs) in
  disciplined progs = false /\ pfinished 2%nat s = true /\
  writer_output s 1%nat [ex_fb] = ts_write_all [ex_fb] /\
  bytes_eqb (writer_output s 0%nat [ex_fa]) (ts_write_all [ex_fa]) = false /\
  ok_writer [ex_fa] (writer_output s 0%nat [ex_fa]) = false.
Proof. exact early_put_refuted. Qed.
Print Assumptions C09_early_put_refuted.

(* non-vacuity: a key frame needing stuffing in its only packet, an audio frame, a
   two-packet frame with PTS+DTS beyond 2^33, an in-band SPS (dropped) — guards hold, oracles accept *)
Example C09_nonvacuous :
  let fs := [ {| f_pid := 256; f_sid := 0xe0; f_dts := 8589934592 + 7; f_pts := 8589934592 + 3607;
                 f_hdr := [0;0;0;1;9;0xf0;0;0;1]; f_pay := repeat_byte 0x65 200; f_key := true |};
              {| f_pid := 257; f_sid := 0xc0; f_dts := 5; f_pts := 5;
                 f_hdr := []; f_pay := [1;2;3]; f_key := false |} ] in
  let a := {| asc_obj := 2; asc_sidx := 4; asc_chan := 2 |} in
  let cs := [ {| c_video := true; c_dts := 0; c_pts := 40000000; c_pay := [0x67; 1] |};
              {| c_video := true; c_dts := 0; c_pts := 40000000; c_pay := [0x65; 1; 2] |};
              {| c_video := false; c_dts := 0; c_pts := 0; c_pay := [0x21; 0x10] |} ] in
  wf_frames fs = true /\ ok_writer fs (ts_write_all fs) = true /\
  length (ts_write_all fs) = Z.to_nat (188 * 5) /\
  wf_mux a cs = true /\
  match mux_all [0x67; 9] [0x68; 8] a cs with
  | MuxBytes out => ok_mux [0x67; 9] [0x68; 8] a cs out = true /\ length out = Z.to_nat (188 * 4)
  | MuxPanic => False
  end.
Proof. vm_compute. repeat split; reflexivity. Qed.

Example C09_nonvacuous_hls :
  let a := {| asc_obj := 2; asc_sidx := 4; asc_chan := 2 |} in
  let au n t := {| c_video := false; c_dts := t; c_pts := t; c_pay := repeat_byte 0x21 n |} in
  let vf sps c := HVideo {| a_sps := sps; a_pps := [0x68; 8]; a_c := c |} in
  let plan := [ [ vf [] {| c_video := true; c_dts := 0; c_pts := 40000000; c_pay := [0x65; 1; 2] |};
                  HAudio 5 [au 3 0; au 200 23000000; au 7 46000000] ];
                [ HAudio 9000 [au 1 70000000];
                  vf [0x67; 9] {| c_video := true; c_dts := 40000000; c_pts := 40000000; c_pay := [0x65; 9] |} ] ] in
  wf_hplan a plan = true /\ length (plan_audios plan) = 4%nat /\
  ok_hls a (plan_videos plan) (plan_audios plan) (hls_model a plan) = true.
Proof. vm_compute. repeat split; reflexivity. Qed.

(* late parameter sets: the muxer is created with an empty meta, SPS/PPS arrive before the IDR *)
Example C09_nonvacuous_events :
  let a := {| asc_obj := 2; asc_sidx := 4; asc_chan := 2 |} in
  let idr := {| c_video := true; c_dts := 0; c_pts := 0; c_pay := [0x65; 1; 2] |} in
  let evs := [EvSet [0x67; 9] [0x68; 8]; EvFrame idr; EvSet [0x67; 7; 7] [0x68; 6]; EvFrame idr] in
  wf_mux_ev [] [] a evs = true /\
  map (fun af => spec_video_es (a_sps af) (a_pps af) (c_pay (a_c af)) 5) (annotate [] [] evs) =
    [ [0;0;0;1;9;0xf0; 0;0;0;1;0x67;9; 0;0;0;1;0x68;8; 0;0;1;0x65;1;2];
      [0;0;0;1;9;0xf0; 0;0;0;1;0x67;7;7; 0;0;0;1;0x68;6; 0;0;1;0x65;1;2] ] /\
  match mux_events [] [] a evs with
  | MuxBytes out => ok_muxa a (annotate [] [] evs) out = true
  | MuxPanic => False
  end.
Proof. vm_compute. repeat split; reflexivity. Qed.

(* the repository's own vector 121056E500 (sync extension, sbrPresentFlag = 0): the core index 4 *)
Example C09_nonvacuous_asc :
  let e := {| e_aot := 2; e_sfi := 4; e_chan := 2; e_sig := 3; e_ext_sfi := 0 |} in
  wf_env e = true /\ asc_encode e = [0x12; 0x10; 0x56; 0xE5; 0x00] /\
  asc_of_env e = {| asc_obj := 2; asc_sidx := 4; asc_chan := 2 |} /\
  asc_of_config [0x13; 0x90; 0x56; 0xE5; 0xA0] = Some {| asc_obj := 2; asc_sidx := 4; asc_chan := 2 |}.
Proof. vm_compute. repeat split; reflexivity. Qed.

Example C09_nonvacuous_writers :
  let fss := [[ex_fa]; [ex_fb]] in
  let sched := [(0,0);(0,0);(0,0);(0,0); (1,0);(1,0);(1,0);(1,0);(1,0);(1,0); (0,0);(0,0)]%nat in
  let s := prun sched (pinit (writers_progs fss)) in
  pfinished 2%nat s = true /\ ok_writer [ex_fa] (writer_output s 0%nat [ex_fa]) = true /\ ps_next s = 2%nat.
Proof. exact good_writers_run. Qed.
