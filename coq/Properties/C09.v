(* C09 — MPEG-TS output is structurally valid and carries the source frames faithfully.
   Statements only; proofs are in Proofs/C09Proofs.v. *)
From Coq Require Import ZArith List Bool.
From V Require Import Bytes C09Adts C09TsFrame C09TsWriter C09TsDemux C09Proofs.
Import ListNotations.
Open Scope Z_scope.

Theorem C09_ts_psi :
  match ts_units mpegts_header with
  | Some [pat; pmt] => psi_ok pat pmt = true
  | _ => False
  end.
Proof. exact ts_psi_holds. Qed.
Print Assumptions C09_ts_psi.
