(* C17 — route resolution: exact, else longest directory prefix; URL joined
   with exactly one '/'; independent of Go's map iteration order; the table is
   a finite map under save/delete histories.  Statements only; proofs are in
   Proofs/RouteProofs.v. *)
From Coq Require Import ZArith List Bool Permutation.
From V Require Import Bytes StrGo Route RouteProofs.
Import ListNotations.

(* the implementation's lookup (loop over the map in any order) equals the specification *)
Theorem C17_match_is_spec : forall t p,
  uniq_keys t = true -> urls_nonempty t = true -> match_go t p = spec_match t p.
Proof. exact match_go_is_spec. Qed.
Print Assumptions C17_match_is_spec.

(* what the specification function means, in the property's words *)
Theorem C17_spec_meaning : forall t p,
  uniq_keys t = true ->
  let path := canonical_path p in
  match spec_match t p with
  | NotFound =>
      ends_with SLASH path = true \/
      (forall r, In r t -> r_pat r <> path) /\
      (forall r, In r t -> is_dir_cand path r = false)
  | Found f =>
      ends_with SLASH path = false /\
      ((In f t /\ r_pat f = path) \/
       ((forall r, In r t -> r_pat r <> path) /\
        exists r, In r t /\ is_dir_cand path r = true /\
                  (forall r', In r' t -> is_dir_cand path r' = true ->
                              (length (r_pat r') <= length (r_pat r))%nat) /\
                  f = {| r_pat := path; r_url := spec_url r path; r_keep := r_keep r |}))
  | Panic => False
  end.
Proof. exact spec_match_meaning. Qed.
Print Assumptions C17_spec_meaning.

(* Go's random map order is harmless *)
Theorem C17_match_order_independent : forall t t' p,
  Permutation t t' -> uniq_keys t = true -> urls_nonempty t = true ->
  match_go t p = match_go t' p.
Proof. exact match_go_perm. Qed.
Print Assumptions C17_match_order_independent.

(* save/delete histories: the table is the fold of the operations on a finite map *)
Theorem C17_table_refines_map : forall url_ok ops t m,
  (forall k, abs t k = m k) ->
  forall k, abs (fst (rrun url_ok t ops)) k = fold_left (astep url_ok) ops m k.
Proof. exact table_refines_map. Qed.
Print Assumptions C17_table_refines_map.

(* the decidable oracle that is applied to the implementation accepts the model
   on every well-formed history (URL non-empty) *)
Theorem C17_model_passes : forall url_ok ops t,
  forallb (op_wf url_ok) ops = true -> uniq_keys t = true -> urls_nonempty t = true ->
  ok_hist url_ok t ops (snd (rrun url_ok t ops)) = true.
Proof. exact model_passes_oracle. Qed.
Print Assumptions C17_model_passes.

(* non-vacuity: a concrete table meets the hypotheses and exercises the directory branch *)
Example C17_nonvacuous :
  let t := [ {| r_pat := [47;97;47]; r_url := [114;47]; r_keep := false |};
             {| r_pat := [47;97;47;98;47]; r_url := [115]; r_keep := true |} ] in
  uniq_keys t = true /\ urls_nonempty t = true /\
  match_go t [47;65;47;98;47;99] =
    Found {| r_pat := [47;97;47;98;47;99]; r_url := [115;47;99]; r_keep := true |}.
Proof. vm_compute. auto. Qed.
