(* C17 — route resolution: exact, else longest directory prefix; URL joined
   with exactly one '/'; independent of Go's map iteration order; the table is
   a finite map under save/delete histories; media.GetOrCreate publishes the
   pulled stream under the canonical requested path (second half of the file).
   Statements only; proofs are in Proofs/RouteProofs.v and
   Proofs/C17PublishProofs.v. *)
From Coq Require Import ZArith List Bool Permutation.
From V Require Import Val Bytes StrGo Route RouteProofs C17Publish C17PublishProofs RunC17 RunC17Publish C17RunProofs.
Import ListNotations.

(* the implementation's lookup (loop over the map in any order) equals the specification *)
Theorem C17_match_is_spec : forall t p,
  uniq_keys t = true -> urls_nonempty t = true -> match_go t p = spec_match t p.
Proof. exact match_go_is_spec. Qed.
Print Assumptions C17_match_is_spec.

(* what the specification function means, in the property's words *)
Theorem C17_spec_meaning : forall t p,
  uniq_keys t = true ->
  let path := canonical_path p in
  match spec_match t p with
  | NotFound =>
      ends_with SLASH path = true \/
      (forall r, In r t -> r_pat r <> path) /\
      (forall r, In r t -> is_dir_cand path r = false)
  | Found f =>
      ends_with SLASH path = false /\
      ((In f t /\ r_pat f = path) \/
       ((forall r, In r t -> r_pat r <> path) /\
        exists r, In r t /\ is_dir_cand path r = true /\
                  (forall r', In r' t -> is_dir_cand path r' = true ->
                              (length (r_pat r') <= length (r_pat r))%nat) /\
                  f = {| r_pat := path; r_url := spec_url r path; r_keep := r_keep r |}))
  | Panic => False
  end.
Proof. exact spec_match_meaning. Qed.
Print Assumptions C17_spec_meaning.

(* Go's random map order is harmless *)
Theorem C17_match_order_independent : forall t t' p,
  Permutation t t' -> uniq_keys t = true -> urls_nonempty t = true ->
  match_go t p = match_go t' p.
Proof. exact match_go_perm. Qed.
Print Assumptions C17_match_order_independent.

(* save/delete histories: the table is the fold of the operations on a finite map *)
Theorem C17_table_refines_map : forall url_ok ops t m,
  (forall k, abs t k = m k) ->
  forall k, abs (fst (rrun url_ok t ops)) k = fold_left (astep url_ok) ops m k.
Proof. exact table_refines_map. Qed.
Print Assumptions C17_table_refines_map.

(* the decidable oracle that is applied to the implementation accepts the model
   on every well-formed history (URL non-empty) *)
Theorem C17_model_passes : forall url_ok ops t,
  forallb (op_wf url_ok) ops = true -> uniq_keys t = true -> urls_nonempty t = true ->
  ok_hist url_ok t ops (snd (rrun url_ok t ops)) = true.
Proof. exact model_passes_oracle. Qed.
Print Assumptions C17_model_passes.

(* non-vacuity: a concrete table meets the hypotheses and exercises the directory branch *)
Example C17_nonvacuous :
  let t := [ {| r_pat := [47;97;47]; r_url := [114;47]; r_keep := false |};
             {| r_pat := [47;97;47;98;47]; r_url := [115]; r_keep := true |} ] in
  uniq_keys t = true /\ urls_nonempty t = true /\
  match_go t [47;65;47;98;47;99] =
    Found {| r_pat := [47;97;47;98;47;99]; r_url := [115;47;99]; r_keep := true |}.
Proof. vm_compute. auto. Qed.

(* ======================================================================
   "... and the pulled stream is published under the requested path":
   media.GetOrCreate over (registry of live streams, route table, list of pull
   factories).  No guard on the request: CanonicalPath is idempotent since the
   repair 1c2de2b (C17_request_always_stable; the former counterexample is kept
   as C17_publish_unstable_fixed).
   ====================================================================== *)

(* the code (registry look-up on the canonical path, Match on the canonicalised
   path, first factory that Can, Create(r.Pattern, r.URL)) equals the
   specification written from the property text *)
Theorem C17_get_or_create_is_spec : forall g t fs p,
  uniq_keys t = true -> urls_nonempty t = true ->
  get_or_create g t fs p = spec_goc g t fs p.
Proof. exact goc_is_spec. Qed.
Print Assumptions C17_get_or_create_is_spec.

(* (a) a stream registered under the canonical path is returned; nothing is created, the state is unchanged *)
Theorem C17_registered_stream_is_returned : forall url_ok fs st p sid,
  reg_get (ps_reg st) (canonical_path p) = Some sid ->
  pstep url_ok fs st (PReq p) = (st, POReq (GExisting sid) (Some sid) [] (ps_reg st)).
Proof. exact fast_path_step. Qed.
Print Assumptions C17_registered_stream_is_returned.

(* (b) otherwise what is created is the route table's answer: published under the canonical
   requested path (an exact route's pattern; a directory route's pattern followed by the remainder),
   pulled from the route URL / the one-slash join, by the first factory that accepts that URL
   (keep = None: that factory's Create failed, nothing is returned and no other factory is tried) *)
Theorem C17_created_under_requested_path : forall g t fs p lp url i keep,
  uniq_keys t = true -> urls_nonempty t = true ->
  created_of (get_or_create g t fs p) = Some (lp, url, i, keep) ->
  reg_get g (canonical_path p) = None /\
  lp = canonical_path p /\ ends_with SLASH lp = false /\
  exists f, nth_error fs i = Some f /\ f_can f url = true /\
    (forall j f', (j < i)%nat -> nth_error fs j = Some f' -> f_can f' url = false) /\
    ((exists r, In r t /\ r_pat r = lp /\ url = r_url r /\
                keep = if f_ok f lp url then Some (r_keep r) else None) \/
     ((forall r, In r t -> r_pat r <> lp) /\
      exists r, In r t /\ is_dir_cand lp r = true /\
                (forall r', In r' t -> is_dir_cand lp r' = true -> (length (r_pat r') <= length (r_pat r))%nat) /\
                lp = r_pat r ++ drop (zlen (r_pat r)) lp /\
                url = spec_url r lp /\
                keep = if f_ok f lp url then Some (r_keep r) else None)).
Proof. exact created_meaning. Qed.
Print Assumptions C17_created_under_requested_path.

(* (c) spelling independence: two spellings of one canonical path get the same answer, cause the same
   creation and leave the same state *)
Theorem C17_spelling_independent : forall url_ok fs st p q,
  canonical_path p = canonical_path q ->
  pstep url_ok fs st (PReq p) = pstep url_ok fs st (PReq q).
Proof. exact step_spelling. Qed.
Print Assumptions C17_spelling_independent.

(* (d) no lookup, request, registration or closure modifies the table: after any history the table is
   the one its save/delete operations alone build, i.e. the finite map folded over them *)
Theorem C17_table_untouched_by_lookups : forall url_ok fs ops st,
  ps_tbl (fst (prun url_ok fs st ops)) = fst (rrun url_ok (ps_tbl st) (route_ops ops)).
Proof. exact table_untouched. Qed.
Print Assumptions C17_table_untouched_by_lookups.

Theorem C17_table_is_map_of_route_ops : forall url_ok fs ops st m,
  (forall k, abs (ps_tbl st) k = m k) ->
  forall k, abs (ps_tbl (fst (prun url_ok fs st ops))) k = fold_left (astep url_ok) (route_ops ops) m k.
Proof. exact table_is_map_of_route_ops. Qed.
Print Assumptions C17_table_is_map_of_route_ops.

(* the factory contract: a factory publishes under exactly the canonical form of its localPath argument.
   It holds for a factory that hands localPath to media.NewStream, and for the modelled RTSP factory:
   NewPullClient's path normalisation is CanonicalPath and nothing else (its fall-back to the path of the
   remote URL is dead code, its url.Parse only validates), whatever url.Parse says about the remote URL *)
Theorem C17_pull_client_path_is_canonical : forall url_path lp url,
  pull_client_path url_path lp url = canonical_path lp.
Proof. exact pull_client_path_is_canonical. Qed.
Print Assumptions C17_pull_client_path_is_canonical.

Theorem C17_factory_contract : forall url_path can ok,
  honest {| f_can := can; f_ok := ok; f_real := true; f_key := rtsp_key url_path |}.
Proof. exact rtsp_factory_contract. Qed.
Print Assumptions C17_factory_contract.

Theorem C17_newstream_factory_contract : forall can ok real,
  honest {| f_can := can; f_ok := ok; f_real := real; f_key := newstream_key |}.
Proof. exact newstream_honest. Qed.
Print Assumptions C17_newstream_factory_contract.

(* (e) publish path = lookup path, composed with the contract: after a request has made a factory create
   (and so register) a stream, the registry is the old one with exactly that stream put under the canonical
   requested path — no other key appears, streams under other keys survive — and a request for the same
   canonical path in any spelling returns that stream and creates nothing *)
Theorem C17_created_stream_is_found_again : forall url_ok fs st p q lp url i keep st1 sid seen reg,
  pinv st = true -> Forall honest fs ->
  pstep url_ok fs st (PReq p) = (st1, POReq (GCreated lp url i keep) sid seen reg) ->
  canonical_path q = canonical_path p ->
  sid = Some (ps_next st) /\
  reg = ps_reg st1 /\ ps_reg st1 = reg_put (ps_reg st) (canonical_path p) (ps_next st) /\
  reg_get (ps_reg st1) (canonical_path p) = Some (ps_next st) /\
  (forall k, bytes_eqb (canonical_path p) k = false -> reg_get (ps_reg st1) k = reg_get (ps_reg st) k) /\
  pstep url_ok fs st1 (PReq q) = (st1, POReq (GExisting (ps_next st)) (Some (ps_next st)) [] (ps_reg st1)).
Proof. exact created_then_found. Qed.
Print Assumptions C17_created_stream_is_found_again.

Theorem C17_published_stream_is_found : forall url_ok fs st p q,
  canonical_path q = canonical_path p ->
  let st1 := fst (pstep url_ok fs st (PPublish p)) in
  pstep url_ok fs st1 (PReq q) = (st1, POReq (GExisting (ps_next st)) (Some (ps_next st)) [] (ps_reg st1)).
Proof. exact published_then_found. Qed.
Print Assumptions C17_published_stream_is_found.

(* the decidable oracle applied to the implementation's answers accepts the model on every
   well-formed history (route URLs non-empty), for every list of factories that keep the contract *)
Theorem C17_publish_model_passes : forall url_ok fs ops, Forall honest fs -> forall st,
  forallb (pop_wf url_ok) ops = true -> pinv st = true ->
  ok_phist url_ok fs st ops (snd (prun url_ok fs st ops)) = true.
Proof. exact publish_model_passes. Qed.
Print Assumptions C17_publish_model_passes.

(* instance used by the check: the factories decoded from a case of the "publish" stream (the modelled RTSP
   factory, NewStream-based recording fakes) keep the contract, so the oracle accepts the model on every case *)
Theorem C17_publish_run_passes : forall c,
  forallb (pop_wf url_ok_all) (c17p_ops c) = true ->
  ok_phist url_ok_all (c17p_fs c) pinit (c17p_ops c)
    (snd (prun url_ok_all (c17p_fs c) pinit (c17p_ops c))) = true.
Proof. exact run_model_passes. Qed.
Print Assumptions C17_publish_run_passes.

(* ... and what the oracle accepts for a request is the specification's answer and the specification's
   registry: the old one, with the created stream (if any) put under the canonical requested path *)
Theorem C17_publish_oracle_sound : forall url_ok fs st p got sid seen reg ops outs,
  ok_phist url_ok fs st (PReq p :: ops) (POReq got sid seen reg :: outs) = true ->
  got = spec_goc (ps_reg st) (ps_tbl st) fs p /\
  reg = match got with
        | GCreated _ _ _ _ => reg_put (ps_reg st) (canonical_path p) (ps_next st)
        | _ => ps_reg st
        end.
Proof. exact oracle_sound_request. Qed.
Print Assumptions C17_publish_oracle_sound.

(* the registry key (canonicalised once) and the route path (canonicalised twice) agree for every request *)
Theorem C17_request_always_stable : forall p, req_stable p = true.
Proof. exact req_stable_all. Qed.
Print Assumptions C17_request_always_stable.

(* after the fix "CanonicalPath is idempotent": the former witness "/a /b/.." (looked up under "/a ",
   published under "/a", pulled a second time) is stable and the second request finds the first's stream *)
Theorem C17_publish_unstable_fixed :
  let st := {| ps_reg := []; ps_tbl := unstable_tbl; ps_next := 0 |} in
  pinv st = true /\ req_stable unstable_req = true /\
  let st1 := fst (pstep (fun _ => true) [any_factory] st (PReq unstable_req)) in
  snd (pstep (fun _ => true) [any_factory] st (PReq unstable_req)) =
    POReq (GCreated [47; 97] [117] 0 true) (Some 0) [] [([47; 97], 0)] /\
  snd (pstep (fun _ => true) [any_factory] st1 (PReq unstable_req)) =
    POReq (GExisting 0) (Some 0) [] [([47; 97], 0)].
Proof. exact publish_unstable_fixed. Qed.
Print Assumptions C17_publish_unstable_fixed.

(* the contract hypothesis is needed: a factory that takes its publish path from a parsed URL (everything from
   '#' dropped).  Directory route "/c/" -> "u", somebody's stream 0 live under "/c/d", request "/c/d#2": the
   factory is handed the right localPath and URL, but publishes under "/c/d" — stream 0 is replaced, "/c/d#2"
   stays unregistered, the same request pulls again; the oracle rejects the history *)
Theorem C17_contract_needed_refuted :
  let st := {| ps_reg := [([47;99;47;100], 0)]; ps_next := 1;
               ps_tbl := [ {| r_pat := [47;99;47]; r_url := [117]; r_keep := true |} ] |} in
  let req := [47;99;47;100;35;50] in
  pinv st = true /\ ~ honest cutting_factory /\
  let st1 := fst (pstep (fun _ => true) [cutting_factory] st (PReq req)) in
  snd (pstep (fun _ => true) [cutting_factory] st (PReq req)) =
    POReq (GCreated req [117;47;100;35;50] 0 true) (Some 1) [[117;47;100;35;50]] [([47;99;47;100], 1)] /\
  snd (pstep (fun _ => true) [cutting_factory] st1 (PReq req)) =
    POReq (GCreated req [117;47;100;35;50] 0 true) (Some 2) [[117;47;100;35;50]] [([47;99;47;100], 2)] /\
  ok_phist (fun _ => true) [cutting_factory] st [PReq req]
    (snd (prun (fun _ => true) [cutting_factory] st [PReq req])) = false.
Proof. exact contract_needed_refuted. Qed.
Print Assumptions C17_contract_needed_refuted.

(* non-vacuity: directory route "/cam/" -> "r/x"; factories (both keep the contract): one that refuses
   everything, one that accepts; the request " Cam//B#2" is well-formed, creates "/cam/b#2" from "r/x/b#2" with the
   SECOND factory and an idle-close task (keep = false), registered under "/cam/b#2"; the request "/cam/./b#2"
   then finds that stream *)
Example C17_publish_nonvacuous :
  let never := {| f_can := fun _ => false; f_ok := fun _ _ => true; f_real := false; f_key := newstream_key |} in
  let st := {| ps_reg := []; ps_next := 0;
               ps_tbl := [ {| r_pat := [47;99;97;109;47]; r_url := [114;47;120]; r_keep := false |} ] |} in
  let ops := [PReq [32;67;97;109;47;47;66;35;50]; PReq [47;99;97;109;47;46;47;98;35;50]; PAll] in
  Forall honest [never; any_factory] /\
  forallb (pop_wf (fun _ => true)) ops = true /\ pinv st = true /\
  snd (prun (fun _ => true) [never; any_factory] st ops) =
    [ POReq (GCreated [47;99;97;109;47;98;35;50] [114;47;120;47;98;35;50] 1 false) (Some 0) [] [([47;99;97;109;47;98;35;50], 0)];
      POReq (GExisting 0) (Some 0) [] [([47;99;97;109;47;98;35;50], 0)];
      POAll (ps_tbl st) ].
Proof.
  split; [repeat constructor; intros lp url; reflexivity|]. vm_compute. auto.
Qed.
