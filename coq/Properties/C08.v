(* C08 — FLV output is valid FLV and carries the source frames faithfully.
   Statements only; proofs are in Proofs/C08FlvProofs.v. *)
From Coq Require Import ZArith List Bool.
From V Require Import Bytes C08Amf0 C08Flv C08FlvProofs.
Import ListNotations.
Open Scope Z_scope.

(* D17: the pre-fix writer arithmetic shows a tag older than the first at ~2^32 ms *)
Theorem flv_ts_wrap_refuted :
  exists l, option_map (fun r => map p_ts (snd r)) (parse_flv (flv_write_old 5 l)) = Some [0; 4294967286].
Proof. exact flv_ts_wrap_refuted_lemma. Qed.
Print Assumptions flv_ts_wrap_refuted.
