(* C08 — FLV output is valid FLV and carries the source frames faithfully.
   Statements only; proofs are in Proofs/C08FlvProofs.v and Proofs/C08Amf0Proofs.v.
   [flv_bytes c fs k t0] is what a client receives from flv.NewMuxer + flv.Writer for stream
   configuration [c] and frame list [fs] when it joins at media tag [k] (k = 0: from the start);
   [parse_flv], [parse_video], [parse_audio], [parse_script], [parse_avcc], [parse_hvcc] are the
   independent readers; [flv_ok] is the oracle bin/check applies to the implementation's bytes. *)
From Coq Require Import ZArith List Bool.
From V Require Import Bytes C15BitFmt C15Ebsp C15H264 C15Hevc C08Amf0 C08Flv C08Fanout C08Hevc
  C08Amf0Proofs C08FlvProofs C08FanoutProofs C08HevcProofs.
Import ListNotations.
Open Scope Z_scope.

(* the writer's output parses, for every tag list: header flags as given, and the client sees
   exactly the tags written, in order, with the rebased timestamps *)
Theorem flv_stream_parses : forall flags l,
  (flags = 4 \/ flags = 5) -> forallb tag_wf l = true ->
  parse_flv (flv_write flags l) = Some (flags, written w_init l).
Proof. exact parse_flv_write. Qed.
Print Assumptions flv_stream_parses.

(* what "parses" means: each tag is an 11-byte header whose DataSize is the payload length and
   whose StreamID is 0, the payload, and a PreviousTagSize equal to 11 + payload length *)
Theorem flv_parse_meaning : forall fuel s p ps,
  parse_tags fuel s = Some (p :: ps) ->
  exists hdr sz rest,
    s = hdr ++ p_data p ++ sz ++ rest /\ length hdr = 11%nat /\ length sz = 4%nat /\
    nth 0 hdr 0 = p_type p /\
    be_decode (firstn 3 (skipn 1 hdr)) = zlen (p_data p) /\
    be_decode sz = 11 + zlen (p_data p) /\
    be_decode (firstn 3 (skipn 8 hdr)) = 0 /\
    parse_tags (pred fuel) rest = Some ps.
Proof. exact parse_tags_meaning_lemma. Qed.
Print Assumptions flv_parse_meaning.

(* metadata, video configuration record built from the stream's SPS/PPS(/VPS), AAC configuration,
   then exactly one tag per media frame — for every frame list and every join point *)
Theorem flv_header_order : forall c fs k t0,
  case_wf c fs k = true -> fs <> [] ->
  exists m v rest,
    parse_flv (flv_bytes c fs k t0) = Some (type_flags c, m :: v :: rest) /\
    meta_ok c m = true /\ vseq_ok c v = true /\
    (if c_aac c
     then exists a ps, rest = a :: ps /\ aseq_ok c a = true /\
                       length ps = length (skipn k (live_frames c fs))
     else length rest = length (skipn k (live_frames c fs))).
Proof. exact flv_header_order_lemma. Qed.
Print Assumptions flv_header_order.

(* the muxer emits exactly one tag per media frame, in order *)
Theorem flv_one_tag_per_frame : forall c fs,
  mux_frames c fs = map (media_tag c) (live_frames c fs).
Proof. exact mux_frames_live. Qed.
Print Assumptions flv_one_tag_per_frame.

(* a video tag = frame type / codec, packet type 1, composition time, one length-prefixed NAL unit
   equal to the source unit; composition = pts_ms - dts_ms as SI24 when it fits 24 bits *)
Theorem flv_video_faithful : forall c f,
  frame_wf c f = true -> f_kind f = 0 ->
  let d := ms_of (f_pts f) - ms_of (f_dts f) in
  t_type (media_tag c f) = 9 /\
  parse_video (t_data (media_tag c f)) =
    Some (mkPV (if is_key (c_hevc c) (nth_byte (f_data f) 0) then 1 else 2) (video_codec_id c) 1
               (si24 (u32 d mod TWO24)) (f_data f)) /\
  (-8388608 <= d < 8388608 -> si24 (u32 d mod TWO24) = d).
Proof. exact flv_video_faithful_lemma. Qed.
Print Assumptions flv_video_faithful.

(* key frame <=> IDR (H.264 type 5) / IRAP (H.265 types 16..21) *)
Theorem flv_key_h264 : forall b, is_key false b = true <-> b mod 32 = 5.
Proof. exact is_key_h264. Qed.
Print Assumptions flv_key_h264.
Theorem flv_key_h265 : forall b, is_key true b = true <-> 16 <= (b / 2) mod 64 <= 21.
Proof. exact is_key_h265. Qed.
Print Assumptions flv_key_h265.

(* an audio tag holds the source AAC frame *)
Theorem flv_audio_faithful : forall c f,
  f_kind f <> 0 ->
  t_type (media_tag c f) = 8 /\
  parse_audio (t_data (media_tag c f)) = Some (audio_flags c mod 16, 1, f_data f).
Proof. exact flv_audio_faithful_lemma. Qed.
Print Assumptions flv_audio_faithful.

(* timestamps: decode time in ms rebased on the client's first media tag; a tag older than
   the first one gets 0, never a wrapped value (guard: consecutive tags < 2^31 ms apart) *)
Theorem flv_time_rebased : forall c l,
  (forall f, In f l -> frame_wf c f = true /\ emits c f = true) ->
  steps_ok (first_ms l) l = true ->
  map p_ts (written w_init (map (media_tag c) l)) =
  map (fun f => u32 (Z.max 0 (frame_ms f - first_ms l))) l.
Proof. exact flv_time_rebased_lemma. Qed.
Print Assumptions flv_time_rebased.

Theorem flv_time_older_is_zero : forall t1 t, t <= t1 -> spec_ts t1 t = 0.
Proof. exact spec_ts_older. Qed.
Print Assumptions flv_time_older_is_zero.
Theorem flv_time_later_is_distance : forall t1 t, 0 <= t - t1 < TWO32 -> spec_ts t1 t = t - t1.
Proof. exact spec_ts_later. Qed.
Print Assumptions flv_time_later_is_distance.

(* D17: the pre-fix writer arithmetic shows a tag older than the first at ~2^32 ms *)
Theorem flv_ts_wrap_refuted :
  exists l, option_map (fun r => map p_ts (snd r)) (parse_flv (flv_write_old 5 l)) = Some [0; 4294967286].
Proof. exact flv_ts_wrap_refuted_lemma. Qed.
Print Assumptions flv_ts_wrap_refuted.

(* AMF0: the reader inverts the encoder on the value shapes the muxer emits *)
Theorem amf0_roundtrip : forall name props,
  zlen name < 65536 -> Z.of_nat (length props) < 4294967296 -> forallb amf_prop_wf props = true ->
  parse_script (script_enc name props) = Some (name, props).
Proof. exact amf0_roundtrip_lemma. Qed.
Print Assumptions amf0_roundtrip.

(* the Number written for an integer field denotes that integer *)
Theorem amf0_number_of_int : forall n,
  - 9007199254740992 < n < 9007199254740992 -> f64_to_Z (f64_of_Z n) = Some n.
Proof. exact f64_roundtrip_lemma. Qed.
Print Assumptions amf0_number_of_int.

(* the oracle applied to the implementation accepts the model on every well-formed case *)
Theorem C08_model_passes : forall c fs k t0,
  case_wf c fs k = true -> flv_ok c fs k (flv_bytes c fs k t0) = true.
Proof. exact model_passes_lemma. Qed.
Print Assumptions C08_model_passes.

(* H.265: the decoder configuration record describes the stream's parameter sets.  For every VPS and
   SPS emitted from field values by the standard's syntax description (C15: [std_h265_vps],
   [std_h265_sps]; sub-layers, sub-layer profile/level flags, all profiles, chroma formats, VUI, ...),
   the sequence-header tag parses, carries exactly these VPS/SPS/PPS, and its general fields are those
   ISO/IEC 14496-15 8.3.3.1 asks for, stated on the field values ([hvcc_spec]): profile space,
   highest tier, its level, greatest profile_idc, AND of the compatibility and constraint flags, chroma
   format, bit depths, number of temporal layers, temporalIdNested, 4-byte NAL lengths.
   Guards: [hvcc_ranges] (values within their descriptor widths, bit depths <= 15 bits, <= 7 layers) *)
Theorem flv_hevc_config_describes_parameter_sets : forall c rv bv av rs bs a,
  c_hevc c = true ->
  emit std_h265_vps rv env0 = Some (bv, av) -> emit std_h265_sps rs env0 = Some (bs, a) ->
  c_vps c = nal_of_bits bv -> c_sps c = nal_of_bits bs ->
  nal_shape_ok (c_vps c) = true -> nal_shape_ok (c_sps c) = true ->
  hvcc_ranges av a = true ->
  zlen (c_vps c) < 65536 -> zlen (c_sps c) < 65536 -> zlen (c_pps c) < 65536 ->
  exists v pv o,
    vseq_tag (cfg_derived c false) = Some v /\
    parse_video (t_data v) = Some pv /\ v_frametype pv = 1 /\ v_codec pv = 12 /\ v_pkt pv = 0 /\
    parse_hvcc (v_body pv) = Some (o, c_vps c, c_sps c, c_pps c) /\
    hvcc_fields o = hvcc_spec av a.
Proof. exact hevc_config_describes_lemma. Qed.
Print Assumptions flv_hevc_config_describes_parameter_sets.

(* the record oracle applied to the implementation accepts the model, for all records *)
Theorem C08_hvcc_model_passes : forall rv rs, hvcc_ok rv rs (hvcc_of_records rv rs) = true.
Proof. exact hvcc_model_passes_lemma. Qed.
Print Assumptions C08_hvcc_model_passes.

(* onMetaData width / height / frame rate of a stream whose meta data come from the SPS are the
   standard's derived values (conformance cropping window, VUI timing) *)
Theorem flv_hevc_metadata_describes_sps : forall rec b a,
  emit std_h265_sps rec env0 = Some (b, a) -> h265_ranges a = true -> nal_shape_ok (nal_of_bits b) = true ->
  derive_meta true (nal_of_bits b) = (spec_width265 a, spec_height265 a, fps_bits (spec_fps265 a)).
Proof. exact hevc_meta_describes_lemma. Qed.
Print Assumptions flv_hevc_metadata_describes_sps.
Theorem flv_h264_metadata_describes_sps : forall rec b a,
  emit std_h264_sps rec env0 = Some (b, a) -> h264_ranges a = true -> nal_shape_ok (nal_of_bits b) = true ->
  derive_meta false (nal_of_bits b) = (spec_width a, spec_height a, fps_bits (spec_fps a)).
Proof. exact h264_meta_describes_lemma. Qed.
Print Assumptions flv_h264_metadata_describes_sps.

(* H.264: profile / compatibility / level bytes of the AVCDecoderConfigurationRecord = SPS bytes 1..3,
   one SPS and one PPS equal to the stream's *)
Theorem flv_avc_config_describes_sps : forall sps pps r,
  avcc sps pps = Some r -> zlen sps < 65536 -> zlen pps < 65536 ->
  parse_avcc r = Some (firstn 3 (skipn 1 sps), sps, pps).
Proof. exact parse_avcc_ok. Qed.
Print Assumptions flv_avc_config_describes_sps.

(* non-vacuity: Main10, three temporal layers, 4:2:0, 10 bit, 1920x1088 *)
Example C08_hevc_nonvacuous :
  match emit std_h265_vps ex_vps_rec env0, emit std_h265_sps ex_sps_rec env0 with
  | Some (bv, av), Some (bs, a) =>
      nal_shape_ok (nal_of_bits bv) = true /\ nal_shape_ok (nal_of_bits bs) = true /\
      hvcc_ranges av a = true /\
      hvcc_fields (hvcc_of_nals (nal_of_bits bv) (nal_of_bits bs)) =
        mkHF 0 0 2 536870912 158329674399744 123 0 0 1 2 2 0 0 3 1 3 /\
      derive_meta true (nal_of_bits bs) = (1920, 1088, 0)
  | _, _ => False
  end.
Proof. exact hevc_example. Qed.

(* several clients of one stream share the tag objects (GOP cache + every client's queue hold the
   same reference).  For every tag store and every schedule of deliveries, attachments (served from
   the cache) and runs of the clients' routines: the tags are unchanged afterwards, and every client
   receives exactly what ONE writer produces from the tags that client was handed — its own time
   line, independent of the other clients and of the order in which the routines get to a shared tag *)
Theorem flv_clients_independent : forall store sched,
  fan_run store sched =
  (store, map (fun h => write_tags w_init (map (resolve store) h)) (fan_hist store sched)).
Proof. exact fan_run_independent_lemma. Qed.
Print Assumptions flv_clients_independent.

(* what a client is handed depends on deliveries and attachments only, not on when routines run *)
Theorem flv_clients_history_ignores_scheduling : forall store sched,
  fan_hist store sched =
  fan_hist store (filter (fun e => match e with EConsume _ _ => false | _ => true end) sched).
Proof. exact fan_hist_ignores_consume_lemma. Qed.
Print Assumptions flv_clients_history_ignores_scheduling.

(* the multi-client oracle applied to the implementation accepts the model, for every store and schedule *)
Theorem C08_fanout_model_passes : forall flags store sched,
  let '(after, outs) := fan_streams flags store sched in
  fan_ok_bytes flags store sched after outs = true.
Proof. exact fan_model_passes_lemma. Qed.
Print Assumptions C08_fanout_model_passes.

(* non-vacuity: two clients, the second joining from the cache at the second key frame; two schedules
   that differ only in when the routines run give the same streams: client 1 sees 0,40,80,120 and
   client 2 (joined at 5080) sees 0,40 *)
Example C08_fanout_nonvacuous :
  let k t := mkTag 9 t [23; 1; 0; 0; 0; 0; 0; 0; 1; 101] in
  let p t := mkTag 9 t [39; 1; 0; 0; 0; 0; 0; 0; 1; 65] in
  let store := [k 5000; p 5040; k 5080; p 5120] in
  let s1 := [EAttach; EDeliver 0; EDeliver 1; EDeliver 2; EAttach; EDeliver 3] in
  let s2 := [EAttach; EDeliver 0; EConsume 0 1; EDeliver 1; EDeliver 2; EAttach; EDeliver 3; EConsume 1 2; EConsume 0 9] in
  fan_run store s1 = fan_run store s2 /\
  map (fun o => option_map (fun r => map p_ts (snd r)) (parse_flv (file_header 4 ++ o))) (snd (fan_run store s2)) =
    [Some [0; 40; 80; 120]; Some [0; 40]] /\
  fst (fan_run store s2) = store.
Proof. vm_compute. auto. Qed.

(* non-vacuity: an H.264 + AAC stream whose second tag is 10 ms older than the key frame the
   client joins at; the hypotheses hold and the client sees 0, 0, 0 | 0, 0, 40, 13 *)
Example C08_nonvacuous :
  let c := mkCfg false [103; 66; 192; 30; 217] [104; 206; 60; 128] [] [] 640 480
                 4627730092099895296 4647714815446351872 true [18; 16] 44100 16 2 4634204016564240384
                 [50; 48; 50; 54] in
  let fs := [mkFrame 0 4294967301000000 4294967341000000 [101; 1; 2; 3];
             mkFrame 1 4294967291000000 4294967291000000 [33; 16];
             mkFrame 0 4294967341000000 4294967301000000 [65; 9];
             mkFrame 1 4294967314000000 4294967314000000 [33; 17]] in
  case_wf c fs 0 = true /\
  option_map (fun r => map p_ts (snd r)) (parse_flv (flv_bytes c fs 0 5)) = Some [0; 0; 0; 0; 0; 40; 13] /\
  flv_ok c fs 0 (flv_bytes c fs 0 5) = true.
Proof. vm_compute. auto. Qed.
