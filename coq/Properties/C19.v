(* C19 — placeholder while the proofs are being written *)
From Coq Require Import ZArith List Bool.
From V Require Import Bytes C19PTree C19Sniffer C19Mux.
Import ListNotations.
Example C19_nonvacuous : fst (mux_serve true prod_tables [{| it_data := M_PLAY ++ [32;42;32] ++ RTSP_UP ++ [47;49;46;48;13;10;13;10]; it_err := 0 |}]) = DSvc SVC_RTSP.
Proof. vm_compute. reflexivity. Qed.
