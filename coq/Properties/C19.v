(* C19 — port multiplexing routes each connection to the right protocol, losing
   no byte.  Statements only; proofs are in Proofs/C19PTreeProofs.v,
   Proofs/C19SnifferProofs.v and Proofs/C19MuxProofs.v.

   Models: Model/C19PTree.v (matcher.go: newNode / splitPrefix / match),
   Model/C19Sniffer.v (listener.go: Conn, sniffer, over a read script of the raw
   connection), Model/C19Mux.v (Listener.serve with io.ReadFull matchers, the
   tables registered by service.listen). *)
From Coq Require Import ZArith List Bool.
From V Require Import Bytes C19PTree C19Sniffer C19Mux C19Conc C19Framed C19PTreeProofs C19SnifferProofs C19MuxProofs C19ConcProofs C19FramedProofs.
Import ListNotations.

(* the patricia tree, as Go builds it for any list of strings, answers for
   every input "some listed string is a prefix of the input".  Input shorter
   than a node's prefix is a mismatch (false), there is no "need more".
   (MatchPrefix() with no string at all matches everything: ptree_empty_matches_all.) *)
Theorem C19_ptree_match_is_prefix_exists : forall strs b,
  strs <> [] -> tree_match_prefix strs b = any_prefix strs b.
Proof. exact ptree_match_is_prefix_exists. Qed.
Print Assumptions C19_ptree_match_is_prefix_exists.

(* exact mode (patriciaTree.match, unused by the listener): membership *)
Theorem C19_ptree_match_exact_is_member : forall strs b,
  strs <> [] -> pt_match (new_tree strs) b false = any_equal strs b.
Proof. exact ptree_match_exact_is_member. Qed.
Print Assumptions C19_ptree_match_exact_is_member.

(* the sniffing Conn: for every read script of the raw connection (any
   segmentation, errors, deadlines), any number of sniffing sessions with
   matcher reads of any sizes, and service reads of any sizes: no panic, every
   matcher saw a prefix of the stream, and delivered ++ withheld ++ unread is
   the original stream — each byte once, in order, from the first byte.
   Holds for the original (fx = false) and the repaired (fx = true) code. *)
Theorem C19_sniffer_replays_exactly : forall fx sc sessions svc ms rem0 rs s3,
  sniff_run fx sc sessions svc = (ms, rem0, rs, s3) ->
  forallb (fun m => no_rpanic m && is_prefix (session_seen m) (stream sc)) ms = true /\
  length ms = length sessions /\
  forallb (fun r => match r with SPanic => false | _ => true end) rs = true /\
  length rs = length svc /\
  delivered rs ++ pending s3 ++ stream (sn_src s3) = stream sc.
Proof. exact sniffer_replays_exactly. Qed.
Print Assumptions C19_sniffer_replays_exactly.

(* complete: a service that keeps reading with non-empty buffers has the whole
   stream after at most |stream| + |script| reads *)
Theorem C19_service_reads_complete : forall fx sc sessions svc ms rem0 rs s3,
  sniff_run fx sc sessions svc = (ms, rem0, rs, s3) ->
  Forall (fun n => (0 < n)%nat) svc ->
  (length (stream sc) + length sc <= length svc)%nat ->
  delivered rs = stream sc.
Proof. exact service_reads_complete. Qed.
Print Assumptions C19_service_reads_complete.

(* which errors the service sees while the sniffed bytes are replayed.  Every
   error of the script comes with no bytes ([data_errfree]: sniff deadlines that
   fire — also when more data follows —, plain EOF).  Then no read of the service
   that is answered from the replay buffer reports an error: an error consumed
   during sniffing is not replayed.  (In general — ok_errs inside the oracle of
   C19_model_passes / C19_sniff_model_passes — the only error a replayed read may
   report is the one that came together with the last sniffed byte, and only with
   that byte.) *)
Theorem C19_sniff_timeout_not_replayed : forall tables sc svc d rem0 rs,
  tables_wf tables = true -> data_errfree sc = true ->
  mux_run true tables sc svc = (d, rem0, rs) ->
  Forall (fun e => e = 0) (replayed_errs (length (stream sc)) 0 (length (stream sc) - rem0) rs).
Proof. exact mux_sniff_timeout_not_replayed. Qed.
Print Assumptions C19_sniff_timeout_not_replayed.

(* the same for arbitrary sniffing sessions *)
Theorem C19_sniff_errors_not_replayed : forall sc sessions svc ms rem0 rs s3,
  sniff_run true sc sessions svc = (ms, rem0, rs, s3) ->
  data_errfree sc = true ->
  Forall (fun e => e = 0) (replayed_errs (length (stream sc)) 0 (length (stream sc) - rem0) rs).
Proof. exact sniff_timeout_not_replayed. Qed.
Print Assumptions C19_sniff_errors_not_replayed.

(* a terminal condition is still reported, after the last byte: once everything
   has been delivered and the peer is gone, the next read returns (0, EOF) *)
Theorem C19_terminal_eof_after_last_byte : forall fx sc sessions svc ms rem0 rs s3 n,
  sniff_run fx sc sessions svc = (ms, rem0, rs, s3) ->
  Forall (fun n => (0 < n)%nat) svc ->
  (length (stream sc) + length sc <= length svc)%nat ->
  fst (conn_read fx (S n) s3) = ROk [] EOF.
Proof. exact terminal_eof_after_last_byte. Qed.
Print Assumptions C19_terminal_eof_after_last_byte.

(* routing, end to end for the production registration (RTSP table first, then
   HTTP): for every read script with no error before 16 bytes have arrived —
   unless nothing follows the error (peer closed, or silent past the sniff
   deadline) — the decision depends on the byte stream only, not on its
   segmentation; RTSP request lines go to RTSP, HTTP ones (including every other
   OPTIONS) to HTTP, streams that do not start with a method name are closed *)
Theorem C19_classify_spec : forall sc,
  good 16 sc = true ->
  let d := fst (mux_serve true prod_tables sc) in
  d = classify prod_tables (stream sc) /\
  (forall m rest, In m rtsp_methods -> stream sc = m ++ rest -> d = DSvc SVC_RTSP) /\
  (forall m rest, In m http_methods_other -> stream sc = m ++ SP :: rest -> d = DSvc SVC_HTTP) /\
  (forall target version rest, no_sp target = true ->
     stream sc = M_OPTIONS ++ SP :: target ++ SP :: version ++ CR :: LF :: rest ->
     d = if options_is_rtsp target version then DSvc SVC_RTSP else DSvc SVC_HTTP) /\
  ((forall m, In m (M_OPTIONS :: rtsp_methods ++ http_methods_other) -> is_prefix m (stream sc) = false) ->
     d = DNone).
Proof. exact classify_spec. Qed.
Print Assumptions C19_classify_spec.

(* the same for any registration: the first registered table holding a prefix
   of the stream, none otherwise *)
Theorem C19_mux_classify : forall fx tables sc,
  tables_wf tables = true -> good (max_depth_all tables) sc = true ->
  fst (mux_serve fx tables sc) = classify tables (stream sc).
Proof. exact mux_classify. Qed.
Print Assumptions C19_mux_classify.

(* with no guard at all on the script: a connection only ever reaches a service
   whose table holds a prefix of its stream; never a panic *)
Theorem C19_mux_sound : forall fx tables sc d s',
  tables_wf tables = true -> mux_serve fx tables sc = (d, s') ->
  decision_sound tables (stream sc) d = true.
Proof. exact mux_sound. Qed.
Print Assumptions C19_mux_sound.

(* a connection that never delivers a byte (silent past the sniff timeout, or
   closed at once) reaches no service: the listener closes it *)
Theorem C19_silent_closed : forall fx tables sc,
  tables_wf tables = true -> no_empty_string tables = true ->
  stream sc = [] -> fst (mux_serve fx tables sc) = DNone.
Proof. exact mux_silent_closed. Qed.
Print Assumptions C19_silent_closed.

(* several connections in the sniff phase at once (Listener.Serve classifies
   every accepted connection in its own goroutine; the registered trees are
   shared and immutable, the matcher's read buffer is per call): for any number
   of connections with any read scripts and EVERY interleaving of their reads
   (a schedule is a list of connection indices, one sniffer.Read each), once
   connection j has been given enough steps the decision for j is the one
   Listener.serve takes on j alone … *)
Theorem C19_connections_independent : forall tables scs j sc,
  nth_error scs j = Some sc ->
  exists k, forall sched,
    (k <= count_of j sched)%nat ->
    option_map c_dec (nth_error (fst (run_sched false (sys_init tables scs) sched)) j)
    = Some (Some (fst (mux_serve true tables sc))).
Proof. exact connections_independent. Qed.
Print Assumptions C19_connections_independent.

(* … hence a function of j's own byte stream only *)
Theorem C19_connections_classified_on_own_stream : forall tables scs j sc,
  tables_wf tables = true ->
  nth_error scs j = Some sc -> good (max_depth_all tables) sc = true ->
  exists k, forall sched,
    (k <= count_of j sched)%nat ->
    option_map c_dec (nth_error (fst (run_sched false (sys_init tables scs) sched)) j)
    = Some (Some (classify tables (stream sc))).
Proof. exact connections_classified_on_own_stream. Qed.
Print Assumptions C19_connections_classified_on_own_stream.

(* at every moment of every schedule a connection is exactly where its own steps alone put it *)
Theorem C19_sched_projection : forall sched cs sb j,
  nth_error (fst (run_sched false (cs, sb) sched)) j =
  option_map (iter (count_of j sched) step1) (nth_error cs j).
Proof. exact sched_projection. Qed.
Print Assumptions C19_sched_projection.

(* what the theorem excludes: a read buffer owned by the tree and shared by all
   matcher calls — A's HTTP "OPTIONS * HTTP/1.1", split after "OPTIONS ", is
   classified on B's "DESCRIBE" and reaches the RTSP service *)
Example C19_shared_buffer_refuted :
  let a := [{| it_data := M_OPTIONS ++ [32]; it_err := 0 |};
            {| it_data := [42;32;72;84;84;80;47;49;46;49;13;10;13;10]; it_err := 0 |}] in
  let b := [{| it_data := M_DESCRIBE ++ [32;114;116;115;112;58;47;47;104;47;120;32;82;84;83;80;47;49;46;48;13;10;13;10];
               it_err := 0 |}] in
  let sched := [0; 1; 0; 0]%nat in
  classify prod_tables (stream a) = DSvc SVC_HTTP /\
  option_map c_dec (nth_error (fst (run_sched false (sys_init prod_tables [a; b]) sched)) 0) = Some (Some (DSvc SVC_HTTP)) /\
  option_map c_dec (nth_error (fst (run_sched true (sys_init prod_tables [a; b]) sched)) 0) = Some (Some (DSvc SVC_RTSP)).
Proof. exact shared_buffer_refuted. Qed.

(* what the service makes of the connection: its reader (bufio over the Conn,
   header block + Content-Length body taken with io.ReadFull) yields the same
   message list for every chunking of the connection's reads … *)
Theorem C19_framed_reader_chunking_independent : forall clen fuel chunks pend,
  read_msgs true clen fuel chunks pend = read_msgs true clen fuel [] (pend ++ concat chunks).
Proof. exact framed_reader_chunking_independent. Qed.
Print Assumptions C19_framed_reader_chunking_independent.

(* … so, end to end: for any two segmentations of the same client byte stream
   (any sniffing sessions, any positive service read sizes, either lastErr
   treatment) the handler-side reader yields the same message list, namely the
   framing of the bytes the client wrote; [clen] is any Content-Length function *)
Theorem C19_service_reads_are_segmentation_independent :
  forall clen fx1 fx2 sc1 sc2 sessions1 sessions2 svc1 svc2 ms1 ms2 rem1 rem2 rs1 rs2 s1 s2,
  stream sc1 = stream sc2 ->
  sniff_run fx1 sc1 sessions1 svc1 = (ms1, rem1, rs1, s1) ->
  sniff_run fx2 sc2 sessions2 svc2 = (ms2, rem2, rs2, s2) ->
  Forall (fun n => (0 < n)%nat) svc1 -> Forall (fun n => (0 < n)%nat) svc2 ->
  (length (stream sc1) + length sc1 <= length svc1)%nat ->
  (length (stream sc2) + length sc2 <= length svc2)%nat ->
  handler_msgs true clen rs1 = frames clen (stream sc1) /\
  handler_msgs true clen rs1 = handler_msgs true clen rs2.
Proof. exact service_reads_are_segmentation_independent. Qed.
Print Assumptions C19_service_reads_are_segmentation_independent.

(* behind Listener.serve: the chosen service receives the whole stream *)
Theorem C19_mux_service_complete : forall tables sc svc i rem0 rs,
  tables_wf tables = true ->
  mux_run true tables sc svc = (DSvc i, rem0, rs) ->
  Forall (fun n => (0 < n)%nat) svc ->
  (length (stream sc) + length sc <= length svc)%nat ->
  delivered rs = stream sc.
Proof. exact mux_service_complete. Qed.
Print Assumptions C19_mux_service_complete.

Theorem C19_frames_no_fuel : forall clen st, snd (frames clen st) <> FinFuel.
Proof. exact frames_no_fuel. Qed.
Print Assumptions C19_frames_no_fuel.

(* what the theorem excludes: the body taken with a single Read of the buffered
   reader — a cut inside the body gives a NUL-padded body and the rest of the
   body is read as the next request *)
Example C19_single_read_body_refuted :
  let hdr := [83;69;84;95;80;65;82;65;77;69;84;69;82;32;42;32;82;84;83;80;47;49;46;48;13;10] ++
             CL_KEY ++ [53;13;10;13;10] in
  let nxt := [79;80;84;73;79;78;83;32;42;32;82;84;83;80;47;49;46;48;13;10;13;10] in
  let body := [97;98;99;100;101] in
  let whole := [hdr ++ body ++ nxt] in
  let cut := [hdr ++ [97;98]; [99;100;101] ++ nxt] in
  read_msgs true clen_simple 9 cut [] = read_msgs true clen_simple 9 whole [] /\
  read_msgs true clen_simple 9 whole [] = ([(hdr, body); (nxt, [])], FinEOF) /\
  read_msgs false clen_simple 9 cut [] = ([(hdr, [97;98;0;0;0]); ([99;100;101] ++ nxt, [])], FinEOF).
Proof. exact single_read_body_refuted. Qed.

Theorem C19_msgs_model_passes : forall clen tables sc,
  tables_wf tables = true -> errfree sc = true ->
  let '(d, views, code) := msgs_run clen tables sc in
  ok_msgs_case clen tables sc d views code = true.
Proof. exact msgs_case_model_passes. Qed.
Print Assumptions C19_msgs_model_passes.

(* the decidable oracles applied to the implementation accept the model *)
Theorem C19_conc_model_passes : forall tables conns,
  tables_wf tables = true -> ok_conc tables conns (conc_run tables conns) = true.
Proof. exact conc_model_passes. Qed.
Print Assumptions C19_conc_model_passes.

Theorem C19_model_passes : forall tables sc svc,
  tables_wf tables = true ->
  let '(d, rem0, rs) := mux_run true tables sc svc in
  ok_serve tables sc svc d (dec_closed d) (dec_handed d) rem0 rs = true.
Proof. exact serve_model_passes. Qed.
Print Assumptions C19_model_passes.

Theorem C19_sniff_model_passes : forall sc sessions svc ms rem0 rs s3,
  sniff_run true sc sessions svc = (ms, rem0, rs, s3) ->
  ok_sniff sc sessions svc ms rem0 rs = true.
Proof. exact sniff_model_passes. Qed.
Print Assumptions C19_sniff_model_passes.

Theorem C19_ptree_model_passes : forall strs inputs, ok_ptree strs inputs (run_ptree strs inputs) = true.
Proof. exact ptree_model_passes. Qed.
Print Assumptions C19_ptree_model_passes.

Theorem C19_loop_model_passes : forall head fill silent,
  let '(d, handed, nrecv, eq) := loop_run head fill silent in
  ok_loop head fill silent d handed nrecv eq = true.
Proof. exact loop_model_passes. Qed.
Print Assumptions C19_loop_model_passes.

(* the defect repaired in /repo (fix: commit): with the original lastErr handling
   a service reading "PO" of "POST *x\r\n" sees EOF and loses the rest *)
Example C19_lasterr_prefix_refuted :
  let sc := [{| it_data := [80;79;83;84;32;42;120;13;10]; it_err := EOF |}] in
  let '(ms, rem0, rs, _) := sniff_run false sc [[16%nat]; [8%nat]] [2%nat; 31%nat] in
  rs = [SOk [80;79] EOF 0; SOk [83;84;32;42;120;13;10] EOF 0] /\
  ok_sniff sc [[16%nat]; [8%nat]] [2%nat; 31%nat] ms rem0 rs = false.
Proof. exact lasterr_prefix_refuted. Qed.

(* non-vacuity of C19_sniff_timeout_not_replayed: "GET /", the sniff deadline
   fires, then the rest arrives; the HTTP matcher takes three more bytes; the HTTP service reads the
   eight sniffed bytes without an error and goes on with the rest *)
Example C19_sniff_timeout_nonvacuous :
  let sc := [{| it_data := [71;69;84;32;47]; it_err := 0 |}; {| it_data := []; it_err := TIMEOUT |};
             {| it_data := [32;72;84;84;80;47;49;46;48;13;10;13;10]; it_err := 0 |}] in
  data_errfree sc = true /\
  mux_run true prod_tables sc [3%nat; 3%nat; 64%nat; 64%nat] =
    (DSvc SVC_HTTP, 10%nat, [SOk [71;69;84] 0 10; SOk [32;47;32] 0 10; SOk [72;84] 0 10;
                             SOk [84;80;47;49;46;48;13;10;13;10] 0 0]).
Proof. vm_compute. split; reflexivity. Qed.

(* non-vacuity: a segmented OPTIONS request satisfies [good], is routed to RTSP
   with the asterisk form and to HTTP otherwise; the service then reads the
   stream from its first byte *)
Example C19_nonvacuous :
  let opt := M_OPTIONS ++ [32;42;32] ++ RTSP_UP ++ [47;49;46;48;13;10;13;10] in
  let sc := [{| it_data := firstn 3 opt; it_err := 0 |}; {| it_data := skipn 3 opt; it_err := 0 |}] in
  let opt2 := M_OPTIONS ++ [32;42;32;72;84;84;80;47;49;46;49;13;10;13;10] in
  good 16 sc = true /\ tables_wf prod_tables = true /\
  mux_run true prod_tables sc [5%nat; 64%nat] =
    (DSvc SVC_RTSP, 6%nat, [SOk (firstn 5 opt) 0 6; SOk (skipn 5 (firstn 16 opt)) 0 6]) /\
  fst (mux_serve true prod_tables [{| it_data := opt2; it_err := 0 |}]) = DSvc SVC_HTTP /\
  fst (mux_serve true prod_tables [{| it_data := [71;69]; it_err := 0 |}; {| it_data := []; it_err := TIMEOUT |}]) = DNone.
Proof. vm_compute. repeat split; reflexivity. Qed.
