(* C02 — late joiners start with the parameter sets and the current GOP, contiguous with live.
   Statements only; proofs are in Proofs/CacheProofs.v (cache laws), Proofs/LtsJoinProofs.v
   (join contiguity in the stream LTS, variant [fixed] = the code with the join mutex) and
   Proofs/C02ClassifyProofs.v (byte-level classification, FLV join timestamps). *)
From Coq Require Import ZArith List Bool.
From V Require Import C08Flv C08Fanout.
From V Require Import StreamLts Cache LtsWire C02Classify CacheProofs LtsJoinProofs C02ClassifyProofs
                      C02FlvProducer C02FlvProducerProofs C02FlvViewers C02FlvViewersProofs C02FanoutJoinProofs
                      LtsOracle C02JoinSeam C02JoinSeamProofs.
Import ListNotations.

(* ---------------- A. what the cache replays ---------------- *)

(* after ANY packet list the cache (CachePack folded over it, then PushTo) replays exactly the
   specification: [VPS] SPS PPS = the last packet of each parameter kind, then (cache_gop on) the
   video packets from the last key-start packet on; nothing else when cache_gop is off *)
Theorem C02_cache_is_spec : forall gopon l,
  rc_snap (fold_left rc_add l (rc_empty gopon)) = spec_snap gopon l.
Proof. exact cache_is_spec. Qed.
Print Assumptions C02_cache_is_spec.

(* nothing is invented *)
Theorem C02_snap_incl : forall gopon l p, In p (spec_snap gopon l) -> In p l.
Proof. exact snap_incl. Qed.
Print Assumptions C02_snap_incl.

(* the parameter part, spelled out: each slot holds the LAST packet of its kind in l (or is
   absent iff no packet of that kind occurs); order VPS, SPS, PPS *)
Theorem C02_snap_params_latest : forall gopon l,
  exists v s p, spec_snap gopon l = opt_list v ++ opt_list s ++ opt_list p ++ (if gopon then gop_of l else []) /\
                latest 5 l v /\ latest 3 l s /\ latest 4 l p.
Proof. exact snap_params_latest. Qed.
Print Assumptions C02_snap_params_latest.

(* the GOP part, spelled out: empty if no key start was seen; otherwise split l at its LAST key
   start k: the GOP is k followed by every later video packet (kinds other than 0, SPS, PPS, VPS) *)
Theorem C02_snap_gop_starts_with_key : forall l,
  ((forall q, In q l -> p_key q = false) /\ gop_of l = []) \/
  (exists l1 k l2, l = l1 ++ k :: l2 /\ p_key k = true /\ (forall q, In q l2 -> p_key q = false) /\
                   gop_of l = k :: filter is_media l2).
Proof. exact snap_gop_starts_with_key. Qed.
Print Assumptions C02_snap_gop_starts_with_key.

(* the cache goes by ARRIVAL order and packet kind only.  The identity of a model packet stands for
   everything else a real packet carries (payload, sequence number, RTP / FLV timestamp); two
   timestamp assignments of one packet list are two kind-preserving relabellings f1, f2 of it, and
   both snapshots are the same selection of positions (the specification), each in its own
   labelling: "most recent" never consults the timestamp field (monotone, wrapped past 2^32,
   decreasing, equal ...) *)
Theorem C02_cache_ignores_timestamps : forall f1 f2,
  (forall p, p_kind (f1 p) = p_kind p) -> (forall p, p_kind (f2 p) = p_kind p) ->
  forall gopon l,
  let sel := spec_snap gopon l in
  rc_snap (fold_left rc_add (map f1 l) (rc_empty gopon)) = map f1 sel /\
  rc_snap (fold_left rc_add (map f2 l) (rc_empty gopon)) = map f2 sel.
Proof. exact cache_ignores_timestamps. Qed.
Print Assumptions C02_cache_ignores_timestamps.

(* ---------------- B. the join is contiguous ---------------- *)

(* lock discipline of the join mutex, any cache implementation, every schedule of a live stream
   (no TClose step): the cache is the fold of what was handed to it; outside the publisher's
   cache+broadcast section cached = sent; an attacher between its snapshot (A1) and its
   registration holds the mutex, so the publisher is outside its section and the snapshot is the
   cache of the sent log *)
Theorem C02_join_lock_discipline :
  forall maxq (cache_t : Type) cache_empty cache_add cache_snap ncons panic_at pkts stoppers sched,
  Forall (fun t => t <> TClose) sched ->
  let s := run fixed maxq cache_t cache_empty cache_add cache_snap ncons panic_at sched
               (init cache_t cache_empty pkts stoppers) in
  s_cache _ s = fold_left cache_add (s_cached _ s) cache_empty /\
  (s_pp _ s <> P2 -> s_cached _ s = s_sent _ s) /\
  (s_pp _ s = P2 ->
     s_lock _ s = Some HPub /\ exists p rest, s_todo _ s = p :: rest /\ s_cached _ s = s_sent _ s ++ [p]) /\
  (forall c, s_att _ s c = A1 ->
     s_lock _ s = Some (HAtt c) /\ s_pp _ s <> P2 /\
     c_prefill (s_cs _ s c) = cache_snap (fold_left cache_add (s_sent _ s) cache_empty)).
Proof. exact join_lock_discipline. Qed.
Print Assumptions C02_join_lock_discipline.

(* any cache implementation: a consumer registered at sent-log length r was pre-filled with the
   cache of exactly sent[0..r), and everything pushed to it afterwards is its own keep/drop
   selection (one flag per packet) of sent[r..u), u = where it was removed (or the end) *)
Theorem C02_join_contiguous_any_cache :
  forall maxq (cache_t : Type) cache_empty cache_add cache_snap ncons panic_at pkts stoppers sched,
  Forall (fun t => t <> TClose) sched ->
  let s := run fixed maxq cache_t cache_empty cache_add cache_snap ncons panic_at sched
               (init cache_t cache_empty pkts stoppers) in
  forall c r, c_regat (s_cs _ s c) = Some r ->
    let k := s_cs _ s c in
    (r <= length (s_sent _ s))%nat /\
    c_prefill k = cache_snap (fold_left cache_add (firstn r (s_sent _ s)) cache_empty) /\
    c_pushed k = c_prefill k ++ jselect (c_keep k) (jwindow (s_sent _ s) r (c_unregat k)) /\
    length (c_keep k) = length (jwindow (s_sent _ s) r (c_unregat k)).
Proof. exact join_contiguous. Qed.
Print Assumptions C02_join_contiguous_any_cache.

(* the H.264 / H.265 cache (and the FLV cache seen through its tag kinds, C02_flv_join_timestamps):
   the queue of the joiner starts with the specification of part A applied to the packets broadcast
   before its registration and continues with the live packets from index r on — no gap, no repeat *)
Theorem C02_join_contiguous :
  forall maxq gopon ncons panic_at pkts stoppers sched,
  Forall (fun t => t <> TClose) sched ->
  let s := run fixed maxq rcache (rc_empty gopon) rc_add rc_snap ncons panic_at sched
               (init rcache (rc_empty gopon) pkts stoppers) in
  forall c r, c_regat (s_cs _ s c) = Some r ->
    let k := s_cs _ s c in
    (r <= length (s_sent _ s))%nat /\
    c_prefill k = spec_snap gopon (firstn r (s_sent _ s)) /\
    c_pushed k = spec_snap gopon (firstn r (s_sent _ s)) ++
                 jselect (c_keep k) (jwindow (s_sent _ s) r (c_unregat k)) /\
    length (c_keep k) = length (jwindow (s_sent _ s) r (c_unregat k)).
Proof. exact join_contiguous_rcache. Qed.
Print Assumptions C02_join_contiguous.

(* on a live stream the sent log is a prefix of what the publisher wrote, so with pairwise distinct
   packets nothing of the replayed part occurs again in the live part *)
Theorem C02_join_no_repeat :
  forall maxq gopon ncons panic_at pkts stoppers sched,
  Forall (fun t => t <> TClose) sched -> NoDup pkts ->
  let s := run fixed maxq rcache (rc_empty gopon) rc_add rc_snap ncons panic_at sched
               (init rcache (rc_empty gopon) pkts stoppers) in
  forall c r, c_regat (s_cs _ s c) = Some r ->
    let k := s_cs _ s c in
    forall p, In p (c_prefill k) -> ~ In p (jselect (c_keep k) (jwindow (s_sent _ s) r (c_unregat k))).
Proof. exact join_no_repeat_rcache. Qed.
Print Assumptions C02_join_no_repeat.

(* ANY replay length, ANY queue limit ([maxq] is quantified and constrained by nothing): right
   after the replayed part the joiner is handed every live packet up to the next key start — the
   rest of the GOP it was replayed — whether or not it drains its queue; while no key start has
   been broadcast since it registered it is not in discarding mode and what was pushed to it is
   exactly  replay ++ live packets from the registration point on.  (The queue limit acts only at a
   key start, C04; a replay longer than the limit must not count against the joiner.) *)
Theorem C02_join_contiguous_any_replay_length :
  forall maxq gopon ncons panic_at pkts stoppers sched,
  Forall (fun t => t <> TClose) sched ->
  let s := run fixed maxq rcache (rc_empty gopon) rc_add rc_snap ncons panic_at sched
               (init rcache (rc_empty gopon) pkts stoppers) in
  forall c r, c_regat (s_cs _ s c) = Some r ->
    let k := s_cs _ s c in
    let w := jwindow (s_sent _ s) r (c_unregat k) in
    let n := length (nk w) in
    c_pushed k = spec_snap gopon (firstn r (s_sent _ s)) ++ nk w ++ jselect (skipn n (c_keep k)) (skipn n w) /\
    (nk w = w -> c_disc k = false /\ c_pushed k = spec_snap gopon (firstn r (s_sent _ s)) ++ w).
Proof. exact join_contiguous_any_replay_length_rcache. Qed.
Print Assumptions C02_join_contiguous_any_replay_length.

(* the seam oracle applied to the implementation (stream "join-replay-longer-than-limit") accepts
   the model for every case, every queue limit *)
Theorem C02_seam_model_passes : forall c : lcase, seam_ok c (obs_of_state (l_n c) (lrun c)) = true.
Proof. exact seam_model_passes. Qed.
Print Assumptions C02_seam_model_passes.

(* the code before the join mutex (variant [original]) violates both directions — D1 *)
Theorem C02_join_repeat_refuted :
  let s := lrun d1_repeat in let k := s_cs _ s 0 in
  let p1 := {| p_id := 1; p_kind := 3 |} in
  c_regat k = Some 0%nat /\ s_sent _ s = [p1] /\
  c_prefill k = [p1] /\ c_prefill k <> spec_snap true (firstn 0 (s_sent _ s)) /\
  c_out k = [p1; p1].
Proof. exact join_repeat_refuted. Qed.
Print Assumptions C02_join_repeat_refuted.

Theorem C02_join_gap_refuted :
  let s := lrun d1_gap in let k := s_cs _ s 0 in
  let p1 := {| p_id := 1; p_kind := 2 |} in
  c_regat k = Some 1%nat /\ s_sent _ s = [p1] /\ c_reg k = true /\
  spec_snap true (firstn 1 (s_sent _ s)) = [p1] /\ c_prefill k = [] /\ c_pushed k = [].
Proof. exact join_gap_refuted. Qed.
Print Assumptions C02_join_gap_refuted.

(* ---------------- C. bytes to packet kinds ---------------- *)

(* single NAL unit packets (>= 3 bytes), aggregation packets (STAP-A / AP) of any units,
   fragmentation units (FU-A / FU) with any piece sizes >= 1, H.264 and H.265: the caches classify
   every packet as [expected] says — a unit by its class (SPS / PPS / VPS / key start for IDR and
   IRAP / plain), an aggregation packet by the highest-priority class inside, the FIRST fragment by
   the class of the fragmented unit and every other fragment as plain video *)
Theorem C02_classify_packetisation : forall c f,
  pform_ok c f = true -> map (classify c 0) (packetise c f) = map CK (expected c f).
Proof. exact classify_packetisation. Qed.
Print Assumptions C02_classify_packetisation.

(* the property's two aggregation cases *)
Theorem C02_agg_single_class : forall c nal, agg_class c [nal] = nal_class c nal.
Proof. exact agg_single_class. Qed.
Print Assumptions C02_agg_single_class.

Theorem C02_agg_params_class : forall c nals,
  nals <> [] -> agg_only_params c nals = true -> is_param_class (agg_class c nals) = true.
Proof. exact agg_params_class. Qed.
Print Assumptions C02_agg_params_class.

(* for EVERY byte string on every channel the caches classify the packet: no index out of range
   (the repair of D11 in /repo: 5bcf7ee, 3483165) and the fuel of the aggregation scan is never
   used up; the kind is one of 0..5 *)
Theorem C02_classify_total : forall c ch payload, exists k, classify c ch payload = CK k.
Proof. exact classify_total. Qed.
Print Assumptions C02_classify_total.

Theorem C02_classify_kind_range : forall c ch payload k,
  classify c ch payload = CK k -> (0 <= k <= 5)%Z.
Proof. exact classify_kind_range. Qed.
Print Assumptions C02_classify_kind_range.

Theorem C02_classify_no_fuel : forall c ch payload, classify c ch payload <> CFuel.
Proof. exact classify_no_fuel. Qed.
Print Assumptions C02_classify_no_fuel.

(* FLV: the header copies carry the timestamp of the first replayed media tag (0 if none), the
   cache and the media tags are untouched, and which tags are replayed is the specification of
   part A on the tag kinds (5 metadata, 3 video sequence header, 4 audio sequence header, 2 key) *)
Theorem C02_flv_join_timestamps : forall gopon tags,
  (forall t, In t tags -> t_kind t <> 0%Z) ->
  let c := fold_left fc_add tags (fc_empty gopon) in
  let hdrs := opt_list (fc_meta c) ++ opt_list (fc_vsh c) ++ opt_list (fc_ash c) in
  let ts0 := match fc_gop c with [] => 0%Z | t :: _ => t_ts t end in
  fst (fc_push c) = c /\
  snd (fc_push c) = map (restamp ts0) hdrs ++ fc_gop c /\
  (forall t, In t (map (restamp ts0) hdrs) -> t_ts t = ts0) /\
  (forall t, In t hdrs \/ In t (fc_gop c) -> In t tags) /\
  map ftag_pkt (snd (fc_push c)) = spec_snap gopon (map ftag_pkt tags).
Proof. exact flv_join_timestamps. Qed.
Print Assumptions C02_flv_join_timestamps.

(* the oracles applied to the implementation accept the model on every case *)
Theorem C02_classify_model_passes : forall c gopon pkts,
  cc_ok c gopon pkts (cc_kinds c pkts) (cc_pushed gopon (cc_kinds c pkts)) = true.
Proof. exact classify_model_passes. Qed.
Print Assumptions C02_classify_model_passes.

Theorem C02_flv_model_passes : forall gopon tags,
  let kinds := flv_kinds tags in let tss := flv_tss tags in
  flv_ok gopon tags kinds (map (fun t => (t_id t, t_ts t)) (flv_pushed gopon kinds tss)) tss = true.
Proof. exact flv_model_passes. Qed.
Print Assumptions C02_flv_model_passes.

(* ---------------- D. where the FLV key flag comes from ---------------- *)

(* the FLV cache restarts its GOP at a tag whose frame-type nibble says "key frame"; the nibble is
   written by the FLV packetizers (model of C08) from the NAL unit type.  Composition: the tag the
   packetizer writes for a video frame is a key start for the cache (kind 2) iff the unit is an IDR
   (H.264 type 5) / IRAP (H.265 types 16..21) picture — the same class the RTP caches use — and a
   plain media tag (kind 1) otherwise *)
Theorem C02_flv_key_from_nal : forall c f b rest,
  f_kind f = 0%Z -> f_data f = b :: rest -> byte_ok b = true ->
  exists t, packetize c f = Some [t] /\
            tag_kind t = (if Z.eqb (nal_class (if c_hevc c then H265 else H264) (b :: rest)) 2 then 2 else 1)%Z.
Proof. exact flv_key_from_nal_class. Qed.
Print Assumptions C02_flv_key_from_nal.

(* everything the muxer writes for a stream with known parameter sets: metadata (5), video
   sequence header (3), audio sequence header (4, with AAC), then per frame 2 / 1 as above *)
Theorem C02_flv_mux_kinds : forall c fs v,
  fs <> [] -> sets_known c = true -> vseq_tag c = Some v ->
  map tag_kind (mux c fs) = config_kinds c ++ frame_kinds c fs.
Proof. exact mux_kinds. Qed.
Print Assumptions C02_flv_mux_kinds.

(* with cache_is_spec: after any frame list the FLV cache replays the specification of part A on
   those kinds — the latest configuration tags, then the tags from the last IDR / IRAP frame on *)
Theorem C02_flv_gop_after_frames : forall c fs v,
  fs <> [] -> sets_known c = true -> vseq_tag c = Some v ->
  let tags := mux c fs in
  let ft := ftags_from 0 (map tag_kind tags) (map C08Flv.t_ts tags) in
  map C02Classify.t_kind ft = config_kinds c ++ frame_kinds c fs /\
  map ftag_pkt (snd (fc_push (fold_left fc_add ft (fc_empty true)))) = spec_snap true (map ftag_pkt ft).
Proof. exact flv_gop_after_frames. Qed.
Print Assumptions C02_flv_gop_after_frames.

Theorem C02_flv_producer_model_passes : forall hevc aac fs,
  let kinds := prod_kinds hevc aac fs in let tss := prod_tss hevc aac fs in
  prod_ok hevc aac fs kinds
          (map (fun t => (C02Classify.t_id t, C02Classify.t_ts t)) (flv_pushed true kinds tss)) tss = true.
Proof. exact prod_model_passes. Qed.
Print Assumptions C02_flv_producer_model_passes.

(* ---------------- E. the join replay is a function of the published tags only ---------------- *)

(* the FLV tags are shared objects (cache, every consumer's queue, every replay hold the same
   reference).  In the shared-reference world model of C08 (Model/C08Fanout.v), for every tag
   store and every schedule [pre ++ EAttach :: post] of deliveries, attachments and runs of ANY
   client's flv.Writer: the tags are unchanged, the client attached after [pre] was handed exactly
   PushTo of the cache of the tags delivered in [pre] followed by the tags delivered in [post] —
   an expression in which no other consumer occurs — and its byte stream is what one fresh writer
   makes of those tags *)
Theorem C02_flv_join_independent_of_viewers : forall store pre post,
  let sched := pre ++ EAttach :: post in
  let handed := push_to store (cache_after store pre) ++ map QRef (delivs post) in
  fst (fan_run store sched) = store /\
  nth (attaches pre) (fan_hist store sched) [] = handed /\
  nth (attaches pre) (snd (fan_run store sched)) [] = write_tags w_init (map (resolve store) handed).
Proof. exact flv_join_independent_of_viewers. Qed.
Print Assumptions C02_flv_join_independent_of_viewers.

(* the prediction of the correspondence stream "flv-join-next-to-viewers" does not mention the
   viewers, and its oracle (every replay, read at the join and again at the end, is the cache
   specification over the published prefix — C02_flv_join_timestamps — and the published tags are
   unchanged) accepts it *)
Theorem C02_flv_viewers_ignored : forall gopon tags evs n,
  viewers_joins gopon tags n evs = viewers_joins gopon tags n (strip_viewers evs).
Proof. exact viewers_joins_ignore_viewers. Qed.
Print Assumptions C02_flv_viewers_ignored.

Theorem C02_flv_viewers_model_passes : forall gopon tags evs,
  viewers_ok gopon tags evs
    (map (fun r => (r, r)) (viewers_joins gopon tags O evs))
    (map (fun t => (snd (fst t), snd t)) tags) = true.
Proof. exact viewers_model_passes. Qed.
Print Assumptions C02_flv_viewers_model_passes.

(* ---------------- non-vacuity ---------------- *)

(* a live-stream schedule (no TClose) on the repaired code in which consumer 0 joins after SPS, PPS
   and a key packet, is registered at r = 3, gets them replayed and then the next packet live *)
Definition c02_nv_case : lcase :=
  {| l_var := fixed; l_n := 1; l_maxq := 5; l_gop := true;
     l_pkts := [ {| p_id := 1; p_kind := 3 |}; {| p_id := 2; p_kind := 4 |};
                 {| p_id := 3; p_kind := 2 |}; {| p_id := 4; p_kind := 1 |} ];
     l_stop := [false];
     l_sched := [TPub; TPub; TPub; TPub; TPub; TPub; TPub; TPub; TPub;
                 TAtt 0; TAtt 0; TAtt 0; TPub; TPub; TPub];
     l_panic := [O] |}.

(* queue limit 1; SPS PPS key v v are published, the consumer joins (replay of 5 > 1), two more
   packets of the same GOP are published, the consumer never runs *)
Definition c02_nv_long : lcase :=
  {| l_var := fixed; l_n := 1; l_maxq := 1; l_gop := true;
     l_pkts := [ {| p_id := 1; p_kind := 3 |}; {| p_id := 2; p_kind := 4 |}; {| p_id := 3; p_kind := 2 |};
                 {| p_id := 4; p_kind := 1 |}; {| p_id := 5; p_kind := 1 |}; {| p_id := 6; p_kind := 1 |};
                 {| p_id := 7; p_kind := 1 |} ];
     l_stop := [false];
     l_sched := repeat TPub 15 ++ [TAtt 0; TAtt 0; TAtt 0] ++ repeat TPub 6;
     l_panic := [O] |}.

Example C02_nonvacuous_replay_longer_than_limit :
  Forall (fun t => t <> TClose) (l_sched c02_nv_long) /\
  (let s := lrun c02_nv_long in let k := s_cs _ s 0 in
   c_regat k = Some 5%nat /\ (l_maxq c02_nv_long < length (c_prefill k))%nat /\
   nk (jwindow (s_sent _ s) 5 (c_unregat k)) = jwindow (s_sent _ s) 5 (c_unregat k) /\
   map p_id (c_pushed k) = [1; 2; 3; 4; 5; 6; 7]%Z /\ c_disc k = false /\
   seam_ok c02_nv_long (obs_of_state 1 s) = true).
Proof.
  split.
  - repeat constructor; discriminate.
  - vm_compute. repeat split; try reflexivity. repeat constructor.
Qed.

Example C02_nonvacuous :
  Forall (fun t => t <> TClose) (l_sched c02_nv_case) /\
  (let k := s_cs _ (lrun c02_nv_case) 0 in
   c_regat k = Some 3%nat /\
   map p_id (c_prefill k) = [1; 2; 3]%Z /\ map p_id (c_pushed k) = [1; 2; 3; 4]%Z) /\
  (* every packetisation form satisfies the hypothesis of C02_classify_packetisation *)
  pform_ok H264 (PSingle [101; 136; 132]%Z) = true /\
  pform_ok H264 (PAgg 96 0 [[103; 66; 0]; [104; 206]]%Z) = true /\
  pform_ok H265 (PFrag [38; 1; 175; 8; 64; 9]%Z [1; 3]%nat) = true /\
  map (classify H265 0) (packetise H265 (PFrag [38; 1; 175; 8; 64; 9]%Z [1; 3]%nat)) = [CK 2; CK 1] /\
  (* H.265 IDR, trailing picture, CRA (type 21), trailing picture through the muxer model: the CRA
     frame restarts the GOP *)
  (sets_known (prod_cfg true false) = true /\
   prod_kinds true false [mkFrame 0 0 0 [38; 1; 7]; mkFrame 0 40000000 40000000 [2; 1; 7];
                          mkFrame 0 80000000 80000000 [42; 1; 7]; mkFrame 0 120000000 120000000 [2; 1; 7]]%Z
     = [5; 3; 2; 1; 2; 1]%Z) /\
  (* a joiner after a key frame at source time 100000 and one inter frame, next to a viewer that
     has written both: headers restamped 100000, the two media tags with their published times *)
  map (fun x => (fst (fst x), snd (fst x)))
      (nth 0 (viewers_joins true [(9, 0, [23; 0; 1]); (9, 100000, [23; 1; 7]); (9, 100040, [39; 1; 8])]%Z O
                            [VAttach; VPub; VPub; VPub; VView 0 3; VJoin]) [])
    = [(0, 100000); (1, 100000); (2, 100040)]%Z.
Proof.
  split.
  - repeat constructor; discriminate.
  - vm_compute. repeat split; reflexivity.
Qed.

(* ---------------- D. the oracle of the stream replay ---------------- *)

(* [ok_C02] (Model/LtsOracle.v) is the boolean function that bin/check applies to (case,
   observation of the real media.Stream after the case's schedule) in the stream
   "join-at-every-prefix".  When the schedule has no close step (hypothesis of C02_join_contiguous)
   and the queue limit is at least 2 * |pkts| + 4 (then nothing can be dropped for backlog,
   C02_nothing_dropped_when_limit_large) it demands of every consumer: there is an r such that the
   delivered ids are a prefix of
       ids (spec_snap gopon (first r published packets)) ++ ids (published packets from index r on)
   i.e. the replay is exactly the specification of part A after r packets and the live part is a
   contiguous run of the published list starting at index r - no gap, no repeat. *)
From V Require Import LtsOracle LtsOracleProofs LtsOracleC02Proofs.

Theorem C02_nothing_dropped_when_limit_large :
  forall gopon maxq ncons panic_at pkts stoppers sched c,
  (2 * length pkts + 4 <= maxq)%nat ->
  let k := s_cs _ (run fixed maxq rcache (rc_empty gopon) rc_add rc_snap ncons panic_at sched
                       (init rcache (rc_empty gopon) pkts stoppers)) c in
  c_disc k = false /\ forallb (fun b => b) (c_keep k) = true.
Proof.
  exact (fun g maxq n pa pkts stoppers sched c H =>
           conj (nd_disc _ (proj1 (reachable_NI g maxq n pa pkts stoppers sched H c)))
                (nd_keep _ (proj1 (reachable_NI g maxq n pa pkts stoppers sched H c)))).
Qed.
Print Assumptions C02_nothing_dropped_when_limit_large.

Theorem C02_model_passes : forall c : lcase,
  l_var c = fixed -> ok_C02 c (obs_of_state (l_n c) (lrun c)) = true.
Proof. exact LtsOracleC02Proofs.C02_model_passes. Qed.
Print Assumptions C02_model_passes.

Theorem C02_oracle_decodes_the_wire : forall n (s : lstate),
  dec_obs (enc_state n s) = obs_of_state n s.
Proof. exact dec_enc_obs. Qed.
Print Assumptions C02_oracle_decodes_the_wire.

Theorem C02_model_passes_on_the_wire : forall v,
  l_var (dec_lcase v) = fixed -> ok_C02 (dec_lcase v) (dec_obs (lts_run v)) = true.
Proof. exact C02_wire_model_passes. Qed.
Print Assumptions C02_model_passes_on_the_wire.
