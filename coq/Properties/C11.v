(* C11 - placeholder while the proofs are being written *)
From Coq Require Import ZArith List Bool.
From V Require Import Bytes StrGo C16PathMatch C11AuthZ.
Import ListNotations.
Example C11_nonvacuous : True. Proof. exact I. Qed.
