(* C11 — authorisation holds on every entry point and follows the rights currently saved.
   [step] / [run] mirror the repaired code (provider/auth, service/apis.go, streamapis.go,
   service/rtsp, service/wsp, flv, hls); [identity], [rights_now], [spec_allows], [spec_access]
   are the reference monitor: who the caller is (valid access token / right digest / the user a
   WebSocket upgrade verified), the rights as last saved, the documented pattern language of C16,
   token validity as a function of the login / refresh / clock history.  [reachable w s]: s is the
   state after any history of saves, deletes, ticks, logins, refreshes and requests.
   Statements only; proofs are in Proofs/C11AuthZProofs.v.  No guards: the theorems hold for all
   histories (MD5 collision freedom, unguessable tokens and ASCII are assumptions of the model). *)
From Coq Require Import ZArith List Bool.
From V Require Import Bytes StrGo C16PathMatch C11AuthZ C11AuthZProofs.
Import ListNotations.
Open Scope Z_scope.

(* served(resource) => permit(user, canonical resource).  The reference monitor [allowed] decides on the resource
   that is actually served: the registry key served_key p = canonical_path p of the path p the entry point hands
   to the lookup (RTSP: CanonicalPath of the request URL or the session path; /streams/ URLs: the canonical
   stream path, for a segment without its sequence number; WSP / ws-rtsp: the session path), not on the spelling
   the permission check is given.  ev_ok: the pattern language and the registry read p as the same resource
   (false only for a blank-edged dot segment; the finding that rested on it is fixed, C11_unsettled_path_fixed). *)
Theorem C11_served_requires_permit : forall w s ev,
  reachable w s ->
  let o := snd (step w s ev) in
  is_request ev = true -> fst (target s ev) = APull -> url_ok ev = true ->
  granted ev o = true -> keepalive s ev = false ->
  exists u r, identity s ev = Some u /\ rights_now (users s) u = Some r /\
              permits r PULL (served_key (snd (target s ev))) = true.
Proof. exact served_requires_permit_always. Qed.
Print Assumptions C11_served_requires_permit.

Theorem C11_published_requires_permit : forall w s ev,
  reachable w s ->
  let o := snd (step w s ev) in
  (match ev with ERtsp _ _ _ _ | EWsRtsp _ _ _ => True | _ => False end) ->
  zlist_eqb (o_reg o) (reg_view w (reg s)) = false ->
  exists u r, identity s ev = Some u /\ rights_now (users s) u = Some r /\
              fst (target s ev) = APush /\ permits r PUSH (served_key (snd (target s ev))) = true.
Proof. exact published_requires_permit_always. Qed.
Print Assumptions C11_published_requires_permit.

(* what is served is the resource the decision was about: whenever a description or media stream reaches an RTSP,
   ws-rtsp or WSP client identifiably (o_aux = position of its registry key in the watch list), it is the stream
   registered under served_key of the request's target path, unless the session was already playing *)
Theorem C11_served_is_the_decided_resource : forall w s ev, judge_src w s ev (snd (step w s ev)) = true.
Proof. exact step_src. Qed.
Print Assumptions C11_served_is_the_decided_resource.

(* since CanonicalPath is idempotent (Proofs/CanonProofs.v, /repo 1c2de2b) the class ev_ok is everything: every path a
   reachable state hands to a permission check is a canonical path, which the pattern language and the registry read
   as the same resource; the strict oracle accepts the model on every history *)
Theorem C11_guard_always_holds : forall w s ev, reachable w s -> url_ok ev = true -> ev_ok s ev = true.
Proof. exact ev_ok_reachable. Qed.
Print Assumptions C11_guard_always_holds.

Theorem C11_model_passes_strict : forall w users0 ext evs,
  forallb url_ok evs = true ->
  ok_run_strict w (state0 users0 ext) evs (run w (state0 users0 ext) evs) = true.
Proof. exact model_passes_strict. Qed.
Print Assumptions C11_model_passes_strict.

(* url_ok is trivially true except for an arbitrary URL (EUrl) whose extension is exactly ".ts": there the
   interceptor checks the canonical stream path cut before its last element, and url_ok says that this path reads the
   same in the pattern language and in the registry (computed by the oracle for every generated URL) *)
Theorem C11_url_ok_not_ts : forall u t h, bytes_eqb (path_ext u) EXT_TS = false -> url_ok (EUrl u t h) = true.
Proof. exact url_ok_not_ts. Qed.
Print Assumptions C11_url_ok_not_ts.

(* the /streams/ front end reads a URL twice, by separate code: permissionInterceptor (which path the right is checked
   on: url_icp) and onStreamsRequest + hls.GetTS (which stream, kind and sequence number are served: url_handler).
   They agree on every URL: whenever the handler serves something, it is of the very path the interceptor checked *)
Theorem C11_url_derivations_agree : forall u kind p n,
  url_handler false true u = HServe kind p n -> url_icp true u = p.
Proof. exact url_derivations_agree. Qed.
Print Assumptions C11_url_derivations_agree.

(* served HTTP resource (stream, kind) => permit on that stream's canonical path, for every URL spelling *)
Theorem C11_url_served_requires_permit : forall w s u t h kind p n,
  reachable w s -> url_ok (EUrl u t h) = true ->
  o_code (snd (step w s (EUrl u t h))) = 200 ->
  url_handler false true u = HServe kind p n ->
  exists v r, token_identity s t = Some v /\ rights_now (users s) v = Some r /\
              permits r PULL (canonical_path p) = true.
Proof. exact url_served_requires_permit. Qed.
Print Assumptions C11_url_served_requires_permit.

(* dispatch on the lower-cased extension (not the code): /streams/a/b/3.TS is decided on /a/b/3 and serves segment 3 of
   /a/b; the oracle's source clause fails.  The code answers 404 there and 403 for the lower-case spelling *)
Theorem C11_url_ext_case_refuted :
  url_handler true true u_TS = HServe 2 p_ab 3 /\ url_icp true u_TS = p_ab3 /\
  o_code (snd (step_url_gen true true w2 s5 u_TS (TA 0) [])) = 200 /\
  judge w2 s5 (EUrl u_TS (TA 0) []) (snd (step_url_gen true true w2 s5 u_TS (TA 0) [])) &&
  judge_src w2 s5 (EUrl u_TS (TA 0) []) (snd (step_url_gen true true w2 s5 u_TS (TA 0) [])) = false /\
  o_code (snd (step w2 s5 (EUrl u_TS (TA 0) []))) = 404 /\
  o_code (snd (step w2 s5 (EUrl u_ts_lower (TA 0) []))) = 403.
Proof. exact url_ext_case_refuted. Qed.
Print Assumptions C11_url_ext_case_refuted.

(* two spellings with the same segments are the same path to the documented language; hence on ev_ok the decision
   on the path the code checks is the decision on the served resource *)
Theorem C11_same_segments_same_decision : forall admin r p q,
  same_segs p q = true -> spec_permit admin r p = spec_permit admin r q.
Proof. exact spec_permit_same_segs. Qed.
Print Assumptions C11_same_segments_same_decision.

(* former known finding (one pass of CanonicalPath is not idempotent, cf. C18), fixed in /repo by
   "fix: CanonicalPath is idempotent": on the former witness the right is now checked on "/a", the path served;
   eve is refused and the strict oracle holds *)
Theorem C11_unsettled_path_fixed :
  ok_run_strict w2 s2 unsettled_evs (run w2 s2 unsettled_evs) = true /\
  ok_run w2 s2 unsettled_evs (run w2 s2 unsettled_evs) = true /\
  map o_code (run w2 s2 unsettled_evs) = [0; 403] /\
  spec_allows (users s2) (u_name (mk_eve)) APull (w2_a) = false.
Proof. exact unsettled_path_fixed. Qed.
Print Assumptions C11_unsettled_path_fixed.

(* before the repair of extractStreamPathAndExt the right was checked on the URL spelling *)
Theorem C11_url_spelling_refuted :
  ok_run w2 s3 spelled_evs (run_gen false w2 s3 spelled_evs) = false /\
  map o_code (run_gen false w2 s3 spelled_evs) = [200; 101] /\
  map o_code (run w2 s3 spelled_evs) = [403; 403] /\
  ok_run w2 s3 spelled_evs (run w2 s3 spelled_evs) = true.
Proof. exact url_spelling_refuted. Qed.
Print Assumptions C11_url_spelling_refuted.

(* the same statement about the path the code's permission check is given *)
(* media (its description, the upgrade that leads to it) goes only to a caller authenticated as a user whose
   rights, as saved now, cover exactly that path for pulling — RTSP, ws-rtsp, WSP, HTTP-FLV, ws-FLV, m3u8, ts *)
Theorem C11_media_requires_pull : forall w s ev,
  reachable w s ->
  let o := snd (step w s ev) in
  is_request ev = true -> fst (target s ev) = APull ->
  granted ev o = true -> keepalive s ev = false ->
  exists u r, identity s ev = Some u /\ rights_now (users s) u = Some r /\
              permits r PULL (snd (target s ev)) = true.
Proof. exact media_requires_pull. Qed.
Print Assumptions C11_media_requires_pull.

(* a WSP data channel gets media only as the verified user of its control channel, holding the pull right *)
Theorem C11_data_channel_requires_owner_and_pull : forall w s path t chan h,
  reachable w s ->
  let o := snd (step w s (EWsOpen 2 path t chan h)) in
  (o_media o = true \/ o_aux o = 200) ->
  exists u r, token_identity s t = Some u /\ u = c_user (get_conn s chan) /\
              rights_now (users s) u = Some r /\ permits r PULL (c_path (get_conn s chan)) = true.
Proof. exact data_channel_requires_owner_and_pull. Qed.
Print Assumptions C11_data_channel_requires_owner_and_pull.

(* a stream is published or replaced only by a RECORD of a caller whose rights, as saved now, cover it for pushing *)
Theorem C11_publish_requires_push : forall w s ev,
  reachable w s ->
  let o := snd (step w s ev) in
  (match ev with ERtsp _ _ _ _ | EWsRtsp _ _ _ => True | _ => False end) ->
  zlist_eqb (o_reg o) (reg_view w (reg s)) = false ->
  exists u r, identity s ev = Some u /\ rights_now (users s) u = Some r /\
              fst (target s ev) = APush /\ permits r PUSH (snd (target s ev)) = true.
Proof. exact publish_requires_push. Qed.
Print Assumptions C11_publish_requires_push.

Theorem C11_registry_changes_only_by_sessions : forall w s ev,
  (match ev with ERtsp _ _ _ _ | EWsRtsp _ _ _ => False | _ => True end) ->
  reg (fst (step w s ev)) = reg s.
Proof. exact registry_changes_only_by_sessions. Qed.
Print Assumptions C11_registry_changes_only_by_sessions.

(* management calls succeed only for administrators; stream queries for any authenticated caller *)
Theorem C11_api_requires_admin : forall w s ep t u b n h,
  reachable w s ->
  ep_open ep = false ->
  o_code (snd (step w s (EApi ep t u b n h))) = 2 ->
  exists v, token_identity s t = Some v /\
            (ep_read ep = false -> exists push pull, rights_now (users s) v = Some (true, push, pull)).
Proof. exact api_requires_admin. Qed.
Print Assumptions C11_api_requires_admin.

(* a caller without identity (no / invalid / expired / superseded / refresh-only token, wrong digest) is told so
   and handed nothing (a session already playing keeps playing) *)
Theorem C11_bad_tokens_refused : forall w s ev,
  reachable w s -> is_request ev = true -> identity s ev = None ->
  unauth_code ev (snd (step w s ev)) = true /\ granted ev (snd (step w s ev)) = false \/
  keepalive s ev = true.
Proof. exact bad_tokens_refused. Qed.
Print Assumptions C11_bad_tokens_refused.

Theorem C11_token_classes_without_identity : forall gs now,
  spec_access gs now TNone = None /\
  (forall b, spec_access gs now (TRaw b) = None) /\
  (forall k, spec_access gs now (TR k) = None) /\
  (forall k, (length gs <= k)%nat -> spec_access gs now (TA k) = None) /\
  (forall k g, nth_error gs k = Some g -> g_t0 g + A_LIFE <= now -> spec_access gs now (TA k) = None) /\
  (forall k g, nth_error gs k = Some g -> g_dead g = true -> spec_access gs now (TA k) = None).
Proof. exact token_classes_without_identity. Qed.
Print Assumptions C11_token_classes_without_identity.

Theorem C11_refresh_supersedes : forall s k g,
  tok_inv s -> nth_error (grants s) k = Some g -> g_dead g = false ->
  forall now', spec_access (grants (fst (refresh s (TR k)))) now' (TA k) = None.
Proof. exact refresh_supersedes. Qed.
Print Assumptions C11_refresh_supersedes.

(* the implementation's token map (two entries per issue, deleted on refresh) decides exactly the reference validity *)
Theorem C11_access_check_is_spec : forall w s t,
  reachable w s -> access_check s t = spec_access (grants s) (now s) t.
Proof. intros w s t H. apply access_check_spec. eapply reachable_tok_inv; eauto. Qed.
Print Assumptions C11_access_check_is_spec.

(* callers who hold the right are not refused *)
Theorem C11_holder_not_refused : forall w s ev,
  reachable w s -> is_request ev = true -> url_ok ev = true ->
  allowed s ev = true -> feasible w s ev = true ->
  accepted ev (snd (step w s ev)) = true.
Proof. exact holder_of_served_not_refused_always. Qed.
Print Assumptions C11_holder_not_refused.

(* the rights are those last saved: after a save exactly the saved ones, after a delete none, others untouched;
   and decisions see the table only through Get, whatever history of saves and deletes produced it *)
Theorem C11_rights_now_after_save : forall t u upd,
  rights_now (save_user t u upd) (u_name u) =
  Some (u_admin u, admin_default (u_admin u) (u_push u), admin_default (u_admin u) (u_pull u)).
Proof. exact rights_now_after_save. Qed.
Print Assumptions C11_rights_now_after_save.

Theorem C11_rights_now_after_del : forall t name, rights_now (del_user t name) name = None.
Proof. exact rights_now_after_del. Qed.
Print Assumptions C11_rights_now_after_del.

Theorem C11_rights_are_current : forall w s t2 ev,
  same_table (users s) t2 ->
  snd (step w (with_users s t2) ev) = snd (step w s ev) /\
  same_table (users (fst (step w s ev))) (users (fst (step w (with_users s t2) ev))) /\
  with_users (fst (step w s ev)) (users (fst (step w (with_users s t2) ev))) = fst (step w (with_users s t2) ev).
Proof. exact rights_are_current. Qed.
Print Assumptions C11_rights_are_current.

(* the permission check of the code is the documented language on the rights as saved now (uses C16) *)
Theorem C11_permission_check_is_spec : forall t name right path,
  perm_go t name right path =
  match rights_now t name with Some r => permits r right path | None => false end.
Proof. exact perm_go_spec. Qed.
Print Assumptions C11_permission_check_is_spec.

(* what clients other than the holder are shown does not depend on the entropy the tokens are made of *)
Theorem C11_token_not_computable : forall rnd1 rnd2 w s evs,
  others_view (run_out rnd1 w s evs) = others_view (run_out rnd2 w s evs).
Proof. exact token_not_computable. Qed.
Print Assumptions C11_token_not_computable.

(* the identity every decision uses is the token's user: a request carrying arbitrary client-chosen headers
   (copies of the internal user_name_in_token header in any spelling, duplicated) is decided exactly as the same
   request without them, state and answer; over whole histories too *)
Theorem C11_identity_is_token_user : forall w s ev, step w s ev = step w s (strip_hdrs ev).
Proof. exact identity_is_token_user. Qed.
Print Assumptions C11_identity_is_token_user.

Theorem C11_run_ignores_client_headers : forall w s evs, run w s evs = run w s (map strip_hdrs evs).
Proof. exact run_ignores_client_headers. Qed.
Print Assumptions C11_run_ignores_client_headers.

(* Header.Add instead of Header.Set: Get returns the client's copy; a plain user naming the administrator is served
   a path outside his rights and passes the administrator check (the last two clauses: the code as it is refuses) *)
Theorem C11_identity_header_add_refuted :
  ident_hdr true forged n_bob = n_root /\
  stream_gate_h true true s1 (TA 0) p_x None [] = (403, n_bob) /\
  stream_gate_h true true s1 (TA 0) p_x None forged = (200, n_root) /\
  api_gate_h true s1 EP_USERS (TA 0) [] = 403 /\
  api_gate_h true s1 EP_USERS (TA 0) forged = 2 /\
  stream_gate true s1 (TA 0) p_x None forged = (403, n_bob) /\
  api_gate s1 EP_USERS (TA 0) forged = 403.
Proof. exact identity_header_add_refuted. Qed.
Print Assumptions C11_identity_header_add_refuted.

(* the oracle applied to the implementation accepts the model on every history *)
Theorem C11_model_passes : forall w users0 ext evs,
  ok_run w (state0 users0 ext) evs (run w (state0 users0 ext) evs) = true.
Proof. exact model_passes_served. Qed.
Print Assumptions C11_model_passes.

(* the code before the repairs *)
Theorem C11_token_predictable_refuted : forall (h : Z -> bytes) (disclosed_id ids_between : Z),
  predict h disclosed_id ids_between = tokens_orig h (disclosed_id + ids_between).
Proof. exact token_predictable_refuted. Qed.
Print Assumptions C11_token_predictable_refuted.

Theorem C11_narrowed_rights_still_grant_refuted :
  exists a1 a2 p, spec_permit false a2 p = false /\ validate_matchers (matchers_after_saves [a1; a2]) p = true.
Proof. exact narrowed_rights_still_grant_refuted. Qed.
Print Assumptions C11_narrowed_rights_still_grant_refuted.

Theorem C11_prefix_behaviour_refuted :
  exists evs1 evs2 evs3 evs4 evs5,
    refutes evs1 = true /\ refutes evs2 = true /\ refutes evs3 = true /\ refutes evs4 = true /\ refutes evs5 = true.
Proof.
  eexists; eexists; eexists; eexists; eexists.
  exact (conj ws_publish_without_push_refuted (conj wsp_datachannel_hijack_refuted
        (conj wsp_rights_not_current_refuted (conj hls_segment_path_refuted stale_challenge_refuted)))).
Qed.
Print Assumptions C11_prefix_behaviour_refuted.

(* non-vacuity: a reachable state in which bob (pull right "/a/+") is served /a/b over HTTP-FLV with his token, eve's
   refresh token is refused as an access token, and after bob's right is narrowed to /c the same request is refused *)
(* a spelling that stays inside bob's subtree /a/+... is served, spellings that leave it are refused; ev_ok holds *)
Example C11_served_nonvacuous :
  map o_code (run w2 s4 inside_evs) = [0; 200; 403; 404] /\
  forallb path_ok (map canonical_path [w2_a]) = true.
Proof. vm_compute. split; reflexivity. Qed.

Example C11_nonvacuous :
  map o_code (run w0 s0 nv_evs) = [200; 200; 401; 0; 403] /\
  reachable w0 (final w0 s0 nv_evs) /\
  allowed (fst (step w0 s0 nv_login)) (nv_get (TA 0)) = true /\
  feasible w0 (fst (step w0 s0 nv_login)) (nv_get (TA 0)) = true.
Proof.
  split; [vm_compute; reflexivity|]. split; [|split; vm_compute; reflexivity].
  unfold nv_evs. cbn [final]. repeat apply reach_step. apply reach_init.
Qed.
