(* C07 — malformed media input is contained and never stops conversion of
   later good data.  Statements only; proofs are in Proofs/C07*.v.  The models
   are those of C06 (depacketisers, sender-report decoder, demuxer) plus the
   cache classifiers of Model/C07Cache.v; all describe the code after the
   bounds-check fixes listed in known_findings/C07.json. *)
From Coq Require Import ZArith List Bool.
From V Require Import Val Bytes C06Rtp C06NalDepack C06H264Depack C06H265Depack C06AacDepack C06SyncClock C06Demux
  C07Cache C07Contain C07Proofs C07TopProofs RunC06 RunC07.
Import ListNotations.
Open Scope Z_scope.

(* depack_total: in every state that satisfies the buffer invariant, on every
   packet whatsoever, the H.264 / H.265 depacketiser step does not panic, keeps
   the invariant, keeps "metadata ready", and writes only non-empty frames
   (which is what the FLV / TS packetisers index) *)
Theorem C07_depack_total_h264 : forall st p, gst_wf c264 st = true ->
  exists st' r, gstep c264 st p = (st', r) /\ is_rpanic r = false /\ gst_wf c264 st' = true /\
                (w_ready (g_w st) = true -> w_ready (g_w st') = true) /\
                (forall f, In f (res_frames r) -> u_pl f <> []).
Proof. exact h264_step_total. Qed.
Print Assumptions C07_depack_total_h264.

Theorem C07_depack_total_h265 : forall st p, gst_wf c265 st = true ->
  exists st' r, gstep c265 st p = (st', r) /\ is_rpanic r = false /\ gst_wf c265 st' = true /\
                (w_ready (g_w st) = true -> w_ready (g_w st') = true) /\
                (forall f, In f (res_frames r) -> u_pl f <> []).
Proof. exact h265_step_total. Qed.
Print Assumptions C07_depack_total_h265.

Theorem C07_depack_total_aac : forall p, all_bytes (p_pl p) = true -> is_rpanic (aac_step p) = false.
Proof. exact aac_step_total. Qed.
Print Assumptions C07_depack_total_aac.

(* control_total: SyncClock.Decode on any RTCP bytes *)
Theorem C07_control_total : forall data, sr_decode data <> CPanic.
Proof. exact sr_decode_total. Qed.
Print Assumptions C07_control_total.

(* classify_total: the GOP caches' payload classifiers on any payload *)
Theorem C07_classify_total_h264 : forall pl, classify264 pl <> None.
Proof. exact classify264_total. Qed.
Print Assumptions C07_classify_total_h264.
Theorem C07_classify_total_h265 : forall pl, classify265 pl <> None.
Proof. exact classify265_total. Qed.
Print Assumptions C07_classify_total_h265.

(* the demuxer never dies: any sequence of RTP payloads and RTCP packets, from any good state *)
Theorem C07_demux_total : forall c clock es st, dst_ok c st = true -> forallb ev_ok es = true ->
  exists st' fs, drun c clock st es = (st', fs, false) /\ dst_ok c st' = true /\
                 (dst_ready st = true -> dst_ready st' = true) /\
                 (d_base st <> 0 -> d_base st' = d_base st).
Proof. exact drun_total. Qed.
Print Assumptions C07_demux_total.

(* resync_after_garbage: from ANY state with ready metadata a legal, loss-free
   packetisation is converted exactly *)
Theorem C07_resync_after_garbage : forall c clock items seq0 k st,
  suffix_ok c items = true -> dst_ready st = true ->
  exists st', drun c clock st (suffix_events c seq0 k items)
              = (st', suffix_frames c clock (d_base st) items, false).
Proof. exact resync. Qed.
Print Assumptions C07_resync_after_garbage.

(* both together, from the initial state: whatever bytes came first *)
Theorem C07_stream_resync : forall c clock seq0 k es items,
  forallb ev_ok es = true -> suffix_ok c items = true ->
  exists st1 f1 st2,
    drun c clock dst_init es = (st1, f1, false) /\
    drun c clock dst_init (es ++ suffix_events c seq0 k items)
      = (st2, f1 ++ suffix_frames c clock (d_base st1) items, false).
Proof. exact stream_resync. Qed.
Print Assumptions C07_stream_resync.

(* the oracle applied to the implementation (x_C07_ok = ok_c07) accepts the model (x_C07_run = run_c07) *)
Theorem C07_model_passes : forall k, c07_wf k = true ->
  let '(fs, pn) := run_c07 k in ok_c07 k fs pn = true.
Proof. exact C07_model_passes_run. Qed.
Print Assumptions C07_model_passes.

Example C07_nonvacuous :
  c07_wf nv7 = true /\ run_c07 nv7 = ([mkO 0 533333333 [101; 1; 2; 3; 4; 5]], false).
Proof. exact C07_nonvacuous. Qed.

(* ------------------------------------------------------------------------- *)
(* converters behind the demuxer (Model/C07Conv.v: thin total wrappers around the
   C08 / C09 step functions, which carry the explicit failure outcomes) *)
From V Require C08Flv C09Adts C09TsFrame.
From V Require Import C07Conv C07ConvProofs.

(* flvpack_total: one round of the FLV muxer loop (start condition, sequence
   headers, H.264 / H.265 / AAC packetizer) never panics — for every live
   metadata (any SPS / PPS / VPS / AAC config bytes, known or not), every loop
   state, every frame whose video payload is non-empty, every media type.
   hvcc_built = "the HEVC parameter-set decoders return a value or an error". *)
Theorem C07_flvpack_total : forall c started f,
  hvcc_built c -> flv_frame_ok f -> flv_step c started f <> None.
Proof. exact flv_step_total. Qed.
Print Assumptions C07_flvpack_total.

(* tspack_total: the TS packetizers (h264: prepareAvcHeader, in-band set skip;
   aac: ADTS header, undecodable config = refusal) never panic *)
Theorem C07_tspack_total : forall sps pps a c,
  ts_frame_ok c -> ts_step sps pps a c <> TsPanic.
Proof. exact ts_step_total. Qed.
Print Assumptions C07_tspack_total.

(* stream_survives: reader -> cache classification -> RTP demuxer -> FLV muxer /
   TS muxer.  For every input es on the media connection and every legal
   loss-free suffix: no stage panics, and every stage converts the suffix
   exactly (frames = the sender's units; FLV tags = C08's one tag per frame;
   TS frames = C09's packetizer output), for every decoding-time-stamp assignment. *)
Theorem C07_stream_survives : forall c clock seq0 k es items fc sps pps a d1 d2,
  forallb ev_ok es = true -> suffix_ok c items = true ->
  hvcc_built fc -> psets_known fc = true ->
  exists st1 f1 st2,
    forallb classify_ev (es ++ suffix_events c seq0 k items) = true /\
    drun c clock dst_init es = (st1, f1, false) /\
    let sfx := suffix_frames c clock (d_base st1) items in
    drun c clock dst_init (es ++ suffix_events c seq0 k items) = (st2, f1 ++ sfx, false) /\
    (length d1 = length f1 -> length d2 = length sfx ->
     (exists b T0, flv_run fc false (flv_in (d1 ++ d2) (f1 ++ sfx))
                   = Some (b, T0 ++ C08Flv.mux_frames fc (flv_in d2 sfx))) /\
     (exists F0, ts_run sps pps a (ts_in (d1 ++ d2) (f1 ++ sfx))
                 = Some (F0 ++ ts_spec sps pps a (ts_in d2 sfx)))).
Proof. exact stream_survives. Qed.
Print Assumptions C07_stream_survives.

(* the oracles of the converter streams accept the model *)
Theorem C07_flvconv_model_passes : forall c fs,
  hvcc_built c -> Forall oframe_ok fs ->
  flvconv_ok c fs true (Z.of_nat (length (C08Flv.mux_frames c (flv_in (zero_dts fs) fs)))) = true.
Proof. exact flvconv_model_passes. Qed.
Print Assumptions C07_flvconv_model_passes.

Theorem C07_tsconv_model_passes : forall sps pps fs,
  Forall oframe_ok fs ->
  tsconv_ok sps pps fs true (Z.of_nat (length (ts_spec sps pps None (ts_in (zero_dts fs) fs)))) 0 = true.
Proof. exact tsconv_model_passes. Qed.
Print Assumptions C07_tsconv_model_passes.

(* known finding (hls-stall-after-clock-rebase): the first sender report rebases the clock even after media has started *)
Theorem C07_sr_rebase_refuted :
  exists p1 p2 rt,
    p_ts p1 < p_ts p2 /\
    let '(_, fs, _) := drun CH264 90000 dst_init [EData p1; ESr (sr_bytes rt 0 0); EData p2] in
    match fs with
    | [a; b] => o_pts b < o_pts a
    | _ => False
    end.
Proof. exact sr_rebase_refuted. Qed.
Print Assumptions C07_sr_rebase_refuted.

(* ------------------------------------------------------------------------- *)
(* viewers on real transports (Model/C07Transport.v over C01's wire model) *)
From V Require C01Wire.
From V Require Import C07Transport C07TransportProofs.

(* a packet the transport cannot carry affects only itself: the consumer after it is the consumer before it *)
Theorem C07_carry_failure_local : forall kind v p, carry kind p = None -> consume kind v p = v.
Proof. exact carry_failure_local. Qed.
Print Assumptions C07_carry_failure_local.

(* for every packet sequence: the viewer stays attached and has received exactly the packets its transport can carry *)
Theorem C07_viewer_survives : forall kind ps v, v_open v = true ->
  v_open (vrun kind v ps) = true /\ v_got (vrun kind v ps) = v_got v ++ owed kind ps.
Proof. exact viewer_survives. Qed.
Print Assumptions C07_viewer_survives.

Theorem C07_later_good_delivered : forall kind bad good,
  forallb (carriable kind) good = true ->
  v_open (vrun kind v0 (bad ++ good)) = true /\
  v_got (vrun kind v0 (bad ++ good)) = owed kind bad ++ good.
Proof. exact later_good_delivered. Qed.
Print Assumptions C07_later_good_delivered.

(* refuted for close-on-error: one 65508-byte packet and a UDP viewer gets nothing more *)
Theorem C07_close_on_error_refuted :
  exists kind bad good,
    carriable kind good = true /\
    v_got (vrun kind v0 [bad; good]) = [good] /\
    v_got (vrun_close kind v0 [bad; good]) = [] /\ v_open (vrun_close kind v0 [bad; good]) = false.
Proof. exact close_on_error_refuted. Qed.
Print Assumptions C07_close_on_error_refuted.

(* the oracle applied to real viewers accepts the model's viewer *)
Theorem C07_transport_model_passes : forall kind chmap pkts,
  tr_client_ok kind chmap pkts (C01Wire.client_view chmap (v_got (vrun kind v0 pkts))) (negb (v_open (vrun kind v0 pkts))) = true.
Proof. exact tr_model_passes. Qed.
Print Assumptions C07_transport_model_passes.

(* ------------------------------------------------------------------------- *)
(* the stream's shared metadata (Model/C07Meta.v): set once, never replaced *)
From V Require Import C07Meta C07MetaProofs.

(* whatever arrives — truncated, bit-flipped, oversized parameter-set NAL units, alone, aggregated or
   reassembled — a stream whose parameter sets are known keeps exactly them; hence the converters of
   C07_stream_survives run under the metadata in force before the input *)
Theorem C07_malformed_paramset_does_not_poison : forall hevc nals m,
  sets_known hevc m = true -> meta_run hevc m nals = m.
Proof. exact malformed_paramset_does_not_poison. Qed.
Print Assumptions C07_malformed_paramset_does_not_poison.

Theorem C07_paramset_set_once_h264 : forall m nal,
  (m_sps m <> [] -> m_sps (meta_update264 m nal) = m_sps m) /\
  (m_pps m <> [] -> m_pps (meta_update264 m nal) = m_pps m).
Proof. exact set_once_264. Qed.
Print Assumptions C07_paramset_set_once_h264.

(* refuted for "follow every in-band set" (seeded C07-r7) *)
Theorem C07_follow_inband_refuted :
  exists m nal, sets_known false m = true /\ meta_update264 m nal = m /\ m_sps (meta_follow264 m nal) = nal /\ nal <> m_sps m.
Proof. exact follow_inband_refuted. Qed.
Print Assumptions C07_follow_inband_refuted.

(* the oracle's metadata clause (meta_kept) accepts the model: the model's metadata after any run is the initial one *)
Theorem C07_meta_model_passes : forall c fs,
  meta_kept c (fs ++ meta_frames (meta_after c fs)) = true \/ exists o, In o fs /\ is_meta_frame o = true.
Proof. exact meta_model_passes. Qed.
Print Assumptions C07_meta_model_passes.
