(* C05 — the registry of live streams (media/global.go): one live stream per path, and it is the
   most recently registered one; replace / unregister / close / idle-close keep the registry
   consistent; counts and listings match the live set; two racing registrations leave exactly one
   live stream.  Statements only; proofs are in Proofs/RegistryProofs.v.

   [grun rfixed] is the implementation model (registry map with delete/store, close removes the
   stream from the map), [srun] / [sstep] / [sp_resolve] the specification (per key the most
   recently registered stream, answers filtered by liveness), [hist_wf] = only live streams are
   registered, [sexec sinit ops] the specification state after the history [ops]. *)
From Coq Require Import ZArith List Bool.
From V Require Import Val Bytes StrGo Registry RegistryProofs RunC05 RunC03Reg RegistryWireProofs.
Import ListNotations.
Open Scope Z_scope.

(* 1. for every well-formed history (any length, any paths and spellings; new / regist / unregist /
   close / get / count / list / attach / detach / idle / unregist-all / clock tick / HLS segment, playlist
   request, segment request) the implementation model's answers are
   exactly the specification's *)
Theorem C05_impl_refines_spec : forall ops,
  hist_wf sinit ops = true -> snd (grun rfixed rinit ops) = srun sinit ops.
Proof. exact impl_refines_spec. Qed.
Print Assumptions C05_impl_refines_spec.

(* 2. the oracle that the check applies to the real implementation accepts the model *)
Theorem C05_model_passes : forall ops,
  hist_wf sinit ops = true -> ok_hist_C05 ops (snd (grun rfixed rinit ops)) = true.
Proof. exact model_passes. Qed.
Print Assumptions C05_model_passes.

(* … and so is its end state: the registry is the live part of the specification's table and the
   streams (liveness, consumer counts, ghost counters) are the specification's *)
Theorem C05_impl_end_state : forall ops,
  hist_wf sinit ops = true -> fst (grun rfixed rinit ops) = absg (sexec sinit ops).
Proof. exact impl_end_state. Qed.
Print Assumptions C05_impl_end_state.

(* the oracle on the whole observation — answers plus the per-stream end vector (live, consumers ever
   attached, Consumer.Close calls) — accepts the model; also in its extracted, on-the-wire form *)
Theorem C05_model_passes_end : forall ops,
  hist_wf sinit ops = true ->
  ok_hist_end_C05 ops (snd (grun rfixed rinit ops)) (end_vec (g_streams (fst (grun rfixed rinit ops)))) = true.
Proof. exact model_passes_end. Qed.
Print Assumptions C05_model_passes_end.

Theorem C05_model_passes_on_the_wire : forall c,
  c05_variant (nthv 0 c) = rfixed -> hist_wf sinit (c05_ops c) = true ->
  x_C05_ok (VL [c; x_C05_run c]) = VI 1.
Proof. exact c05_model_passes_on_the_wire. Qed.
Print Assumptions C05_model_passes_on_the_wire.

(* Spellings.  The registry depends on a path only through CanonicalPath (Base/StrGo.v
   [canonical_path]; idempotent: Proofs/CanonProofs.v).  [respelled o o']: the same operation with its
   path — GNew, GGet — spelled differently but with the same canonical path.  Re-spelling every path
   of a history changes no answer, no state and not its well-formedness, for the specification and
   for the implementation model in every variant *)
Theorem C05_spelling_independent : forall ops ops',
  Forall2 respelled ops ops' ->
  (forall sp, srun sp ops = srun sp ops' /\ sexec sp ops = sexec sp ops' /\ hist_wf sp ops = hist_wf sp ops') /\
  (forall V g, grun V g ops = grun V g ops').
Proof. exact spelling_independent. Qed.
Print Assumptions C05_spelling_independent.

(* two spellings with the same canonical path are the same key: the stream created under p and
   registered is found under every spelling p' of it, the canonical form itself included *)
Theorem C05_spelling_same_key : forall sp p p' hls,
  canonical_path p = canonical_path p' ->
  let i := length (sp_streams sp) in
  let sp1 := fst (sstep sp (GNew p hls)) in
  let sp2 := fst (sstep sp1 (GRegist i)) in
  snd (sstep sp2 (GGet p')) = RGet (Some i) /\ snd (sstep sp2 (GGet (canonical_path p))) = RGet (Some i).
Proof. exact spelling_same_key. Qed.
Print Assumptions C05_spelling_same_key.

(* every stream's path is in canonical form, so a lookup under a stream's own Path() is a lookup of its key *)
Theorem C05_paths_are_canonical : forall ops i,
  let sp := sexec sinit ops in
  (i < length (sp_streams sp))%nat ->
  canonical_path (st_path (sp_get sp i)) = st_path (sp_get sp i) /\
  snd (sstep sp (GGet (st_path (sp_get sp i)))) = RGet (sp_resolve sp (st_path (sp_get sp i))).
Proof. exact paths_are_canonical. Qed.
Print Assumptions C05_paths_are_canonical.

(* 3a. whatever a lookup returns is an existing live stream whose path is the key … *)
Theorem C05_lookup_only_live : forall ops k i,
  let sp := sexec sinit ops in
  sp_resolve sp k = Some i ->
  (i < length (sp_streams sp))%nat /\ st_live (sp_get sp i) = true /\ st_path (sp_get sp i) = k.
Proof. exact lookup_only_live. Qed.
Print Assumptions C05_lookup_only_live.

(* … in particular the answer of Get for any spelling is live and has the canonical path *)
Theorem C05_get_only_live : forall ops p i,
  let sp := sexec sinit ops in
  snd (sstep sp (GGet p)) = RGet (Some i) ->
  (i < length (sp_streams sp))%nat /\ st_live (sp_get sp i) = true /\
  st_path (sp_get sp i) = canonical_path p.
Proof. exact get_only_live. Qed.
Print Assumptions C05_get_only_live.

(* 3b. right after a (well-formed) registration of stream i its path resolves to i *)
Theorem C05_lookup_is_latest_registered : forall sp i,
  (i < length (sp_streams sp))%nat -> st_live (sp_get sp i) = true ->
  sp_resolve (fst (sstep sp (GRegist i))) (st_path (sp_get sp i)) = Some i.
Proof. exact regist_then_resolves. Qed.
Print Assumptions C05_lookup_is_latest_registered.

(* registering over another live stream j retires j: closed at once if it has no consumers, else
   left live for its consumers with the retire task pending; no key resolves to j afterwards *)
Theorem C05_regist_retires_old : forall ops i j,
  let sp := sexec sinit ops in
  let sp' := fst (sstep sp (GRegist i)) in
  (i < length (sp_streams sp))%nat -> st_live (sp_get sp i) = true ->
  sp_resolve sp (st_path (sp_get sp i)) = Some j -> j <> i ->
  (if consumers (sp_get sp j) <=? 0 then st_live (sp_get sp' j) = false
   else st_live (sp_get sp' j) = true /\ st_retire (sp_get sp' j) = true /\
        st_rtp (sp_get sp' j) = st_rtp (sp_get sp j) /\ st_flv (sp_get sp' j) = st_flv (sp_get sp j)) /\
  (forall k, sp_resolve sp' k <> Some j).
Proof. exact regist_retires_old. Qed.
Print Assumptions C05_regist_retires_old.

(* closing / unregistering stream j removes exactly the resolutions to j … *)
Theorem C05_close_effect : forall sp j k,
  sp_resolve (fst (sstep sp (GClose j))) k =
  match sp_resolve sp k with Some i => if Nat.eqb i j then None else Some i | None => None end.
Proof. exact close_effect. Qed.
Print Assumptions C05_close_effect.

Theorem C05_unregist_effect : forall sp j k,
  sp_resolve (fst (sstep sp (GUnregist j))) k =
  match sp_resolve sp k with Some i => if Nat.eqb i j then None else Some i | None => None end.
Proof. exact unregist_effect. Qed.
Print Assumptions C05_unregist_effect.

(* … so unregistering (or closing) a retired stream — one that is not what its path resolves
   to — changes no resolution: its successor stays *)
Theorem C05_unregist_retired_keeps_successor : forall ops j,
  let sp := sexec sinit ops in
  sp_resolve sp (st_path (sp_get sp j)) <> Some j ->
  forall k, sp_resolve (fst (sstep sp (GUnregist j))) k = sp_resolve sp k /\
            sp_resolve (fst (sstep sp (GClose j))) k = sp_resolve sp k.
Proof. exact unregist_retired_keeps_successor. Qed.
Print Assumptions C05_unregist_retired_keeps_successor.

(* a closed or unregistered stream is never returned by any later lookup, whatever happens next *)
Theorem C05_closed_never_returned : forall ops1 j ops2 k,
  (j < length (sp_streams (sexec sinit ops1)))%nat ->
  sp_resolve (sexec sinit (ops1 ++ GClose j :: ops2)) k <> Some j /\
  sp_resolve (sexec sinit (ops1 ++ GUnregist j :: ops2)) k <> Some j.
Proof. exact closed_never_returned. Qed.
Print Assumptions C05_closed_never_returned.

(* 3c. the idle task (one run with period d) closes a live stream only if it has no RTP and no FLV
   consumer and — when it has an HLS playlist — the playlist's last access is at least d old; it
   answers true exactly then; it touches no other stream *)
Theorem C05_idle_only_when_unused : forall ops i d,
  let sp := sexec sinit ops in
  let s := sp_get sp i in
  let sp' := fst (sstep sp (GIdle i d)) in
  (st_live s = true -> st_live (sp_get sp' i) = false ->
     st_rtp s = 0 /\ st_flv s = 0 /\ (st_hls s = false \/ d <= st_hls_idle s)) /\
  (snd (sstep sp (GIdle i d)) = RIdle true <->
     st_live s = true /\ st_rtp s = 0 /\ st_flv s = 0 /\ (st_hls s = false \/ d <= st_hls_idle s)) /\
  (snd (sstep sp (GIdle i d)) = RIdle true -> st_live (sp_get sp' i) = false) /\
  (forall j, j <> i -> sp_get sp' j = sp_get sp j).
Proof. exact idle_only_when_unused. Qed.
Print Assumptions C05_idle_only_when_unused.

(* HLS viewers are not consumers; the idle task sees them through the playlist's last access only.
   Whatever happens in between, a stream whose playlist was requested (servable or not: fewer than 3
   segments) or from which a segment was requested less than one period of clock ticks ago is not
   closed for idleness: the decision answers false and changes nothing *)
Theorem C05_hls_access_protects : forall ops1 acc ops2 i p,
  let sp0 := sexec sinit ops1 in
  (acc = GHlsPoll i \/ exists n, acc = GHlsSeg i n) ->
  (i < length (sp_streams sp0))%nat -> st_live (sp_get sp0 i) = true -> st_hls (sp_get sp0 i) = true ->
  ticks ops2 < p ->
  let sp := sexec sinit (ops1 ++ acc :: ops2) in
  sstep sp (GIdle i p) = (sp, RIdle false).
Proof. exact hls_access_protects. Qed.
Print Assumptions C05_hls_access_protects.

(* the HLS capability of a stream is fixed, and the time since its playlist's last access grows by at
   most the clock ticks *)
Theorem C05_hls_idle_time_bounded : forall ops sp j,
  age_ok sp -> (j < length (sp_streams sp))%nat ->
  st_hls (sp_get (sexec sp ops) j) = st_hls (sp_get sp j) /\
  st_hls_idle (sp_get (sexec sp ops) j) <= st_hls_idle (sp_get sp j) + ticks ops.
Proof. exact age_bound. Qed.
Print Assumptions C05_hls_idle_time_bounded.

(* The registry's own pending tasks.  Regist posts a retire task when it replaces a stream that has
   consumers; [st_retire] says which stream a task is bound to; [GFire] = the scheduler runs every
   pending task once (period [retire_period] = 5 ticks).  Its effect on every stream is [fired]: *)
Theorem C05_fire_effect : forall sp j, sp_get (fst (sstep sp GFire)) j = fired (sp_get sp j).
Proof. exact fire_effect. Qed.
Print Assumptions C05_fire_effect.

(* a fired task closes only the stream it was created for — the replaced one — and only when that
   stream is unused; registering a stream never puts that stream itself under a task: the live
   successor is never closed by its predecessor's task *)
Theorem C05_retire_task_targets_old_stream : forall ops j,
  let sp := sexec sinit ops in
  let sp' := fst (sstep sp GFire) in
  (st_retire (sp_get sp j) = false -> sp_get sp' j = sp_get sp j) /\
  (st_live (sp_get sp j) = true -> st_live (sp_get sp' j) = false ->
     st_retire (sp_get sp j) = true /\ st_rtp (sp_get sp j) = 0 /\ st_flv (sp_get sp j) = 0 /\
     (st_hls (sp_get sp j) = false \/ retire_period <= st_hls_idle (sp_get sp j))) /\
  (forall i, st_retire (sp_get (fst (sstep sp (GRegist i))) i) = st_retire (sp_get sp i)).
Proof. exact retire_task_targets_old_stream. Qed.
Print Assumptions C05_retire_task_targets_old_stream.

(* and the retired stream IS closed by its task once its consumers have left *)
Theorem C05_retired_stream_eventually_closed : forall sp j,
  st_retire (sp_get sp j) = true ->
  st_rtp (sp_get sp j) = 0 -> st_flv (sp_get sp j) = 0 ->
  (st_hls (sp_get sp j) = false \/ retire_period <= st_hls_idle (sp_get sp j)) ->
  st_live (sp_get (fst (sstep sp GFire)) j) = false.
Proof. exact retired_stream_eventually_closed. Qed.
Print Assumptions C05_retired_stream_eventually_closed.

(* 3d. the reported stream count is the number of keys that resolve to a live stream, the consumer
   count the sum of those streams' consumers, the listing the sorted resolving keys *)
Theorem C05_count_matches_live_set : forall ops,
  let sp := sexec sinit ops in
  let keys := map fst (sp_last sp) in
  snd (sstep sp GCount) =
    RCount (Z.of_nat (length (filter (resolves sp) keys)))
           (fold_left (fun a k => a + consumers_at sp k) keys 0) /\
  snd (sstep sp GList) = RList (sort_paths (filter (resolves sp) keys)) /\
  NoDup keys.
Proof. exact count_matches_live_set. Qed.
Print Assumptions C05_count_matches_live_set.

(* 3e. shutdown (media.UnregistAll): afterwards no key resolves, every stream that resolved has ended,
   every other stream is exactly as it was *)
Theorem C05_unregist_all_closes_everything : forall ops,
  let sp := sexec sinit ops in
  let sp' := fst (sstep sp GUnregistAll) in
  (forall k, sp_resolve sp' k = None) /\
  (forall k i, sp_resolve sp k = Some i -> st_live (sp_get sp' i) = false) /\
  (forall i, (forall k, sp_resolve sp k <> Some i) -> sp_get sp' i = sp_get sp i).
Proof. exact unregist_all_closes_everything. Qed.
Print Assumptions C05_unregist_all_closes_everything.

(* 4. the code before the repairs violates the specification (D5, D7) *)
Theorem C05_closed_stream_returned_refuted :
  exists ops,
    hist_wf sinit ops = true /\
    snd (grun roriginal rinit ops) = [RUnit; RUnit; RUnit; RGet (Some 0%nat)] /\
    st_live (sget (fst (grun roriginal rinit ops)) 0) = false /\
    srun sinit ops = [RUnit; RUnit; RUnit; RGet None] /\
    ok_hist_C05 ops (snd (grun roriginal rinit ops)) = false.
Proof. exact closed_stream_returned_refuted. Qed.
Print Assumptions C05_closed_stream_returned_refuted.

Theorem C05_idle_close_ignores_flv_refuted :
  exists ops,
    hist_wf sinit ops = true /\
    snd (grun roriginal rinit ops) = [RUnit; RUnit; RUnit; RIdle true] /\
    st_live (sget (fst (grun roriginal rinit ops)) 0) = false /\
    srun sinit ops = [RUnit; RUnit; RUnit; RIdle false] /\
    ok_hist_C05 ops (snd (grun roriginal rinit ops)) = false.
Proof. exact idle_close_ignores_flv_refuted. Qed.
Print Assumptions C05_idle_close_ignores_flv_refuted.

(* a playlist that records a request as an access only when it can serve it (a seeded change): the
   stream is polled, then closed for idleness and gone from the registry *)
Theorem C05_hls_poll_unstamped_refuted :
  exists ops,
    hist_wf sinit ops = true /\
    snd (grun rpollunstamped rinit ops) = [RUnit; RUnit; RUnit; RHls false; RIdle true; RGet None] /\
    srun sinit ops = [RUnit; RUnit; RUnit; RHls false; RIdle false; RGet (Some 0%nat)] /\
    ok_hist_C05 ops (snd (grun rpollunstamped rinit ops)) = false.
Proof. exact hls_poll_unstamped_refuted. Qed.
Print Assumptions C05_hls_poll_unstamped_refuted.

(* 5. two publishers racing to register streams 1 and 2 on path p (stream 0 registered there iff
   reg0), each Regist = atomic Swap, then retire of the replaced stream: for every schedule after
   which both have finished, exactly one of the two streams is registered and live, the other and
   stream 0 are closed, and the registry has that single entry *)
Theorem C05_regist_race_one_live : forall (p : bytes) (h0 h1 h2 reg0 : bool) (sched : list bool),
  let c := race_run (race_init p h0 h1 h2 reg0) sched in
  c_a c = PDone -> c_b c = PDone ->
  exists w l, ((w = 1 /\ l = 2) \/ (w = 2 /\ l = 1))%nat /\
    g_map (c_g c) = [(p, w)] /\
    st_live (sget (c_g c) w) = true /\
    st_live (sget (c_g c) l) = false /\
    st_live (sget (c_g c) 0) = false.
Proof. exact regist_race_one_live. Qed.
Print Assumptions C05_regist_race_one_live.

(* the two steps of a racing Regist, run without interleaving, are the sequential GRegist *)
Theorem C05_race_steps_are_regist : forall g i,
  (i <? length (g_streams g))%nat = true ->
  mlookup (g_map g) (st_path (sget g i)) <> Some i ->
  (forall j, mlookup (g_map g) (st_path (sget g i)) = Some j -> consumers (sget g j) <= 0) ->
  reg_retire (fst (reg_swap g i)) i (snd (reg_swap g i)) = fst (gstep rfixed g (GRegist i)).
Proof. exact swap_retire_is_regist. Qed.
Print Assumptions C05_race_steps_are_regist.

(* the code before the repair (Load … Store, D6): a schedule leaves stream 1 live, overwritten and
   registered nowhere next to the live stream 2 *)
Theorem C05_regist_race_leak_refuted :
  exists sched,
    let c := orace_run (orace_init [47;97] false false false true) sched in
    o_a c = ODone /\ o_b c = ODone /\
    g_map (o_g c) = [([47;97], 2%nat)] /\
    st_live (sget (o_g c) 1) = true /\ st_live (sget (o_g c) 2) = true /\
    st_live (sget (o_g c) 0) = false.
Proof. exact regist_race_leak_refuted. Qed.
Print Assumptions C05_regist_race_leak_refuted.

(* 6. non-vacuity: a well-formed history with three spellings of one path ("/a", " /A", "A",
   "//x/../A"), a replacement of a stream that still has a consumer, the unregistration of the
   retired stream, lookups, counts, listings and an idle close; and a race schedule on which both
   publishers finish *)
Example C05_nonvacuous :
  hist_wf sinit example_hist = true /\
  snd (grun rfixed rinit example_hist) = srun sinit example_hist /\
  srun sinit example_hist =
    [ RUnit; RUnit; RUnit; RUnit; RGet (Some 0%nat); RUnit; RGet (Some 1%nat);
      RCount 1 0; RList [[47;97]]; RUnit; RGet (Some 1%nat); RCount 1 0;
      RIdle true; RGet None; RCount 0 0; RList [] ].
Proof. exact example_hist_ok. Qed.

Example C05_spelling_nonvacuous :
  Forall2 respelled example_spelled_1 example_spelled_2 /\
  hist_wf sinit example_spelled_1 = true /\
  srun sinit example_spelled_1 = [RUnit; RUnit; RUnit; RUnit; RGet (Some 1%nat); RCount 1 0] /\
  srun sinit example_spelled_2 = [RUnit; RUnit; RUnit; RUnit; RGet (Some 1%nat); RCount 1 0].
Proof. exact example_spelled_ok. Qed.

Example C05_retire_nonvacuous :
  hist_wf sinit example_retire = true /\
  snd (grun rfixed rinit example_retire) = srun sinit example_retire /\
  srun sinit example_retire =
    [ RUnit; RUnit; RUnit; RUnit; RUnit; RUnit; RGet (Some 1%nat); RUnit; RUnit; RGet (Some 1%nat); RCount 1 0 ] /\
  end_vec (sp_streams (sexec sinit example_retire)) = [(false, 1, 1); (true, 0, 0)].
Proof. exact example_retire_ok. Qed.

Example C05_hls_nonvacuous :
  hist_wf sinit example_hls = true /\
  snd (grun rfixed rinit example_hls) = srun sinit example_hls /\
  srun sinit example_hls =
    [ RUnit; RUnit; RUnit; RHls false; RUnit; RIdle false;
      RUnit; RUnit; RUnit; RUnit; RHls true; RHls true; RHls false; RHls false;
      RUnit; RIdle false; RUnit; RIdle true; RGet None ].
Proof. exact example_hls_ok. Qed.

Example C05_shutdown_nonvacuous :
  hist_wf sinit example_shutdown = true /\
  snd (grun rfixed rinit example_shutdown) = srun sinit example_shutdown /\
  srun sinit example_shutdown =
    [ RUnit; RUnit; RUnit; RUnit; RUnit; RUnit; RUnit; RGet (Some 1%nat); RCount 1 1;
      RUnit; RGet None; RCount 0 0 ] /\
  end_vec (g_streams (fst (grun rfixed rinit example_shutdown))) = [(false, 1, 1); (false, 1, 1)] /\
  end_vec (sp_streams (sexec sinit example_shutdown)) = [(false, 1, 1); (false, 1, 1)].
Proof. exact example_shutdown_ok. Qed.

Example C05_race_nonvacuous : forall (p : bytes) (h0 h1 h2 reg0 : bool),
  let c := race_run (race_init p h0 h1 h2 reg0) [true; true; false; false] in
  c_a c = PDone /\ c_b c = PDone.
Proof. exact regist_race_finishes. Qed.

(* ---------------------------------------------------------------------------------------------------------
   Consumer ids (Model/C05Cid.v: media.NewCID with the 32-bit wrap written out).  A stream files a consumer under the
   type bits of its id and StopConsume / Count / Infos look there, so "consumer and stream counts always match what
   is attached" needs every id to keep the type it was created for, however long the stream has lived. *)
From V Require Import C05Cid C05CidProofs.

Theorem C05_consumer_id_keeps_its_type : forall t seed, (t = 0 \/ t = 1) -> 0 <= seed < 4294967295 ->
  cid_ok t seed (cid_model t seed) = true.
Proof. exact cid_model_ok. Qed.
Print Assumptions C05_consumer_id_keeps_its_type.

(* for every number of consumers a stream ever had: all ids of the run carry the right type and a sequence in
   [1, 2^30 - 1) *)
Theorem C05_consumer_ids_of_any_run : forall t k seed, (t = 0 \/ t = 1) -> 0 <= seed < 4294967295 ->
  Forall (fun id => cid_type id = t /\ 1 <= cid_seq id < 1073741823) (cid_run t k seed).
Proof. exact cid_run_types. Qed.
Print Assumptions C05_consumer_ids_of_any_run.

Theorem C05_cid_wide_wrap_refuted : exists seed, 0 <= seed < 4294967295 /\
  let l := (seed + 1) mod 4294967296 in
  cid_type ((0 * 1073741824 + (if 2147483647 <=? l then 1 else l)) mod 4294967296) <> 0.
Proof. exact cid_wide_wrap_refuted. Qed.
Print Assumptions C05_cid_wide_wrap_refuted.

Example C05_cid_nonvacuous :
  cid_model 0 1073741821 = (0, 1073741822, 1073741822) /\ cid_model 1 1073741822 = (1, 1, 1) /\
  cid_model 0 5 = (0, 6, 6).
Proof. vm_compute. repeat split. Qed.
