From V Require Import Registry.
Example C05_placeholder : True. Proof. exact I. Qed.
