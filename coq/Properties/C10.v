(* C10 — HLS playlist and segments are consistent, bounded and independently decodable.
   Statements only; the model is Model/C10Hls.v, the proofs are in Proofs/C10HlsProofs.v.
   [steps c (init c) ops] is the state after any history of frames, segment fetches, playlist
   calls and Close; [feed c fs (init c)] the state after the frames [fs]. *)
From Coq Require Import ZArith List Bool.
From V Require Import Val Bytes C10Hls C10HlsProofs.
Import ListNotations.
Open Scope Z_scope.

(* the playlist: at most three segments, always the most recent complete ones; served as soon as three
   exist; exactly three entries with consecutive numbers from the media sequence; every URI names its
   number, resolves (view_ok: member of the resolvable set) and carries the caller's token; the target
   duration is not below any listed "%.3f" duration *)
Theorem C10_playlist_window : forall c ops tok,
  forallb op_wf ops = true ->
  let s := steps c (init c) ops in
  (length (pl s) <= 3)%nat /\
  (exists older, closed s = older ++ pl s) /\
  (cur s <> None -> (3 <= length (closed s))%nat -> m3u8 c tok s <> None) /\
  forall v, m3u8 c tok s = Some v ->
    length (v_entries v) = 3%nat /\
    v_entries v = map (entry_of c tok) (pl s) /\
    map s_seq (pl s) = [v_mseq v; v_mseq v + 1; v_mseq v + 2] /\
    view_ok c tok (live_seqs s) v = true /\
    (forall e, In e (v_entries v) -> e_ms e <= v_target v * 1000 /\ e_tok e = tok).
Proof. exact playlist_window. Qed.
Print Assumptions C10_playlist_window.

(* the float model: what "%.3f" prints for float64(x)/90000 never exceeds int32(float64(x)/90000 + 1) seconds *)
Theorem C10_millis_le_target : forall x, 0 <= x < 2 ^ 53 -> millis x <= (x / TICKS + 1) * 1000.
Proof. exact millis_le_target. Qed.
Print Assumptions C10_millis_le_target.

(* across consecutive segments (closed ones in order, then the open one, then the pending audio batch) every
   source frame with a payload appears exactly once and in order, per track: audio is batched for up to
   100 ms, so the two tracks interleave differently from the input but neither loses, repeats nor reorders
   a frame.  (DESIGN.md planned "the concatenation equals the input list"; that is false because of the
   audio batching and is replaced by the per-track statement.)  Guard: fragment >= 1 s. *)
Theorem C10_segments_partition_frames : forall c fs, 1 <= c_frag c ->
  let s := feed c fs (init c) in
  dropped s = [] /\
  vids (all_frames s) = filter video_in fs /\
  auds (all_frames s) ++ cache_src s = filter audio_in fs.
Proof. exact segments_partition. Qed.
Print Assumptions C10_segments_partition_frames.

(* nothing is ever discarded as "shorter than 100 ms" when the fragment is at least one second
   (config.HlsFragment() never returns less than 5) *)
Theorem C10_short_segment_unreachable : forall c fs, 1 <= c_frag c -> dropped (feed c fs (init c)) = [].
Proof. exact short_segment_unreachable. Qed.
Print Assumptions C10_short_segment_unreachable.

(* every listed segment after the first that was not opened by the audio-driven reap starts its video with
   a key frame whose elementary stream begins AUD, SPS, PPS, start code, where SPS/PPS are the stream's parameter
   sets that were current when that key frame was packetized (w_sps/w_pps; the sets are part of the history:
   OSetPs puts a new pair in force for the operations after it, see C10_written_video_ps).  Full statement
   (no s_aud guard) is false: C10_long_gop_segment_refuted (D35, known finding). *)
Theorem C10_segment_starts_with_key : forall c ops g,
  forallb op_wf ops = true ->
  let s := steps c (init c) ops in
  In g (pl s) -> s_seq g <> 1 -> s_aud g = false ->
  exists w, first_video (s_frames g) = Some w /\ w_key w = true /\
            is_prefix (key_header_ps (w_sps w) (w_pps w)) (w_es w) = true.
Proof. exact segment_starts_with_key. Qed.
Print Assumptions C10_segment_starts_with_key.

(* a frame operation under configuration c adds only video frames that record c's SPS/PPS (the pair in force) *)
Theorem C10_written_video_ps : forall c f s g w,
  In g (pl (write_frame c f s) ++ curl (write_frame c f s)) -> In w (s_frames g) -> w_pid w = VPID ->
  (exists g0, In g0 (pl s ++ curl s) /\ In w (s_frames g0)) \/ (w_sps w = c_sps c /\ w_pps w = c_pps c).
Proof. exact write_frame_ps. Qed.
Print Assumptions C10_written_video_ps.

(* the guard is vacuous for a stream without audio *)
Theorem C10_video_only_never_audio_reap : forall c fs,
  forallb (fun f => negb (is_audio (f_kind f))) fs = true ->
  forall g, In g (pl (feed c fs (init c))) -> s_aud g = false.
Proof. exact video_only_never_audio_reap. Qed.
Print Assumptions C10_video_only_never_audio_reap.

Theorem C10_long_gop_segment_refuted :
  forallb frame_wf d35_frames = true /\
  exists g, In g (pl (feed d35_cfg d35_frames (init d35_cfg))) /\ s_seq g = 2 /\ s_aud g = true /\
            starts_with_key d35_cfg (s_frames g) = false.
Proof. exact long_gop_segment_refuted. Qed.
Print Assumptions C10_long_gop_segment_refuted.

(* storage: at most three listed segments, at most four files (three listed + the open one) in disk mode,
   and only the listed numbers resolve *)
Theorem C10_storage_bounded : forall c ops,
  forallb op_wf ops = true ->
  let s := steps c (init c) ops in
  (length (pl s) <= 3)%nat /\ (length (file_seqs c s) <= 4)%nat /\
  (forall seq, fetch c seq s <> None -> In seq (live_seqs s)).
Proof. exact storage_bounded. Qed.
Print Assumptions C10_storage_bounded.

(* a reader handed out in disk mode or by the repaired memory store reads the transport stream of the frames of
   that number in every later state [s'] (any number of rollovers, Close) *)
Theorem C10_segment_bytes_stable : forall (tsw : list wframe -> bytes) c s seq r,
  c_copy c = true \/ c_mem c = false ->
  fetch c seq s = Some r ->
  exists g, find_seg seq (pl s) = Some g /\ forall s', read_bytes tsw r s' = tsw (s_frames g).
Proof. exact segment_bytes_stable. Qed.
Print Assumptions C10_segment_bytes_stable.

(* memory mode, while frames arrive: a listed segment is the only owner of its pooled buffer, the buffer is not
   in the pool (whichever free buffer sync.Pool hands out: c_pick is arbitrary), and the buffer's bytes begin with
   exactly the transport stream of that segment, i.e. the copy get() takes under the read lock is the segment *)
Theorem C10_buffer_holds_segment : forall (tsw : list wframe -> bytes) c fs g,
  let s := feed c fs (init c) in
  In g (pl s) ->
  ~ In (s_buf g) (free s) /\
  (forall g', In g' (pl s ++ curl s) -> s_buf g' = s_buf g -> g' = g) /\
  firstn (length (tsw (s_frames g))) (buffer_bytes tsw (s_buf g) s) = tsw (s_frames g).
Proof. exact buffer_holds_segment. Qed.
Print Assumptions C10_buffer_holds_segment.

(* D19: the code before the repair (a view of the pooled buffer) does not have that property *)
Theorem C10_segment_alias_refuted :
  exists r g, fetch d19_cfg 1 d19_before = Some r /\ find_seg 1 (pl d19_before) = Some g /\
    read_bytes toy_tsw r d19_before = toy_tsw (s_frames g) /\
    read_bytes toy_tsw r d19_after <> toy_tsw (s_frames g).
Proof. exact segment_alias_refuted. Qed.
Print Assumptions C10_segment_alias_refuted.

(* the oracle applied to the implementation accepts the model on every well-formed history *)
Theorem C10_model_passes : forall c dtok ops,
  wf c ops = true -> ok c dtok false ops (model c dtok ops) = true.
Proof. exact model_passes_oracle. Qed.
Print Assumptions C10_model_passes.

(* non-vacuity: a well-formed history in which the playlist is served, the window has rolled over and the
   unguarded key-frame clause holds too *)
Definition nv_cfg : cfg :=
  {| c_frag := 1; c_rate := 44100; c_mem := true; c_copy := true; c_path := [47; 97]; c_sps := [103]; c_pps := [104];
     c_pick := fun _ => O |}.
Definition nv_ops : list op := map (fun i => OFrame (d19_key i)) [0; 1; 2; 3; 4; 5; 6; 7; 8] ++ [OFetch 2; ORead 0; OClose].
Definition nv_ops_ps : list op := OSetPs [103; 1] [104; 2] :: nv_ops.
Example C10_nonvacuous :
  wf nv_cfg nv_ops = true /\ 1 <= c_frag nv_cfg /\
  ok nv_cfg [116] true nv_ops (model nv_cfg [116] nv_ops) = true /\
  existsb (fun o => match o_pl o with Some _ => true | None => false end) (model nv_cfg [116] nv_ops) = true /\
  map s_seq (pl (steps nv_cfg (init nv_cfg) (firstn 9 nv_ops))) = [2; 3; 4].
Proof.
  split; [vm_compute; reflexivity|]. split; [vm_compute; discriminate|].
  split; [vm_compute; reflexivity|]. split; vm_compute; reflexivity.
Qed.

(* ---------------------------------------------------------------------------------------------------------
   The concurrent part: all interleavings of segment fetches with segment rollover (Model/C10HlsLts.v).
   One writer consuming any frame input, any number of fetchers (lookup under the read lock; copy + unlock),
   every schedule [sched] of their steps. *)
From V Require Import C10HlsLts C10HlsLtsProofs.

(* with the read lock held from lookup to copy (the code as it is) every completed fetch returned exactly the
   frames — hence the transport stream — of the segment that carried the requested number at lookup time, a
   segment the generator produced for that number ([closed]); or not-found if the number was not listed then *)
Theorem C10_fetch_stable_under_rollover : forall c fs sched,
  let l := lrun true c (linit c fs) sched in
  forall r, In r (l_recs l) ->
    (forall x, fr_res r = Some x -> x = expected r) /\
    (forall g, fr_at r = Some g -> s_seq g = fr_seq r /\ In g (closed (l_st l))) /\
    fetch_ok r = true.
Proof. exact fetch_stable_under_rollover. Qed.
Print Assumptions C10_fetch_stable_under_rollover.

(* lookup and copy not in one critical section: nil dereference (memory) / error (disk) for a listed segment,
   and the writer never waits; the same schedule on the locked system is fine and the writer does wait *)
Theorem C10_fetch_unlocked_refuted :
  map fr_res (l_recs (lrun false d35_cfg (linit d35_cfg race_frames) race_sched)) = [Some FPanic] /\
  map fr_res (l_recs (lrun false disk_cfg (linit disk_cfg race_frames) race_sched)) = [Some FErr] /\
  forallb fetch_ok (l_recs (lrun false d35_cfg (linit d35_cfg race_frames) race_sched)) = false /\
  forallb fetch_ok (l_recs (lrun true d35_cfg (linit d35_cfg race_frames) race_sched)) = true /\
  existsb (fun b => b) (ltrace true d35_cfg (linit d35_cfg race_frames) race_sched) = true.
Proof. exact fetch_unlocked_refuted. Qed.
Print Assumptions C10_fetch_unlocked_refuted.

(* the oracle applied to a schedule replayed on the implementation accepts the model, for every input and schedule *)
Theorem C10_lts_model_passes : forall c fs sched,
  lts_ok c fs sched (fst (lts_model true c fs sched)) (snd (lts_model true c fs sched)) = true.
Proof. exact lts_model_passes. Qed.
Print Assumptions C10_lts_model_passes.

(* ---------------------------------------------------------------------------------------------------------
   A frame that closes a segment is two writer steps, "list" (close the store, then addSegment) and "finish";
   fetchers may run in between.  (The theorems above are about the same, refined, transition system.) *)

(* for every input and schedule, in every reachable state — also between the listing and the rest of the frame —
   every listed segment has a closed (flushed) store, so a fetch at any point after the listing returns the
   whole transport stream of that number *)
Theorem C10_listed_segment_is_complete : forall c fs sched,
  let l := lrun true c (linit c fs) sched in
  (forall g, In g (pl (l_st l)) -> In (s_seq g) (l_flushed l)) /\
  listed_complete c l = true /\
  (forall seq g, find_seg seq (pl (l_st l)) = Some g ->
     get_now c (l_flushed l) seq (l_st l) = FBytes (s_frames g)).
Proof. exact listed_segment_is_complete. Qed.
Print Assumptions C10_listed_segment_is_complete.

(* the variant that completes the store after the listing: a disk-mode fetch between the two gets a partial file
   (memory mode is unaffected; after the finish step the same fetch is fine; the system as it is passes) *)
Theorem C10_listed_incomplete_refuted :
  map fr_res (l_recs (lrun_gen true true disk_cfg (linit disk_cfg late_frames) late_sched))
    = [Some FPartial; Some (expected_of disk_cfg late_frames)] /\
  listed_complete disk_cfg (lrun_gen true true disk_cfg (linit disk_cfg late_frames) [LW; LW; LW]) = false /\
  forallb fetch_ok (l_recs (lrun_gen true true disk_cfg (linit disk_cfg late_frames) late_sched)) = false /\
  forallb fetch_ok (l_recs (lrun_gen true true d35_cfg (linit d35_cfg late_frames) late_sched)) = true /\
  forallb fetch_ok (l_recs (lrun true disk_cfg (linit disk_cfg late_frames) late_sched)) = true.
Proof. exact listed_incomplete_refuted. Qed.
Print Assumptions C10_listed_incomplete_refuted.

(* ---------------------------------------------------------------------------------------------------------
   The disk store outlives the generator (Model/C10HlsDisk.v): files are named by the sequence number, the
   numbers restart at 1 with every new generation of a stream, and the directory may hold anything an earlier
   run under the same path left behind (closed: nothing; abandoned at any point: any of its files). *)
From V Require Import C10HlsDisk C10HlsDiskProofs.

(* for ANY directory content d0 and any operations of the current generation (ending wherever they end): the file of
   every listed segment, and of the open one, holds exactly the transport stream of that segment's frames of THIS
   generation — which is also what the memory store returns for it, in every later state *)
Theorem C10_fetch_current_generation : forall (tsw : list wframe -> bytes) c d0 ops g,
  forallb (fun o => negb (is_newgen o)) ops = true ->
  let s := steps c (init c) ops in
  In g (pl s ++ curl s) ->
  disk_read tsw (apply_fevs tsw true d0 (fevs s)) (s_seq g) = Some (tsw (s_frames g)) /\
  (In g (pl s) -> fetch c (s_seq g) s <> None ->
   forall r, fetch (set_mem c) (s_seq g) s = Some r -> forall s', read_bytes tsw r s' = tsw (s_frames g)).
Proof. exact fetch_current_generation. Qed.
Print Assumptions C10_fetch_current_generation.

(* the same after any number of earlier generations, each closed or abandoned where its operations end *)
Theorem C10_fetch_after_generations : forall (tsw : list wframe -> bytes) c d0 gens ops g,
  forallb (fun o => negb (is_newgen o)) ops = true ->
  let s := steps c (init c) ops in
  In g (pl s) ->
  disk_read tsw (apply_fevs tsw true (gens_disk tsw true c d0 gens) (fevs s)) (s_seq g) = Some (tsw (s_frames g)).
Proof. exact fetch_after_generations. Qed.
Print Assumptions C10_fetch_after_generations.

(* opening without truncating: the new generation's segment 1 is served with the tail of the longer file an
   abandoned generation left; with truncation the same history is fine (non-vacuity of the theorem above) *)
Theorem C10_no_truncate_refuted :
  let c := disk_cfg_d in
  let s := steps c (init c) new_gen in
  exists g, In g (pl s) /\ s_seq g = 1 /\
    disk_read toy_tsw (apply_fevs toy_tsw false (gens_disk toy_tsw false c [] [old_gen]) (fevs s)) 1
      <> Some (toy_tsw (s_frames g)) /\
    disk_read toy_tsw (apply_fevs toy_tsw true (gens_disk toy_tsw true c [] [old_gen]) (fevs s)) 1
      = Some (toy_tsw (s_frames g)).
Proof. exact no_truncate_refuted. Qed.
Print Assumptions C10_no_truncate_refuted.

(* ---------------------------------------------------------------------------------------------------------
   The playlist text as a function of (segments, stream path, token) for ALL byte strings. *)

(* read the served text the way a player does (lines that are neither empty nor start with '#'): the URI lines are,
   byte for byte, seg.uri followed by "?token=" ++ token (nothing for the empty token), one per listed segment in
   order — for every token and stream path that has no line feed, whatever else it contains ('%', "%s", "%!", '#',
   '?', '&', '=', blanks, non-ASCII bytes, any length); and each number so named resolves through Segment() to the
   frames of that listed segment (round trip playlist -> fetch) *)
Theorem C10_playlist_uri_verbatim : forall c ops tok v,
  forallb op_wf ops = true -> no_lf (c_path c) = true -> no_lf tok = true ->
  let s := steps c (init c) ops in
  m3u8 c tok s = Some v ->
  uri_lines (render v) = map (fun g => seg_uri c (s_seq g) ++ tok_suffix tok) (pl s) /\
  forall g, In g (pl s) ->
    fetch c (s_seq g) s = Some (if c_mem c && negb (c_copy c) then RAlias (s_buf g) (s_frames g) else RCopy (s_frames g)).
Proof. exact playlist_uri_roundtrip. Qed.
Print Assumptions C10_playlist_uri_verbatim.

(* non-vacuity: a path and a token full of printf verbs *)
Example C10_uri_verbatim_nonvacuous :
  let c := set_path nv_cfg [47; 49; 48; 48; 37; 115; 112] in            (* "/100%sp" *)
  let tok := [117; 37; 101; 37; 37; 33; 100; 38; 61; 63; 35; 32; 255] in  (* "u%e%%!d&=?# \xff" *)
  let s := steps c (init c) (firstn 9 nv_ops) in
  no_lf (c_path c) = true /\ no_lf tok = true /\
  option_map (fun v => uri_lines (render v)) (m3u8 c tok s)
    = Some (map (fun n => [47;115;116;114;101;97;109;115] ++ [47; 49; 48; 48; 37; 115; 112] ++ [47] ++ dec n ++ [46;116;115]
                          ++ [63;116;111;107;101;110;61] ++ tok) [2; 3; 4]).
Proof. vm_compute. repeat split; reflexivity. Qed.

(* ---------------------------------------------------------------------------------------------------------
   Disk mode, several streams in one storage directory (Model/C10Names.v: murmur32 of the stream path with explicit
   32-bit wrap-around, file name = (hash, number)). *)
From V Require Import C10Names C10NamesProofs.

(* for every interleaving of the writes and deletes of any number of streams on the shared directory: a stream that
   fetches its segment n reads exactly what it wrote itself last under that number — provided every other stream
   acting on the directory has a path with a different hash *)
Theorem C10_segment_fetch_ignores_other_streams : forall path_of es s n,
  others_differ path_of s es ->
  dfetch path_of (drun path_of es) s n = option_map (pair s) (own es s n None).
Proof. exact fetch_is_own. Qed.
Print Assumptions C10_segment_fetch_ignores_other_streams.

(* the hypothesis is what separates the streams: with equal hashes one stream is served the other's segment *)
Theorem C10_equal_hash_refuted : exists path_of es s n,
  murmur (path_of 0) = murmur (path_of 1) /\
  dfetch path_of (drun path_of es) s n <> option_map (pair s) (own es s n None).
Proof. exact equal_hash_refuted. Qed.
Print Assumptions C10_equal_hash_refuted.

Theorem C10_segment_names_injective : forall p q n m,
  (seg_name p n = seg_name p m -> n = m) /\ (murmur p <> murmur q -> seg_name p n <> seg_name q m) /\
  0 <= murmur p < 4294967296.
Proof.
  intros p q n m. split; [apply seg_name_inj|]. split; [apply seg_names_disjoint | apply murmur_range].
Qed.
Print Assumptions C10_segment_names_injective.

(* the two-stream scenario the harness replays on the real generators passes its oracle for all paths and lengths *)
Theorem C10_two_streams_model_passes : forall pa pb k, two_ok pa pb (two_model pa pb k) = true.
Proof. exact two_model_passes. Qed.
Print Assumptions C10_two_streams_model_passes.

(* non-vacuity: two long paths with a common 64-byte prefix hash differently, and each stream reads its own *)
Example C10_two_streams_nonvacuous :
  let pre := repeat 97 64 in
  murmur (47 :: pre ++ [49]) <> murmur (47 :: pre ++ [50]) /\
  two_model (47 :: pre ++ [49]) (47 :: pre ++ [50]) 3 =
    (murmur (47 :: pre ++ [49]), murmur (47 :: pre ++ [50]), true, true).
Proof. vm_compute. split; [discriminate | reflexivity]. Qed.
