From Coq Require Import ZArith List Bool.
From V Require Import Val Bytes C10Hls C10HlsProofs.
Import ListNotations.

Theorem C10_overlay_firstn : forall new old, firstn (length new) (overlay new old) = new.
Proof. exact overlay_firstn. Qed.
Print Assumptions C10_overlay_firstn.
