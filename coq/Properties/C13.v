(* C13 — concurrent writers never tear messages on an interleaved connection.
   Statements only; proofs in Proofs/WritersProofs.v. *)
From Coq Require Import ZArith List Bool.
From V Require Import Bytes Writers WritersProofs.
Import ListNotations.
Open Scope Z_scope.

(* Every prefix of every execution of the media goroutine and the request goroutine under lockW:
   the client has received complete messages of an order-preserving interleaving, followed by the
   already-written part of the one message whose writer holds the lock. *)
Theorem C13_sink_is_message_sequence : forall a b sched,
  let s := wrun true sched (winit a b) in
  exists a1 b1 dn, merge (tag false a1) (tag true b1) (w_done s) /\
    (exists ra, a = a1 ++ ra) /\ (exists rb, b = b1 ++ rb) /\
    w_sink s = all_bytes_of dn ++ w_part s /\
    (w_done s = dn \/ exists e, w_done s = dn ++ [e]).
Proof. exact writers_sink_is_message_sequence. Qed.
Print Assumptions C13_sink_is_message_sequence.

(* When both goroutines are done the stream is exactly a sequence of complete frames and responses,
   each writer's messages in its own order. *)
Theorem C13_finished_sink : forall a b sched,
  let s := wrun true sched (winit a b) in
  wfinished s = true ->
  merge (tag false a) (tag true b) (w_done s) /\ w_sink s = all_bytes_of (w_done s).
Proof. exact writers_finished_sink. Qed.
Print Assumptions C13_finished_sink.

(* the same code without the lock tears a frame: what the lock is for *)
Theorem C13_tear_without_lock_refuted :
  let a := [[[36; 0; 0; 2]; [7; 8]]] in
  let b := [[[82; 84; 83; 80]]] in
  let s := wrun false [false; false; true; true; false; false; true] (winit a b) in
  wfinished s = true /\ w_sink s = [36; 0; 0; 2; 82; 84; 83; 80; 7; 8] /\
  w_sink s <> all_bytes_of (w_done s).
Proof. exact tear_without_lock_refuted. Qed.
Print Assumptions C13_tear_without_lock_refuted.

(* buffered.Conn: for every sequence of Write/Flush of any sizes and any limiter verdicts, what
   reached the socket followed by what is pending is the concatenation of the written slices,
   and the pending part never exceeds the buffer size *)
Theorem C13_buffered_conn_order : forall size ops,
  0 <= size ->
  let b := fold_left b_step ops (b_init size) in
  b_sent b ++ b_buf b = b_written ops /\ zlen (b_buf b) <= size.
Proof. exact buffered_conn_order. Qed.
Print Assumptions C13_buffered_conn_order.

(* the oracles applied to the implementation accept the model *)
Theorem C13_model_passes_writers : forall a b sched,
  let s := wrun true sched (winit a b) in
  wfinished s = true ->
  ok_sink (length a + length b) (map msg_bytes a) (map msg_bytes b) (w_sink s) = true.
Proof. exact writers_model_passes. Qed.
Print Assumptions C13_model_passes_writers.

Theorem C13_model_passes_bconn : forall size ops,
  0 <= size -> ok_bconn size [] ops (b_trace (b_init size) ops) = true.
Proof. exact bconn_model_passes. Qed.
Print Assumptions C13_model_passes_bconn.

Example C13_nonvacuous :
  let a := [[[36; 0; 0; 1]; [9]]; [[36; 2; 0; 1]; [8]]] in
  let b := [[[82]; [13; 10]]] in
  let s := wrun true [false; true; false; false; false; true; true; true; true; false; false; false; false; false] (winit a b) in
  wfinished s = true /\ w_sink s = [36; 0; 0; 1; 9; 82; 13; 10; 36; 2; 0; 1; 8].
Proof. vm_compute. auto. Qed.
