(* C13 — concurrent writers never tear messages on an interleaved connection.
   Statements only; proofs in Proofs/WritersProofs.v and Proofs/C13PoolProofs.v (WebSocket half:
   the pooled staging buffers, at the end of this file). *)
From Coq Require Import ZArith List Bool.
From V Require Import Bytes Writers WritersProofs C13Pool C13PoolProofs C13Shared C13SharedProofs.
Import ListNotations.
Open Scope Z_scope.

(* Every prefix of every execution of the media goroutine and the request goroutine under lockW:
   the client has received complete messages of an order-preserving interleaving, followed by the
   already-written part of the one message whose writer holds the lock. *)
Theorem C13_sink_is_message_sequence : forall a b sched,
  let s := wrun true sched (winit a b) in
  exists a1 b1 dn, merge (tag false a1) (tag true b1) (w_done s) /\
    (exists ra, a = a1 ++ ra) /\ (exists rb, b = b1 ++ rb) /\
    w_sink s = all_bytes_of dn ++ w_part s /\
    (w_done s = dn \/ exists e, w_done s = dn ++ [e]).
Proof. exact writers_sink_is_message_sequence. Qed.
Print Assumptions C13_sink_is_message_sequence.

(* When both goroutines are done the stream is exactly a sequence of complete frames and responses,
   each writer's messages in its own order. *)
Theorem C13_finished_sink : forall a b sched,
  let s := wrun true sched (winit a b) in
  wfinished s = true ->
  merge (tag false a) (tag true b) (w_done s) /\ w_sink s = all_bytes_of (w_done s).
Proof. exact writers_finished_sink. Qed.
Print Assumptions C13_finished_sink.

(* the same code without the lock tears a frame: what the lock is for *)
Theorem C13_tear_without_lock_refuted :
  let a := [[[36; 0; 0; 2]; [7; 8]]] in
  let b := [[[82; 84; 83; 80]]] in
  let s := wrun false [false; false; true; true; false; false; true] (winit a b) in
  wfinished s = true /\ w_sink s = [36; 0; 0; 2; 82; 84; 83; 80; 7; 8] /\
  w_sink s <> all_bytes_of (w_done s).
Proof. exact tear_without_lock_refuted. Qed.
Print Assumptions C13_tear_without_lock_refuted.

(* buffered.Conn: for every sequence of Write/Flush of any sizes and any limiter verdicts, what
   reached the socket followed by what is pending is the concatenation of the written slices,
   and the pending part never exceeds the buffer size *)
Theorem C13_buffered_conn_order : forall size ops,
  0 <= size ->
  let b := fold_left b_step ops (b_init size) in
  b_sent b ++ b_buf b = b_written ops /\ zlen (b_buf b) <= size.
Proof. exact buffered_conn_order. Qed.
Print Assumptions C13_buffered_conn_order.

(* the oracles applied to the implementation accept the model *)
Theorem C13_model_passes_writers : forall a b sched,
  let s := wrun true sched (winit a b) in
  wfinished s = true ->
  ok_sink (length a + length b) (map msg_bytes a) (map msg_bytes b) (w_sink s) = true.
Proof. exact writers_model_passes. Qed.
Print Assumptions C13_model_passes_writers.

Theorem C13_model_passes_bconn : forall size ops,
  0 <= size -> ok_bconn size [] ops (b_trace (b_init size) ops) = true.
Proof. exact bconn_model_passes. Qed.
Print Assumptions C13_model_passes_bconn.

Example C13_nonvacuous :
  let a := [[[36; 0; 0; 1]; [9]]; [[36; 2; 0; 1]; [8]]] in
  let b := [[[82]; [13; 10]]] in
  let s := wrun true [false; true; false; false; false; true; true; true; true; false; false; false; false; false] (winit a b) in
  wfinished s = true /\ w_sink s = [36; 0; 0; 1; 9; 82; 13; 10; 36; 2; 0; 1; 8].
Proof. vm_compute. auto. Qed.

(* ================= WebSocket transports: one message = one pooled staging buffer =================
   Model/C13Pool.v: any number of goroutines (request handlers, media goroutines, handshakes, of one
   or several sessions, including sessions that ended earlier), each a program over Get / Write /
   Send / Put on buffers taken from one shared pool; [sched] lists which goroutine moves next AND
   which pooled buffer a Get hands out (sync.Pool promises no order), so the statements hold for
   every interleaving and every behaviour of the pool.  [disciplined]: Get+Reset into a free
   variable, every use and exactly one Put while the variable holds the buffer. *)
Open Scope nat_scope.

(* ownership: the pool never has an identity twice, a held buffer is not in the pool, and no buffer
   is held by two goroutines (or through two variables) at the same time *)
Theorem C13_pool_ownership : forall progs sched,
  disciplined progs = true ->
  let s := prun sched (pinit progs) in
  NoDup (ps_pool s) /\
  (forall t v b, holds s t v b -> ~ In b (ps_pool s)) /\
  (forall t1 v1 t2 v2 b, holds s t1 v1 b -> holds s t2 v2 b -> t1 = t2 /\ v1 = v2).
Proof. exact pool_ownership. Qed.
Print Assumptions C13_pool_ownership.

(* hence a held buffer contains exactly what its holder composed since the Get ... *)
Theorem C13_pool_content_private : forall progs sched,
  disciplined progs = true ->
  let s := prun sched (pinit progs) in
  forall t v b, holds s t v b -> ps_mem s b = p_want (ps_thr s t) v.
Proof. exact pool_content_private. Qed.
Print Assumptions C13_pool_content_private.

(* ... every WebSocket message is byte for byte the message its sender composed (one complete
   response or one complete interleaved frame, nothing of anybody else's) ... *)
Theorem C13_pool_messages_exact : forall progs sched,
  disciplined progs = true -> ps_out (prun sched (pinit progs)) = ps_int (prun sched (pinit progs)).
Proof. exact pool_messages_exact. Qed.
Print Assumptions C13_pool_messages_exact.

(* ... and per connection the messages are an order-preserving interleaving of the whole messages the
   program texts say: each sender's messages so far are a prefix of its intended list, all of it
   when the goroutine is done *)
Theorem C13_pool_sender_order : forall progs sched,
  disciplined progs = true ->
  let s := prun sched (pinit progs) in
  forall t k, exists rest, sent_by k t (ps_out s) ++ rest = intended k (nth t progs []).
Proof. exact pool_sender_order. Qed.
Print Assumptions C13_pool_sender_order.

Theorem C13_pool_sender_complete : forall progs sched,
  disciplined progs = true ->
  let s := prun sched (pinit progs) in
  forall t k, p_prog (ps_thr s t) = [] -> sent_by k t (ps_out s) = intended k (nth t progs []).
Proof. exact pool_sender_complete. Qed.
Print Assumptions C13_pool_sender_complete.

(* the oracle applied to the implementation (messages read by a WebSocket client per connection, and
   the pool drained after the history) accepts the model *)
Theorem C13_model_passes_pool : forall progs sched conns,
  disciplined progs = true ->
  let s := prun sched (pinit progs) in
  pfinished (length progs) s = true ->
  ok_pool progs (pobserve conns s) (ps_pool s) = true.
Proof. exact pool_model_passes. Qed.
Print Assumptions C13_model_passes_pool.

(* link to the TCP half: media goroutine and request goroutine of one ws-rtsp session — the messages
   are a Writers.merge of the frames and the responses (whole, not spliced) and the bytes under the
   WebSocket pass the byte-level oracle ok_sink *)
Theorem C13_pool_two_writers : forall pa pb sched k,
  disciplined [pa; pb] = true ->
  let s := prun sched (pinit [pa; pb]) in
  pfinished 2 s = true ->
  merge (tag false (as_msgs (intended k pa))) (tag true (as_msgs (intended k pb))) (tagb (on_conn k (ps_out s))) /\
  ok_sink (length (intended k pa) + length (intended k pb)) (intended k pa) (intended k pb)
          (concat (map snd (on_conn k (ps_out s)))) = true.
Proof. exact pool_two_writers. Qed.
Print Assumptions C13_pool_two_writers.

(* what the discipline is for — computed schedules.  A second Put (after the response and again by
   the deferred Put of an earlier session): the identity is in the pool twice, the media goroutine
   and the request goroutine hold it at the same time, the data channel carries response text
   followed by the frame's payload *)
Theorem C13_pool_double_put_refuted :
  disciplined double_put_progs = false /\
  let mid := prun (firstn 8 double_put_sched) (pinit double_put_progs) in
  let s := prun double_put_sched (pinit double_put_progs) in
  ps_pool (prun (firstn 5 double_put_sched) (pinit double_put_progs)) = [0; 0] /\
  p_held (ps_thr mid 1) = [(0, 0)] /\ p_held (ps_thr mid 2) = [(0, 0)] /\
  pfinished 3 s = true /\
  map snd (on_conn 1 (ps_out s)) = [resp_txt ++ frame_pay] /\
  intended 1 (nth 1 double_put_progs []) = [frame_pfx ++ frame_pay] /\
  ok_pool double_put_progs (pobserve [0; 1] s) (ps_pool s) = false.
Proof. exact double_put_refuted. Qed.
Print Assumptions C13_pool_double_put_refuted.

(* ... and under a schedule that corrupts no message the drained pool still shows it *)
Theorem C13_pool_double_put_probe_refuted :
  let sched := [(0,0);(0,0);(0,0);(0,0);(0,0); (1,0);(1,0);(1,0);(1,0);(1,0); (2,0);(2,0);(2,0);(2,0)] in
  let s := prun sched (pinit double_put_progs) in
  pfinished 3 s = true /\ ps_out s = ps_int s /\ nodupb (ps_pool s) = false.
Proof. exact double_put_probe_refuted. Qed.
Print Assumptions C13_pool_double_put_probe_refuted.

(* Put before the WebSocket write has completed *)
Theorem C13_pool_use_after_put_refuted :
  let sched := [(0,0);(0,0);(0,0);(0,0); (1,0);(1,0);(1,0); (0,0); (1,0)] in
  let s := prun sched (pinit use_after_put_progs) in
  disciplined use_after_put_progs = false /\ pfinished 2 s = true /\
  map snd (on_conn 1 (ps_out s)) = [resp_txt] /\
  ok_pool use_after_put_progs (pobserve [0; 1] s) (ps_pool s) = false.
Proof. exact use_after_put_refuted. Qed.
Print Assumptions C13_pool_use_after_put_refuted.

(* no Reset after Get *)
Theorem C13_pool_no_reset_refuted :
  let sched := [(0,0);(0,0);(0,0);(0,0); (1,0);(1,0);(1,0);(1,0);(1,0)] in
  let s := prun sched (pinit no_reset_progs) in
  disciplined no_reset_progs = false /\ pfinished 2 s = true /\
  map snd (on_conn 1 (ps_out s)) = [resp_txt ++ frame_pfx ++ frame_pay] /\
  ok_pool no_reset_progs (pobserve [0; 1] s) (ps_pool s) = false.
Proof. exact no_reset_refuted. Qed.
Print Assumptions C13_pool_no_reset_refuted.

(* one package-level buffer instead of the pool *)
Theorem C13_pool_shared_buffer_refuted :
  let sched := [(0,0);(0,0); (1,0);(1,0);(1,0); (0,0);(0,0)] in
  let s := prun sched (pinit shared_buffer_progs) in
  disciplined shared_buffer_progs = false /\ pfinished 2 s = true /\
  map snd (on_conn 1 (ps_out s)) = [resp_txt ++ frame_pay] /\
  ok_pool shared_buffer_progs (pobserve [0; 1] s) (ps_pool s) = false.
Proof. exact shared_buffer_refuted. Qed.
Print Assumptions C13_pool_shared_buffer_refuted.

(* /repo before the fix: for a packet of a track the viewer did not set up the empty staging buffer was
   sent — a message that is neither a response nor a frame; the oracle refuses it *)
Theorem C13_pool_empty_message_refuted :
  let s := prun [(0,0);(0,0);(0,0)] (pinit [[IGet 0 true; ISend 0 1; IPut 0]]) in
  pfinished 1 s = true /\ map snd (on_conn 1 (ps_out s)) = [[]] /\
  ok_pool [[IGet 0 true; IPut 0]] (pobserve [1] s) (ps_pool s) = false.
Proof. exact empty_message_refuted. Qed.
Print Assumptions C13_pool_empty_message_refuted.

(* non-vacuity: Session.process as it is (one buffer per request, Puts deferred to the end), an
   earlier session, a media goroutine; the pool asked for a position it does not have *)
Example C13_pool_nonvacuous :
  let sched := [(0,0);(0,0);(0,0);(0,0); (1,0);(1,0); (2,0);(2,0);(2,0); (1,0);(1,0);(1,0); (2,5);(2,0);(2,0);
                (1,0);(1,0);(1,0);(1,0);(1,0); (2,0);(2,0)] in
  let s := prun sched (pinit good_progs) in
  disciplined good_progs = true /\ pfinished 3 s = true /\
  map snd (on_conn 1 (ps_out s)) = [frame_pfx ++ frame_pay; frame_pfx ++ [9; 9]%Z] /\
  map snd (on_conn 0 (ps_out s)) = [resp_txt; resp_txt; [79; 75]%Z] /\
  ok_pool good_progs (pobserve [0; 1] s) (ps_pool s) = true.
Proof. exact good_progs_run. Qed.

(* ================= a frame is read twice from a shared packet =================
   Model/C13Shared.v: rtp.Packet.Write reads len(p.Data) for the prefix and p.Data again for the body; the
   published packet is one object shared with every other viewer's goroutine and the stream's demuxer.
   [ops] is any sequence of prefix-reads, body-reads, reads and in-place trims by any number of goroutines.
   Under the discipline "nobody mutates a published packet" every frame announces the length of its body,
   the body is the published packet, and the chunks on the wire are the immutable message of Writers.v. *)
Theorem C13_shared_frames_consistent : forall st0 ops,
  packets_immutable ops = true ->
  forall f, In f (s_out (srun ops (sinit st0))) ->
    f_len f = length (f_body f) /\ f_body f = st0 (f_pkt f).
Proof. exact shared_frames_consistent. Qed.
Print Assumptions C13_shared_frames_consistent.

Theorem C13_shared_frames_are_values : forall st0 ops ch,
  packets_immutable ops = true ->
  forall f, In f (s_out (srun ops (sinit st0))) ->
    frame_msg ch (f_len f) (f_body f) = frame_msg ch (length (st0 (f_pkt f))) (st0 (f_pkt f)).
Proof. exact shared_frames_are_values. Qed.
Print Assumptions C13_shared_frames_are_values.

Theorem C13_shared_packets_unchanged : forall st0 ops,
  packets_immutable ops = true -> forall i, s_store (srun ops (sinit st0)) i = st0 i.
Proof. exact shared_packets_unchanged. Qed.
Print Assumptions C13_shared_packets_unchanged.

Theorem C13_model_passes_shared : forall st0 ops,
  packets_immutable ops = true -> ok_frames st0 (s_out (srun ops (sinit st0))) = true.
Proof. exact shared_model_passes. Qed.
Print Assumptions C13_model_passes_shared.

(* padding stripped by re-slicing the shared packet, between prefix and body: 6 announced, 4 sent *)
Theorem C13_shared_trim_refuted :
  let st0 := fun i => match i with O => padded_pkt | _ => [] end in
  let ops := [SLen 0 0; STrim 0 2; SBody 0] in
  let s := srun ops (sinit st0) in
  packets_immutable ops = false /\
  map (fun f => (f_len f, length (f_body f))) (s_out s) = [(6, 4)] /\
  ok_frames st0 (s_out s) = false /\ ok_pure [st0 0] [s_store s 0] = false.
Proof. exact trim_between_prefix_and_body_refuted. Qed.
Print Assumptions C13_shared_trim_refuted.

Theorem C13_shared_trim_before_refuted :
  let st0 := fun i => match i with O => padded_pkt | _ => [] end in
  let s := srun [STrim 0 2; SLen 0 0; SBody 0] (sinit st0) in
  map (fun f => (f_len f, length (f_body f))) (s_out s) = [(4, 4)] /\ ok_frames st0 (s_out s) = false.
Proof. exact trim_before_prefix_refuted. Qed.
Print Assumptions C13_shared_trim_before_refuted.

Example C13_shared_nonvacuous :
  let st0 := fun i => match i with O => padded_pkt | _ => [9; 9]%Z end in
  let ops := [SLen 0 0; SLen 1 0; SRead 0; SBody 1; SLen 1 1; SRead 1; SBody 0; SBody 1] in
  let s := srun ops (sinit st0) in
  packets_immutable ops = true /\
  map (fun f => (f_writer f, f_pkt f, f_len f)) (s_out s) = [(1, 0, 6); (0, 0, 6); (1, 1, 2)] /\
  ok_frames st0 (s_out s) = true.
Proof. exact shared_nonvacuous. Qed.
