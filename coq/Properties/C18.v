(* C18 — users and routes survive edits, reloads and crashes intact.
   Statements only; proofs are in Proofs/C18TableProofs.v and Proofs/C18CrashProofs.v.
   JSON is an oracle: [encode]/[decode] are universally quantified and constrained by
   the named laws [roundtrip], [prefix_safe], [empty_invalid]. *)
From Coq Require Import ZArith List Bool.
From V Require Import Bytes StrGo Route RouteProofs C18Users C18Tables C18CrashFs C18TableProofs C18CrashProofs C18EndToEnd C18CanonStable C18Conc C18ConcProofs.
Import ListNotations.
Open Scope Z_scope.

(* ---- edits: the table is the fold of the operations over a finite map ---- *)
(* users: names lower-cased, the password kept unless the caller asks to change it (see usave_spec) *)
Theorem C18_users_refine_map : forall ops sd m,
  forallb (fun o => negb (is_restart o)) ops = true ->
  (forall k, uabs (m_tab (fst sd)) k = m k) ->
  forall k, uabs (m_tab (fst (fst (mrun user_ops sd ops)))) k = fold_left uastep ops m k.
Proof. exact users_refine_map. Qed.
Print Assumptions C18_users_refine_map.

(* routes: the manager's table under Save/Del is C17's table, hence a finite map keyed by canonical patterns *)
Theorem C18_routes_refine_map : forall url_ok ops sd m,
  forallb (fun o => negb (is_restart o)) ops = true ->
  (forall k, abs (m_tab (fst sd)) k = m k) ->
  forall k, abs (m_tab (fst (fst (mrun (route_ops url_ok) sd ops)))) k =
            fold_left (astep url_ok) (flat_map rop_of ops) m k.
Proof. exact routes_refine_map. Qed.
Print Assumptions C18_routes_refine_map.

(* one entry per name after any history, restarts included *)
Theorem C18_users_one_entry_per_name : forall ops sd,
  uuniq_sd sd -> uuniq_keys (m_tab (fst (fst (mrun user_ops sd ops)))) = true.
Proof. exact users_one_entry_per_name. Qed.
Print Assumptions C18_users_one_entry_per_name.

(* delete then re-create leaves one entry, holding the new data *)
Theorem C18_delete_recreate_one_entry : forall t u b,
  uuniq_keys t = true ->
  let t' := usave (udel t (u_name u)) u b in
  uuniq_keys t' = true /\
  length (filter (uhas_key (to_lower (u_name u))) t') = 1%nat /\
  ulookup t' (to_lower (u_name u)) = Some (uinit u).
Proof. exact delete_recreate_one_entry. Qed.
Print Assumptions C18_delete_recreate_one_entry.

(* ---- after a flush a restarted server loads exactly that table (any history before) ---- *)
Theorem C18_users_flush_restart_exact : forall ops sd,
  uinv sd ->
  m_tab (fst (fst (mrun user_ops sd (ops ++ [MFlush; MRestart])))) = m_tab (fst (fst (mrun user_ops sd ops))).
Proof. exact users_flush_restart_exact. Qed.
Print Assumptions C18_users_flush_restart_exact.

(* routes: no guard any more — every pattern is stable under the repaired CanonicalPath (C18_canon_stable_all) *)
Theorem C18_routes_flush_restart_exact : forall url_ok ops sd,
  inv (route_ops url_ok) sd ->
  m_tab (fst (fst (mrun (route_ops url_ok) sd (ops ++ [MFlush; MRestart])))) =
  m_tab (fst (fst (mrun (route_ops url_ok) sd ops))).
Proof. exact routes_flush_restart_exact. Qed.
Print Assumptions C18_routes_flush_restart_exact.

(* CanonicalPath applied to its own result changes nothing, for every pattern (fix 1c2de2b in /repo) *)
Theorem C18_canon_stable_all : forall p, canon_stable p = true.
Proof. exact canon_stable_all. Qed.
Print Assumptions C18_canon_stable_all.

(* (kept: the direct proof for patterns without white space, which does not need the repair's loop) *)
Theorem C18_no_space_canon_stable : forall p, no_space p = true -> canon_stable p = true.
Proof. exact no_space_canon_stable. Qed.
Print Assumptions C18_no_space_canon_stable.

(* after the fix "CanonicalPath is idempotent": the former witness "/a /b/.." reloads unchanged *)
Theorem C18_route_reload_unstable_fixed :
  let R := route_ops (fun _ => true) in
  let r := {| r_pat := [47;97;32;47;98;47;46;46]; r_url := [114]; r_keep := false |} in
  canon_stable (r_pat r) = true /\
  m_tab (fst (fst (mrun R (restart R None, None) [MSave r; MFlush; MRestart]))) =
  m_tab (fst (fst (mrun R (restart R None, None) [MSave r]))).
Proof. exact route_reload_unstable_fixed. Qed.
Print Assumptions C18_route_reload_unstable_fixed.

(* the bytes: a fresh provider on the flushed file decodes exactly the flushed table *)
Theorem C18_flush_reload : forall (T : Type) (encode : T -> bytes) (decode : bytes -> option T) (dflt : T) tgt tmp,
  tmp <> tgt -> roundtrip encode decode ->
  forall s t, fload decode dflt tgt (run s (safe_flush tgt tmp (encode t))) = Some t.
Proof. exact (@flush_reload). Qed.
Print Assumptions C18_flush_reload.

(* ---- crash atomicity of the repaired write sequence: every crash point, every torn write ---- *)
Theorem C18_crash_atomic : forall (T : Type) (encode : T -> bytes) (decode : bytes -> option T) (dflt : T) tgt tmp,
  tmp <> tgt -> roundtrip encode decode ->
  forall s told t, fload decode dflt tgt s = Some told ->
  forall i k s', In (i, k, s') (crash_states s (safe_flush tgt tmp (encode t))) ->
  fload decode dflt tgt s' = Some told \/ fload decode dflt tgt s' = Some t.
Proof. exact (@crash_atomic). Qed.
Print Assumptions C18_crash_atomic.

(* which of the two: the old one until the rename has happened *)
Theorem C18_crash_atomic_at : forall (T : Type) (encode : T -> bytes) (decode : bytes -> option T) (dflt : T) tgt tmp,
  tmp <> tgt -> roundtrip encode decode ->
  forall s t i k s', In (i, k, s') (crash_states s (safe_flush tgt tmp (encode t))) ->
  fload decode dflt tgt s' = if (i <? 5)%nat then fload decode dflt tgt s else Some t.
Proof. exact (@crash_atomic_at). Qed.
Print Assumptions C18_crash_atomic_at.

Theorem C18_crash_leaves_others : forall tgt tmp s d i k s' q,
  q <> tgt -> q <> tmp -> In (i, k, s') (crash_states s (safe_flush tgt tmp d)) -> s' q = s q.
Proof. exact crash_leaves_others. Qed.
Print Assumptions C18_crash_leaves_others.

(* ---- several flushes in a row, each interrupted anywhere, the server restarting in between ----
   The state a crash leaves behind (stray temporary files with arbitrary partial content) is the start
   state of the next flush.  The target always holds the original table or one of those flushed so far,
   and a flush that completes makes it hold exactly the table flushed last. *)
Theorem C18_crash_then_flush_atomic : forall (T : Type) (encode : T -> bytes) (decode : bytes -> option T) (dflt : T) tgt,
  roundtrip encode decode -> forall rounds : list (T * path),
  Forall (fun r => snd r <> tgt) rounds ->
  forall s s', In s' (crash_runs s (map (flush_of encode tgt) rounds)) ->
  (fload decode dflt tgt s' = fload decode dflt tgt s \/
   exists r, In r rounds /\ fload decode dflt tgt s' = Some (fst r)) /\
  (forall t tmp, tmp <> tgt -> fload decode dflt tgt (run s' (safe_flush tgt tmp (encode t))) = Some t).
Proof. exact (@crash_then_flush_atomic). Qed.
Print Assumptions C18_crash_then_flush_atomic.

(* one fixed temporary name, opened without truncation and reused by the next flush: after a flush of a
   big table was interrupted past its write, a completed flush of a smaller table renames into place the
   new JSON followed by the tail of the abandoned write; the restarted server does not load it *)
Theorem C18_crash_then_reuse_flush_refuted : forall (T : Type) (encode : T -> bytes) (decode : bytes -> option T) (dflt : T) tgt tmp,
  tmp <> tgt -> forall s tb ts,
  s tmp = None -> (length (encode ts) < length (encode tb))%nat ->
  exists i k s1, In (i, k, s1) (crash_states s (reuse_flush tgt tmp (encode tb))) /\
    s1 tgt = s tgt /\
    let s2 := run s1 (reuse_flush tgt tmp (encode ts)) in
    s2 tgt = Some (encode ts ++ skipn (length (encode ts)) (encode tb)) /\
    skipn (length (encode ts)) (encode tb) <> [] /\
    (trailing_invalid encode decode -> fload decode dflt tgt s2 = None).
Proof. exact (@crash_then_reuse_flush_refuted). Qed.
Print Assumptions C18_crash_then_reuse_flush_refuted.

(* manager, file system and restart together: the process dies anywhere in manager.Flush (JSON provider,
   repaired writer); the restarted server starts, with the table a restart would have had before the
   flush or with exactly the table that was being flushed *)
Theorem C18_crash_restart_table : forall (E X : Type) (M : tops E X) (encode : list E -> bytes) decode tgt tmp,
  tmp <> tgt -> roundtrip encode decode ->
  forall (st : mstate E) d s,
  Forall (stable M) (m_tab st) -> fs_holds M decode tgt s d ->
  forall i k s', In (i, k, s') (crash_states s (flush_ops encode tgt tmp st)) ->
  restart_table M decode tgt s' = Some (load M d) \/ restart_table M decode tgt s' = Some (m_tab st).
Proof. exact (@crash_restart_table). Qed.
Print Assumptions C18_crash_restart_table.

(* ... and when it does not die, the file system holds what the table-level model says the disk holds *)
Theorem C18_flush_completed_holds : forall (E X : Type) (M : tops E X) (encode : list E -> bytes) decode tgt tmp,
  tmp <> tgt -> roundtrip encode decode ->
  forall (st : mstate E) d s,
  fs_holds M decode tgt s d -> fs_holds M decode tgt (run s (flush_ops encode tgt tmp st)) (snd (do_flush st d)).
Proof. exact (@flush_completed_holds). Qed.
Print Assumptions C18_flush_completed_holds.

(* ---- D32: the sequence used before the repair (OpenFile(O_TRUNC), write, sync) ---- *)
Theorem C18_crash_after_truncate_refuted : forall (T : Type) (encode : T -> bytes) (decode : bytes -> option T) (dflt : T) tgt,
  empty_invalid decode -> forall s t,
  exists i k s', In (i, k, s') (crash_states s (unsafe_flush tgt (encode t))) /\
                 s' tgt = Some [] /\ fload decode dflt tgt s' = None.
Proof. exact (@crash_after_truncate_refuted). Qed.
Print Assumptions C18_crash_after_truncate_refuted.

Theorem C18_unsafe_not_atomic : forall (T : Type) (encode : T -> bytes) (decode : bytes -> option T) (dflt : T) tgt,
  empty_invalid decode -> forall s told t,
  ~ (forall i k s', In (i, k, s') (crash_states s (unsafe_flush tgt (encode t))) ->
                    fload decode dflt tgt s' = Some told \/ fload decode dflt tgt s' = Some t).
Proof. exact (@unsafe_not_atomic). Qed.
Print Assumptions C18_unsafe_not_atomic.

(* with the prefix law a torn file never yields a different table: old, new, or none *)
Theorem C18_unsafe_never_mixed : forall (T : Type) (encode : T -> bytes) (decode : bytes -> option T) (dflt : T) tgt,
  roundtrip encode decode -> prefix_safe encode decode -> forall s told t,
  fload decode dflt tgt s = Some told ->
  forall i k s', In (i, k, s') (crash_states s (unsafe_flush tgt (encode t))) ->
  fload decode dflt tgt s' = Some told \/ fload decode dflt tgt s' = Some t \/
  fload decode dflt tgt s' = None \/ fload decode dflt tgt s' = decode [].
Proof. exact (@unsafe_never_mixed). Qed.
Print Assumptions C18_unsafe_never_mixed.

(* removing the target before the rename opens the window in which a restart falls back to the default (admin/admin) *)
Theorem C18_remove_before_rename_refuted : forall (T : Type) (decode : bytes -> option T) (dflt : T) tgt tmp s d,
  exists i k s', In (i, k, s') (crash_states s (remove_rename_flush tgt tmp d)) /\
                 s' tgt = None /\ fload decode dflt tgt s' = Some dflt.
Proof. exact (@remove_before_rename_refuted). Qed.
Print Assumptions C18_remove_before_rename_refuted.

(* ---- the oracles applied to the implementation accept the model ---- *)
Theorem C18_model_passes : forall ops,
  ok_hist user_ops (restart user_ops None, None) ops
          (snd (mrun user_ops (restart user_ops None, None) ops)) = true.
Proof. exact users_model_passes. Qed.
Print Assumptions C18_model_passes.

Theorem C18_routes_model_passes : forall url_ok ops,
  ok_hist (route_ops url_ok) (restart (route_ops url_ok) None, None) ops
          (snd (mrun (route_ops url_ok) (restart (route_ops url_ok) None, None) ops)) = true.
Proof. exact routes_model_passes. Qed.
Print Assumptions C18_routes_model_passes.

Theorem C18_crash_model_passes : forall (T : Type) (encode : T -> bytes) (decode : bytes -> option T) (dflt : T) tgt tmp,
  tmp <> tgt -> forall teqb : T -> T -> bool, (forall t, teqb t t = true) ->
  roundtrip encode decode -> forall s told t,
  fload decode dflt tgt s = Some told ->
  crash_ok teqb told t (map (fun x => fload decode dflt tgt (snd x))
                            (crash_states s (safe_flush tgt tmp (encode t)))) = true.
Proof. exact (@crash_model_passes). Qed.
Print Assumptions C18_crash_model_passes.

Theorem C18_round_model_passes : forall (T : Type) (encode : T -> bytes) (decode : bytes -> option T) (dflt : T) tgt,
  forall teqb : T -> T -> bool, (forall t, teqb t t = true) ->
  roundtrip encode decode -> forall tmp, tmp <> tgt -> forall s told t,
  fload decode dflt tgt s = Some told ->
  forall i k s', In (i, k, s') (crash_states s (safe_flush tgt tmp (encode t))) ->
  round_ok teqb told t (Nat.eqb i 5) (fload decode dflt tgt s') = true.
Proof. exact (@round_model_passes). Qed.
Print Assumptions C18_round_model_passes.

(* ---- the managers under concurrent use: every interleaving of API calls (atomic, under the lock),
   Flushes split into begin / provider write (or failure) / clear, and crashes; VWhole = the lock
   discipline of the code (the whole Flush under the write lock) ---- *)
(* durability: in every reachable state, whatever is not in the file is still recorded as pending
   (hence written by the next completed Flush) *)
Theorem C18_conc_durable : forall es c,
  crun user_ops VWhole (cstart user_ops) es = Some c -> durable user_ops c.
Proof. exact users_conc_durable. Qed.
Print Assumptions C18_conc_durable.

Theorem C18_routes_conc_durable : forall url_ok es c,
  crun (route_ops url_ok) VWhole (cstart (route_ops url_ok)) es = Some c -> durable (route_ops url_ok) c.
Proof. exact routes_conc_durable. Qed.
Print Assumptions C18_routes_conc_durable.

(* after any interleaving, a Flush completed from a quiescent state leaves file = table, nothing pending,
   the table untouched; a crash + restart then gives back exactly that table *)
Theorem C18_conc_flush_exact : forall es c f c',
  crun user_ops VWhole (cstart user_ops) es = Some c -> no_flusher c = true ->
  (crun user_ops VWhole c [EBegin f; EWrite f true; EClear f] = Some c' \/ crun user_ops VWhole c [EOp MFlush] = Some c') ->
  m_tab (c_st c') = m_tab (c_st c) /\ pend_empty (c_st c') = true /\ load user_ops (c_d c') = m_tab (c_st c') /\
  forall c'', crun user_ops VWhole c' [ECrash] = Some c'' -> m_tab (c_st c'') = m_tab (c_st c).
Proof. exact users_conc_flush_exact. Qed.
Print Assumptions C18_conc_flush_exact.

Theorem C18_routes_conc_flush_exact : forall url_ok es c f c',
  let R := route_ops url_ok in
  crun R VWhole (cstart R) es = Some c -> no_flusher c = true ->
  (crun R VWhole c [EBegin f; EWrite f true; EClear f] = Some c' \/ crun R VWhole c [EOp MFlush] = Some c') ->
  m_tab (c_st c') = m_tab (c_st c) /\ pend_empty (c_st c') = true /\ load R (c_d c') = m_tab (c_st c') /\
  forall c'', crun R VWhole c' [ECrash] = Some c'' -> m_tab (c_st c'') = m_tab (c_st c).
Proof. exact routes_conc_flush_exact. Qed.
Print Assumptions C18_routes_conc_flush_exact.

(* the lock narrowed to a read lock for check + write, the write lock only for the clear: an edit gets in
   between, its dirty record is cleared, every later Flush writes nothing, a restart loses the edit *)
Theorem C18_narrow_lock_refuted :
  lost_edit VNarrow [EOp (MSave (alice, true)); EBegin 0; EWrite 0 true; EOp (MSave (bob, true)); EClear 0].
Proof. exact narrow_lock_refuted. Qed.
Print Assumptions C18_narrow_lock_refuted.

Theorem C18_narrow_schedule_excluded_by_whole :
  crun user_ops VWhole (cstart user_ops)
       [EOp (MSave (alice, true)); EBegin 0; EWrite 0 true; EOp (MSave (bob, true)); EClear 0] = None.
Proof. exact narrow_schedule_excluded_by_whole. Qed.
Print Assumptions C18_narrow_schedule_excluded_by_whole.

Theorem C18_clear_first_refuted : lost_edit VClearFirst [EOp (MSave (alice, true)); EBegin 0; EWrite 0 false].
Proof. exact clear_first_refuted. Qed.
Print Assumptions C18_clear_first_refuted.

Theorem C18_no_lock_refuted :
  lost_edit VNoLock [EOp (MSave (alice, true)); EBegin 0; EWrite 0 true; EOp (MSave (bob, true)); EClear 0].
Proof. exact no_lock_refuted. Qed.
Print Assumptions C18_no_lock_refuted.

(* the oracle of the schedule replay accepts the model *)
Theorem C18_conc_model_passes : forall es,
  sok user_ops VWhole (rstart user_ops) es (snd (srun user_ops VWhole (rstart user_ops) es)) = true.
Proof. exact users_conc_model_passes. Qed.
Print Assumptions C18_conc_model_passes.

Theorem C18_routes_conc_model_passes : forall url_ok es,
  let R := route_ops url_ok in sok R VWhole (rstart R) es (snd (srun R VWhole (rstart R) es)) = true.
Proof. exact routes_conc_model_passes. Qed.
Print Assumptions C18_routes_conc_model_passes.

Example C18_conc_nonvacuous :
  exists c, crun user_ops VWhole (cstart user_ops)
      [EOp (MSave (alice, true)); EBegin 0; EWrite 0 false; EOp (MSave (bob, true));
       EBegin 1; EWrite 1 true; EClear 1; ECrash; EOp MAll] = Some c /\
    length (m_tab (c_st c)) = 3%nat /\ durableb user_ops c = true.
Proof. exact conc_nonvacuous. Qed.

(* ---- non-vacuity ---- *)
(* the JSON laws are satisfiable together *)
Definition nv_encode (b : bool) : bytes := [if b then 49 else 48; 10].
Definition nv_decode (l : bytes) : option bool :=
  match l with [48; 10] => Some false | [49; 10] => Some true | _ => None end.
Example C18_nonvacuous_codec :
  roundtrip nv_encode nv_decode /\ prefix_safe nv_encode nv_decode /\ empty_invalid nv_decode.
Proof.
  split; [|split].
  - intros [|]; reflexivity.
  - intros t k t' Hk. destruct t; cbn in Hk; destruct k as [|[|k]]; cbn; try discriminate;
      exfalso; apply (PeanoNat.Nat.nlt_0_r k); do 2 apply PeanoNat.Nat.succ_lt_mono; exact Hk.
  - reflexivity.
Qed.

Example C18_nonvacuous_trailing : trailing_invalid nv_encode nv_decode.
Proof. intros [|] [|x g] N; try contradiction; reflexivity. Qed.

(* the hypotheses of the history theorems hold at the server's start, and a history with an update that keeps the
   password, a delete + re-create and flush + restart exercises them *)
Example C18_nonvacuous :
  uinv (restart user_ops None, None) /\
  uuniq_sd (restart user_ops None, None) /\
  let bob pw adm := {| u_name := [66;111;98]; u_pw := pw; u_admin := adm; u_push := []; u_pull := [] |} in
  m_tab (fst (fst (mrun user_ops (restart user_ops None, None)
     [MSave (bob [49] false, true); MSave (bob [50] true, false); MDel [97;100;109;105;110]; MFlush; MRestart]))) =
  [ {| u_name := [98;111;98]; u_pw := [49]; u_admin := true; u_push := [42]; u_pull := [42] |} ].
Proof.
  split; [apply inv_start; exact user_default_stable|].
  split; [|vm_compute; reflexivity].
  split; [reflexivity|split; [discriminate|split; [exact user_default_stable|discriminate]]].
Qed.
