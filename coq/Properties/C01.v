(* C01 — fan-out delivers every packet once, in order, unmodified, to every consumer.
   Statements only; proofs are in Proofs/LtsFanoutProofs.v.

   All theorems are about the stream LTS (Model/StreamLts.v) in its variant [fixed] (the code as
   it is now), for every schedule [sched], every packet list [pkts], every set of stoppers, every
   number of consumers [ncons], every [maxq], every [panic_at] and an abstract cache.
   [s] is the state after the schedule, [k] the entry of consumer [c] (any c; entries of
   c >= ncons stay [cons0]).

   Vocabulary (Proofs/LtsFanoutProofs.v):
     select m l       the elements of l whose flag in m is true
     subseq l1 l2     l1 is a subsequence of l2 (same order, elements possibly left out)
     window sent r u  the packets broadcast while registered: [] if never registered (r = None),
                      skipn r sent while registered, firstn (u-r) (skipn r sent) once removed
     live_out k       c_out k without its first |c_prefill k| elements (the part from live broadcast)
     live_pushed k    likewise for c_pushed k
     send_drop        consumption.send's keep/drop decision as a function of
                      (maxq, own queue length, own discarding flag, packet)
   "Unmodified": the model never rebuilds a packet; the same [pkt] value goes from the publisher's
   input to the sent log, the queues and c_out, so identity is list equality / [In x pkts]. *)
From Coq Require Import ZArith List Bool Arith.
From V Require Import StreamLts Cache LtsWire LtsFanoutProofs.
Import ListNotations.
#[local] Open Scope nat_scope.

#[local] Arguments s_lock {cache_t} _.
#[local] Arguments s_lockq {cache_t} _.
#[local] Arguments s_cache {cache_t} _.
#[local] Arguments s_sent {cache_t} _.
#[local] Arguments s_cached {cache_t} _.
#[local] Arguments s_todo {cache_t} _.
#[local] Arguments s_pp {cache_t} _.
#[local] Arguments s_cs {cache_t} _ _.
#[local] Arguments s_att {cache_t} _ _.
#[local] Arguments s_kp {cache_t} _.

(* 1. What the consumer was handed is a prefix of what was queued for it: queue order is delivery
   order, nothing invented, nothing repeated by the queue. *)
Theorem C01_delivered_prefix_of_pushed :
  forall maxq cache_t cache_empty cache_add cache_snap ncons panic_at pkts stoppers sched c,
  let s := run fixed maxq cache_t cache_empty cache_add cache_snap ncons panic_at sched
               (init cache_t cache_empty pkts stoppers) in
  let k := s_cs s c in
  exists rest, c_pushed k = c_out k ++ rest.
Proof. exact delivered_prefix_of_pushed. Qed.
Print Assumptions C01_delivered_prefix_of_pushed.

(* 2. What was queued = the cache snapshot taken at attach, then the packets broadcast while the
   consumer was registered, filtered only by its own keep/drop decisions. *)
Theorem C01_pushed_is_prefill_then_selected_live :
  forall maxq cache_t cache_empty cache_add cache_snap ncons panic_at pkts stoppers sched c,
  let s := run fixed maxq cache_t cache_empty cache_add cache_snap ncons panic_at sched
               (init cache_t cache_empty pkts stoppers) in
  let k := s_cs s c in
  c_pushed k = c_prefill k ++ select (c_keep k) (window (s_sent s) (c_regat k) (c_unregat k)) /\
  length (c_keep k) = length (window (s_sent s) (c_regat k) (c_unregat k)).
Proof. exact pushed_is_prefill_then_selected_live. Qed.
Print Assumptions C01_pushed_is_prefill_then_selected_live.

(* 2a. order: the live part of what was delivered is a subsequence of the packets broadcast while
   registered, hence of the sent log *)
Theorem C01_order_window :
  forall maxq cache_t cache_empty cache_add cache_snap ncons panic_at pkts stoppers sched c,
  let s := run fixed maxq cache_t cache_empty cache_add cache_snap ncons panic_at sched
               (init cache_t cache_empty pkts stoppers) in
  let k := s_cs s c in
  subseq (live_out k) (window (s_sent s) (c_regat k) (c_unregat k)).
Proof. exact live_out_subseq_window. Qed.
Print Assumptions C01_order_window.

Theorem C01_order :
  forall maxq cache_t cache_empty cache_add cache_snap ncons panic_at pkts stoppers sched c,
  let s := run fixed maxq cache_t cache_empty cache_add cache_snap ncons panic_at sched
               (init cache_t cache_empty pkts stoppers) in
  let k := s_cs s c in
  subseq (live_out k) (s_sent s).
Proof. exact live_out_subseq_sent. Qed.
Print Assumptions C01_order.

(* 2b. at most once (live part) *)
Theorem C01_at_most_once :
  forall maxq cache_t cache_empty cache_add cache_snap ncons panic_at pkts stoppers sched c,
  let s := run fixed maxq cache_t cache_empty cache_add cache_snap ncons panic_at sched
               (init cache_t cache_empty pkts stoppers) in
  let k := s_cs s c in
  NoDup (map p_id pkts) -> NoDup (map p_id (live_out k)).
Proof. exact live_out_at_most_once. Qed.
Print Assumptions C01_at_most_once.

(* 2c. completeness: while nothing is dropped for backlog, ALL packets broadcast while registered
   were queued *)
Theorem C01_complete_when_nothing_dropped :
  forall maxq cache_t cache_empty cache_add cache_snap ncons panic_at pkts stoppers sched c,
  let s := run fixed maxq cache_t cache_empty cache_add cache_snap ncons panic_at sched
               (init cache_t cache_empty pkts stoppers) in
  let k := s_cs s c in
  forallb (fun b => b) (c_keep k) = true ->
  live_pushed k = window (s_sent s) (c_regat k) (c_unregat k) /\
  c_pushed k = c_prefill k ++ window (s_sent s) (c_regat k) (c_unregat k).
Proof. exact complete_when_nothing_dropped. Qed.
Print Assumptions C01_complete_when_nothing_dropped.

(* 2d. the sent log is a prefix of the publisher's input; 2e. every delivered live packet is one
   of the publisher's packets (unmodified) *)
Theorem C01_sent_prefix_of_published :
  forall maxq cache_t cache_empty cache_add cache_snap ncons panic_at pkts stoppers sched,
  let s := run fixed maxq cache_t cache_empty cache_add cache_snap ncons panic_at sched
               (init cache_t cache_empty pkts stoppers) in
  exists rest, pkts = s_sent s ++ rest.
Proof. exact sent_prefix_of_published. Qed.
Print Assumptions C01_sent_prefix_of_published.

Theorem C01_unmodified :
  forall maxq cache_t cache_empty cache_add cache_snap ncons panic_at pkts stoppers sched c x,
  let s := run fixed maxq cache_t cache_empty cache_add cache_snap ncons panic_at sched
               (init cache_t cache_empty pkts stoppers) in
  In x (live_out (s_cs s c)) -> In x pkts.
Proof. exact live_out_unmodified. Qed.
Print Assumptions C01_unmodified.

(* 3. Non-interference.  Statement 2 mentions only the sent log, c's own registration interval and
   c's own keep/drop decisions.  In addition:
   (i) steps of another consumer's stopper and goroutine never touch c (any state); *)
Theorem C01_noninterference_stop_cons :
  forall maxq cache_t cache_empty cache_add cache_snap ncons panic_at (s : st cache_t) c c' s',
  c' <> c ->
  (step fixed maxq cache_t cache_empty cache_add cache_snap ncons panic_at s (TStop c') = Some s' \/
   step fixed maxq cache_t cache_empty cache_add cache_snap ncons panic_at s (TCons c') = Some s') ->
  s_cs s' c = s_cs s c.
Proof. exact noninterference_stop_cons. Qed.
Print Assumptions C01_noninterference_stop_cons.

(* (ii) FULL STATEMENT (false in the model, see C01_noninterference_handoff_witness):
        forall reachable s, c' <> c, step s (TAtt c') = Some s' -> s_cs s' c = s_cs s c.
   When attacher c' unlocks the join mutex and c is the first goroutine blocked in Lock(), the
   mutex is handed to c and c's own snapshot runs in the same atomic step.  Proved: unchanged
   whenever c is not blocked in Lock() … *)
Theorem C01_noninterference_partial :
  forall maxq cache_t cache_empty cache_add cache_snap ncons panic_at pkts stoppers sched c c' s',
  let s := run fixed maxq cache_t cache_empty cache_add cache_snap ncons panic_at sched
               (init cache_t cache_empty pkts stoppers) in
  c' <> c -> s_att s c <> A0W ->
  (step fixed maxq cache_t cache_empty cache_add cache_snap ncons panic_at s (TAtt c') = Some s' \/
   step fixed maxq cache_t cache_empty cache_add cache_snap ncons panic_at s (TStop c') = Some s' \/
   step fixed maxq cache_t cache_empty cache_add cache_snap ncons panic_at s (TCons c') = Some s') ->
  s_cs s' c = s_cs s c.
Proof. exact noninterference_partial. Qed.
Print Assumptions C01_noninterference_partial.

(* … and when it is, the only possible effect is c's own lock acquisition completing (its entry
   becomes the snapshot of the cache — exactly what c's own attach step does on a free mutex). *)
Theorem C01_noninterference_att_handoff :
  forall maxq cache_t cache_empty cache_add cache_snap ncons panic_at pkts stoppers sched c c' s',
  let s := run fixed maxq cache_t cache_empty cache_add cache_snap ncons panic_at sched
               (init cache_t cache_empty pkts stoppers) in
  c' <> c ->
  step fixed maxq cache_t cache_empty cache_add cache_snap ncons panic_at s (TAtt c') = Some s' ->
  s_cs s' c = s_cs s c \/
  (s_att s c = A0W /\ s_att s' c = A1 /\ s_cs s c = cons0 /\
   s_cs s' c = fresh (cache_snap (s_cache s))).
Proof. exact noninterference_att_handoff. Qed.
Print Assumptions C01_noninterference_att_handoff.

(* (iii) the publisher's broadcast treats c by a function of c's own entry and the packet … *)
Theorem C01_publisher_effect_on_consumer :
  forall maxq cache_t cache_empty cache_add cache_snap ncons panic_at pkts stoppers sched c s',
  let s := run fixed maxq cache_t cache_empty cache_add cache_snap ncons panic_at sched
               (init cache_t cache_empty pkts stoppers) in
  let k := s_cs s c in
  s_att s c <> A0W ->
  step fixed maxq cache_t cache_empty cache_add cache_snap ncons panic_at s TPub = Some s' ->
  s_cs s' c = match s_pp s, s_todo s with
              | P2, p :: _ => if c_reg k then send maxq k p else k
              | _, _ => k
              end.
Proof. exact publisher_effect_on_consumer. Qed.
Print Assumptions C01_publisher_effect_on_consumer.

Theorem C01_broadcast_is_pointwise : forall maxq n f p c,
  send_all maxq n f p c = if (c <? n) && c_reg (f c) then send maxq (f c) p else f c.
Proof. exact send_all_spec. Qed.
Print Assumptions C01_broadcast_is_pointwise.

(* … and send's keep/drop decision depends only on c's own queue length, own flag and the packet *)
Theorem C01_send_decision_is_local : forall maxq k p,
  let d := send_drop maxq (length (c_q k)) (c_disc k) p in
  c_disc (send maxq k p) = d /\
  c_keep (send maxq k p) = c_keep k ++ [negb d] /\
  c_pushed (send maxq k p) = c_pushed k ++ (if d then [] else [p]) /\
  c_out (send maxq k p) = c_out k /\ c_prefill (send maxq k p) = c_prefill k /\
  c_reg (send maxq k p) = c_reg k /\ c_regat (send maxq k p) = c_regat k /\
  c_unregat (send maxq k p) = c_unregat k.
Proof. exact send_decision_is_local. Qed.
Print Assumptions C01_send_decision_is_local.

(* (iv) the closer likewise (any state) *)
Theorem C01_closer_effect_on_consumer :
  forall maxq cache_t cache_empty cache_add cache_snap ncons panic_at (s : st cache_t) c s',
  step fixed maxq cache_t cache_empty cache_add cache_snap ncons panic_at s TClose = Some s' ->
  s_cs s' c = match s_kp s with
              | K1 => if (c <? ncons) && c_reg (s_cs s c)
                      then close_cons fixed (set_reg (s_cs s c) false (length (s_sent s)))
                      else s_cs s c
              | _ => s_cs s c
              end.
Proof. exact closer_effect_on_consumer. Qed.
Print Assumptions C01_closer_effect_on_consumer.

(* 4. Lock discipline (also used by C02): outside the publisher's critical section the log handed
   to the cache equals the sent log; inside, it is one packet ahead. *)
Theorem C01_sent_equals_cached_outside_section :
  forall maxq cache_t cache_empty cache_add cache_snap ncons panic_at pkts stoppers sched,
  let s := run fixed maxq cache_t cache_empty cache_add cache_snap ncons panic_at sched
               (init cache_t cache_empty pkts stoppers) in
  (s_pp s <> P2 -> s_cached s = s_sent s) /\
  (s_pp s = P2 -> exists p rest, s_todo s = p :: rest /\ s_cached s = s_sent s ++ [p]).
Proof. exact sent_equals_cached_outside_section. Qed.
Print Assumptions C01_sent_equals_cached_outside_section.

(* Beyond the brief — the repair of D1 itself.  For a cache whose snapshot only contains packets
   that were added to it (true of the RTP cache: C01_rcache_snapshot_sound):
   the join mutex is exclusive; the snapshot contains only packets broadcast BEFORE the
   registration (the live part contains only packets broadcast from the registration on, by
   C01_order_window), so the WHOLE delivered stream has no repeated id. *)
Theorem C01_join_mutex_exclusive :
  forall maxq cache_t cache_empty cache_add cache_snap ncons panic_at,
  cache_snap cache_empty = [] ->
  (forall ca p x, In x (cache_snap (cache_add ca p)) -> In x (cache_snap ca) \/ x = p) ->
  forall pkts stoppers sched,
  let s := run fixed maxq cache_t cache_empty cache_add cache_snap ncons panic_at sched
               (init cache_t cache_empty pkts stoppers) in
  (s_pp s = P2 -> s_lock s = Some HPub) /\ (forall c, s_att s c = A1 -> s_lock s = Some (HAtt c)).
Proof. exact join_mutex_exclusive. Qed.
Print Assumptions C01_join_mutex_exclusive.

Theorem C01_prefill_before_registration :
  forall maxq cache_t cache_empty cache_add cache_snap ncons panic_at,
  cache_snap cache_empty = [] ->
  (forall ca p x, In x (cache_snap (cache_add ca p)) -> In x (cache_snap ca) \/ x = p) ->
  forall pkts stoppers sched c r x,
  let s := run fixed maxq cache_t cache_empty cache_add cache_snap ncons panic_at sched
               (init cache_t cache_empty pkts stoppers) in
  let k := s_cs s c in
  c_regat k = Some r -> In x (c_prefill k) -> In x (firstn r (s_sent s)).
Proof. exact prefill_before_registration. Qed.
Print Assumptions C01_prefill_before_registration.

Theorem C01_out_at_most_once :
  forall maxq cache_t cache_empty cache_add cache_snap ncons panic_at,
  cache_snap cache_empty = [] ->
  (forall ca p x, In x (cache_snap (cache_add ca p)) -> In x (cache_snap ca) \/ x = p) ->
  forall pkts stoppers sched c,
  let s := run fixed maxq cache_t cache_empty cache_add cache_snap ncons panic_at sched
               (init cache_t cache_empty pkts stoppers) in
  let k := s_cs s c in
  NoDup (map p_id pkts) -> NoDup (map p_id (c_prefill k)) -> NoDup (map p_id (c_out k)).
Proof. exact out_at_most_once. Qed.
Print Assumptions C01_out_at_most_once.

Theorem C01_rcache_snapshot_sound :
  (forall g, rc_snap (rc_empty g) = []) /\
  (forall ca p x, In x (rc_snap (rc_add ca p)) -> In x (rc_snap ca) \/ x = p).
Proof. exact (conj rc_snap_empty rc_snap_add). Qed.
Print Assumptions C01_rcache_snapshot_sound.

(* 5. On the code as it was (variant [original]) at-most-once fails — D1, repeat: with distinct
   ids and a duplicate-free snapshot the consumer is handed packet 1 twice. *)
Example C01_at_most_once_refuted :
  let k := s_cs (lrun d1_repeat_case) 0 in
  NoDup (map p_id (l_pkts d1_repeat_case)) /\ NoDup (map p_id (c_prefill k)) /\
  c_out k = [mkp 1 3; mkp 1 3] /\ ~ NoDup (map p_id (c_out k)).
Proof. exact at_most_once_refuted. Qed.
Print Assumptions C01_at_most_once_refuted.

(* the counterexample to the unrestricted form of 3(ii) *)
Example C01_noninterference_handoff_witness :
  let c := handoff_case in
  let s := lrun c in
  exists s',
    step (l_var c) (l_maxq c) rcache (rc_empty (l_gop c)) rc_add rc_snap (l_n c)
         (fun i => nth i (l_panic c) O) s (TAtt 1) = Some s' /\
    s_att s 0 = A0W /\ s_cs s 0 = cons0 /\ s_att s' 0 = A1 /\ s_cs s' 0 = fresh [mkp 1 3] /\
    s_cs s' 0 <> s_cs s 0.
Proof. exact noninterference_handoff_witness. Qed.
Print Assumptions C01_noninterference_handoff_witness.

(* 6. Non-vacuity: 2 consumers, 6 packets, both receive packets, one of them drops for backlog, the
   other has a non-empty snapshot; every quantity in statement 2 is non-trivial. *)
Example C01_nonvacuous :
  let s := lrun nonvacuous_case in
  let k0 := s_cs s 0 in
  let k1 := s_cs s 1 in
  NoDup (map p_id (l_pkts nonvacuous_case)) /\
  map p_id (c_out k0) = [1; 2; 3; 4]%Z /\
  map p_id (c_out k1) = [1; 2; 3; 4; 5; 6]%Z /\
  c_prefill k0 = [] /\
  map p_id (c_prefill k1) = [1; 2; 3]%Z /\
  c_keep k0 = [true; true; true; true; false; false] /\
  c_keep k1 = [true; true; true] /\
  map p_id (window (s_sent s) (c_regat k0) (c_unregat k0)) = [1; 2; 3; 4; 5; 6]%Z /\
  map p_id (window (s_sent s) (c_regat k1) (c_unregat k1)) = [4; 5; 6]%Z /\
  map p_id (select (c_keep k0) (window (s_sent s) (c_regat k0) (c_unregat k0))) = [1; 2; 3; 4]%Z /\
  map p_id (live_out k1) = [4; 5; 6]%Z.
Proof. exact fanout_nonvacuous. Qed.
Print Assumptions C01_nonvacuous.

(* ---- 7. the oracle of the check -------------------------------------------------------------
   [ok_C01] (Model/LtsOracle.v) is the boolean function that bin/check applies to
   (case, observation of the real media.Stream after the case's schedule).  When the published
   ids are pairwise distinct it demands of every consumer: every delivered packet byte-identical
   to the published one; no id delivered twice (C01_out_at_most_once); every delivered id was
   published (C01_unmodified and the replay below); and the delivered ids split into a replayed
   part and a live part such that the live part is a subsequence of the published ids (C01_order)
   and every replayed id was published before every live id (C01_prefill_before_registration,
   C01_order_window); the replayed part must have the shape of (the beginning of) a join replay of
   the RTP pack cache: at most one VPS, one SPS, one PPS packet in this order, then, only with the
   GOP cache on, a key-frame start followed in published order by video packets none of which
   starts a key frame, leaving out no video packet published in between
   (C01_rcache_replay_shape) - without this the split "everything is replay"
   would make the order clause empty.  The hypothesis of C01_out_at_most_once on the join replay
   is discharged for the RTP pack cache: a replay only holds published packets and never repeats
   an id. *)
From V Require Import LtsOracle LtsOracleProofs.

Theorem C01_rcache_replay_shape : forall c : lcase, l_var c = fixed -> forall i,
  exists v s p g,
    c_prefill (s_cs (lrun c) i) = opt_list v ++ opt_list s ++ opt_list p ++ g /\
    (forall q, v = Some q -> In q (l_pkts c) /\ p_kind q = 5%Z) /\
    (forall q, s = Some q -> In q (l_pkts c) /\ p_kind q = 3%Z) /\
    (forall q, p = Some q -> In q (l_pkts c) /\ p_kind q = 4%Z) /\
    subseq g (l_pkts c) /\
    (forall q, In q g -> is_media q = true) /\
    match g with
    | [] => True
    | k :: r => p_key k = true /\ forall q, In q r -> p_key q = false
    end /\
    (g <> [] -> l_gop c = true) /\
    (g = [] \/ exists A M R, l_pkts c = A ++ M ++ R /\ g = filter is_media M).
Proof. exact (fun c H i => proj2 (proj2 (proj2 (prefill_facts c H i)))). Qed.
Print Assumptions C01_rcache_replay_shape.

Theorem C01_rcache_replay_no_repeat : forall c : lcase, l_var c = fixed -> forall i,
  (forall x, In x (c_prefill (s_cs (lrun c) i)) -> In x (l_pkts c)) /\
  (NoDup (map p_id (l_pkts c)) -> NoDup (map p_id (c_prefill (s_cs (lrun c) i)))).
Proof.
  exact (fun c H i => conj (proj1 (prefill_facts c H i)) (proj1 (proj2 (prefill_facts c H i)))).
Qed.
Print Assumptions C01_rcache_replay_no_repeat.

Theorem C01_model_passes : forall c : lcase,
  l_var c = fixed -> ok_C01 c (obs_of_state (l_n c) (lrun c)) = true.
Proof. exact LtsOracleProofs.C01_model_passes. Qed.
Print Assumptions C01_model_passes.

Theorem C01_oracle_decodes_the_wire : forall n (s : lstate),
  dec_obs (enc_state n s) = obs_of_state n s.
Proof. exact dec_enc_obs. Qed.
Print Assumptions C01_oracle_decodes_the_wire.

Theorem C01_model_passes_on_the_wire : forall v,
  l_var (dec_lcase v) = fixed -> ok_C01 (dec_lcase v) (dec_obs (lts_run v)) = true.
Proof. exact (fun v H => proj1 (proj2 (wire_model_passes v H))). Qed.
Print Assumptions C01_model_passes_on_the_wire.

(* ---- 8. packets given by their bytes; the join replay holds no packet twice -------------------
   A case of the check may give a packet as (id _ channel xPAYLOAD): its kind is then what the pack
   caches' classifier makes of the bytes (Model/C02Classify.v, [raw_pkt] of Model/C04RawPkt.v) - ONE
   kind per packet.  An aggregation packet (RFC 6184 STAP-A, RFC 7798 AP) that carries several
   parameter sets is classified by the highest-priority one (VPS, SPS, PPS) and is therefore stored
   in one slot of the cache; the replay a late joiner is given holds it once, like every other
   packet, and what a consumer receives does not depend on when it attached in any other way than
   replay ++ live.  [x_C01_ok] computes [ok_C01] on the normalised case
   (C01_model_passes_on_the_wire_raw). *)
From V Require Import C02Classify C04RawPkt C01RawJoinProofs.

Theorem C01_agg_packet_one_kind : forall c x y nals i,
  pform_ok c (PAgg x y nals) = true ->
  p_kind (raw_pkt c i 0 (agg_header c x y ++ concat (map agg_entry nals))) = agg_class c nals.
Proof. exact agg_kind. Qed.
Print Assumptions C01_agg_packet_one_kind.

(* the cache stores a packet once: ids of the snapshot stay pairwise distinct *)
Theorem C01_cache_stores_once : forall ca p,
  NoDup (map p_id (rc_snap ca)) -> ~ In (p_id p) (map p_id (rc_snap ca)) ->
  NoDup (map p_id (rc_snap (rc_add ca p))).
Proof. exact rc_add_stores_once. Qed.
Print Assumptions C01_cache_stores_once.

(* every codec, every list of (id, channel, payload bytes) with distinct ids, every schedule *)
Theorem C01_join_prefix_nodup : forall cd raws (c : lcase),
  l_var c = fixed -> l_pkts c = map (raw3 cd) raws ->
  NoDup (map (fun r => fst (fst r)) raws) ->
  forall i, let k := s_cs (lrun c) i in
  NoDup (map p_id (c_prefill k)) /\ NoDup (map p_id (c_out k)) /\
  (forall x, In x (c_prefill k) -> In x (l_pkts c)).
Proof. exact join_prefix_nodup. Qed.
Print Assumptions C01_join_prefix_nodup.

Theorem C01_join_prefix_nodup_on_the_wire : forall v,
  l_var (dec_lcase v) = fixed ->
  let c := dec_lcase (norm_case v) in
  NoDup (map p_id (l_pkts c)) ->
  forall i, let k := s_cs (lrun c) i in
  NoDup (map p_id (c_prefill k)) /\ NoDup (map p_id (c_out k)).
Proof. exact wire_join_prefix_nodup. Qed.
Print Assumptions C01_join_prefix_nodup_on_the_wire.

Theorem C01_model_passes_on_the_wire_raw : forall v,
  l_var (dec_lcase v) = fixed ->
  ok_C01 (dec_lcase (norm_case v)) (dec_obs (lts_run (norm_case v))) = true.
Proof. exact raw_model_passes_C01. Qed.
Print Assumptions C01_model_passes_on_the_wire_raw.

(* AP(VPS+SPS+PPS) is kind 5, STAP-A(SPS+PPS) kind 3; a cache given the packet replays it once *)
Example C01_agg_packets_one_slot :
  let p5 := raw_pkt H265 1001 0 hevc_ap3 in
  let p4 := raw_pkt H264 1002 0 avc_stap2 in
  pform_ok H265 (PAgg 96 1 [hevc_vps; hevc_sps; hevc_pps]) = true /\
  pform_ok H264 (PAgg 96 0 [avc_sps; avc_pps]) = true /\
  p_kind p5 = 5%Z /\ p_kind p4 = 3%Z /\
  rc_snap (rc_add (rc_empty true) p5) = [p5] /\ rc_snap (rc_add (rc_empty false) p5) = [p5] /\
  rc_snap (rc_add (rc_empty true) p4) = [p4].
Proof. exact agg_packets_one_slot. Qed.

(* non-vacuity: a late joiner after AP(VPS+SPS+PPS), IDR, TRAIL is replayed [AP; IDR; TRAIL] *)
Example C01_join_prefix_nodup_nonvacuous :
  let s := lrun agg_join_case in
  NoDup (map (fun r => fst (fst r)) agg_join_raws) /\
  map p_kind (l_pkts agg_join_case) = [5; 2; 1; 1; 0]%Z /\
  map p_id (c_prefill (s_cs s 1)) = [1001; 2; 3]%Z /\
  map p_id (c_out (s_cs s 1)) = [1001; 2; 3; 4; 5]%Z /\
  map p_id (c_out (s_cs s 0)) = [1001; 2; 3; 4; 5]%Z.
Proof. exact join_prefix_nodup_nonvacuous. Qed.

(* the oracle rejects the observation a cache with the AP in three slots produces *)
Example C01_replay_in_three_slots_rejected :
  ok_C01 agg_join_case
    {| o_cons := [obs_cons [1001; 2; 3; 4; 5]; obs_cons [1001; 1001; 1001; 2; 3; 4; 5]]%Z;
       o_count := 2; o_ok := true; o_pp := 0; o_todo := 0; o_kp := 0 |} = false /\
  ok_C01 agg_join_case
    {| o_cons := [obs_cons [1001; 2; 3; 4; 5]; obs_cons [1001; 2; 3; 4; 5]]%Z;
       o_count := 2; o_ok := true; o_pp := 0; o_todo := 0; o_kp := 0 |} = true.
Proof. exact replay_in_three_slots_rejected. Qed.

(* ---- 9. transport adapters ---------------------------------------------------------------------
   The theorems above speak about the list [c_out] of packets handed to a consumer.  A client sits
   behind a transport adapter (service/rtsp tcpConsumer incl. ws-rtsp, udpConsumer; service/wsp;
   service/flv).  Model/C01Wire.v mirrors what each RTP adapter writes for a delivered list [out]
   under the SETUP's channel map; the theorems say that an INDEPENDENT client-side reader recovers
   from those bytes exactly the subscribed packets of [out], in order, with their payloads.
   Proved: the three faithfulness theorems and that the oracle [ok_wire] accepts the model's client.
   Only checked (stream "transports" of checks/c01.py, real handlers on sockets): that the real
   adapters produce these bytes; for HTTP-FLV / ws-FLV that the tags a client parses with the real
   FLV reader are the tags an in-process consumer attached at the same quiescent moment received
   ([ok_flv]: types and data equal, timestamps equal up to the writer's constant rebase). *)
From V Require C01Wire C01WireProofs.

Theorem C01_wire_tcp_faithful : forall chmap out fuel,
  forallb C01Wire.pkt_wf out = true -> (length out <= fuel)%nat ->
  C01Wire.parse_frames fuel (C01Wire.wire_tcp chmap out) = Some (C01Wire.client_view chmap out).
Proof. exact C01WireProofs.wire_tcp_faithful. Qed.
Print Assumptions C01_wire_tcp_faithful.

Theorem C01_wire_ws_faithful : forall chmap out,
  forallb C01Wire.pkt_wf out = true ->
  C01Wire.parse_messages (C01Wire.wire_ws chmap out) = Some (C01Wire.client_view chmap out).
Proof. exact C01WireProofs.wire_ws_faithful. Qed.
Print Assumptions C01_wire_ws_faithful.

Theorem C01_wire_udp_faithful : forall dest out ch,
  C01Wire.wire_udp dest out ch = if dest ch then map snd (C01Wire.on_channel ch out) else [].
Proof. exact C01WireProofs.wire_udp_faithful. Qed.
Print Assumptions C01_wire_udp_faithful.

(* the oracle applied to real clients accepts the model's client, for every channel map and every
   delivered list of well-formed packets (channel 0..3, at most 65535 bytes) *)
Theorem C01_wire_model_passes : forall kind chmap out obs,
  C01Wire.is_datagram_kind kind = false -> forallb C01Wire.pkt_wf out = true ->
  C01Wire.model_client kind chmap out = Some obs -> C01Wire.ok_wire kind chmap out obs = true.
Proof. exact C01WireProofs.wire_model_passes_stream. Qed.
Print Assumptions C01_wire_model_passes.

Theorem C01_wire_model_client_defined : forall kind chmap out,
  forallb C01Wire.pkt_wf out = true -> exists obs, C01Wire.model_client kind chmap out = Some obs.
Proof. exact C01WireProofs.wire_model_client_defined. Qed.
Print Assumptions C01_wire_model_client_defined.

Theorem C01_wire_model_passes_udp : forall dest out,
  C01Wire.ok_wire_udp (C01Wire.client_view (C01Wire.udp_map dest) out) (C01WireProofs.udp_client dest out) = true.
Proof. exact C01WireProofs.wire_model_passes_udp. Qed.
Print Assumptions C01_wire_model_passes_udp.

(* non-vacuity: video on wire channel 4, audio not subscribed *)
Example C01_wire_nonvacuous :
  let chmap := fun ch => if (ch =? 0)%Z then 4%Z else (-1)%Z in
  let out := [(0, [1; 2; 3]); (2, [9]); (0, [])]%Z in
  forallb C01Wire.pkt_wf out = true /\
  C01Wire.wire_tcp chmap out = [36; 4; 0; 3; 1; 2; 3; 36; 4; 0; 0]%Z /\
  C01Wire.model_client 0 chmap out = Some [(4, [1; 2; 3]); (4, [])]%Z.
Proof. vm_compute. repeat split. Qed.

(* ---- 10. several multicast players of one stream ------------------------------------------------
   The multicast proxy is ONE consumer of the stream (the LTS theorems describe what it is handed);
   it sends to the group while its member list is not empty, and a player hears the group between
   its own join and leave (Proofs/C01McastMembersProofs.v: AddMember records every member,
   ReleaseMember removes it, the last one leaving stops the proxy).  What player i receives is a
   function of the publishes and of its own joins and leaves; other players' joins and leaves can
   be deleted from the history.  With only the first member on record (the code before fix f25ada3)
   this is false.  Checked on the real proxy by the multi-member cases of the stream "transports". *)
From V Require Import C01McastMembersProofs.

Theorem C01_multicast_members_independent : forall (P : Type) (evs : list (mev P)) i,
  ms_recv P (mrun P true evs (minit P)) i = own P i false evs.
Proof. exact multicast_members_independent. Qed.
Print Assumptions C01_multicast_members_independent.

Theorem C01_multicast_other_members_invisible : forall (P : Type) (evs : list (mev P)) i,
  ms_recv P (mrun P true evs (minit P)) i = ms_recv P (mrun P true (filter (touches P i) evs) (minit P)) i.
Proof. exact multicast_other_members_invisible. Qed.
Print Assumptions C01_multicast_other_members_invisible.

Example C01_multicast_first_member_only_refuted :
  let evs := [MJoin nat 0; MJoin nat 1; MPub nat 7; MLeave nat 0; MPub nat 8; MPub nat 9]%nat in
  ms_recv nat (mrun nat false evs (minit nat)) 1%nat = [7]%nat /\
  own nat 1%nat false evs = [7; 8; 9]%nat /\
  ms_recv nat (mrun nat true evs (minit nat)) 1%nat = [7; 8; 9]%nat.
Proof. exact first_member_only_refuted. Qed.
