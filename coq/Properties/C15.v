(* C15 — codec parameter parsing is spec-correct and total on arbitrary bytes.
   Statements only; the proofs are in Proofs/C15*.v. *)
From Coq Require Import ZArith List Bool.
From V Require Import C15BitFmt C15Ebsp C15H264 C15Hevc C15Asc C15Pure
  C15BitFmtProofs C15EbspProofs C15H264Proofs C15HevcProofs C15AscProofs C15PureProofs.
Import ListNotations.
Open Scope Z_scope.

(* the bit reader of utils/bits against the standard's ue(v)/se(v) codes, every code length *)
Theorem C15_read_ue_roundtrip : forall v rest,
  0 <= v <= UE_MAX -> read_ue (ue_bits v ++ rest) = Some (v, rest).
Proof. exact read_ue_roundtrip. Qed.
Print Assumptions C15_read_ue_roundtrip.

Theorem C15_read_se_roundtrip : forall v rest,
  - (2 ^ 31 - 1) <= v <= 2 ^ 31 - 1 -> read_se (se_bits v ++ rest) = Some (v, rest).
Proof. exact read_se_roundtrip. Qed.
Print Assumptions C15_read_se_roundtrip.

(* generic: decoding what the encoder of the same description wrote returns the encoded record *)
Theorem C15_fmt_roundtrip : forall f e a b a',
  emit f e a = Some (b, a') -> forall rest, parse f a (b ++ rest) = Some (a', rest).
Proof. exact fmt_roundtrip. Qed.
Print Assumptions C15_fmt_roundtrip.

(* the Go decoders' descriptions accept everything the standard's descriptions can encode *)
Theorem C15_go_refines_std :
  refines std_h264_sps go_h264_sps /\ refines std_h265_sps go_h265_sps /\
  refines std_h265_vps go_h265_vps.
Proof. exact (conj h264_refines (conj h265_sps_refines h265_vps_refines)). Qed.
Print Assumptions C15_go_refines_std.

Theorem C15_ebsp_roundtrip : forall b s, b <> 0 -> unescape_go (escape (b :: s)) = b :: s.
Proof. exact ebsp_roundtrip. Qed.
Print Assumptions C15_ebsp_roundtrip.

(* H.264: for every well-ranged syntax record, the decoder run on the emitted, NAL-wrapped and
   escaped bits reports the standard's cropped width/height (all chroma formats, separate colour
   planes, field coding), frame rate and fixed-rate flag *)
Theorem C15_h264_dims_spec : forall rec b a,
  emit std_h264_sps rec env0 = Some (b, a) ->
  h264_ranges a = true ->
  nal_shape_ok (nal_of_bits b) = true ->
  go_h264_obs (nal_of_bits b) = spec_h264_obs a.
Proof. exact h264_dims_spec. Qed.
Print Assumptions C15_h264_dims_spec.

(* H.265 SPS; partial: records whose short-term RPS use inter prediction are outside
   (Assert in std_rps), D30 *)
Theorem C15_h265_dims_spec_partial : forall rec b a,
  emit std_h265_sps rec env0 = Some (b, a) ->
  h265_ranges a = true ->
  nal_shape_ok (nal_of_bits b) = true ->
  go_h265_obs (nal_of_bits b) =
    Some (spec_width265 a, spec_height265 a, fps_bits (spec_fps265 a), go_fixed265 a).
Proof. exact h265_dims_spec_partial. Qed.
Print Assumptions C15_h265_dims_spec_partial.

Theorem C15_h265_vps_spec : forall rec b a,
  emit std_h265_vps rec env0 = Some (b, a) ->
  nal_shape_ok (nal_of_bits b) = true ->
  go_vps_obs (nal_of_bits b) = Some (vps_view a).
Proof. exact h265_vps_spec. Qed.
Print Assumptions C15_h265_vps_spec.

(* AudioSpecificConfig: rate index 0..12 and the 24-bit escape, AOT escape, hierarchical and
   backward-compatible SBR / PS signalling; every object type 1..95 (its specific configuration
   being bits the parser does not read), channelConfiguration 0..7 (0 with a
   program_config_element: 0 is reported), and ALS (AOT 36), whose ALSSpecificConfig overrides
   both values: sample rate = samp_freq, channel count = channels + 1 *)
Theorem C15_asc_spec : forall e,
  asc_wf e = true -> go_asc (asc_bytes e) = Some (spec_rate e, spec_channels e).
Proof. exact asc_spec. Qed.
Print Assumptions C15_asc_spec.

(* what spec_rate / spec_channels say for ALS, in the property's words *)
Theorem C15_asc_als_values : forall e,
  is_als (get e ka_aot) = true ->
  spec_rate e = get e ka_als_freq /\ spec_channels e = get e ka_als_chan + 1.
Proof. intros e H. unfold spec_rate, spec_channels. rewrite H. split; reflexivity. Qed.
Print Assumptions C15_asc_als_values.

(* the guard payload_ok of asc_wf (no accidental 0x2b7 in the unread bits) is automatic for
   AAC main/LC/SSR/LTP with channelConfiguration 1..7 and for Layer 1-3 *)
Theorem C15_asc_payload_ok_plain : forall e,
  (is_ga (get e ka_aot) && negb (get e ka_chan =? 0)) || is_layer (get e ka_aot) = true ->
  payload_ok e = true.
Proof. exact payload_ok_plain. Qed.
Print Assumptions C15_asc_payload_ok_plain.

(* non-vacuity for ALS: 5.1 at 192 kHz behind sampling index 3 *)
Example C15_asc_als_nonvacuous :
  asc_wf asc_als51 = true /\ go_asc (asc_bytes asc_als51) = Some (192000, 6).
Proof. exact asc_als_nonvacuous. Qed.

(* known finding: an ALS configuration with 256 channels is reported with 0 (uint8 count) *)
Theorem C15_asc_als_wide_refuted :
  asc_wf_gen 65535 asc_als256 = true /\ spec_channels asc_als256 = 256 /\
  go_asc (asc_bytes asc_als256) = Some (48000, 0).
Proof. exact asc_als_wide_refuted. Qed.
Print Assumptions C15_asc_als_wide_refuted.

(* the class payload_ok excludes: opaque specific-config bits spelling a sync extension *)
Theorem C15_asc_false_sync_refuted :
  payload_ok asc_false_sync = false /\ spec_rate asc_false_sync = 48000 /\
  go_asc (asc_bytes asc_false_sync) = Some (24000, 2).
Proof. exact asc_false_sync_refuted. Qed.
Print Assumptions C15_asc_false_sync_refuted.

(* totality: every decoder is a total function (structural recursion, no fuel) that answers with
   an error or a result, and a successful parse leaves a suffix of its input: no bit outside the
   buffer is read *)
Theorem C15_parsers_total : forall f a bs,
  match parse f a bs with
  | None => True
  | Some (_, r) => exists used, bs = used ++ r
  end.
Proof.
  intros f a bs. destruct (parse f a bs) as [[a' r]|] eqn:E; auto.
  exact (parse_suffix _ _ _ _ _ E).
Qed.
Print Assumptions C15_parsers_total.

(* the defects repaired in /repo: the pre-repair decoders disagree with the standard *)
Theorem C15_readse_refuted : exists bs v,
  read_se bs = Some (v, []) /\ v <> 0 /\ read_se_d27 bs = Some (0, []).
Proof. exact readse_refuted. Qed.
Print Assumptions C15_readse_refuted.

Theorem C15_h264_crop_refuted : exists rec b a,
  emit std_h264_sps rec env0 = Some (b, a) /\ h264_ranges a = true /\
  spec_width a = 63 /\ go_width_d28 a = 62 /\ go_width a = 63.
Proof. exact h264_crop_refuted. Qed.
Print Assumptions C15_h264_crop_refuted.

Theorem C15_hevc_sublayer_refuted : exists b a,
  emit std_h265_sps rec_d29 env0 = Some (b, a) /\
  go_h265_obs (nal_of_bits b) = Some (64, 64, fps_bits (25, 1), true) /\
  go_h265_decode_with go_h265_sps_d29 (nal_of_bits b) <> go_h265_obs (nal_of_bits b).
Proof. exact hevc_sublayer_refuted. Qed.
Print Assumptions C15_hevc_sublayer_refuted.

Theorem C15_asc_ps_refuted :
  asc_wf asc_d36 = true /\ spec_rate asc_d36 = 48000 /\
  go_asc_with ps_take_d36 (asc_bytes asc_d36) = Some (24000, 1) /\
  go_asc (asc_bytes asc_d36) = Some (48000, 1).
Proof. exact asc_ps_refuted. Qed.
Print Assumptions C15_asc_ps_refuted.

(* known finding D30 (not repaired): a valid SPS whose last short-term RPS is predicted from the
   previous one is rejected by the decoder; this is the class the guard of
   C15_h265_dims_spec_partial excludes *)
Theorem C15_hevc_inter_rps_rejected : exists b a,
  emit std_h265_sps_i rec_d30 env0 = Some (b, a) /\ h265_ranges a = true /\
  uses_inter_rps a = true /\ go_h265_obs (nal_of_bits b) = None.
Proof. exact hevc_inter_rps_rejected. Qed.
Print Assumptions C15_hevc_inter_rps_rejected.

(* parsers are pure: the implementation is observed as (first result, the caller's backing array
   after both calls incl. the bytes up to its capacity, second result on the same buffer); a
   function seen through that observation passes the purity oracle — buffer unchanged, second
   result = first — whenever its result is acceptable.  Purity is free on the model side (the
   Gallina parsers are functions); the theorem states the obligation the harness puts on
   RawSPS.Decode, H265RawSPS/H265RawVPS.Decode, AudioSpecificConfig.Decode and MetadataIsReady *)
Theorem C15_parse_twice_same : forall (O : Type) (eqb : O -> O -> bool) (ok : O -> bool) f data,
  (forall o, eqb o o = true) -> ok (f data) = true ->
  pure_ok eqb ok data (twice f data) = true.
Proof. exact parse_twice_same. Qed.
Print Assumptions C15_parse_twice_same.

(* the oracles applied to the implementation (purity + reported values = the standard's) accept
   the model on every input *)
Theorem C15_model_passes : forall rec data,
  pure_ok vobs_eqb (ok_h264 rec data) data (twice go_h264_obs data) = true /\
  pure_ok vobs_eqb (ok_h265 rec data) data (twice go_h265_obs data) = true /\
  pure_ok pobs_eqb (ok_vps rec data) data (twice go_vps_obs data) = true /\
  pure_ok aobs_eqb (ok_asc rec data) data (twice go_asc data) = true.
Proof.
  intros. repeat split; apply parse_twice_same.
  - exact vobs_eqb_refl.
  - apply h264_model_passes.
  - exact vobs_eqb_refl.
  - apply h265_model_passes.
  - intros [[[x y] z]|]; cbn; auto. rewrite !Z.eqb_refl. reflexivity.
  - apply vps_model_passes.
  - intros [[x y]|]; cbn; auto. rewrite !Z.eqb_refl. reflexivity.
  - apply asc_model_passes.
Qed.
Print Assumptions C15_model_passes.

(* non-vacuity: a 4:4:4 record with cropping meets every hypothesis of C15_h264_dims_spec *)
Example C15_nonvacuous :
  match emit std_h264_sps rec_d28 env0 with
  | Some (b, a) => h264_ranges a && nal_shape_ok (nal_of_bits b) && (spec_width a =? 63) = true
  | None => False
  end.
Proof. vm_compute. reflexivity. Qed.
