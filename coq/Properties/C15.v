(* C15 — codec parameter parsing is spec-correct and total.  Statements only. *)
From Coq Require Import ZArith List Bool.
From V Require Import C15BitFmt C15BitFmtProofs.
Import ListNotations.

Theorem C15_fmt_roundtrip : forall f e a b a',
  emit f e a = Some (b, a') -> forall rest, parse f a (b ++ rest) = Some (a', rest).
Proof. exact fmt_roundtrip. Qed.
Print Assumptions C15_fmt_roundtrip.
