(* C14 — RTSP wire codec round-trips and frames interleaved data exactly.
   Statements only; proofs are in Proofs/C14RtspCodecProofs.v and C14RtspCodecProofs2.v.
   [url] is net/url's parser (ParseRequestURI) as an arbitrary function into the parsed fields
   [gourl]; the round-trip guards contain the law  url (String of the emitted URL) = that URL.
   ReadRequest's own treatment of the parsed URL (the dangling-':' host fix) is modelled and
   proved exact over all structured URLs [surl]. *)
From Coq Require Import ZArith List Bool.
From V Require Import Val Bytes StrGo C14RtspCodec C14RtspCodecProofs C14RtspCodecProofs2 C14UrlProofs.
Import ListNotations.
Open Scope Z_scope.

(* a written request reads back as its normal form, leaving exactly what followed it *)
Theorem C14_request_roundtrip : forall url q rest,
  request_wf url q = true ->
  read_request url (write_request q ++ rest) = Ok (norm_request q) rest.
Proof. exact request_roundtrip. Qed.
Print Assumptions C14_request_roundtrip.

Theorem C14_response_roundtrip : forall p rest,
  response_wf p = true ->
  read_response (write_response p ++ rest) = Ok (norm_response p) rest.
Proof. exact response_roundtrip. Qed.
Print Assumptions C14_response_roundtrip.

(* any wire channel 0..255 (cfg[ch]), any payload of 0..65535 bytes *)
Theorem C14_frame_roundtrip : forall cfg ch data rest,
  pack_wf cfg ch data = true ->
  read_packet cfg (write_packet cfg ch data ++ rest) = Ok (EvPack ch data) rest.
Proof. exact frame_roundtrip. Qed.
Print Assumptions C14_frame_roundtrip.

(* ---- the Request-URI as a structured value (scheme, userinfo, reg-name / IPv4 / IPv6 literal
   with zone, port / empty port / no port, path, query; "*"; path only) ---- *)

(* what ReadRequest itself does to url.URL.Host: for every authority of the grammar the result
   is the Host of the same authority with only an empty port dropped — the brackets of an IPv6
   literal, a zone, a numeric port stay *)
Theorem C14_host_fix_exact : forall au, auth_wf au = true ->
  fix_host (go_host au) = go_host (drop_empty_port_au au).
Proof. exact host_fix_exact. Qed.
Print Assumptions C14_host_fix_exact.

Theorem C14_fix_url_exact : forall u, surl_wf u = true ->
  fix_url (gourl_of u) = gourl_of (drop_empty_port u).
Proof. exact fix_url_exact. Qed.
Print Assumptions C14_fix_url_exact.

(* Hostname() and Port() (net/url's splitHostPort, modelled) on any authority of the grammar *)
Theorem C14_hostname_port_exact : forall au, auth_wf au = true ->
  split_host_port (go_host au) = (host_text (a_host au), port_text au).
Proof. exact hostname_port_exact. Qed.
Print Assumptions C14_hostname_port_exact.

(* a written request whose URL is any structured URL reads back with exactly that URL, an empty
   port dropped and nothing else changed; Hostname()/Port() of the result are the emitted ones *)
Theorem C14_request_url_roundtrip : forall url q u rest,
  q_url q = gourl_of u -> surl_wf u = true -> request_wf url q = true ->
  read_request url (write_request q ++ rest) =
    Ok {| q_method := q_method q; q_url := gourl_of (drop_empty_port u); q_proto := RTSP10;
          q_hdr := norm_hdr (q_hdr q) (q_body q); q_body := q_body q |} rest /\
  match u with
  | SAbs _ au _ _ =>
      split_host_port (g_host (gourl_of (drop_empty_port u))) = (host_text (a_host au), port_text au)
  | _ => True
  end.
Proof. exact request_url_roundtrip. Qed.
Print Assumptions C14_request_url_roundtrip.

(* the oracle of the URL stream accepts the model *)
Theorem C14_url_model_passes : forall u,
  ok_url u (surl_print u) (gourl_of u) (fix_url (gourl_of u)) = true.
Proof. exact url_model_passes. Qed.
Print Assumptions C14_url_model_passes.

(* the class of change this guards against: taking the host apart with SplitHostPort to drop the
   empty port loses the brackets of an IPv6 literal *)
Theorem C14_fix_host_split_refuted :
  let au := {| a_user := None; a_host := HV6 [58; 58; 49] None; a_port := Some [] |} in
  auth_wf au = true /\ fix_host_split (go_host au) <> go_host (drop_empty_port_au au) /\
  fix_host (go_host au) = go_host (drop_empty_port_au au).
Proof. exact fix_host_split_refuted. Qed.
Print Assumptions C14_fix_host_split_refuted.

(* the pull client: the URL it keeps for its requests is the configured one without userinfo and
   with the default port where none (or an empty one) was given — for every host class, the
   brackets of an IPv6 literal included; its request is read back with exactly that URL *)
Theorem C14_pull_url_exact : forall u, pull_wf u = true -> pull_url (gourl_of u) = gourl_of (pull_norm u).
Proof. exact pull_url_exact. Qed.
Print Assumptions C14_pull_url_exact.

Theorem C14_pull_model_passes : forall u,
  ok_pull u (pull_url (gourl_of u)) (fix_url (pull_url (gourl_of u))) = true.
Proof. exact pull_model_passes. Qed.
Print Assumptions C14_pull_model_passes.

(* before the repair (Hostname() + ":554") *)
Theorem C14_pull_host_refuted :
  let au := {| a_user := None; a_host := HV6 [58; 58; 49] None; a_port := None |} in
  auth_wf au = true /\ v6_colon (a_host au) = true /\
  pull_host_gen false (go_host au) <> go_host (pull_norm_au au) /\
  pull_host_gen true (go_host au) = go_host (pull_norm_au au).
Proof. exact pull_host_refuted. Qed.
Print Assumptions C14_pull_host_refuted.

(* the dispatcher consumes exactly one message or frame *)
Theorem C14_receive_exact : forall url cfg it rest,
  item_wf url cfg it = true ->
  receive url cfg (encode cfg it ++ rest) = Ok (norm_item it) rest.
Proof. exact receive_exact. Qed.
Print Assumptions C14_receive_exact.

(* for every list of requests, responses and frames the read loop yields exactly that
   sequence; after each read the remaining input is exactly the encodings of the rest *)
Theorem C14_stream_reader_exact : forall url cfg items,
  forallb (item_wf url cfg) items = true ->
  read_stream (receive url cfg) (concat_items cfg items) = (expected cfg items [], FDone).
Proof. exact stream_reader_exact. Qed.
Print Assumptions C14_stream_reader_exact.

(* ... and whatever bytes follow are read from exactly where the last item ended *)
Theorem C14_stream_reader_exact_tail : forall url cfg items tail,
  forallb (item_wf url cfg) items = true ->
  read_stream (receive url cfg) (concat_items cfg items ++ tail) =
  let '(evs, fin) := read_stream (receive url cfg) tail in (expected cfg items tail ++ evs, fin).
Proof. exact stream_reader_exact_tail. Qed.
Print Assumptions C14_stream_reader_exact_tail.

(* every byte string gives a message, a frame or an error: no reader panics, the loop ends *)
Theorem C14_reader_total : forall url cfg s,
  read_request url s <> Panic /\ read_response s <> Panic /\ read_packet cfg s <> Panic /\
  receive url cfg s <> Panic /\
  forall kind, match snd (read_stream (stepper url kind cfg) s) with
               | FDone | FErr _ => True | FPanic | FFuel => False end.
Proof. exact reader_total. Qed.
Print Assumptions C14_reader_total.

Theorem C14_read_header_no_fuel : forall s, read_header s <> Err EFuel.
Proof. exact read_header_no_fuel. Qed.
Print Assumptions C14_read_header_no_fuel.

(* what is buffered for one message is bounded; over-long lines and absurd Content-Length are
   rejected on a bounded prefix *)
Theorem C14_reader_bounded :
  (forall s l rest, read_line s = Ok l rest -> zlen l <= max_line) /\
  (forall p t, ~ In LF p -> max_line + 2 <= zlen p -> read_line (p ++ t) = Err ELineTooLong) /\
  (forall h s body rest, read_body h s = Ok body rest -> zlen body <= max_body) /\
  (forall h s, max_body < content_length h -> read_body h s = Err EBodyTooBig) /\
  (forall url s q rest, read_request url s = Ok q rest ->
     request_size q <= max_line * (hcount (q_hdr q) + 1) + max_body) /\
  (forall s p rest, read_response s = Ok p rest ->
     response_size p <= max_line * (hcount (p_hdr p) + 1) + max_body).
Proof. exact reader_bounded. Qed.
Print Assumptions C14_reader_bounded.

(* what the normal form of a header means, key by key *)
Theorem C14_norm_hdr_lookup : forall h body K,
  hvals (norm_hdr h body) K =
  map (fun e => join_vals (snd e))
      (filter (fun e => bytes_eqb (canon_key (fst e)) K) (hsort (set_cl h body))).
Proof. exact norm_hdr_lookup. Qed.
Print Assumptions C14_norm_hdr_lookup.

(* the model of pion's RTP header parser never stops for lack of fuel on a byte string *)
Theorem C14_rtp_hdr_check_no_fuel : forall d, all_bytes d = true -> rtp_hdr_check d <> HFuel.
Proof. exact rtp_hdr_check_no_fuel. Qed.
Print Assumptions C14_rtp_hdr_check_no_fuel.

(* the oracle applied to the implementation accepts the model: written streams ... *)
Theorem C14_model_passes : forall url cfg items tail slack,
  0 <= slack ->
  let s := concat_items cfg items ++ tail in
  let '(evs, fin) := model_obs url 0 cfg s in
  ok_items url cfg items tail slack s evs fin (zlen s) = true.
Proof. exact model_passes_items. Qed.
Print Assumptions C14_model_passes.

(* ... and raw streams, whatever net/url answers *)
Theorem C14_model_passes_raw : forall url kind cfg s slack,
  0 <= slack ->
  let '(evs, fin) := model_obs url kind cfg s in ok_raw kind cfg s slack evs fin (zlen s) = true.
Proof. exact model_passes_raw. Qed.
Print Assumptions C14_model_passes_raw.

(* the code before the repairs (D26): unbounded line, unbounded / padded body, pion panic *)
Theorem C14_unbounded_line_refuted : forall n,
  read_line_lim None (repeat 65 (S n) ++ [LF]) = Ok (repeat 65 (S n)) [].
Proof. exact read_line_unbounded_refuted. Qed.
Print Assumptions C14_unbounded_line_refuted.

Theorem C14_unbounded_body_refuted :
  exists h, content_length h = 2000000000 /\ read_body_lim None true h [] <> Err EBodyTooBig /\
            read_body h [] = Err EBodyTooBig.
Proof. exact read_body_unbounded_refuted. Qed.
Print Assumptions C14_unbounded_body_refuted.

Theorem C14_padded_body_refuted :
  read_body_lim None true [(CONTENT_LENGTH, [[53]])] [97; 98] = Ok [97; 98; 0; 0; 0] [].
Proof. exact read_body_padded_refuted. Qed.
Print Assumptions C14_padded_body_refuted.

Theorem C14_packet_panic_refuted :
  read_packet_gen false [0; 1; 2; 3]
    [36; 0; 0; 20; 144; 96; 0; 1; 0; 0; 0; 0; 0; 0; 0; 0; 190; 222; 0; 1; 31; 0; 0; 0] = Panic.
Proof. exact read_packet_panic_refuted. Qed.
Print Assumptions C14_packet_panic_refuted.

(* non-vacuity: a request whose URL is an IPv6 literal with an EMPTY port, odd-case and
   multi-valued header fields and a body, a response and two frames satisfy the guards; the loop
   reads them back; the request's Host comes back as "[::1]" (brackets kept, ':' dropped) *)
Example C14_nonvacuous :
  let cfg := [0; 1; 2; 3] in
  let u := SAbs [114;116;115;112] {| a_user := None; a_host := HV6 [58;58;49] None; a_port := Some [] |} [47;97] None in
  let url := fun s => if bytes_eqb s (surl_print u) then Some (gourl_of u) else None in
  let q := {| q_method := [80;76;65;89]; q_url := gourl_of u; q_proto := RTSP10;
              q_hdr := [([99;115;101;113], [[49]]); ([88;45;70], [[97]; [98]])]; q_body := [104;105] |} in
  let p := {| p_proto := RTSP10; p_code := 200; p_status := []; p_hdr := [([67;83;101;113], [[49]])]; p_body := [] |} in
  let items := [IReq q; IPack 1 [1;2;3]; IResp p; IPack 0 [128;96;0;1;0;0;0;0;0;0;0;0;7]] in
  surl_wf u = true /\
  surl_print u = [114;116;115;112;58;47;47;91;58;58;49;93;58;47;97] /\
  forallb (item_wf url cfg) items = true /\
  g_host (q_url (norm_request q)) = [91;58;58;49;93] /\
  split_host_port (g_host (q_url (norm_request q))) = ([58;58;49], []) /\
  hvals (q_hdr (norm_request q)) [67;83;101;113] = [[49]] /\
  hvals (q_hdr (norm_request q)) [88;45;70] = [[97;44;32;98]] /\
  snd (read_stream (receive url cfg) (concat_items cfg items)) = FDone /\
  length (fst (read_stream (receive url cfg) (concat_items cfg items))) = 4%nat.
Proof. vm_compute. repeat split. Qed.
