(* C14 — RTSP wire codec.  Statements only; proofs are in Proofs/C14RtspCodecProofs.v. *)
From Coq Require Import ZArith List Bool.
From V Require Import Val Bytes StrGo C14RtspCodec C14RtspCodecProofs.
Import ListNotations.
Open Scope Z_scope.

Example C14_nonvacuous :
  read_request url_accept
    [79;80;84;73;79;78;83;32;42;32;82;84;83;80;47;49;46;48;13;10;67;83;101;113;58;32;49;13;10;13;10;36]
  = Ok {| q_method := OPTIONS; q_url := STAR; q_proto := RTSP10;
          q_hdr := [([67;83;101;113], [[49]])]; q_body := [] |} [36].
Proof. vm_compute. reflexivity. Qed.
