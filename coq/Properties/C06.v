(* placeholder while the model is brought up; replaced by the real statements *)
From Coq Require Import ZArith.
From V Require Import C06Demux.
Example C06_placeholder : mt_of CAAC = 1%Z. Proof. reflexivity. Qed.
