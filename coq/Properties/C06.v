(* C06 — RTP depacketisation reproduces the sender's access units exactly.
   Statements only; proofs are in Proofs/C06*.v.  The depacketiser models are
   Model/C06NalDepack.v (+ C06H264Depack.v, C06H265Depack.v descriptors),
   C06AacDepack.v, C06SyncClock.v, C06Demux.v; the packetisers packetize264 /
   packetize265 / packetize_aac are written from the RFCs. *)
From Coq Require Import ZArith List Bool.
From V Require Import Val Bytes C06Rtp C06NalDepack C06H264Depack C06H265Depack C06AacDepack
  C06SyncClock C06Demux RunC06 C06TopProofs.
Import ListNotations.
Open Scope Z_scope.

(* same bytes, same order, none invented — for every unit list, every legal plan
   (single / aggregated / fragmented with any chunk sizes), every starting
   sequence number, from ANY depacketiser state with ready metadata (so also
   after arbitrary earlier input).  H.264 filler data (type 12) is discarded by
   writeFrame on purpose; nothing else is filtered. *)
Theorem C06_h264_roundtrip : forall seq0 items st,
  forallb (item_ok z264) items = true -> w_ready (g_w st) = true ->
  exists st', depack264 st (packetize264 seq0 items)
              = (st', filter (fun f => keep264 (u_pl f)) (flat_map item_frames items), false).
Proof. exact h264_roundtrip. Qed.
Print Assumptions C06_h264_roundtrip.

Theorem C06_h265_roundtrip : forall seq0 items st,
  forallb (item_ok z265) items = true -> w_ready (g_w st) = true ->
  exists st', depack265 st (packetize265 seq0 items) = (st', flat_map item_frames items, false).
Proof. exact h265_roundtrip. Qed.
Print Assumptions C06_h265_roundtrip.

Theorem C06_aac_roundtrip : forall seq0 items,
  forallb aac_item_ok items = true ->
  aac_run (packetize_aac seq0 0 items) = (flat_map aac_item_frames items, false).
Proof. exact aac_roundtrip. Qed.
Print Assumptions C06_aac_roundtrip.

(* every loss pattern: exactly the units all of whose packets survive come out,
   in order; a truncated or spliced unit is never emitted.  Guard: at most
   65536 packets, i.e. distinct sequence numbers (beyond that RTP itself cannot
   tell a fragment from one 65536 packets later). *)
Theorem C06_fu_whole_or_nothing_h264 : forall seq0 items mask,
  forallb (item_ok z264) items = true ->
  length mask = total_pk items -> Z.of_nat (total_pk items) <= 65536 ->
  exists st', depack264 st264_init (select mask (packetize264 seq0 items))
              = (st', spec_loss keep264 items mask, false).
Proof. exact fu_whole_or_nothing_264. Qed.
Print Assumptions C06_fu_whole_or_nothing_h264.

Theorem C06_fu_whole_or_nothing_h265 : forall seq0 items mask,
  forallb (item_ok z265) items = true ->
  length mask = total_pk items -> Z.of_nat (total_pk items) <= 65536 ->
  exists st', depack265 st265_init (select mask (packetize265 seq0 items))
              = (st', spec_loss keep265 items mask, false).
Proof. exact fu_whole_or_nothing_265. Qed.
Print Assumptions C06_fu_whole_or_nothing_h265.

Theorem C06_aac_whole_or_nothing : forall seq0 items mask,
  forallb aac_item_ok items = true -> length mask = length items ->
  aac_run (select mask (packetize_aac seq0 0 items)) = (aac_spec_loss items mask, false).
Proof. exact aac_whole_or_nothing. Qed.
Print Assumptions C06_aac_whole_or_nothing.

(* with no loss the loss specification is the full unit list *)
Theorem C06_spec_loss_full : forall keep items mask,
  length mask = total_pk items -> all_true mask = true ->
  spec_loss keep items mask = filter (fun f => keep (u_pl f)) (flat_map item_frames items).
Proof. exact spec_loss_full. Qed.
Print Assumptions C06_spec_loss_full.

(* units of one RTP timestamp share one presentation time *)
Theorem C06_pts_same_timestamp : forall c clock base it o,
  c <> CAAC -> In o (map (to_oframe c clock base) (true_frames c it)) ->
  o_pts o = pts_of clock base (item_ts it).
Proof. exact pts_same_timestamp. Qed.
Print Assumptions C06_pts_same_timestamp.

Theorem C06_pts_affine : forall clock base t1 t2,
  pts_of clock base t2 - pts_of clock base t1 = scale clock (t2 - base) - scale clock (t1 - base).
Proof. exact pts_affine. Qed.
Print Assumptions C06_pts_affine.

(* D10 (known finding): across the 32-bit wrap a later unit gets an earlier presentation time *)
Theorem C06_pts_wrap_refuted : exists clock base t1 t2,
  t1 < t2 /\ t2 - t1 = 512 /\ pts_of clock base (ts32 t2) < pts_of clock base (ts32 t1).
Proof. exact pts_wrap_refuted. Qed.
Print Assumptions C06_pts_wrap_refuted.

(* the oracle applied to the implementation (x_C06_ok = ok_case) accepts the
   model (x_C06_run = run_case) on every well-formed loss-mode case: demuxer
   level, sender reports and presentation times included.  case_wf contains
   no_ts_wrap and the 65536-packet guard. *)
Theorem C06_model_passes : forall k,
  k_mode k = 0 ->
  case_wf (k_cd k) (k_clock k) (k_seq0 k) (k_items k) (k_mask k) = true ->
  let '(fs, pn) := run_case k in ok_case k fs pn = true.
Proof. exact C06_model_passes_run. Qed.
Print Assumptions C06_model_passes.

(* ... and on every well-formed rearrangement case (reordering, duplication,
   loss in any combination): every frame is a source unit stamped from its own
   RTP timestamp with a clock base the stream announced *)
Theorem C06_model_passes_all : forall k,
  case_guard k = true -> let '(fs, pn) := run_case k in ok_case k fs pn = true.
Proof. exact C06_model_passes_all. Qed.
Print Assumptions C06_model_passes_all.

(* fu_never_spliced: packets of one packetisation in any order, any number of
   times, any subset — whatever the depacketiser emits is a unit of the sender *)
Theorem C06_fu_never_spliced_h264 : forall seq0 items ix,
  forallb (item_ok z264) items = true -> Z.of_nat (total_pk items) <= 65536 ->
  exists st' fs, depack264 st264_init (pick ix (packetize264 seq0 items)) = (st', fs, false) /\
                 forall f, In f fs -> In f (filter (fun f => keep264 (u_pl f)) (flat_map item_frames items)).
Proof. exact fu_never_spliced_264. Qed.
Print Assumptions C06_fu_never_spliced_h264.

Theorem C06_fu_never_spliced_h265 : forall seq0 items ix,
  forallb (item_ok z265) items = true -> Z.of_nat (total_pk items) <= 65536 ->
  exists st' fs, depack265 st265_init (pick ix (packetize265 seq0 items)) = (st', fs, false) /\
                 forall f, In f fs -> In f (flat_map item_frames items).
Proof. exact fu_never_spliced_265. Qed.
Print Assumptions C06_fu_never_spliced_h265.

(* behaviour before the fixes, kept as witnesses (D8, D9) *)
Theorem C06_h264_fu_start_loss_refuted :
  let ps := select [false; true; true] (packetize264 11 d8_items) in
  (exists st1 st2, fu_step_d8 c264 st264_init (nth 0 ps (mkP 0 0 false [])) = (st1, ROk []) /\
                   fu_step_d8 c264 st1 (nth 1 ps (mkP 0 0 false [])) = (st2, ROk [mkU 1000 [97; 170; 187; 204; 221]]))
  /\ snd (fst (depack264 st264_init ps)) = [].
Proof. exact h264_fu_start_loss_refuted. Qed.
Print Assumptions C06_h264_fu_start_loss_refuted.

Theorem C06_stap_nri_rewrite_refuted :
  let us := [[6; 1; 2]; [101; 9]] in
  let pl := p_pl (nth 0 (packetize264 13 [IAgg 1000 true us]) (mkP 0 0 false [])) in
  pl = [120; 0; 3; 6; 1; 2; 0; 2; 101; 9] /\
  map (stapa_rewrite 120) us = [[102; 1; 2]; [101; 9]] /\
  map (stapa_rewrite 120) us <> us /\
  snd (fst (depack264 st264_init (packetize264 13 [IAgg 1000 true us]))) = map (mkU 1000) us.
Proof. exact stap_nri_rewrite_refuted. Qed.
Print Assumptions C06_stap_nri_rewrite_refuted.

(* non-vacuity: the guards are satisfiable by a case with aggregation, a
   fragmented unit across the sequence wrap, a leading sender report and a lost fragment *)
Example C06_nonvacuous :
  case_wf CH264 90000 65534 nv_items nv_mask = true /\
  tspec CH264 90000 0 nv_items nv_mask =
    [mkO 0 522222222 [103; 66; 0]; mkO 0 522222222 [104; 206]; mkO 0 588888888 [9; 240]].
Proof. exact C06_nonvacuous. Qed.

(* known finding pts-rebase-at-first-sr: a sender report behind media rebases the
   clock; the code's stamping is then not the one-clock specification *)
Theorem C06_pts_rebase_refuted :
  let items := [TData (ISingle 93600 true [65; 1; 2]); TSr 2147483648 0 0; TData (ISingle 97200 true [65; 3; 4])] in
  sr_before_data false items = false /\
  tspec CH264 90000 0 items [true; true; true] = [mkO 0 1540000000 [65; 1; 2]; mkO 0 (-23859349422222) [65; 3; 4]] /\
  tspec_one CH264 90000 items [true; true; true] <> tspec CH264 90000 0 items [true; true; true].
Proof. exact pts_rebase_refuted. Qed.
Print Assumptions C06_pts_rebase_refuted.
