(* Models of the Go string functions ipchub uses, over ASCII byte strings.
   Theorems using them carry the guard [all_ascii]; Go works on runes and a byte
   model does not reproduce its treatment of non-ASCII / invalid UTF-8. Each is
   compared with the real Go function by a correspondence stream (harness
   command "strgo"). *)
From Coq Require Import ZArith List Bool.
From V Require Import Bytes.
Import ListNotations.
Open Scope Z_scope.

Definition is_ascii (b : Z) : bool := (0 <=? b) && (b <? 128).
Definition all_ascii (s : bytes) : bool := forallb is_ascii s.

Definition lower_byte (b : Z) : Z := if (65 <=? b) && (b <=? 90) then b + 32 else b.
Definition to_lower (s : bytes) : bytes := map lower_byte s.

(* unicode.IsSpace restricted to ASCII: \t \n \v \f \r and space *)
Definition is_space (b : Z) : bool := ((9 <=? b) && (b <=? 13)) || (b =? 32).

Fixpoint trim_left (f : Z -> bool) (s : bytes) : bytes :=
  match s with
  | c :: s' => if f c then trim_left f s' else s
  | [] => []
  end.
Definition trim_right (f : Z -> bool) (s : bytes) : bytes := rev (trim_left f (rev s)).
Definition trim_fn (f : Z -> bool) (s : bytes) : bytes := trim_right f (trim_left f s).
Definition trim_space (s : bytes) : bytes := trim_fn is_space s.
(* strings.Trim(s, "/") and friends: cutset given as a predicate *)
Definition trim_byte (c : Z) (s : bytes) : bytes := trim_fn (Z.eqb c) s.

Definition SLASH : Z := 47.
Definition DOT : Z := 46.

(* path.Clean for rooted paths: process '/'-separated elements with a stack *)
Definition clean_step (stack : list bytes) (seg : bytes) : list bytes :=
  match seg with
  | [] => stack
  | [46] => stack
  | [46; 46] => match stack with [] => [] | _ :: st => st end
  | _ => seg :: stack
  end.
Definition clean_segs (segs : list bytes) : list bytes :=
  rev (fold_left clean_step segs []).
Definition clean_rooted (p : bytes) : bytes :=
  SLASH :: join_with SLASH (clean_segs (split_on SLASH p)).

(* utils.canonicalPathOnce: one pass of trim, lower, root, clean, trailing slash.
   Not idempotent by itself: TrimSpace runs before path.Clean, so a blank left
   at the end by resolving ".." ("/a /b/.." -> "/a ") goes only in the next pass. *)
Definition canonical_once (p0 : bytes) : bytes :=
  let p := to_lower (trim_space p0) in
  match p with
  | [] => [SLASH]
  | c :: _ =>
      let p := if Z.eqb c SLASH then p else SLASH :: p in
      let np := clean_rooted p in
      if ends_with SLASH p && negb (bytes_eqb np [SLASH]) then np ++ [SLASH] else np
  end.

(* utils.CanonicalPath: `for { np := canonicalPathOnce(p); if np == p { return np }; p = np }`.
   The fuel is never exhausted (Proofs/CanonProofs.v, canonical_path_fixed): after
   the first pass every pass that changes the path makes it shorter. *)
Fixpoint canon_iter (fuel : nat) (p : bytes) : bytes :=
  match fuel with
  | O => p
  | S f => let np := canonical_once p in
           if bytes_eqb np p then np else canon_iter f np
  end.
Definition canonical_path (p : bytes) : bytes := canon_iter (S (S (length p))) p.
(* proofs elsewhere treat CanonicalPath as a black box: simpl/cbn must not run the loop *)
Global Arguments canonical_path : simpl never.
