(* Byte strings are [list Z] with every element in [0,256).  This file has the
   executable helpers only; lemmas live in Proofs/BytesLemmas.v. *)
From Coq Require Import ZArith List Bool Lia.
Import ListNotations.
Open Scope Z_scope.

Definition byte := Z.
Definition bytes := list Z.

Definition is_byte (b : Z) : bool := (0 <=? b) && (b <? 256).
Definition all_bytes (s : bytes) : bool := forallb is_byte s.

Fixpoint bytes_eqb (a b : bytes) : bool :=
  match a, b with
  | [], [] => true
  | x :: a', y :: b' => Z.eqb x y && bytes_eqb a' b'
  | _, _ => false
  end.

Fixpoint is_prefix (p s : bytes) : bool :=
  match p, s with
  | [], _ => true
  | x :: p', y :: s' => Z.eqb x y && is_prefix p' s'
  | _ :: _, [] => false
  end.

Definition last_byte (s : bytes) : option Z :=
  match rev s with [] => None | x :: _ => Some x end.

Definition ends_with (c : Z) (s : bytes) : bool :=
  match last_byte s with Some x => Z.eqb x c | None => false end.

Definition zlen (s : bytes) : Z := Z.of_nat (length s).

(* checked indexing: every Go a[i] is modelled through these *)
Definition idx (s : bytes) (i : Z) : option Z :=
  if (i <? 0) then None else nth_error s (Z.to_nat i).

(* Go s[i:j]; None = slice bounds out of range (panic) *)
Definition slice (s : bytes) (i j : Z) : option bytes :=
  if (0 <=? i) && (i <=? j) && (j <=? zlen s)
  then Some (firstn (Z.to_nat (j - i)) (skipn (Z.to_nat i) s))
  else None.

Definition take (n : Z) (s : bytes) : bytes := firstn (Z.to_nat n) s.
Definition drop (n : Z) (s : bytes) : bytes := skipn (Z.to_nat n) s.

(* big-endian integers *)
Definition be16 (v : Z) : bytes := [Z.land (Z.shiftr v 8) 255; Z.land v 255].
Definition be24 (v : Z) : bytes :=
  [Z.land (Z.shiftr v 16) 255; Z.land (Z.shiftr v 8) 255; Z.land v 255].
Definition be32 (v : Z) : bytes :=
  [Z.land (Z.shiftr v 24) 255; Z.land (Z.shiftr v 16) 255;
   Z.land (Z.shiftr v 8) 255; Z.land v 255].
Fixpoint be_decode_acc (acc : Z) (s : bytes) : Z :=
  match s with [] => acc | b :: s' => be_decode_acc (acc * 256 + b) s' end.
Definition be_decode (s : bytes) : Z := be_decode_acc 0 s.
Definition be64 (v : Z) : bytes := be32 (Z.shiftr v 32) ++ be32 (Z.land v 4294967295).

Definition repeat_byte (b : Z) (n : Z) : bytes := repeat b (Z.to_nat n).

(* split on a separator byte; always returns at least one piece *)
Fixpoint split_on_acc (sep : Z) (s cur : bytes) : list bytes :=
  match s with
  | [] => [rev cur]
  | c :: s' => if Z.eqb c sep then rev cur :: split_on_acc sep s' []
               else split_on_acc sep s' (c :: cur)
  end.
Definition split_on (sep : Z) (s : bytes) : list bytes := split_on_acc sep s [].

Fixpoint join_with (sep : Z) (l : list bytes) : bytes :=
  match l with
  | [] => []
  | [x] => x
  | x :: l' => x ++ sep :: join_with sep l'
  end.
