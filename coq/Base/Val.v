(* Universal value type used on the wire between the generators, the extracted
   model (OCaml driver) and the Go harness.  Text form, one value per line:
     integer      123  -5
     byte string  x0a0bff      (x alone = empty)
     list         ( v v v )
   All property-specific decoding/encoding is written in Gallina (Run/*.v) so
   that the OCaml driver stays generic. *)
From Coq Require Import ZArith List Bool.
Import ListNotations.
Open Scope Z_scope.

Inductive val : Type :=
| VI (z : Z)
| VB (b : list Z)
| VL (l : list val).

Definition vbool (b : bool) : val := VI (if b then 1 else 0).
Definition vnat (n : nat) : val := VI (Z.of_nat n).
Definition vnone : val := VL [].
Definition vsome (v : val) : val := VL [v].
Definition vopt {A} (f : A -> val) (o : option A) : val :=
  match o with None => vnone | Some a => vsome (f a) end.
Definition vlist {A} (f : A -> val) (l : list A) : val := VL (map f l).
Definition vpair (a b : val) : val := VL [a; b].

Definition as_int (v : val) : Z := match v with VI z => z | _ => 0 end.
Definition as_bool (v : val) : bool := match v with VI 0 => false | VI _ => true | _ => false end.
Definition as_nat (v : val) : nat := Z.to_nat (as_int v).
Definition as_bytes (v : val) : list Z := match v with VB b => b | _ => [] end.
Definition as_list (v : val) : list val := match v with VL l => l | _ => [] end.
Definition nthv (n : nat) (v : val) : val := nth n (as_list v) (VL []).
Definition as_opt {A} (f : val -> A) (v : val) : option A :=
  match v with VL (x :: _) => Some (f x) | _ => None end.

(* structural equality on values (used by oracles) *)
Fixpoint list_eqb {A} (e : A -> A -> bool) (a b : list A) : bool :=
  match a, b with
  | [], [] => true
  | x :: a', y :: b' => e x y && list_eqb e a' b'
  | _, _ => false
  end.

Fixpoint val_eqb (a b : val) {struct a} : bool :=
  match a, b with
  | VI x, VI y => Z.eqb x y
  | VB x, VB y => list_eqb Z.eqb x y
  | VL x, VL y =>
      (fix go (x y : list val) {struct x} : bool :=
         match x, y with
         | [], [] => true
         | u :: x', v :: y' => val_eqb u v && go x' y'
         | _, _ => false
         end) x y
  | _, _ => false
  end.

(* the marker the harness emits when the implementation panicked on a case *)
Definition is_panic (v : val) : bool :=
  match v with
  | VL [VB [33; 112; 97; 110; 105; 99]] => true   (* "!panic" *)
  | VL (VB [33; 112; 97; 110; 105; 99] :: _) => true
  | _ => false
  end.
