(* wire encoding of the C10 fetch/rollover schedules
   case        = ( cfg frames sched )        cfg as in RunC10.v
   frame       = ( kind pts dts payload )
   label       = ( 0 ) writer | ( 1 id seq ) lookup | ( 2 id ) copy
   observation = ( results blocked )
   result      = ( ) still between lookup and copy | ( ( 0 ) ) not found | ( ( 1 segobs ) ) bytes | ( ( 2 ) ) panic | ( ( 3 ) ) error | ( ( 4 ) ) partial
   blocked     = ( 0|1 ... )  the writer waits for the write lock, after every label *)
From Coq Require Import ZArith List Bool.
From V Require Import Val Bytes C10Hls C10HlsLts RunC10.
Import ListNotations.
Open Scope Z_scope.

Definition dec_frame (v : val) : frame :=
  {| f_kind := dec_kind (as_int (nthv 0 v)); f_pts := as_int (nthv 1 v); f_dts := as_int (nthv 2 v);
     f_pay := as_bytes (nthv 3 v) |}.
Definition dec_label (v : val) : label :=
  match as_int (nthv 0 v) with
  | 0 => LW
  | 1 => LLookup (as_int (nthv 1 v)) (as_int (nthv 2 v))
  | _ => LCopy (as_int (nthv 1 v))
  end.

Definition enc_fres (x : fres) : val :=
  match x with
  | FNotFound => VL [VI 0]
  | FBytes fs => VL [VI 1; enc_segobs (obs_of_frames fs)]
  | FPanic => VL [VI 2]
  | FErr => VL [VI 3]
  | FPartial => VL [VI 4]
  end.
(* a segment that is not a well-formed, size-consistent, re-muxable TS is not "the bytes of the frames" *)
Definition dec_fres (v : val) : fres :=
  match as_int (nthv 0 v) with
  | 0 => FNotFound
  | 1 => let g := dec_segobs (nthv 1 v) in if g_ok g then FBytes (g_frames g) else FPartial
  | 2 => FPanic
  | 3 => FErr
  | _ => FPartial
  end.

Definition lcase_cfg (c : val) : cfg := dec_cfg (nthv 0 c).
Definition lcase_frames (c : val) : list frame := map dec_frame (as_list (nthv 1 c)).
Definition lcase_sched (c : val) : list label := map dec_label (as_list (nthv 2 c)).

Definition enc_lobs (p : list (option fres) * list bool) : val :=
  VL [vlist (vopt enc_fres) (fst p); vlist vbool (snd p)].

(* the model of the code as it is (read lock from lookup to copy) *)
Definition x_C10_lts_run (c : val) : val :=
  enc_lobs (lts_model true (lcase_cfg c) (lcase_frames c) (lcase_sched c)).

(* the variant with lookup and copy in separate critical sections (what a narrowed lock would do) *)
Definition x_C10_lts_unlocked (c : val) : val :=
  enc_lobs (lts_model false (lcase_cfg c) (lcase_frames c) (lcase_sched c)).

(* the variant that closes the store after the listing *)
Definition x_C10_lts_late (c : val) : val :=
  let l := lrun_gen true true (lcase_cfg c) (linit (lcase_cfg c) (lcase_frames c)) (lcase_sched c) in
  vlist (vopt enc_fres) (map fr_res (l_recs l)).

(* the oracle of C10_lts_model_passes / C10_fetch_stable_under_rollover on (case, observed) *)
Definition x_C10_lts_ok (v : val) : val :=
  let c := nthv 0 v in let o := nthv 1 v in
  vbool (lts_ok (lcase_cfg c) (lcase_frames c) (lcase_sched c)
           (map (as_opt dec_fres) (as_list (nthv 0 o)))
           (map as_bool (as_list (nthv 1 o)))).
