(* wire wrappers of the stream "multicast-cycles" of checks/c03.py (harness/transports/mcast.go).
   case        = (n events)      n sessions; events = ((0 i) join | (1 i mode) leave: 0 TEARDOWN, 1 dropped
                                 connection | (2) publish one packet | (3) stream ends | (4) the held delivery
                                 goroutine of the previous cycle runs its deferred Close)
   observation = ((cc sock members (ended ..) (received ..)) .. per event) *)
From Coq Require Import ZArith List Bool.
From V Require Import Val C03Mcast.
Import ListNotations.
Open Scope Z_scope.

Definition dec_mev (v : val) : mev :=
  match as_int (nthv 0 v) with
  | 0 => MJoin (as_nat (nthv 1 v))
  | 1 => MLeave (as_nat (nthv 1 v))
  | 2 => MPub
  | 3 => MEnd
  | _ => MExit
  end.
Definition dec_mhist (c : val) : list mev := map dec_mev (as_list (nthv 1 c)).

Definition enc_mobs (o : mobs) : val :=
  VL [VI (ob_cc o); vbool (ob_sock o); VI (ob_nmem o); vlist vbool (ob_ended o); vlist VI (ob_got o)].
Definition dec_mobs (v : val) : mobs :=
  {| ob_cc := as_int (nthv 0 v); ob_sock := as_bool (nthv 1 v); ob_nmem := as_int (nthv 2 v);
     ob_ended := map as_bool (as_list (nthv 3 v)); ob_got := map as_int (as_list (nthv 4 v)) |}.

Definition x_C03_mcast_wf (c : val) : val := vbool (hist_wf (dec_mhist c)).

Definition x_C03_mcast_run (c : val) : val :=
  vlist enc_mobs (mtrace mfixed (as_nat (nthv 0 c)) minit (dec_mhist c)).

(* v = (case observed): the oracle of Properties/C03.v, theorem C03_mcast_model_passes *)
Definition x_C03_mcast_ok (v : val) : val :=
  let c := nthv 0 v in
  vbool (negb (is_panic (nthv 1 v))
         && ok_mcast (as_nat (nthv 0 c)) (dec_mhist c) (map dec_mobs (as_list (nthv 1 v)))).
