(* wire encoding of C16 cases; exported functions are [x_*] : val -> val
   case      ( 0 admin right ( path ... ) )   via auth.User / ValidatePermission
             ( 1 mask ( path ... ) )          via NewPathMatcher(mask).Match
             ( 2 ( save ... ) ( path ... ) )  auth.Save of one name once per save, then auth.Get + ValidatePermission;
                                              two bytes per path: push, pull
   observed  byte string, one byte per path: 1 permitted / 0 refused *)
From Coq Require Import ZArith List Bool.
From V Require Import Val Bytes StrGo C16PathMatch.
Import ListNotations.
Open Scope Z_scope.

(* ( admin password push pull updatePassword ) *)
Definition dec_save (v : val) : save :=
  mkSave (as_bool (nthv 0 v)) (as_bytes (nthv 1 v)) (as_bytes (nthv 2 v)) (as_bytes (nthv 3 v))
         (as_bool (nthv 4 v)).

Definition dec_case (v : val) : c16case :=
  match as_int (nthv 0 v) with
  | 0 => CUser (as_bool (nthv 1 v)) (as_bytes (nthv 2 v)) (map as_bytes (as_list (nthv 3 v)))
  | 1 => CPattern (as_bytes (nthv 1 v)) (map as_bytes (as_list (nthv 2 v)))
  | _ => CHist (map dec_save (as_list (nthv 1 v))) (map as_bytes (as_list (nthv 2 v)))
  end.

Definition enc_bools (l : list bool) : val := VB (enc_answers l).

(* model prediction: the Go mirror *)
Definition x_C16_run (c : val) : val := enc_bools (run_case (dec_case c)).
(* the mirror of the code before the D31 repair (used to show the check separates the two) *)
Definition x_C16_run_prefix (c : val) : val := enc_bools (run_case_prefix (dec_case c)).
(* the documented language itself *)
Definition x_C16_spec (c : val) : val := enc_bools (spec_case (dec_case c)).

(* oracle on (case observed); a panic/crash marker is not a byte string of the right length -> 0 *)
Definition x_C16_ok (v : val) : val :=
  let c := dec_case (nthv 0 v) in
  match nthv 1 v with
  | VB obs => vbool (ok_case c obs)
  | _ => vbool false
  end.

(* signature helper for the check: 1 when the right / mask of the case has a blank-edged pattern segment *)
Definition x_C16_blank (c : val) : val :=
  match dec_case c with
  | CUser admin rt _ => vbool (right_blank_edges (spec_right admin rt))
  | CPattern mask _ => vbool (item_blank_edges mask)
  | CHist _ _ => vbool false
  end.
