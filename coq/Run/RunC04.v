From V Require Import Val LtsWire LtsOracle C04RawPkt C04Oracle.
(* packets may be given by kind or by channel + RTP payload bytes (Model/C04RawPkt.v): the kind of
   the latter is the classification of Model/C02Classify.v *)
Definition x_C04_lts (v : val) : val := lts_run (norm_case v).
(* v = (case observed): the oracle of Properties/C04.v, theorem C04_model_passes_on_the_wire_raw *)
Definition x_C04_ok (v : val) : val :=
  vbool (ok_C04x (dec_lcase (norm_case (nthv 0 v))) (dec_obs (nthv 1 v))).

(* the conversion chain (Model/C04Chain.v): prediction = (RTP side, FLV side); oracle [chain_ok] of
   Properties/C04.v, theorem C04_chain_model_passes *)
From V Require Import C04Chain.
Definition x_C04_chain (v : val) : val := chain_run v.
Definition x_C04_chain_ok (v : val) : val := vbool (chain_ok (nthv 0 v) (nthv 1 v)).

(* consumer faults in both callbacks (Model/C04Faults.v): field 14 of the case = what Consumer.Close does
   per consumer; oracle [ok_faults], theorem C04_faults_model_passes_on_the_wire *)
From V Require Import C04Faults.
Definition x_C04_faults (v : val) : val := faults_run v.
Definition x_C04_faults_ok (v : val) : val := vbool (ok_faults (dec_lcase (nthv 0 v)) (dec_obs (nthv 1 v))).
