From V Require Import Val LtsWire LtsOracle.
Definition x_C04_lts (v : val) : val := lts_run v.
(* v = (case observed): the oracle of Properties/C04.v, theorem C04_model_passes *)
Definition x_C04_ok (v : val) : val := vbool (ok_C04 (dec_lcase (nthv 0 v)) (dec_obs (nthv 1 v))).
