From V Require Import Val LtsWire.
Definition x_C04_lts (v : val) : val := lts_run v.
