(* wire encoding of C06 cases; exported functions are [x_*] : val -> val.
   plan case   = (codec clock cc seq0 items sel)
     codec     0 H.264 | 1 H.265 | 2 AAC
     item      (0 ts mk unit) | (1 ts mk (unit ...)) | (2 ts mk unit (size ...)) | (3 rtptime ntp_msw ntp_lsw)
     sel       (0 (bit ...)) loss mask | (1 (index ...)) rearrangement
   stream case = (plan-case (wire-frame ...)) : the second component is x_C06_gen of the first;
   the Go harness reads only the wire frames, the model and the oracle only the plan. *)
From Coq Require Import ZArith List Bool.
From V Require Import Val Bytes C06Rtp C06NalDepack C06H264Depack C06H265Depack C06AacDepack C06SyncClock C06Demux.
Import ListNotations.
Open Scope Z_scope.

Definition dec_cd (v : val) : cd :=
  match as_int v with 0 => CH264 | 1 => CH265 | _ => CAAC end.

Definition dec_titem (v : val) : titem :=
  let ts := as_int (nthv 1 v) in
  let mk := as_bool (nthv 2 v) in
  match as_int (nthv 0 v) with
  | 0 => TData (ISingle ts mk (as_bytes (nthv 3 v)))
  | 1 => TData (IAgg ts mk (map as_bytes (as_list (nthv 3 v))))
  | 2 => TData (IFrag ts mk (as_bytes (nthv 3 v)) (map as_int (as_list (nthv 4 v))))
  | _ => TSr (as_int (nthv 1 v)) (as_int (nthv 2 v)) (as_int (nthv 3 v))
  end.

Record c06case := mkCase {
  k_cd : cd; k_clock : Z; k_cc : Z; k_seq0 : Z; k_items : list titem;
  k_mode : Z; k_mask : list bool; k_ix : list nat }.

Definition dec_case (v : val) : c06case :=
  let sel := nthv 5 v in
  {| k_cd := dec_cd (nthv 0 v); k_clock := as_int (nthv 1 v); k_cc := as_int (nthv 2 v);
     k_seq0 := as_int (nthv 3 v); k_items := map dec_titem (as_list (nthv 4 v));
     k_mode := as_int (nthv 0 sel);
     k_mask := map as_bool (as_list (nthv 1 sel));
     k_ix := map as_nat (as_list (nthv 1 sel)) |}.

Definition case_events (k : c06case) : list ev :=
  let es := tevents (k_cd k) (k_seq0 k) 0 (k_items k) in
  if k_mode k =? 0 then select (k_mask k) es else pick (k_ix k) es.

(* the bytes the implementation is fed: produced by the packetisers of the theorems *)
Definition x_C06_gen (v : val) : val :=
  let k := dec_case v in
  VL (map (fun e => VB (ev_wire (k_cd k) (k_cc k) e)) (case_events k)).

Definition enc_oframe (o : oframe) : val := VL [VI (o_mt o); VI (o_pts o); VB (o_pl o)].
Definition DEAD : val := VB [33; 100; 101; 97; 100].     (* "!dead" *)
Definition enc_out (fs : list oframe) (dead : bool) : val :=
  VL (map enc_oframe fs ++ (if dead then [DEAD] else [])).

Definition is_frame (v : val) : bool := match v with VL _ => true | _ => false end.
Definition dec_oframe (v : val) : oframe :=
  mkO (as_int (nthv 0 v)) (as_int (nthv 1 v)) (as_bytes (nthv 2 v)).
Definition dec_obs (v : val) : list oframe * bool :=
  let l := as_list v in
  (map dec_oframe (filter is_frame l), negb (forallb is_frame l) || is_panic v).

Definition run_case (k : c06case) : list oframe * bool :=
  let '(_, fs, pn) := drun (k_cd k) (k_clock k) dst_init (case_events k) in (fs, pn).

(* model prediction *)
Definition x_C06_run (v : val) : val :=
  let '(fs, pn) := run_case (dec_case (nthv 0 v)) in enc_out fs pn.

(* oracle on ((plan wire) observed) *)
Definition ok_case (k : c06case) (obs : list oframe) (dead : bool) : bool :=
  if k_mode k =? 0
  then ok_loss (k_cd k) (k_clock k) (k_items k) (k_mask k) obs dead
  else ok_pick (k_cd k) (k_clock k) (k_items k) obs dead.

Definition x_C06_ok (v : val) : val :=
  let k := dec_case (nthv 0 (nthv 0 v)) in
  let '(obs, dead) := dec_obs (nthv 1 v) in
  vbool (ok_case k obs dead).

(* is the plan inside the theorem's guard?  (used by the check to label cases) *)
Definition case_guard (k : c06case) : bool :=
  if k_mode k =? 0 then case_wf (k_cd k) (k_clock k) (k_seq0 k) (k_items k) (k_mask k)
  else forallb (titem_ok (k_cd k)) (k_items k) && (total_dpk (k_cd k) (k_items k) <=? 65536).
Definition x_C06_wf (v : val) : val := vbool (case_guard (dec_case v)).
