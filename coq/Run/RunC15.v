(* wire encoding of C15 cases (H.264 part and shared helpers) *)
From Coq Require Import ZArith List Bool.
From V Require Import Val Bytes C15BitFmt C15Ebsp C15H264 C15Pure.
Import ListNotations.
Open Scope Z_scope.

(* a syntax record: list of (key value) *)
Definition dec_env (v : val) : env :=
  fold_left (fun a kv => set a (as_int (nthv 0 kv)) (as_int (nthv 1 kv))) (as_list v) env0.

Definition enc_vobs (o : vobs) : val :=
  match o with
  | None => VL [VI 0]
  | Some (w, h, f, x) => VL [VI 1; VI w; VI h; VI f; vbool x]
  end.
Definition dec_vobs (v : val) : vobs :=
  match as_int (nthv 0 v) with
  | 1 => Some (as_int (nthv 1 v), as_int (nthv 2 v), as_int (nthv 3 v), as_bool (nthv 4 v))
  | _ => None
  end.
(* the implementation answered with an error or a result (not a panic / crash / hang marker) *)
Definition obs_wellformed (v : val) : bool :=
  match v with
  | VL [VI 0] => true
  | VL [VI 1; VI _; VI _; VI _; VI _] => true
  | _ => false
  end.

(* the purity observation on the wire: (first result, backing array after both calls, second result) *)
Definition enc_twice {O : Type} (enc : O -> val) (t : O * list Z * O) : val :=
  let '(o1, buf, o2) := t in VL [enc o1; VB buf; enc o2].
Definition dec_twice {O : Type} (dec : val -> O) (v : val) : O * list Z * O :=
  (dec (nthv 0 v), as_bytes (nthv 1 v), dec (nthv 2 v)).
Definition both_wf (wf : val -> bool) (v : val) : bool := wf (nthv 0 v) && wf (nthv 2 v).

(* record -> NAL unit bytes produced by the encoder of the theorem; () when not well-ranged *)
Definition x_C15_h264_emit (c : val) : val :=
  match emit std_h264_sps (dec_env c) env0 with
  | Some (b, a) => if h264_ranges a then VL [VB (nal_of_bits b)] else VL []
  | None => VL []
  end.
(* case = (record nal) *)
Definition x_C15_h264_run (c : val) : val := enc_twice enc_vobs (twice go_h264_obs (as_bytes (nthv 1 c))).
Definition x_C15_h264_ok (v : val) : val :=
  let c := nthv 0 v in let o := nthv 1 v in
  let nal := as_bytes (nthv 1 c) in
  vbool (both_wf obs_wellformed o &&
         pure_ok vobs_eqb (ok_h264 (dec_env (nthv 0 c)) nal) nal (dec_twice dec_vobs o)).
(* arbitrary bytes: an error or a result, twice the same, buffer untouched *)
Definition x_C15_h264_bytes (c : val) : val := enc_twice enc_vobs (twice go_h264_obs (as_bytes c)).
Definition x_C15_total_ok (v : val) : val :=
  let o := nthv 1 v in
  vbool (both_wf obs_wellformed o &&
         pure_ok vobs_eqb (fun _ => true) (as_bytes (nthv 0 v)) (dec_twice dec_vobs o)).
(* the SDP glue keeps the single observation *)
(* observation = (what Stream.Video reports, the stored Sps); the stored set is the bytes sent
   minus an Annex-B start code (utils.RemoveNaluSeparator in av/format/sdp) *)
Definition x_C15_glue_ok (v : val) : val :=
  let c := nthv 0 v in let o := nthv 1 v in
  vbool (obs_wellformed (nthv 0 o) && zlist_eqb (as_bytes (nthv 1 o)) (remove_separator (as_bytes (nthv 1 c))) &&
         ok_h264 (dec_env (nthv 0 c)) (as_bytes (nthv 1 c)) (dec_vobs (nthv 0 o))).
Definition x_C15_glue_total_ok (v : val) : val :=
  let o := nthv 1 v in
  vbool (obs_wellformed (nthv 0 o) && zlist_eqb (as_bytes (nthv 1 o)) (remove_separator (as_bytes (nthv 0 v)))).
(* the decoder before the repairs, for the replayed witnesses *)
Definition x_C15_h264_prefix (c : val) : val :=
  enc_vobs (vobs_of (go_h264_decode_with read_se_d27 go_width_d28 go_height_d28 (as_bytes c))).
(* direct streams for the shared pieces *)
Definition x_C15_unescape (c : val) : val := VB (unescape_go (as_bytes c)).
Definition x_C15_f64div (c : val) : val := VI (fps_bits (as_int (nthv 0 c), as_int (nthv 1 c))).
(* bit reader: case = (bytes ops); op 0 n = Read(n) (max 32), 1 = ReadUe, 2 = ReadSe, 3 n = Skip(n);
   answer: list of values, truncated with () at the first out-of-range read *)
Fixpoint reader_run (ops : list val) (bs : bits) : list val :=
  match ops with
  | [] => []
  | op :: r =>
    let res :=
      match as_int (nthv 0 op) with
      | 0 => go_read (as_int (nthv 1 op)) 32 bs
      | 1 => read_ue bs
      | 2 => read_se bs
      | _ => match go_skip (as_int (nthv 1 op)) bs with Some b' => Some (0, b') | None => None end
      end in
    match res with
    | Some (v, bs') => VI v :: reader_run r bs'
    | None => [VL []]
    end
  end.
Definition x_C15_reader (c : val) : val :=
  VL (reader_run (as_list (nthv 1 c)) (bytes_to_bits (as_bytes (nthv 0 c)))).
