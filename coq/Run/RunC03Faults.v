(* wire wrappers of the stream "adapter-faults" of checks/c03.py (harness/transports/faults.go).
   case        = (background attempts)   background = (kind ..) viewers attached for the whole case;
                                         attempts = ((kind nreq point) ..): a viewer of that transport whose
                                         point-th fallible step fails (nreq = handshake requests of the transport)
   observation = ((rtsp flv wsp consumers) ..)  after every attempt, and after the end of the stream;
                                         counters relative to their values before the case *)
From Coq Require Import ZArith List Bool.
From V Require Import Val C03Adapter.
Import ListNotations.
Open Scope Z_scope.

Definition dec_attempt (v : val) : Z * nat * nat := (as_int (nthv 0 v), as_nat (nthv 1 v), as_nat (nthv 2 v)).
Definition dec_fbg (c : val) : list Z := map as_int (as_list (nthv 0 c)).
Definition dec_fattempts (c : val) : list (Z * nat * nat) := map dec_attempt (as_list (nthv 1 c)).

Definition enc_fobs (o : fobs) : val :=
  let '(a, b, c, d) := o in VL [VI a; VI b; VI c; VI d].
Definition dec_fobs (v : val) : fobs :=
  (as_int (nthv 0 v), as_int (nthv 1 v), as_int (nthv 2 v), as_int (nthv 3 v)).

Definition x_C03_faults_run (c : val) : val :=
  vlist enc_fobs (faults_run prog_of (dec_fbg c) (dec_fattempts c)).

(* v = (case observed): the oracle of Properties/C03.v, theorem C03_faults_model_passes *)
Definition x_C03_faults_ok (v : val) : val :=
  let c := nthv 0 v in
  vbool (negb (is_panic (nthv 1 v))
         && ok_faults (dec_fbg c) (dec_fattempts c) (map dec_fobs (as_list (nthv 1 v)))).
