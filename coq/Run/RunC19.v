(* wire encoding of the C19 cases; exported functions are [x_*] : val -> val *)
From Coq Require Import ZArith List Bool.
From V Require Import Val Bytes C19PTree C19Sniffer C19Mux C19Conc C19Framed.
Import ListNotations.
Open Scope Z_scope.

Definition dec_strs (v : val) : list bytes := map as_bytes (as_list v).
Definition dec_sizes (v : val) : list nat := map as_nat (as_list v).
Definition dec_item (v : val) : item := {| it_data := as_bytes (nthv 0 v); it_err := as_int (nthv 1 v) |}.
Definition dec_script (v : val) : script := map dec_item (as_list v).

(* ---- tree dump, children sorted by key (Go's map has no order) *)
Fixpoint ins_kv (k : Z) (v : val) (l : list (Z * val)) : list (Z * val) :=
  match l with
  | [] => [(k, v)]
  | (k', v') :: r => if k <=? k' then (k, v) :: l else (k', v') :: ins_kv k v r
  end.
Definition sort_kv (l : list (Z * val)) : list (Z * val) :=
  fold_right (fun kv acc => ins_kv (fst kv) (snd kv) acc) [] l.

Fixpoint dump (n : ptnode) : val :=
  match n with
  | PT p t nx =>
      VL [VB p; vbool t;
          VL (map (fun kv => VL [VI (fst kv); snd kv])
                  (sort_kv ((fix go (l : list (Z * ptnode)) : list (Z * val) :=
                               match l with
                               | [] => []
                               | (k, c) :: r => (k, dump c) :: go r
                               end) nx)))]
  end.

Definition enc_bb (r : bool * bool) : val := VL [vbool (fst r); vbool (snd r)].
Definition dec_bb (v : val) : bool * bool := (as_bool (nthv 0 v), as_bool (nthv 1 v)).

(* case = (strs inputs) ; observation = (dump maxDepth ((prefix exact) ...)) *)
Definition x_C19_ptree_run (c : val) : val :=
  let strs := dec_strs (nthv 0 c) in
  VL [dump (new_tree strs); vnat (max_depth strs);
      vlist enc_bb (run_ptree strs (map as_bytes (as_list (nthv 1 c))))].

Definition x_C19_ptree_ok (v : val) : val :=
  let c := nthv 0 v in let obs := nthv 1 v in
  vbool (ok_ptree (dec_strs (nthv 0 c)) (map as_bytes (as_list (nthv 1 c)))
                  (map dec_bb (as_list (nthv 2 obs)))).

(* ---- sniffer *)
Definition enc_rres (r : rres) : val :=
  match r with ROk d e => VL [VB d; VI e] | RPanic => VL [] end.
Definition dec_rres (v : val) : rres :=
  match as_list v with [VB d; VI e] => ROk d e | _ => RPanic end.
Definition enc_sres (r : sres) : val :=
  match r with SOk d e rem => VL [VB d; VI e; vnat rem] | SPanic => VL [] end.
Definition dec_sres (v : val) : sres :=
  match as_list v with [VB d; VI e; VI rem] => SOk d e (Z.to_nat rem) | _ => SPanic end.

(* case = (script sessions svc); observation = (((d e)...)...) rem0 ((d e rem)...)) *)
Definition x_C19_sniff_run (c : val) : val :=
  let '(ms, rem0, rs, _) :=
    sniff_run true (dec_script (nthv 0 c)) (map dec_sizes (as_list (nthv 1 c))) (dec_sizes (nthv 2 c)) in
  VL [vlist (vlist enc_rres) ms; vnat rem0; vlist enc_sres rs].

Definition x_C19_sniff_ok (v : val) : val :=
  let c := nthv 0 v in let obs := nthv 1 v in
  vbool (ok_sniff (dec_script (nthv 0 c)) (map dec_sizes (as_list (nthv 1 c))) (dec_sizes (nthv 2 c))
                  (map (fun m => map dec_rres (as_list m)) (as_list (nthv 0 obs)))
                  (as_nat (nthv 1 obs))
                  (map dec_sres (as_list (nthv 2 obs)))).

(* the original lastErr handling, for replaying the repaired defect *)
Definition x_C19_sniff_run_prefix (c : val) : val :=
  let '(ms, rem0, rs, _) :=
    sniff_run false (dec_script (nthv 0 c)) (map dec_sizes (as_list (nthv 1 c))) (dec_sizes (nthv 2 c)) in
  VL [vlist (vlist enc_rres) ms; vnat rem0; vlist enc_sres rs].

(* ---- Listener.serve; tables = 0 means the production registration *)
Definition dec_tables (v : val) : list (list bytes) :=
  match v with
  | VI _ => prod_tables
  | _ => map dec_strs (as_list v)
  end.
Definition enc_dec (d : decision) : val :=
  match d with DSvc i => vnat i | DNone => VI (-1) | DPanic => VI (-2) | DFuel => VI (-3) end.
Definition dec_dec (v : val) : decision :=
  match v with
  | VI z => if 0 <=? z then DSvc (Z.to_nat z) else if z =? -1 then DNone else DPanic
  | _ => DPanic
  end.

(* case = (tables script svc); observation = (decision closed handed rem0 ((d e rem)...)) *)
Definition x_C19_serve_run (c : val) : val :=
  let '(d, rem0, rs) := mux_run true (dec_tables (nthv 0 c)) (dec_script (nthv 1 c)) (dec_sizes (nthv 2 c)) in
  VL [enc_dec d; vbool (dec_closed d); vnat (dec_handed d); vnat rem0; vlist enc_sres rs].

Definition x_C19_serve_ok (v : val) : val :=
  let c := nthv 0 v in let obs := nthv 1 v in
  vbool (ok_serve (dec_tables (nthv 0 c)) (dec_script (nthv 1 c)) (dec_sizes (nthv 2 c))
                  (dec_dec (nthv 0 obs)) (as_bool (nthv 1 obs)) (as_nat (nthv 2 obs)) (as_nat (nthv 3 obs))
                  (map dec_sres (as_list (nthv 4 obs)))).

(* ---- real loopback: case = (timeoutMs head fillLen fillSeed splits gapUs rsize silent);
   observation = (decision handed nrecv equal) *)
Definition x_C19_loop_run (c : val) : val :=
  let '(d, handed, nrecv, eq) := loop_run (as_bytes (nthv 1 c)) (as_int (nthv 2 c)) (as_bool (nthv 7 c)) in
  VL [enc_dec d; vnat handed; VI nrecv; vbool eq].
Definition x_C19_loop_ok (v : val) : val :=
  let c := nthv 0 v in let obs := nthv 1 v in
  vbool (loop_wf (as_bytes (nthv 1 c)) (as_int (nthv 2 c)) &&
         ok_loop (as_bytes (nthv 1 c)) (as_int (nthv 2 c)) (as_bool (nthv 7 c))
                 (dec_dec (nthv 0 obs)) (as_nat (nthv 1 obs)) (as_int (nthv 2 obs)) (as_bool (nthv 3 obs))).

(* ---- several connections classified at the same time.
   case = (tables ((script svc) ...) schedule); the schedule only drives the
   implementation (which fragment is released when): by C19_connections_independent
   the prediction for each connection is Listener.serve on it alone.
   observation = ((decision closed handed rem0 ((d e rem)...)) ...) *)
Definition dec_conns (v : val) : list (script * list nat) :=
  map (fun c => (dec_script (nthv 0 c), dec_sizes (nthv 1 c))) (as_list v).
Definition enc_cobs (o : decision * bool * nat * nat * list sres) : val :=
  let '(d, closed, handed, rem0, rs) := o in
  VL [enc_dec d; vbool closed; vnat handed; vnat rem0; vlist enc_sres rs].
Definition dec_cobs (v : val) : decision * bool * nat * nat * list sres :=
  (dec_dec (nthv 0 v), as_bool (nthv 1 v), as_nat (nthv 2 v), as_nat (nthv 3 v), map dec_sres (as_list (nthv 4 v))).
Definition x_C19_conc_run (c : val) : val :=
  vlist enc_cobs (conc_run (dec_tables (nthv 0 c)) (dec_conns (nthv 1 c))).
Definition x_C19_conc_ok (v : val) : val :=
  let c := nthv 0 v in let obs := nthv 1 v in
  vbool (ok_conc (dec_tables (nthv 0 c)) (dec_conns (nthv 1 c)) (map dec_cobs (as_list obs))).

(* concurrent real loopback connections: case = ((payload split) ...) schedule);
   observation = ((decision handed nrecv equal) ...); each connection is judged like a
   "loop" case on its own payload *)
Definition x_C19_cloop_run (c : val) : val :=
  vlist (fun k => let '(d, handed, nrecv, eq) := loop_run (as_bytes (nthv 0 k)) 0 false in
                  VL [enc_dec d; vnat handed; VI nrecv; vbool eq]) (as_list (nthv 0 c)).
Definition x_C19_cloop_ok (v : val) : val :=
  let c := nthv 0 v in let obs := nthv 1 v in
  vbool (Nat.eqb (length (as_list (nthv 0 c))) (length (as_list obs)) &&
         forallb (fun ko => ok_loop (as_bytes (nthv 0 (fst ko))) 0 false
                                    (dec_dec (nthv 0 (snd ko))) (as_nat (nthv 1 (snd ko)))
                                    (as_int (nthv 2 (snd ko))) (as_bool (nthv 3 (snd ko))))
                 (combine (as_list (nthv 0 c)) (as_list obs))).

(* ---- what the service-side reader makes of the connection.
   case = (script) (scripted conn) or (stream cutsets pause) (real TCP, every cutset its
   own connection); observation per connection = (decision ((method body) ...) code) *)
Definition enc_view (v : bytes * bytes) : val := VL [VB (fst v); VB (snd v)].
Definition dec_view (v : val) : bytes * bytes := (as_bytes (nthv 0 v), as_bytes (nthv 1 v)).
Definition enc_mobs (o : decision * list (bytes * bytes) * Z) : val :=
  let '(d, views, code) := o in VL [enc_dec d; vlist enc_view views; VI code].
Definition ok_mobs (sc : script) (o : val) : bool :=
  errfree sc &&
  ok_msgs_case clen_simple prod_tables sc (dec_dec (nthv 0 o)) (map dec_view (as_list (nthv 1 o))) (as_int (nthv 2 o)).

Definition x_C19_msgs_run (c : val) : val := enc_mobs (msgs_run clen_simple prod_tables (dec_script (nthv 0 c))).
Definition x_C19_msgs_ok (v : val) : val := vbool (ok_mobs (dec_script (nthv 0 (nthv 0 v))) (nthv 1 v)).

(* real TCP: the model's answer does not depend on the cuts (C19_service_reads_are_segmentation_independent),
   so it is computed once on the unsegmented stream and repeated *)
Definition one_item (st : bytes) : script := [{| it_data := st; it_err := 0 |}].
Definition x_C19_lmsgs_run (c : val) : val :=
  let o := enc_mobs (msgs_run clen_simple prod_tables (one_item (as_bytes (nthv 0 c)))) in
  VL (map (fun _ => o) (as_list (nthv 1 c))).
Definition x_C19_lmsgs_ok (v : val) : val :=
  let c := nthv 0 v in let obs := as_list (nthv 1 v) in
  vbool (Nat.eqb (length obs) (length (as_list (nthv 1 c))) &&
         forallb (ok_mobs (one_item (as_bytes (nthv 0 c)))) obs).
