(* C03 through the registry: histories of registry operations (the C05 model and wire format) with
   the per-stream end vector (live, consumers ever attached, Consumer.Close calls); the oracle
   demands that the Close calls of every stream are [released] of the specification's end state. *)
From Coq Require Import ZArith List Bool.
From V Require Import Val Bytes StrGo Registry RunC05.
Import ListNotations.
Open Scope Z_scope.

(* case = (variant ops); the model run is C05's *)
Definition x_C03_reg_run (c : val) : val := x_C05_run c.

(* v = (case observed) *)
Definition x_C03_reg_ok (v : val) : val :=
  let c := nthv 0 v in
  vbool (ok_reg_end_C03 (c05_ops c) (dec_end (last (as_list (nthv 1 v)) (VL [])))).

Definition x_C03_reg_wf (c : val) : val := x_C05_wf c.
