(* wire wrappers of the stream "converter-goroutines" of checks/c03.py (harness/c03worker).
   case        = (k push items hsched)   k: 1 rtp demuxer, 2 flv muxer, 3 ts muxer (the model is the
                                         same for the three); push: 1 = repaired Close;
                                         hsched: 0 worker, 1 closer, 2 producer
   observation = (pc (out ..) kpc todo)  pc: 1 worker.pop, 2 worker.got, 3 blocked in Wait, 5 ended *)
From Coq Require Import ZArith List Bool.
From V Require Import Val C03Worker.
Import ListNotations.
Open Scope Z_scope.

Definition dec_wtid (v : val) : wtid :=
  match as_int v with 0 => TW | 1 => TK | _ => TP end.

Definition dec_witems (c : val) : list Z := map as_int (as_list (nthv 2 c)).
Definition dec_whs (c : val) : list wtid := map dec_wtid (as_list (nthv 3 c)).

Definition enc_wobs (o : wobs) : val :=
  VL [VI (o_pc o); vlist VI (o_out o); VI (o_kpc o); vnat (o_todo o)].
Definition dec_wobs (v : val) : wobs :=
  {| o_pc := as_int (nthv 0 v); o_out := map as_int (as_list (nthv 1 v));
     o_kpc := as_int (nthv 2 v); o_todo := as_nat (nthv 3 v) |}.

Definition x_C03_worker_run (c : val) : val :=
  enc_wobs (wobserve (hrun (as_bool (nthv 1 c)) (dec_whs c) (dec_witems c))).

(* v = (case observed): the oracle of Properties/C03.v, theorem C03_worker_model_passes *)
Definition x_C03_worker_ok (v : val) : val :=
  vbool (negb (is_panic (nthv 1 v)) && ok_worker (dec_witems (nthv 0 v)) (dec_wobs (nthv 1 v))).

(* the real stream: case (mode npkts order), observation ((before ..) (during ..) (after ..)) = the
   conversion goroutines alive in the process (rtp demuxer, flv muxer, ts muxer) before NewStream,
   while the stream is open, and after Stream.Close() has returned and everything has settled:
   none of that stream remains *)
Definition x_C03_conv_e2e_ok (v : val) : val :=
  let o := nthv 1 v in
  vbool (negb (is_panic o) && Nat.eqb (length (as_list (nthv 2 o))) 3 && val_eqb (nthv 0 o) (nthv 2 o)).
