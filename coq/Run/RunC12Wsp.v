(* wire encoding of the C12 WSP cases; exported functions are [x_*] : val -> val
   case = ( wspath ( (path sdpid 0) .. ) ( watchpath .. ) ( wrequest .. ) )
   wrequest = ( cmd seq meth cseq url transport )
       cmd: 0 INIT, 1 GET_INFO, 2 SWITCH, 3 WRAP, 4 JOIN on the control channel,
            5 JOIN on a new data channel with this session's channel id, 6 ... with a foreign id
   observation = ( ( step .. ) finalreg )
   step = ( ( (wspcode seq hasrtsp class cseq sess) .. ) eof ( (kind consumers) .. ) media ) *)
From Coq Require Import ZArith List Bool.
From V Require Import Val Bytes StrGo C12RtspSession C12Wsp RunC12.
Import ListNotations.
Open Scope Z_scope.

Definition wdec_meth (z : Z) : wmeth :=
  match z with
  | 0 => WmOptions | 1 => WmDescribe | 3 => WmSetup | 4 => WmPlay | 5 => WmRecord
  | 6 => WmTeardown | 7 => WmPause | k => WmOther k
  end.

Definition wdec_req (v : val) : wrequest :=
  let q := {| wq_meth := wdec_meth (as_int (nthv 2 v)); wq_cseq := as_bytes (nthv 3 v);
              wq_url := as_bytes (nthv 4 v); wq_transport := as_bytes (nthv 5 v) |} in
  {| rq_seq := as_bytes (nthv 1 v);
     rq_cmd := match as_int (nthv 0 v) with
               | 0 => CInit | 1 => CGetInfo | 2 => CSwitch | 3 => CWrap q | 4 => CCtlJoin
               | 5 => CDataJoin true | _ => CDataJoin false
               end |}.

Definition c12w_env (c : val) : env :=
  {| e_sdp := sdp_table; e_live := lookup_live (as_list (nthv 1 c)) |}.
Definition c12w_ext (c : val) : list bytes := map (fun x => as_bytes (nthv 0 x)) (as_list (nthv 1 c)).
Definition c12w_watch (c : val) : list bytes := map as_bytes (as_list (nthv 2 c)).
Definition c12w_reqs (c : val) : list wrequest := map wdec_req (as_list (nthv 3 c)).
Definition c12w_sess0 (c : val) : wsess := winit_sess (as_bytes (nthv 0 c)).

Definition wenc_resp (r : wresponse) : val :=
  match wp_rtsp r with
  | None => VL [VI (wp_code r); VB (wp_seq r); VI 0; VI 0; VB []; VI 0]
  | Some rr => VL [VI (wp_code r); VB (wp_seq r); VI 1; VI (code_class (rs_code rr)); VB (rs_cseq rr);
                   vbool (rs_sess rr)]
  end.
Definition wenc_step (o : wobs_step) : val :=
  VL [vlist wenc_resp (wo_resps o); vbool (wo_eof o); enc_reg (wo_reg o); vbool (wo_media o)].
Definition wenc_obs (o : list wobs_step * list (Z * Z)) : val :=
  VL [vlist wenc_step (fst o); enc_reg (snd o)].

(* RTSP status codes travel as classes; a class is its own representative code *)
Definition wdec_resp (v : val) : wresponse :=
  {| wp_code := as_int (nthv 0 v); wp_seq := as_bytes (nthv 1 v);
     wp_rtsp := if as_bool (nthv 2 v)
                then Some {| rs_code := match as_int (nthv 3 v) with
                                        | 2 => 200 | 455 => 455 | 4 => 400 | 5 => 500 | _ => 0 end;
                             rs_cseq := as_bytes (nthv 4 v); rs_sess := as_bool (nthv 5 v) |}
                else None |}.
Definition wdec_step (v : val) : wobs_step :=
  {| wo_resps := map wdec_resp (as_list (nthv 0 v)); wo_eof := as_bool (nthv 1 v);
     wo_reg := dec_reg (nthv 2 v); wo_media := as_bool (nthv 3 v) |}.

(* model prediction (repaired behaviour) *)
Definition x_C12_wsp_run (c : val) : val :=
  wenc_obs (wrun_case true (c12w_env c) (c12w_watch c) (c12w_ext c) (c12w_sess0 c) (c12w_reqs c)).
(* the status table before the fix: commit (PAUSE answered 200 in the initial state) *)
Definition x_C12_wsp_run_orig (c : val) : val :=
  wenc_obs (wrun_case false (c12w_env c) (c12w_watch c) (c12w_ext c) (c12w_sess0 c) (c12w_reqs c)).

(* oracle on (case observed): the specification monitor *)
Definition x_C12_wsp_ok (v : val) : val :=
  let c := nthv 0 v in let obs := nthv 1 v in
  vbool (c12w_ok (registry (c12w_ext c) HNone (c12w_watch c)) (c12w_reqs c)
                 (map wdec_step (as_list (nthv 0 obs)), dec_reg (nthv 1 obs))).

(* the interleaved channel ParseTransport leaves for a track: (ch0 text) -> channel *)
Definition x_C12_wsp_channel (c : val) : val :=
  VI (parse_channel (as_int (nthv 0 c)) (as_bytes (nthv 1 c))).
